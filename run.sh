#!/bin/bash
# Entry point for every check: selects the tool chain, builds the analyser if needed, runs it.
#   ./run.sh --setup              build /verif/bin/scalint and warm the go build cache for /repo
#   ./run.sh Cxx quick|thorough   run the check for one property (rewrites evidence/Cxx.json)
#   ./run.sh --replay <file>      re-run the rule instance recorded in a replay file
cd "$(dirname "$0")"
TC=/root/go/pkg/mod/golang.org/toolchain@v0.0.1-go1.24.0.linux-amd64/bin
if [ -x "$TC/go" ]; then
  export PATH="$TC:$PATH"
elif command -v go1.26.8 >/dev/null 2>&1; then
  mkdir -p /verif/bin/tc && ln -sf "$(command -v go1.26.8)" /verif/bin/tc/go && export PATH="/verif/bin/tc:$PATH"
fi
export GOTOOLCHAIN=local GOFLAGS=-mod=mod GOPROXY=off
unset GOWORK GOSUMDB
build() {
  mkdir -p bin
  (cd checker && go build -o ../bin/scalint . ) || { echo "ERROR: cannot build the analyser"; exit 2; }
}
needs_build() {
  [ ! -x bin/scalint ] && return 0
  [ -n "$(find checker -name '*.go' -newer bin/scalint -print -quit)" ] && return 0
  [ checker/go.mod -nt bin/scalint ] && return 0
  return 1
}
case "$1" in
  --setup)
    build
    # warm the build cache: export data of every dependency of /repo for the three GOOS configurations
    (cd /repo && go build ./... ) || echo "warning: go build ./... failed in /repo"
    (cd /repo && GOOS=windows CGO_ENABLED=0 go build ./... >/dev/null 2>&1; GOOS=darwin CGO_ENABLED=0 go build ./... >/dev/null 2>&1; true)
    mkdir -p evidence/replay
    exit 0 ;;
  --replay)
    needs_build && build
    exec bin/scalint -replay "$2" ;;
  --selftest)
    needs_build && build
    shift
    exec bin/scalint -selftest "$@" ;;
  C[0-9]*)
    needs_build && build
    tier="${2:-${VERIF_TIER:-quick}}"
    exec bin/scalint -prop "$1" -tier "$tier" ;;
  *)
    echo "usage: $0 --setup | Cxx quick|thorough | --replay file"; exit 2 ;;
esac
