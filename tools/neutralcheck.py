#!/usr/bin/env python3
"""Run the checks on the behaviour-preserving refactorings stored under /verif/neutral/<Cxx>-n<k>/patch.diff.

usage: neutralcheck.py [--import] [prefix ...]     (default: every stored variant)
  --import   first copy new deliveries /tmp/neutral/<Cxx>-out/<k>/{patch.diff,notes.md} into /verif/neutral
For each variant: fresh worktree of /repo HEAD (under /tmp, removed afterwards), git apply, go build ./...,
then the quick check of EVERY property (a refactoring of shared code must not alarm any of them).
Prints QUIET / FALSE-ALARM lines and writes <variant>/check.json; check_asis.json keeps the result of
the first run (the machinery as it was when the variant arrived).
"""
import json, os, shutil, subprocess, sys
from concurrent.futures import ThreadPoolExecutor
import threading
class _GitLock:
    """git worktree add/remove are serialised across threads and across processes (seedcheck, verify_seed)."""
    _t = threading.Lock()

    def __enter__(self):
        import fcntl
        self._t.acquire()
        os.makedirs("/tmp/seedv", exist_ok=True)
        self._f = open("/tmp/seedv/.gitlock", "w")
        fcntl.flock(self._f, fcntl.LOCK_EX)

    def __exit__(self, *a):
        import fcntl
        fcntl.flock(self._f, fcntl.LOCK_UN)
        self._f.close()
        self._t.release()


GITLOCK = _GitLock()

TC = "/root/go/pkg/mod/golang.org/toolchain@v0.0.1-go1.24.0.linux-amd64/bin"
ENV = dict(os.environ, PATH=TC + ":" + os.environ["PATH"], GOTOOLCHAIN="local", GOFLAGS="-mod=mod", GOPROXY="off")
ENV.pop("GOWORK", None)
ALL = ["C%02d" % i for i in range(1, 21)]
ROOT = "/verif/neutral"
BIN = os.environ.get("SCALINT_BIN", "/verif/bin/scalint")
PROPS = os.environ.get("PROPS", "").split(",") if os.environ.get("PROPS") else None


def sh(cmd, cwd):
    p = subprocess.run(cmd, shell=True, cwd=cwd, env=ENV, stdout=subprocess.PIPE, stderr=subprocess.STDOUT, text=True, errors="replace")
    return p.returncode, p.stdout


def imp():
    # deliveries: round 1 /tmp/neutral/<Cxx>-out -> n1..n3; round 2 -out2 -> n4..n6; round 3 -out3 -> n7..n9;
    # round 4 /tmp/neutral4/<Cxx>-out -> n10..n12; round 5 /tmp/neutral5/<Cxx>-out -> n13..n15; round 6 /tmp/neutral6 -> n16..n18; round 7 /tmp/neutral7 -> n19..n21; round 8 -> n22..n24; round 9 (focused, 4 properties x 2) /tmp/neutral9 -> n25..n26
    for prop in ALL:
        for base, off in ((f"/tmp/neutral/{prop}-out", 0), (f"/tmp/neutral/{prop}-out2", 3), (f"/tmp/neutral/{prop}-out3", 6), (f"/tmp/neutral4/{prop}-out", 9), (f"/tmp/neutral5/{prop}-out", 12), (f"/tmp/neutral6/{prop}-out", 15), (f"/tmp/neutral7/{prop}-out", 18), (f"/tmp/neutral8/{prop}-out", 21), (f"/tmp/neutral9/{prop}-out", 24)):
            if not os.path.isdir(base):
                continue
            for n in sorted(os.listdir(base)):
                if n.isdigit() and os.path.isfile(f"{base}/{n}/patch.diff"):
                    d = f"{ROOT}/{prop}-n{int(n) + off}"
                    os.makedirs(d, exist_ok=True)
                    shutil.copy(f"{base}/{n}/patch.diff", d)
                    if os.path.exists(f"{base}/{n}/notes.md"):
                        shutil.copy(f"{base}/{n}/notes.md", d)


def one(vid):
    pd = f"{ROOT}/{vid}/patch.diff"
    wt = f"/tmp/neutralchk/{vid}"
    os.makedirs("/tmp/neutralchk", exist_ok=True)
    with GITLOCK:
        subprocess.run(["git", "-C", "/repo", "worktree", "remove", "--force", wt], stderr=subprocess.DEVNULL)
        subprocess.check_call(["git", "-C", "/repo", "worktree", "add", "-q", "--detach", wt, "HEAD"])
    try:
        rc, out = sh(f"git apply {pd}", wt)
        if rc != 0:
            return vid, None, f"SKIP patch does not apply: {out[-200:]}"
        rc, out = sh("go build ./...", wt)
        if rc != 0:
            return vid, None, f"SKIP does not build: {out[-300:]}"
        bad = []
        vd = f"/tmp/neutralchk/{vid}-verif"
        os.makedirs(vd + "/evidence", exist_ok=True)
        shutil.copy("/verif/known_findings.txt", vd)
        for q in (PROPS or ALL):
            rc, out = sh(f"{BIN} -prop {q} -tier quick -repo {wt} -verif {vd}", "/verif")
            if rc != 0:
                lines = [l for l in out.splitlines() if "violated:" in l or "UNDECIDED" in l or ": undecided:" in l]
                bad.append((q, lines[:3]))
        shutil.rmtree(vd, ignore_errors=True)
        if PROPS:
            return vid, bad, ""
        res = {"id": vid, "written_for": vid[:3], "alarms": [{"property": q, "lines": l} for q, l in bad]}
        json.dump(res, open(f"{ROOT}/{vid}/check.json", "w"), indent=1)
        if not os.path.exists(f"{ROOT}/{vid}/check_asis.json"):
            json.dump(res, open(f"{ROOT}/{vid}/check_asis.json", "w"), indent=1)
        return vid, bad, ""
    finally:
        with GITLOCK:
            subprocess.run(["git", "-C", "/repo", "worktree", "remove", "--force", wt], stdout=subprocess.DEVNULL, stderr=subprocess.DEVNULL)


def main():
    args = sys.argv[1:]
    if "--import" in args:
        args.remove("--import")
        imp()
    vids = sorted(d for d in os.listdir(ROOT) if os.path.isfile(f"{ROOT}/{d}/patch.diff"))
    if args:
        vids = [v for v in vids if any(v.startswith(a) for a in args)]
    total = alarms = 0
    with ThreadPoolExecutor(max_workers=int(os.environ.get("NEUTRAL_WORKERS", "5"))) as ex:
        for vid, bad, msg in ex.map(one, vids):
            if bad is None:
                print(f"{vid:10} {msg}")
                continue
            total += 1
            if bad:
                alarms += 1
                for q, lines in bad:
                    print(f"{vid:10} FALSE-ALARM {q}: " + (lines[0][:260] if lines else "(exit != 0)"))
            else:
                print(f"{vid:10} QUIET (all 20 checks)")
            sys.stdout.flush()
    print(f"variants checked {total}, with a false alarm {alarms}")


if __name__ == "__main__":
    main()
