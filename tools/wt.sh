#!/bin/bash
# usage: tools/wt.sh <variant-dir under /verif/neutral or /verif/seeded> -> scratch worktree /tmp/wt/<name> with the patch applied
set -e
d=$1; n=$(basename $d)
git -C /repo worktree remove --force /tmp/wt/$n 2>/dev/null || true
mkdir -p /tmp/wt /tmp/vdev/evidence; cp /verif/known_findings.txt /tmp/vdev/
git -C /repo worktree add -q --detach /tmp/wt/$n HEAD
git -C /tmp/wt/$n apply /verif/$d/patch.diff
echo /tmp/wt/$n
