#!/usr/bin/env python3
"""Run the registered quick check of each seeded defect's property against a scratch worktree with the
patch applied (scalint -repo <worktree>), and print a detected/missed table.

usage: seedcheck.py [id-prefix ...]      (e.g. seedcheck.py C01 C09-A)
Writes /verif/seeded/<id>/check.json. Worktrees live under /tmp/seedchk and are removed.
"""
import json, os, subprocess, sys, shutil

TC = "/root/go/pkg/mod/golang.org/toolchain@v0.0.1-go1.24.0.linux-amd64/bin"
ENV = dict(os.environ, PATH=TC + ":" + os.environ["PATH"], GOTOOLCHAIN="local", GOFLAGS="-mod=mod", GOPROXY="off")
ENV.pop("GOWORK", None)


class GitLock:
    """git worktree add/remove are serialised across processes (neutralcheck, verify_seed use the same file)."""

    def __enter__(self):
        import fcntl
        os.makedirs("/tmp/seedv", exist_ok=True)
        self.f = open("/tmp/seedv/.gitlock", "w")
        fcntl.flock(self.f, fcntl.LOCK_EX)

    def __exit__(self, *a):
        import fcntl
        fcntl.flock(self.f, fcntl.LOCK_UN)
        self.f.close()


def main():
    want = sys.argv[1:]
    os.makedirs("/tmp/seedchk", exist_ok=True)
    rows = []
    for sid in sorted(os.listdir("/verif/seeded")):
        d = f"/verif/seeded/{sid}"
        if not os.path.exists(d + "/patch.diff"):
            continue
        if want and not any(sid.startswith(w) for w in want):
            continue
        meta = json.load(open(d + "/meta.json"))
        props = meta.get("check_properties") or [meta["property"]]
        wt = f"/tmp/seedchk/{sid}"
        with GitLock():
            subprocess.run(["git", "-C", "/repo", "worktree", "remove", "--force", wt], capture_output=True)
            subprocess.check_call(["git", "-C", "/repo", "worktree", "add", "-q", "--detach", wt, "HEAD"])
        try:
            subprocess.check_call(["git", "apply", d + "/patch.diff"], cwd=wt)
            res = {}
            for prop in props:
                vd = f"/tmp/seedchk/{sid}-verif"
                os.makedirs(vd + "/evidence", exist_ok=True)
                shutil.copy("/verif/known_findings.txt", vd)
                p = subprocess.run([os.environ.get("SCALINT_BIN", "/verif/bin/scalint"), "-prop", prop, "-tier", "quick", "-repo", wt, "-verif", vd], env=ENV, capture_output=True, text=True, errors="replace")
                out = p.stdout + p.stderr
                lines = [l for l in out.splitlines() if ("violated" in l or "UNDECIDED" in l)]
                det = p.returncode == 1 and ("VIOLATION property=" + prop) in out
                res[prop] = {"rc": p.returncode, "detected": det, "report": [l[:500] for l in lines[:5]]}
                shutil.rmtree(vd, ignore_errors=True)
            json.dump(res, open(d + "/check.json", "w"), indent=1)
            for prop, v in res.items():
                rows.append((sid, prop, "DETECTED" if v["detected"] else "missed", (v["report"] or [""])[0][:160]))
        finally:
            with GitLock():
                subprocess.run(["git", "-C", "/repo", "worktree", "remove", "--force", wt], capture_output=True)
    for r in rows:
        print("%-8s %-4s %-9s %s" % r)
    print("detected %d / %d" % (sum(1 for r in rows if r[2] == "DETECTED"), len(rows)))


if __name__ == "__main__":
    main()
