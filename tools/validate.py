#!/usr/bin/env python3
import json, jsonschema, glob, sys
jsonschema.validate(json.load(open('/verif/MANIFEST.json')), json.load(open('/root/.vp/MANIFEST.schema.json')))
es = json.load(open('/root/.vp/EVIDENCE.schema.json'))
m = json.load(open('/verif/MANIFEST.json'))
for c in m['checks']:
    f = c['evidence_file']
    try:
        jsonschema.validate(json.load(open(f)), es)
    except Exception as e:
        print("INVALID", f, str(e)[:300]); sys.exit(1)
ids = {c['property_id'] for c in m['checks']} | {n['property_id'] for n in m.get('not_applicable', [])}
assert len(ids) == 20, ids
print("manifest + %d evidence files valid" % len(m['checks']))
