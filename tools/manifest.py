#!/usr/bin/env python3
"""Regenerate /verif/MANIFEST.json from the claims table below (keeps source_commits current)."""
import json, subprocess

CLAIMS = {
 "C19": dict(
  text="Static, exhaustive enumeration of the three plugin registries (static data) in all three GOOS configurations: every registry row resolves to a plugin whose Name() is the row key, names are unique, groups never shadow plugins and list only registered constructors, the capability filter is exactly plugin.ValidateRequirements on the element being admitted, ValidatePluginRequirements covers all three plugin kinds, every detector-required extractor resolves and has requirements implied by the detector's, ValidateRequirements consults all four capability fields and never orders the unordered OS/Network enums. Also: the filters' converse (no other decision drops an element, no return before the loop) and EnableRequiredExtractors updating its enabled-name set with the very name it looked up. Round 3: D5-decision-table: ValidateRequirements, as a boolean function of its tests, equals the documented requirement semantics (this checks the model D4 relies on); the filter's result is a fresh slice; every name resolution reads the names table. Level 'other': necessary structural conditions decided for every row; the truth table of ValidateRequirements is not evaluated.",
  note="Trusted: go/types+go/ssa; the symbolic reading of concat/vals (their bodies are checked to be maps.Copy union / slices.Concat(maps.Values)); literal Name()/Requirements()/RequiredExtractors() bodies (non-literal => undecided => failure); the OS/Network implication lattice used for D4 is a model of ValidateRequirements.",
  technique="table evaluation over AST+types, SSA constant evaluation, edge-dominance guard check",
  ref="DESIGN.md §3 C19"),
}

CLAIMS["C01"] = dict(
  text="All-paths structural rules over the scan engine (edge dominance / must-pass-through on SSA): Extract is reached from one dispatch site only, under FileRequired==true of the same extractor and with the lazy file API reset for the current path; one dispatch per (file, extractor) with the loop covering all extractors; directories and non-symlink special files never reach the dispatch; the directory-skip predicate consults all five skip rules, each match leads to skip, the skip list is an exact lookup, SkipDir is returned iff the predicate holds; gitignored files are never dispatched; non-empty results are always attributed and appended; the recursive walker visits every successfully read entry and never originates SkipDir; explicit-path walks reuse the same callbacks and install parent gitignore patterns. Round 3: the skip predicate, as a boolean function of its tests, equals the disjunction of the five configured skip rules (decision table); the decisions and early exits that keep the current file from an extractor are the audited ones; the size-limit rule of C10 is shared. Level 'other': necessary conditions for every tree/configuration; matching semantics of glob/regex/gitignore and inventory equality are not decided.",
  note="Trusted: go/ssa CFGs; anchors resolved by role (callbacks passed to WalkDirUnsorted, the function containing the Extract invoke), unresolved anchors fail; value-level behaviour (pattern matching, prefix stripping) is out of scope.",
  technique="edge dominance + must-pass-through path search on SSA, same-value provenance",
  ref="DESIGN.md §3 C01")

CLAIMS["C09"] = dict(
  text="All-paths rules over the walk callback, the recursive walker, the dispatch function, StatusFromErr and Scan: errors derived from file-system operations abort the walk only under errorOnFSErrors and do abort it then; listing/stat failures are reported to the callback with the error and the walker never originates SkipDir; the DirEntry is only touched when fserr==nil; failed Open/Stat/Extract are recorded under the running extractor's name on every path; statuses are built per configured extractor from maps keyed by its name, failed vs partially-succeeded follows 'partial'; the lazy stat cache cannot keep a stale error; Run errors always reach the overall status; the gitignore pop is guarded. Also: D1 additionally: once fserr != nil a return that does not carry it is reachable only through the errorOnFSErrors == false edge. Round 3: the decisions and early exits of the callback's loop over the extractors are the audited ones (an Open failure for one extractor does not keep the file from the others). Level 'other': necessary conditions for every fault sequence; which files are extracted under a fault is not decided.",
  note="Trusted: go/ssa CFG and def-use; error provenance follows fmt.Errorf/errors.Join arguments, phis and locals only.",
  technique="error-provenance dataflow + edge dominance + must-pass-through on SSA",
  ref="DESIGN.md §3 C09")
CLAIMS["C10"] = dict(
  text="All-paths rules: the inode counter is incremented and compared ('> limit', limit>0, after the increment) before any other work of the callback and the failing edge returns an error; every dispatch is behind 'limit off' or a passed 'size > limit' comparison on the symlink-following lazy Stat size, and the memoised size can only hold a passed value; ctx.Err() is tested before per-file work and inside the standalone/detector plugin loops and its error is returned; layer files are written through io.LimitReader(MaxFileBytes), rejected at '>= limit', never inserted after a failure; unpack checks the header size before reading. Also: D1 additionally: the visit counter is written only by its increment (never reset per scan root). Level 'other': the comparison operators and their placement are decided for all inputs; counts over concrete trees and cancellation inside an extraction are not.",
  note="Trusted: go/ssa; comparison normal forms (operand order / negation) as listed in DESIGN.md §2.1; os.File/io API contracts.",
  technique="edge dominance with normalised comparison patterns, phi provenance for the memoised size",
  ref="DESIGN.md §3 C10")

CLAIMS["C08"] = dict(
  text="All-paths rules: every Scan return goes through newScanResult, which sorts statuses, packages, findings and each package's locations unconditionally with the right comparators; the comparators compare the same key of both operands (operand-mirror rule) and cover the documented keys; the walk context's per-root result fields are re-initialised with fresh values before every root's walk and Run appends exactly that root's inventory once; Inventory.Append carries packages and findings; the gitignore pattern stack is balanced over every directory (a directory returning nil or SkipDir has pushed exactly once, the pop removes one under the same conditions). Also: D3 additionally: no decision in Run skips a scan root, and the per-extractor found-inventory flag is only ever set to true. Round 3: the shared lazy file API is reset unconditionally for every file (also across roots); comparators never compare pointer identity. Level 'other': necessary conditions for order- and root-count-independence; equality of multisets over permutations is not decided.",
  note="Trusted: go/ssa; access-path rendering of pure operands; slices.SortFunc/sort.Strings contracts.",
  technique="must-pass-through, operand-mirror (access path) comparison, reset-on-all-paths, push/pop pairing on SSA",
  ref="DESIGN.md §3 C08")
CLAIMS["C20"] = dict(
  text="All-paths rules: Scan builds the package index from the result inventory's packages after both the file-system and the standalone packages are in it and hands that index to detector.Run; Run scans each detector once, tags every finding with exactly that detector's name, appends all findings and a status built from that call's error in every iteration; findings are returned only after validateAdvisories passed (nil advisory, nil ID, unequal advisories under an equal ID value all fail; the ID map is keyed by value); the index stores each package under the type and name of its own package URL and GetSpecific looks up in the same order. Round 3: the decisions that keep a package out of the index are the audited ones (frozen table). Level 'other': structural necessary conditions for every inventory/detector set.",
  note="Trusted: go/ssa; reflect.DeepEqual semantics; same-value provenance through phis and locals.",
  technique="must-pass-through + same-value provenance + type check of the advisory map key",
  ref="DESIGN.md §3 C20")

CLAIMS["C07"] = dict(
  text="Panic-freedom discipline and comparator shape over all of package semantic: every index/slice expression is proved in bounds by a difference-constraint prover (facts from dominating branches, strings/regexp/builtin API contracts, loop counters, call-site facts of unexported helpers) or is an audited site with a stated data invariant (with machine-checked witnesses where the invariant rests on a particular guard); nil-on-failure results are never used with their ok/err discarded; Parse and each version type's CompareStr use the same parse function and forward its error; comparators compare the same key of both operands and return negated constants in mirrored branches. Also: D5 numeric components are never parsed with fixed-width strconv parsing (every numeric test goes through big.Int). Round 3: D6 a test made on one operand of a comparator is also made on the other; no multi-character or computed cutset trimming. Level 'other': necessary conditions for 'never panics' and antisymmetry; transitivity and agreement with published orderings are value-level and not decided.",
  note="Trusted: go/ssa, the API contract table (strings.Split>=1, Index bounds, regexp sub-match counts from the constant patterns via regexp/syntax), audited sites (14 index/slice + 1 SetString) read by hand; loads of the same field path are assumed stable between a dominating test and its use.",
  technique="difference-constraint bounds prover on SSA + audited table, parse/compare agreement table, operand-mirror and mirrored-branch rules",
  ref="DESIGN.md §3 C07")

CLAIMS["C02"] = dict(
  text="Panic-freedom discipline over every first-party function reachable from the methods of the 57 registered offline filesystem extractors (three GOOS configurations in the thorough tier): index/slice expressions proved in bounds or audited with invariant and witnesses; JSON/YAML-decoded pointers (top-level, fields, slice/map elements, followed through first-party calls) nil-tested before dereference; no ok/err-discarded nil-on-failure results; single-value type assertions only on Package.Metadata or audited; no possibly-nil *Package appended to a result; plus failure confinement in the engine (errors of Open/Stat/Extract recorded per extractor, dispatch returns nothing). Also: D4 termination structure — every recursive function reachable from an extractor is in an audited table with its termination argument and, where checkable, a witness (depth limit compared on entry and passed +1; byte budget compared, passed down and assigned back; recursion on a strict part of the argument), and a map consulted as a visited set inside a loop is updated with the very key looked up. Level 'other': a necessary discipline for 'never panics'; termination, time/memory bounds, third-party parser internals and nil dereferences in general are not decided.",
  note="Trusted: go/ssa, CHA reachability, the API contract table, 6 audited index/slice sites and 2 audited assertions (listed with reasons in evidence), encoding/xml and toml never leaving nil pointers.",
  technique="difference-constraint bounds prover, decode-nil taint analysis, assertion/ok-discard lints over the reachable call graph",
  ref="DESIGN.md §3 C02")

CLAIMS["C14"] = dict(
  text="Table agreement and converter coverage: every purl type the code can emit or declares is accepted by the library's own validType; for each of the registered extractors the single-value assertions of ToPURL/Ecosystem on Package.Metadata are matched by every Package its Extract code allocates; every allocated Package gets a non-empty Locations (3 genuine exceptions recorded as known findings: dotnetpe x2, chrome/extensions); the proto converters read every source field and fill each like-named field, the SBOM converters write ToPURL(pkg).String() of the package being converted and ToCDX copies name, version and all locations; the index is keyed by the URL's own type/name; bounds discipline over purl, packageindex, converter, binary/proto. Round 3: D7 the formats' audited omissions (empty name/version) are shared from C03. Level 'other': necessary conditions; non-empty names, percent-encoding round trips and third-party SBOM library behaviour are not decided.",
  note="Trusted: go/ssa, CHA reachability from Extract methods, constant evaluation of stored types (with the one path refinement documented in DESIGN.md), generated *.pb.go excluded.",
  technique="table agreement (constants vs. map literal), writer/reader type agreement over allocations, field-coverage analysis of converters",
  ref="DESIGN.md §3 C14")

CLAIMS["C15"] = dict(
  text="Structural necessary conditions of the export->import round trip, decided from source for all inputs: every purl type the library emits or declares is accepted by purl.validType (called by both importers through purl.FromString); every output format the CLI accepts reaches a writer that has a row/case for it, each SPDX writer row calls Write of exactly one tools-golang format package and the importer's extension table reads the same package, the CycloneDX writer's file formats are decoded by importer rows whose names announce that syntax; the SPDX exporter's external-reference type is one of the constants the importer's purl branch compares against and the importers parse exactly the locator / PackageURL field of the entry they look at, store the parsed URL and hand it back unchanged from ToPURL; the decisions that leave a package out of an export or an entry out of an import are exactly the audited ones (rendered by the definition of the tested value); every Supplier/Originator literal is expressible in tag-value (2 genuine exceptions recorded as known findings: spdx23-tag-value exports are rejected by the importer). Round 3: the SBOM writers open their output with truncation. Level 'other': the serialisers/parsers are third-party code that is not analysed, so byte-level escaping, multiset equality and duplicates are not decided.",
  note="Trusted: go/ssa, evaluation of package-level map literals (single initialising store, no other writer), tools-golang v0.5.3 supplier grammar read from its tag-value reader, cyclonedx-go decodes what it encodes per BOMFileFormat.",
  technique="table agreement (writer rows vs importer rows vs CLI list), constant/field provenance of reference strings, frozen omission-decision table, literal-shape rule against the reader grammar",
  ref="DESIGN.md §3 C15")

CLAIMS["C11"] = dict(
  text="Shape of the three candidate scans, decided from source for all inputs: every version that can become the chosen one (override: flows into Manifest.PatchRequirement; relax: into the requirement NpmRelaxer.Relax returns; update: into the requirement suggestMavenVersion returns) is committed only on paths that, since that candidate was defined, crossed the true edge of Level.Allows(L, D) with D the semver Difference between the base and that same candidate; L is Config.Get(options' UpgradeConfig, Name of the package whose base version D was measured from); the base is the loop's vulnerable version key and candidates are elements of getVersionsGreater(that key) (one comparator for sort and search) in override, the MatchVersion-witnessed index of a downward scan over the comparator-sorted list (or an already level-checked step) in relax, the parsed requirement or a MatchVersion-witnessed version in update where candidates below the base are skipped; level None is skipped before any candidate; relax.patchVulns and MavenSuggester.Suggest patch/report exactly the level-checked result with the configured UpgradeConfig. Also: D5 progress — from the start of a round of the override / relax fix-point loop the next round is reachable only through Manifest.PatchRequirement. Round 3: D6 Level.Allows, as a boolean function of its tests, equals the level semantics (decision table). Level 'other': these are necessary conditions; ecosystem order properties, what a requirement resolves to in a universe, re-resolution effects and termination of the fixpoint loops are not decided.",
  note="Trusted: go/ssa, deps.dev/util/semver Difference/Compare semantics, slices.SortFunc/BinarySearchFunc contracts.",
  technique="edge-dominance of Level.Allows over every phi edge that commits a candidate (per-candidate, since its definition) + value/cell provenance of base, candidate, level and configuration",
  ref="DESIGN.md §3 C11")

CLAIMS["C12"] = dict(
  text="Plumbing between analysis, report and written manifest, decided from source for all inputs: ConstructPatches diffs the filtered Vulns lists of the original and the patched result and computeVulnsResult reports that same list (no UnfilteredVulns mixed in); every slices.CompactFunc over a slice sorted in the same function merges exactly the elements the sort comparator calls equal, and the update comparator compares Name, VersionFrom, VersionTo and Type mirrored; reported PackageUpdates take Name/VersionTo from the patched requirement and VersionFrom from the original requirement with the same requirement key, and a requirement / patch / fixed-vulnerability is left out only under the audited decisions (frozen table: unchanged version, incompatible patches, no-introduce, failed or empty strategy result); choosePatches returns unmodified elements of allPatches; doStrategy and Update hand writeManifestPatches the very patch list they return in Result.Patches, the manifest parsed from the same path, and return its error, and writeManifestPatches passes all of it to the ReadWriter; Unactionable is 'ID absent from the Fixed IDs of all computed patches', computed from the same patch list the applied patches are chosen from; the package.json writer applies every update or fails and changes nothing else (shared with C13). Also: D1 additionally: every vulnerability filter is MatchVuln(*opts, v) on the caller's options object and the explicit-list expansion is stored into that object; the pom.xml writer marks a section as handled under the origin whose patches it applied (C13 D6). Round 3: D7 MatchVuln equals the option semantics (decision table); D8 manifest Clone reads every field and iterates only over the receiver's data; D9/D10 pom.xml identity and parent-origin agreement (shared with C13). Level 'other': necessary conditions; that re-resolving the written manifest yields the reported sets (resolver, matcher, PatchRequirement alias semantics) and the pom.xml writer's application of updates are not decided.",
  note="Trusted: go/ssa; slices.SortFunc/CompactFunc contracts; the frozen omission table c12Sanctioned was confirmed by reading each row.",
  technique="field/value provenance between analysis, report and writer calls; comparator/equality agreement (same closure or same key set); frozen omission-decision table; path-sensitive applied-or-error rule of C13 reused",
  ref="DESIGN.md §3 C12")

CLAIMS["C06"] = dict(
  text="Effect analysis and containment rules: in all first-party code reachable from the 58 filesystem extractors and filesystem.Run the only file-system / process / database effects are the audited GetRealPath temp copy and its removal; bbolt databases are opened with ReadOnly; GetRealPath's temp directory is removed by every caller (filepath.Dir of the returned path) and on its own error exits; in unpack every MkdirAll/WriteFile/Symlink happens only after the lexical '..' rejection and a passed pathOutsideBaseDirectory(dir, fullPath) on that same path, and that check is filepath.Rel-based, rejects both '..' and '../', and treats errors as outside; layer scanning writes only Join(layer dir, cleaned name) after its '../' test, never creates links on disk, and cleans its temp directory on every error exit. Also: D7 symlink.TargetOutsideRoot answers on every path with the marker test on the joined, cleaned path of the target. Round 3: D8 a link name is re-rooted under the target directory exactly when it is absolute (the reading TargetOutsideRoot assumes). Level 'other': who-may-mutate and dominance facts for all inputs; effects inside third-party code, symlink chains that become escaping through later entries, detectors and standalone extractors are not decided.",
  note="Trusted: CHA reachability over first-party code, the primitive table in c06.go, third-party open modes (go-rpmdb, saferwall/pe).",
  technique="effect (who-may-call) analysis over the call graph + edge dominance of containment checks + create/clean-up pairing",
  ref="DESIGN.md §3 C06")

CLAIMS["C04"] = dict(
  text="All-paths rules over the view construction: a node enters a chain layer's tree only if that tree has nothing at the path and the ancestor scan said 'not hidden'; layers are processed newest first into chainLayers[i:]; the ancestor scan answers 'hidden' for whited-out and for non-directory ancestors (IsDir), keeps climbing over missing ancestors and says 'not hidden' only at the root; whiteouts are never listed by ReadDir and fail Stat/Read/ReadAt/Seek with ErrNotExist before the file is touched; the requirer restriction only removes rejected nodes; a tar entry is dropped only for the sanctioned reasons (so whiteouts are never filtered by the requirer); nodes shared between views are immutable. Also: D7 chain-layer view trees are inserted into only by the guarded fill routine (and the root insert); D8 every tar entry passes populateEmptyDirectoryNodes before it is added to the views. Round 3: an entry's handler runs only when the newest view has no node at its path; the requirer restriction prunes chainLayers[len-1]. Level 'other': necessary conditions of the overlay semantics for every layer sequence; opaque whiteouts (not implemented by the code), intra-layer entry order, content equality and equivalence with the squashed unpacking are not decided.",
  note="Trusted: go/ssa; pathtree Get/Insert/Remove contracts.",
  technique="edge dominance + must-pass-through + sanctioned-skip-edge enumeration on SSA",
  ref="DESIGN.md §3 C04")
CLAIMS["C05"] = dict(
  text="Structure of the attribution algorithm: the per-layer details list takes Index, DiffID and Command from the same chain layer and packages only ever get (a copy of) an element of that list; the extraction cache is keyed by (first location, view index) and written in one place; an iteration of the backward scan can return to the loop head without comparing packages only through the sanctioned 'file not in this layer' edge, otherwise it records the view as the latest scanned one after obtaining its packages; the origin is the latest scanned layer, or the first when no absence was found; the scan runs from len-2 down to 0; ScanContainer scans the last view and traces with the same chain layers. Also: D1 additionally: every iteration appends the record it just built for its own layer, and no iteration ends without appending. Round 3: D6 the search through an older view's packages stops only on an entry with equal package URL and locations. Level 'other': necessary structural conditions; validity of the skip for every history and empty-layer alignment are not decided.",
  note="Trusted: go/ssa loop/phi structure; the sanctioned skip is the filesExistInLayer false edge.",
  technique="loop-carried phi provenance (back-edge classification) + edge dominance on SSA",
  ref="DESIGN.md §3 C05")
CLAIMS["C17"] = dict(
  text="Termination variant and resolution discipline: the resolver's only cycle passes a loop head that returns a depth error when the hop budget is below zero, and every back edge decreases the budget by a positive constant (so at most max+1 iterations for every symlink graph); Open/Stat/ReadDir resolve the node looked up for the requested name through that resolver with the view's configured depth and answer from the resolved node; the success exit returns the current non-symlink node, a failed lookup returns its error, the cycle error needs pointer equality with the slow pointer; symlink nodes are created only when TargetOutsideRoot(virtual path, raw link name) is false; shared nodes are immutable, so resolution in one view cannot change another's. Also: D2 additionally: FS.Stat answers with resolvedNode.Stat(); D3 additionally: TargetOutsideRoot examines the joined, cleaned path on every return. Round 3: D5 relative link targets go into path.Join unchanged; no cutset trimming in the image packages. Level 'other': the hop-count/cycle classification as values is not decided.",
  note="Trusted: go/ssa; symlink.TargetOutsideRoot's own lexical semantics.",
  technique="loop variant (phi step) analysis + edge dominance + who-may-write rule for node fields",
  ref="DESIGN.md §3 C17")

CLAIMS["C03"] = dict(
  text="Structural completeness rules for the twelve listed formats: every bufio.Scanner loop surfaces scanner.Err() after Scan() returned false; a record pending at end of input is still processed (dpkg header returned with io.EOF, apk record without trailing blank line, blank lines end an apk record only when it is non-empty); and in every package-appending loop the decisions after which the current record can no longer be reported are exactly the 60-odd audited omissions (frozen table, rendered by the definition of the tested value), so an added filter / de-duplication / early exit and a removed not-installed filter are both reported. Also: D3-predicates — boolean helpers deciding a branch of a package loop are frozen as truth tables over their atomic tests. Level 'other': necessary conditions; that exactly the N pairs come out for every layout (CRLF, comments, ordering, merge keys) is value-level and not decided.",
  note="Trusted: go/ssa; the audited omission table c03_table.go (a behaviour-preserving rewrite of an omission condition has to be re-audited there).",
  technique="must-pass-through for scanner errors and pending records + enumeration of omission decisions against an audited table",
  ref="DESIGN.md §3 C03")

CLAIMS["C18"] = dict(
  text="Shape rules for vulns.IsAffected: positive verdicts are reachable only under equal ecosystem and equal name (range verdicts additionally only for ECOSYSTEM, or SEMVER for npm, ranges), an unknown ecosystem answers false up front; inside the loops over entries and ranges only the constant true is returned (a negative range never ends the evaluation); the events are sorted on a private copy and searched on that same slice for the package's version, both comparators put the sentinel \"0\" first and use the ecosystem comparison; an exact hit is affected iff the event is introduced/last_affected, a position between events iff a previous event exists and is introduced; index discipline proved with the BinarySearchFunc contract. Also: D6 the explicit-versions test exists, leads straight to a positive verdict and is evaluated under exactly the audited guards. Round 3: D7 a range of a matching type is always sorted and searched (frozen skip table of the range loop). Level 'other': necessary conditions of the OSV evaluation; agreement with the specification's linear scan on all event lists is not decided.",
  note="Trusted: go/ssa; slices.SortFunc/BinarySearchFunc/Clone contracts; deps.dev semver Compare.",
  technique="edge dominance over normalised comparisons + comparator-closure inspection + bounds prover",
  ref="DESIGN.md §3 C18")

CLAIMS["C16"] = dict(
  text="Lockset and spawn-site rules: the fields of RequestCache and CombinedNativeClient named in the frozen guarded-by table are accessed only with their mutex held on every path (must-hold dataflow over Lock/Unlock/defer), the scan-progress fields read by RunFS's status goroutine are written and (in that goroutine) read only under statusMu; RequestCache.Get tests for a cached and for a pending value and registers the new call in one critical section, calls the fetch function unlocked, signals the waiters, re-examines/removes the pending entry on every path after the fetch and caches only successes; goroutines spawned in a loop never get append(<shared slice>, ...); each spawn is paired with one counter increment, the worker sends exactly once, and the patch list returned is SortFunc then CompactFunc with the same comparator. Also: D1 additionally: a map/slice reference loaded from a guarded field is used only while the mutex is still held. Round 3: the collector's decisions that drop a received result are the audited ones (shared with C12), so follow-up attempts do not depend on arrival order. Level 'other': necessary conditions for race-freedom and schedule-independence; linearizability and equality across schedules are not decided.",
  note="Trusted: go/ssa, the guarded-by table in c16.go (confirmed by reading), sync.Mutex semantics; aliasing of mutex receivers is by access path.",
  technique="must-hold lockset dataflow, atomic-section path search, spawn-site argument freshness, pairing rules",
  ref="DESIGN.md §3 C16")

CLAIMS["C13"] = dict(
  text="Writer discipline: dependency names reach gjson/sjson paths only through gjson.Escape; index/slice expressions of the npm and maven manifest packages are proved in bounds or audited; in the package.json writer the next update (or success) is reachable only after an sjson.Set for the current update - decided path-sensitively over the per-update matched flag - and the buffer is modified only inside the update loop and is what gets written to the requested path; in the pom.xml writer origin strings are split, re-joined and suffix-trimmed with the '@' separator the origin builder uses, so patches are filed under origins the writer looks up. Also: D6 pom.xml: a section is marked as handled under the origin whose patches are applied to it; D7 package.json: an entry is rewritten only on the 'current value == original version' edge; D8 no Trim-family call with a computed cutset in the manifest writers. Round 3: D9 candidate parents are identified with mavenutil.ProjectKey at every site and dependencies are matched on Key(); D10 a parent's requirements are filed under the path of the file that was opened. Level 'other': necessary conditions; byte/token preservation and re-read equality are not decided.",
  note="Trusted: go/ssa; gjson.Escape covers gjson/sjson path syntax; 7 audited index/slice sites with reasons in evidence.",
  technique="provenance of path arguments, path-sensitive must-pass search, bounds prover, separator agreement between origin builder and readers",
  ref="DESIGN.md §3 C13")

NA = {}


def main():
    props = [json.loads(l) for l in open("/verif/properties.jsonl")]
    hs = subprocess.check_output(["git", "-C", "/repo", "log", "--reverse", "--format=%H %s", "33b79e52..HEAD"]).decode().splitlines()
    fixes = [h.split()[0] for h in hs if h.split(" ", 1)[1].startswith("fix:")]
    checks, na = [], []
    for p in props:
        i = p["id"]
        if i in CLAIMS:
            c = CLAIMS[i]
            checks.append({
                "property_id": i,
                "quick_cmd": f"./run.sh {i} quick",
                "thorough_cmd": f"./run.sh {i} thorough",
                "evidence_file": f"/verif/evidence/{i}.json",
                "replay_cmd_template": "./run.sh --replay {path}",
                "engine": "scalint",
                "level_claimed": {"category": "other", "text": c["text"], "design_ref": c["ref"]},
                "level_note": c["note"],
                "technique": "static analysis: " + c["technique"],
            })
        else:
            na.append({"property_id": i, "reason": NA.get(i, "rule not implemented yet (build in progress)")})
    m = {
        "version": 1,
        "setup_cmd": "./run.sh --setup",
        "hooks": {
            "guard": "verif",
            "enable": "(none needed: static analysis of the default build; no verif-tagged file exists)",
            "baseline_off_cmd": "cd /repo && go test -mod=mod -vet=off -count=1 -timeout 25m ./...",
            "source_commits": fixes,
            "add_only": True,
        },
        "engines": [{"name": "scalint", "path": "/verif/checker", "serves_properties": sorted(CLAIMS), "kind_free_text": "repository-specific static analyser (go/packages + go/ssa, x/tools v0.29.0): edge-dominance, must-pass-through, provenance, table agreement, bounds discipline, effect reachability, lockset rules"}],
        "checks": checks,
        "notes": "Static analysis only; every claim is at level 'other' for named structural clauses (DESIGN.md §3). Genuine defects found were repaired by the fix: commits listed in hooks.source_commits and in known_findings.txt.",
        "not_applicable": na,
    }
    json.dump(m, open("/verif/MANIFEST.json", "w"), indent=1)
    print("claimed", len(checks), "n/a", len(na))


if __name__ == "__main__":
    main()
