#!/usr/bin/env python3
"""Confirm a seeded defect delivered by a sub-agent and store it under /verif/seeded/<id>/.

usage: verify_seed.py <Cxx> <A|B> [--no-suite] [--round2]   (round 2: deliveries under /tmp/seed2, stored as <Cxx>-C / <Cxx>-D)

Steps, all in a fresh scratch worktree of /repo (removed afterwards):
  1. demo passes on the unchanged tree, 2. patch applies and builds, 3. demo fails with the patch,
  4. the baseline suite still passes with the patch (every stable_pass test of BASELINE.json),
  5. the registered check of the property is run against the patched worktree (-repo) and the
     verdict recorded (detected / missed).
"""
import json, os, re, shutil, subprocess, sys, time

TC = "/root/go/pkg/mod/golang.org/toolchain@v0.0.1-go1.24.0.linux-amd64/bin"
ENV = dict(os.environ, PATH=TC + ":" + os.environ["PATH"], GOTOOLCHAIN="local", GOFLAGS="-mod=mod", GOPROXY="off")
ENV.pop("GOWORK", None)


def sh(cmd, cwd, timeout=1800):
    # private TMPDIR: some baseline tests list osv-scalibr-* entries of the temp dir and are flaky
    # when other worktrees run the same tests concurrently
    env = dict(ENV, TMPDIR=PRIV_TMP) if PRIV_TMP else ENV
    p = subprocess.run(cmd, shell=True, cwd=cwd, env=env, stdout=subprocess.PIPE, stderr=subprocess.STDOUT, text=True, errors="replace", timeout=timeout)
    return p.returncode, p.stdout


PRIV_TMP = None


def main():
    global PRIV_TMP
    prop, which = sys.argv[1], sys.argv[2]
    suite = "--no-suite" not in sys.argv
    r2 = "--round2" in sys.argv
    r3 = "--round3" in sys.argv
    r4 = "--round4" in sys.argv
    r5 = "--round5" in sys.argv
    r6 = "--round6" in sys.argv
    r7 = "--round7" in sys.argv
    r8 = "--round8" in sys.argv
    r9 = "--round9" in sys.argv
    src = f"/tmp/seed9/{prop}-out/{which}" if r9 else f"/tmp/seed8/{prop}-out/{which}" if r8 else f"/tmp/seed7/{prop}-out/{which}" if r7 else f"/tmp/seed6/{prop}-out/{which}" if r6 else f"/tmp/seed5/{prop}-out/{which}" if r5 else f"/tmp/seed4/{prop}-out/{which}" if r4 else f"/tmp/seed3/{prop}-out/{which}" if r3 else (f"/tmp/seed2/{prop}-out/{which}" if r2 else f"/tmp/seed/{prop}-out/{which}")
    sid = f"{prop}-O" if r9 else f"{prop}-{ {'A': 'N', 'B': 'O'}[which] }" if r8 else f"{prop}-{ {'A': 'M', 'B': 'N'}[which] }" if r7 else f"{prop}-{ {'A': 'K', 'B': 'L'}[which] }" if r6 else f"{prop}-{ {'A': 'I', 'B': 'J'}[which] }" if r5 else f"{prop}-{ {'A': 'G', 'B': 'H'}[which] }" if r4 else f"{prop}-{ {'A': 'E', 'B': 'F'}[which] }" if r3 else (f"{prop}-{ {'A': 'C', 'B': 'D'}[which] }" if r2 else f"{prop}-{which}")
    wt = f"/tmp/seedv/{sid}"
    os.makedirs("/tmp/seedv", exist_ok=True)
    PRIV_TMP = f"/tmp/seedv/tmp-{sid}"
    shutil.rmtree(PRIV_TMP, ignore_errors=True)
    os.makedirs(PRIV_TMP, exist_ok=True)
    if os.path.exists(wt):
        subprocess.run(["flock", "/tmp/seedv/.gitlock", "git", "-C", "/repo", "worktree", "remove", "--force", wt])
    subprocess.check_call(["flock", "/tmp/seedv/.gitlock", "git", "-C", "/repo", "worktree", "add", "-q", "--detach", wt, "HEAD"])
    meta = {"id": sid, "property": prop, "confirmed": False, "steps": {}}
    try:
        demo = open(f"{src}/demo.txt").read()
        m = re.search(r"(go (?:test|run) [^\n]*)", demo)
        if not m:
            raise SystemExit("no go test line in demo.txt")
        cmd = m.group(1).strip().rstrip("`")
        toks = [t.strip("'\"`") for t in cmd.split()]
        pk = [t for t in toks[2:] if t == "." or t.startswith("./")]
        if not pk:
            raise SystemExit("no package argument in demo command")
        pkg = pk[0]
        demofiles = [f for f in os.listdir(src) if f.endswith("_test.go") or (f.endswith(".go") and f != "patch.diff")]
        if not demofiles:
            raise SystemExit("no demo file")
        pkgdir = os.path.normpath(os.path.join(wt, pkg.replace("...", "")))
        # honour an explicit "Place at:" path if it names a directory inside the repo
        for f in demofiles:
            shutil.copy(f"{src}/{f}", pkgdir)
        meta["demo_cmd"] = cmd
        meta["demo_files"] = [os.path.relpath(os.path.join(pkgdir, f), wt) for f in demofiles]
        rc, out = sh(cmd, wt)
        meta["steps"]["demo_on_unchanged_tree"] = {"rc": rc, "tail": out[-600:]}
        if rc != 0:
            raise SystemExit("demo does not pass on the unchanged tree")
        rc, out = sh(f"git apply {src}/patch.diff", wt)
        meta["steps"]["apply"] = {"rc": rc, "tail": out[-300:]}
        if rc != 0:
            raise SystemExit("patch does not apply")
        rc, out = sh("go build ./...", wt)
        meta["steps"]["build"] = {"rc": rc, "tail": out[-600:]}
        if rc != 0:
            raise SystemExit("does not build")
        rc, out = sh(cmd, wt)
        meta["steps"]["demo_with_patch"] = {"rc": rc, "tail": out[-1200:]}
        if rc == 0:
            raise SystemExit("demo does not fail with the patch")
        for f in meta["demo_files"]:
            os.remove(os.path.join(wt, f))
        if suite:
            t0 = time.time()
            rc, out = sh("go test -json -vet=off -count=1 -timeout 25m ./... 2>/dev/null", wt, timeout=3000)
            res = {}
            for l in out.splitlines():
                try:
                    e = json.loads(l)
                except Exception:
                    continue
                if e.get("Action") in ("pass", "fail", "skip") and e.get("Test"):
                    res[e["Package"] + "::" + e["Test"]] = e["Action"]
            b = json.load(open("/root/.vp/BASELINE.json"))
            bad = [t for t in b["stable_pass"] if res.get(t) != "pass"]
            # /tmp-listing tests are flaky under concurrency: retry failures once in isolation
            if bad:
                pk = sorted({t.split("::")[0] for t in bad})
                rc2, out2 = sh("go test -json -vet=off -count=1 " + " ".join(pk) + " 2>/dev/null", wt)
                for l in out2.splitlines():
                    try:
                        e = json.loads(l)
                    except Exception:
                        continue
                    if e.get("Action") in ("pass", "fail", "skip") and e.get("Test"):
                        res[e["Package"] + "::" + e["Test"]] = e["Action"]
                bad = [t for t in b["stable_pass"] if res.get(t) != "pass"]
            meta["steps"]["baseline_suite_with_patch"] = {"stable_pass_not_passing": bad[:20], "n": len(bad), "wall_s": round(time.time() - t0)}
            if bad:
                raise SystemExit("existing tests fail with the patch: %s" % bad[:5])
        meta["confirmed"] = True
        # run the check against the patched worktree
        vd = f"/tmp/seedv/{sid}-verif"
        os.makedirs(vd + "/evidence", exist_ok=True)
        shutil.copy("/verif/known_findings.txt", vd)
        BIN = os.environ.get("SCALINT_BIN", "/verif/bin/scalint")
        if os.path.exists(BIN):
            rc, out = sh(f"{BIN} -prop {prop} -tier quick -repo {wt} -verif {vd}", "/verif")
            viol = [l for l in out.splitlines() if "VIOLATION" in l or "violated" in l or "UNDECIDED" in l]
            meta["check"] = {"cmd": f"scalint -prop {prop} -tier quick (against the patched worktree)", "rc": rc, "detected": rc == 1 and any("VIOLATION property=" + prop in l for l in out.splitlines()), "report": [l[:400] for l in viol[:6]]}
        shutil.rmtree(vd, ignore_errors=True)
    except SystemExit as e:
        meta["rejected"] = str(e)
    finally:
        subprocess.run(["flock", "/tmp/seedv/.gitlock", "git", "-C", "/repo", "worktree", "remove", "--force", wt])
        shutil.rmtree(PRIV_TMP, ignore_errors=True)
    out = f"/verif/seeded/{sid}"
    if meta["confirmed"]:
        os.makedirs(out, exist_ok=True)
        shutil.copy(f"{src}/patch.diff", out)
        for f in os.listdir(src):
            if f.endswith(".go") or f in ("demo.txt", "notes.md"):
                shutil.copy(f"{src}/{f}", out)
        meta["breaks"] = prop
        notes = open(f"{src}/notes.md").read() if os.path.exists(f"{src}/notes.md") else ""
        meta["needs_to_manifest"] = notes[:1500]
        meta["what_i_ran"] = "verify_seed.py: demo on unchanged worktree (pass), git apply, go build ./..., demo (fail), full go test ./... vs BASELINE stable_pass (all pass), check against patched worktree"
        json.dump(meta, open(f"{out}/meta.json", "w"), indent=1)
    print(json.dumps({k: meta.get(k) for k in ("id", "confirmed", "rejected", "check")}, indent=1))


if __name__ == "__main__":
    main()
