#!/usr/bin/env python3
"""Regenerate /verif/neutral/SUMMARY.txt from the per-variant check_asis.json (result when the
variant arrived) and check.json (result of the last tools/neutralcheck.py run)."""
import json, os, re

ROOT = "/verif/neutral"


def props(path):
    if not os.path.exists(path):
        return None
    d = json.load(open(path))
    return sorted({a["property"] for a in d.get("alarms", [])})


def main():
    ids = sorted((d for d in os.listdir(ROOT) if re.fullmatch(r"C\d\d-n\d+", d)), key=lambda s: (s[:3], int(s.split("-n")[1])))
    out = ["# behaviour-preserving refactorings written by sub-agents: properties whose quick check reported on them",
           "# variant   on arrival            now", ""]
    rounds = {}
    for v in ids:
        a, n = props(f"{ROOT}/{v}/check_asis.json"), props(f"{ROOT}/{v}/check.json")
        k = (int(v.split("-n")[1]) - 1) // 3 + 1
        r = rounds.setdefault(k, [0, 0, 0])
        r[0] += 1
        r[1] += bool(a)
        r[2] += bool(n)
        out.append(f"{v:<9} {','.join(a) if a else '-':<22} {','.join(n) if n else '-'}")
    out.append("")
    for k in sorted(rounds):
        r = rounds[k]
        out.append(f"round {k} (n{3*k-2}-n{3*k}): {r[0]} variants, {r[1]} with a report on arrival, {r[2]} now")
    open(f"{ROOT}/SUMMARY.txt", "w").write("\n".join(out) + "\n")
    print("\n".join(out[-len(rounds):]))


main()
