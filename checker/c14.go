package main

import (
	"fmt"
	"go/ast"
	"go/constant"
	"go/types"
	"sort"
	"strings"

	"golang.org/x/tools/go/ast/astutil"
	"golang.org/x/tools/go/ssa"
)

func init() {
	register(&PropDef{
		ID: "C14",
		Explain: "Decided: D1 type table — every constant stored into purl.PackageURL.Type anywhere in first-party non-test code, and every declared purl.Type* constant, is a key of the table purl.validType consults (so the library's own parser accepts what the library emits); " +
			"D2 Metadata writer/reader agreement — for every registered filesystem extractor, the single-value assertions its ToPURL/Ecosystem make on Package.Metadata are matched by every Package that functions reachable from its Extract allocate (same concrete type, never absent); " +
			"D3 at least one location — every Package allocated in code reachable from an extractor's Extract gets a non-empty Locations value at allocation or through a later store in the same function; " +
			"D4 field-by-field conversion — packageToProto, purlToProto, layerDetailsToProto, sourceCodeIdentifierToProto, qualifiersToProto read every field of their source struct and store each into the like-named destination field; ToCDX and ToSPDX23 write ToPURL(pkg).String() of the same package and ToCDX copies name, version and every location; " +
			"D5 the package index is keyed by the package URL's own type and name (rule shared with C20-D4); D6 panic discipline (bounds prover, no single-value assertions outside Metadata) over purl, packageindex, converter and binary/proto (generated files excluded). " +
			"Added in round 3: D7 the formats' audited omissions (empty name/version) are shared from C03. Added in round 7: D9 results of functions believed to return nil sometimes (a constant nil return, or a nil-compared field handed out) are dereferenced only under a != nil test. Added in round 8: D4 additionally: in the proto converters, whether a field is copied depends only on tests of that same source field. NOT decided: non-empty names (values), percent-encoding round trip (third-party packageurl-go), SPDX/CDX library behaviour, whether SBOM formats carry locations/layer details verbatim.",
		ThoroughGOOS: []string{"linux", "windows", "darwin"},
		Run:          runC14,
		Controls: []Mutant{
			{Name: "type-missing-from-table", File: "purl/purl.go", Old: "		TypeSnap:          true,\n", New: "", Rule: "D1-type-table", Site: "snap"},
			{Name: "literal-type", File: "extractor/filesystem/os/snap/snap.go", Old: "		Type:       purl.TypeSnap,", New: "		Type:       \"snapcraft\",", Rule: "D1-type-table", Site: "snapcraft"},
			{Name: "assert-on-absent-metadata", File: "extractor/filesystem/language/rust/cargolock/cargolock.go", Old: "func (e Extractor) ToPURL(p *extractor.Package) *purl.PackageURL {\n", New: "func (e Extractor) ToPURL(p *extractor.Package) *purl.PackageURL {\n\t_ = p.Metadata.(string)\n", Rule: "D2-metadata", Site: "cargolock"},
			{Name: "locations-dropped", File: "extractor/filesystem/language/rust/cargolock/cargolock.go", Old: "			Locations: []string{input.Path},\n", New: "", Rule: "D3-locations", Site: "cargolock"},
			{Name: "proto-field-swapped", File: "binary/proto/proto.go", Old: "		Namespace:  p.Namespace,\n		Name:       p.Name,", New: "		Namespace:  p.Name,\n		Name:       p.Namespace,", Rule: "D4-conversion", Site: "purlToProto"},
			{Name: "proto-field-dropped", File: "binary/proto/proto.go", Old: "		InBaseImage: ld.InBaseImage,\n", New: "", Rule: "D4-conversion", Site: "layerDetailsToProto"},
			{Name: "cdx-purl-other-package", File: "converter/converter.go", Old: "		if p := ToPURL(pkg); p != nil {\n			comp.PackageURL = p.String()", New: "		if p := ToPURL(r.Inventory.Packages[0]); p != nil {\n			comp.PackageURL = p.String()", Rule: "D4-conversion", Site: "ToCDX"},
			{Name: "parsed-url-used-on-error", File: "extractor/filesystem/sbom/spdx/spdx.go", Old: "					pkg.Name = packageURL.Name\n					m.PURL = &packageURL\n", New: "					m.PURL = &packageURL\n				}\n				if pkg.Name == \"\" {\n					pkg.Name = packageURL.Name\n", Rule: "D1-parsed-url", Site: "spdx"},
			{Name: "index-key", File: "packageindex/package_index.go", Old: "pkgMap[p.Type][p.Name] = append(pkgMap[p.Type][p.Name], pkg)", New: "pkgMap[p.Type][pkg.Name] = append(pkgMap[p.Type][pkg.Name], pkg)", Rule: "D4-index-key", Site: "New"},
		},
		Neutral: c14Neutral,
	})
}

var auditedC14 = map[string]auditEntry{}

func runC14(p *Prog, r *Report) {
	r.Rule("D1-type-table", "every emitted / declared purl type is accepted by validType")
	r.Rule("D1-parsed-url", "the result of purl.FromString is used only when it returned no error")
	r.Rule("D2-metadata", "Metadata asserted by ToPURL/Ecosystem == Metadata written by Extract")
	r.Rule("D3-locations", "every allocated Package gets a non-empty Locations")
	r.Rule("D4-conversion", "converters copy every field into the like-named field")
	r.Rule("D4-index-key", "index keyed by the package URL's type and name")
	r.Rule("D6-bounds", "bounds discipline over purl, packageindex, converter, binary/proto")
	r.Rule("D6-assert", "no unguarded single-value assertion in those packages")
	c14Types(p, r)
	c14ParsedOnlyOnSuccess(p, r)
	c14Metadata(p, r)
	c14Conversion(p, r)
	c20Index(p, r)
	freshPerIteration(p, r, "D4-conversion", "converter", "ToCDX", "Component")
	freshPerIteration(p, r, "D4-conversion", "converter", "ToSPDX23", "Package")
	protoConvertersKeepRecords(p, r, "D4-conversion")
	copiesDependOnlyOnTheirOwnField(p, r, "D4-conversion", "binary/proto", "purlToProto", "layerDetailsToProto", "sourceCodeIdentifierToProto", "packageToProto")
	locationCountCases(p, r, "D4-conversion")
	r.Rule("D8-input-untouched", "the converters do not modify the scan result they convert")
	inputsNotModified(p, r, "D8-input-untouched", "converter", "binary/proto")
	r.Rule("D7-wellformed-omissions", "records without a name or version are left out exactly where the formats' audited omissions say (shared with C03 D3)")
	c03Omissions(p, r, "D7-wellformed-omissions", p.FuncsIn(c03Packages...))
	frozenHelperErrorExits(p, r, "D7-wellformed-omissions", c14HelperErrorExits)
	r.Rule("D9-nullable-results", "the result of a conversion that answers nil for some packages is tested before it is used")
	nullableResultDerefs(p, r, "D9-nullable-results", append(p.FuncsIn("extractor/...", "purl", "packageindex", "converter", "binary/proto", "inventory", "."), p.FuncsIn("detector/...", "enricher/...", "annotator/...")...), "the result of %s is nil for some packages (an SBOM component that only has a CPE has no package URL) and is dereferenced here without a test: Ecosystem()/ToPURL() of such a package — and the conversion of any scan result that contains one — ends in a nil-pointer panic")
	for _, fn := range p.FuncsIn("purl", "packageindex", "converter", "binary/proto") {
		pk := p.pkgOfFn(fn)
		if pk != nil && p.isGenerated(pk, fn.Pos()) {
			continue
		}
		checkBoundsA(p, r, "D6-bounds", fn, auditedC14)
		checkAsserts(p, r, "D6-assert", fn, nil)
	}
}

// validTypeKeys evaluates the map literal in purl.validType.
func validTypeKeys(p *Prog, r *Report) map[string]bool {
	fn := p.Func("purl", "validType")
	if fn == nil {
		r.Undecided("D1-type-table", "anchor:purl.validType", "-", "not found")
		return nil
	}
	// the table is either built inside validType or a package-level map literal it looks up
	var lookup *ssa.Lookup
	forEachInstr(fn, func(_ *ssa.BasicBlock, _ int, in ssa.Instruction) {
		if lk, isL := in.(*ssa.Lookup); isL && lookup == nil {
			if _, isMap := lk.X.Type().Underlying().(*types.Map); isMap {
				lookup = lk
			}
		}
	})
	keys := map[string]bool{}
	nonConst := lookup == nil
	if lookup != nil {
		rows, ok := mapRows(p, fn, lookup.X)
		if !ok {
			nonConst = true
		}
		for _, row := range rows {
			if s, ok := constString(row.Key); ok {
				if b, ok := constBool(row.Val); ok && b {
					keys[s] = true
				}
			} else {
				nonConst = true
			}
		}
	}
	if nonConst || len(keys) == 0 {
		r.Undecided("D1-type-table", "purl.validType:table", p.Pos(fn.Pos()), "the type table is not a map literal of constant keys (local or package-level, with no other writer)")
		return nil
	}
	// the function must answer by looking its (lower-cased) argument up in that table
	ok := false
	forEachInstr(fn, func(_ *ssa.BasicBlock, _ int, in ssa.Instruction) {
		if lk, isL := in.(*ssa.Lookup); isL {
			if derivesFrom(lk.Index, func(v ssa.Value) bool { return v == ssa.Value(fn.Params[0]) }, deriveOpts{throughCall: propagatingCall}) {
				ok = true
			}
		}
	})
	r.Check(ok, "D1-type-table", "purl.validType:lookup", p.Pos(fn.Pos()), "answers by table lookup of its argument", "validType no longer answers by looking its argument up in the table")
	return keys
}

func c14Types(p *Prog, r *Report) {
	keys := validTypeKeys(p, r)
	if keys == nil {
		return
	}
	// declared constants Type*
	pk := p.TPkg("purl")
	nconst := 0
	for _, name := range pk.Types.Scope().Names() {
		c, ok := pk.Types.Scope().Lookup(name).(*types.Const)
		if !ok || !strings.HasPrefix(name, "Type") || len(name) < 5 || name[4] < 'A' || name[4] > 'Z' || c.Val().Kind() != constant.String {
			continue
		}
		nconst++
		v := constant.StringVal(c.Val())
		r.Check(keys[v], "D1-type-table", "const:"+name+"="+v, p.Pos(c.Pos()), "accepted by validType", fmt.Sprintf("purl.%s = %q is not in validType's table: purl.FromString rejects URLs the library itself produces with this type", name, v))
	}
	r.Instances("D1-type-table", "declared purl.Type* constants", nconst, 35)
	// every constant stored into PackageURL.Type
	seen := map[string]bool{}
	nstores := 0
	for _, fn := range p.Funcs() {
		pkk := p.pkgOfFn(fn)
		if pkk != nil && p.isGenerated(pkk, fn.Pos()) {
			continue
		}
		forEachInstr(fn, func(_ *ssa.BasicBlock, _ int, in ssa.Instruction) {
			st, ok := in.(*ssa.Store)
			if !ok {
				return
			}
			s, f, _, ok := fieldOf(st.Addr)
			if !ok || s != "PackageURL" || f != "Type" {
				return
			}
			if n := namedOf(st.Addr.(*ssa.FieldAddr).X.Type()); n == nil || n.Obj().Pkg() == nil || n.Obj().Pkg().Path() != fp("purl") {
				return
			}
			nstores++
			cs, isC := constSetRefined(st.Val)
			if !isC {
				return // copied from a parsed URL etc.
			}
			for _, c := range cs {
				if c == nil || c.Kind() != constant.String {
					continue
				}
				v := constant.StringVal(c)
				site := "emitted:" + v
				if seen[site+fnKey(fn)] {
					continue
				}
				seen[site+fnKey(fn)] = true
				if keys[strings.ToLower(v)] {
					r.OK("D1-type-table", site, p.Pos(st.Pos()), "accepted by validType")
				} else {
					r.Fail("D1-type-table", site, p.Pos(st.Pos()), fmt.Sprintf("%s emits package URLs of type %q, which validType does not accept", fnKey(fn), v))
				}
			}
		})
	}
	r.Instances("D1-type-table", "stores to PackageURL.Type", nstores, 45)
}

// pkgAllocs lists the allocations of extractor.Package in fn with the stores made to their fields.
type pkgAlloc struct {
	fn     *ssa.Function
	alloc  *ssa.Alloc
	fields map[string]ssa.Value
}

func packageAllocs(fn *ssa.Function) []pkgAlloc {
	var out []pkgAlloc
	forEachInstr(fn, func(_ *ssa.BasicBlock, _ int, in ssa.Instruction) {
		al, ok := in.(*ssa.Alloc)
		if !ok {
			return
		}
		pt, ok := al.Type().Underlying().(*types.Pointer)
		if !ok {
			return
		}
		n := namedOf(pt.Elem())
		if n == nil || n.Obj().Name() != "Package" || n.Obj().Pkg() == nil || n.Obj().Pkg().Path() != fp("extractor") {
			return
		}
		if _, isStruct := pt.Elem().Underlying().(*types.Struct); !isStruct {
			return
		}
		pa := pkgAlloc{fn: fn, alloc: al, fields: map[string]ssa.Value{}}
		for _, ref := range *al.Referrers() {
			fa, ok := ref.(*ssa.FieldAddr)
			if !ok {
				continue
			}
			_, f, _, _ := fieldOf(fa)
			for _, r2 := range *fa.Referrers() {
				if st, ok := r2.(*ssa.Store); ok && st.Addr == ssa.Value(fa) {
					pa.fields[f] = st.Val
				}
			}
		}
		out = append(out, pa)
	})
	return out
}

func c14Metadata(p *Prog, r *Report) {
	pk := p.TPkg("extractor/filesystem/list")
	if pk == nil {
		r.Undecided("D2-metadata", "anchor:list", "-", "registry not found")
		return
	}
	te := &tableEval{pk: pk}
	if o, ok := pk.Types.Scope().Lookup("concat").(*types.Func); ok {
		te.concatF = o
	}
	if o, ok := pk.Types.Scope().Lookup("vals").(*types.Func); ok {
		te.valsF = o
	}
	allVar, _ := pk.Types.Scope().Lookup("All").(*types.Var)
	if allVar == nil {
		r.Undecided("D2-metadata", "anchor:list.All", "-", "not found")
		return
	}
	rows := te.evalMap(te.varInit(allVar), 0)
	nex, nalloc, nassert := 0, 0, 0
	doneAlloc := map[*ssa.Alloc]bool{}
	for _, name := range sortedKeys(rows) {
		for _, ctor := range rows[name].Ctors {
			ts, ok := concreteResults(p.ssaFuncOf(ctor), 0)
			if !ok {
				continue
			}
			for _, t := range ts {
				nex++
				ext := p.methodOf(t, "Extract")
				if ext == nil {
					continue
				}
				// asserted types in ToPURL / Ecosystem (and what they call in first-party code)
				asserted := map[string]bool{}
				var assertPos ssa.Instruction
				var readers []*ssa.Function
				for _, m := range []string{"ToPURL", "Ecosystem"} {
					if f := p.methodOf(t, m); f != nil {
						readers = append(readers, f)
					}
				}
				for _, fn := range p.reachableFrom(readers) {
					forEachInstr(fn, func(_ *ssa.BasicBlock, _ int, in ssa.Instruction) {
						if ta, ok := in.(*ssa.TypeAssert); ok && !ta.CommaOk && ta.Pos().IsValid() && loadsField(ta.X, "Package", "Metadata") {
							asserted[ta.AssertedType.String()] = true
							assertPos = in
							nassert++
						}
					})
				}
				// writers
				for _, fn := range p.reachableFrom([]*ssa.Function{ext}) {
					pkk := p.pkgOfFn(fn)
					if pkk != nil && p.isGenerated(pkk, fn.Pos()) {
						continue
					}
					for _, pa := range packageAllocs(fn) {
						nalloc++
						site := fnKey(fn) + ":Package{" + p.compositeNameAt(fn, pa) + "}"
						// D2
						if len(asserted) > 0 {
							mv, has := pa.fields["Metadata"]
							wt := "none"
							if has {
								if mi, ok := mv.(*ssa.MakeInterface); ok {
									wt = mi.X.Type().String()
								} else if isNilConst(mv) {
									wt = "none"
								} else {
									wt = "?" + mv.Type().String()
								}
							}
							// later stores p.Metadata = ... in the same function
							if !has {
								wt = laterMetadataStore(fn, pa.alloc, wt)
							}
							var as []string
							for a := range asserted {
								as = append(as, a)
							}
							sort.Strings(as)
							if !asserted[wt] {
								pos := "-"
								if assertPos != nil {
									pos = p.Pos(assertPos.Pos())
								}
								r.Fail("D2-metadata", name+":"+site, p.Pos(pa.alloc.Pos()), fmt.Sprintf("extractor %s asserts Package.Metadata.(%s) without comma-ok (at %s) but this Package is created with Metadata of type %s: ToPURL/Ecosystem (and every conversion that calls them) panics for it", name, strings.Join(as, "|"), pos, wt))
							} else {
								r.OK("D2-metadata", name+":"+site, p.Pos(pa.alloc.Pos()), "Metadata is "+wt)
							}
						}
						// D3 (once per alloc)
						if doneAlloc[pa.alloc] {
							continue
						}
						doneAlloc[pa.alloc] = true
						c14Locations(p, r, fn, pa, site)
					}
				}
			}
		}
	}
	r.Instances("D2-metadata", "registered filesystem extractors", nex, 55)
	r.Instances("D3-locations", "Package allocations reachable from Extract methods", len(doneAlloc), 60)
	r.Count("single-value Metadata assertions", nassert)
}

func exprName(v ssa.Value) string {
	if v == nil {
		return "?"
	}
	if s, ok := constString(v); ok {
		return fmt.Sprintf("%q", s)
	}
	return short(strings.TrimPrefix(v.String(), "*"), 40)
}

func laterMetadataStore(fn *ssa.Function, al *ssa.Alloc, def string) string {
	out := def
	forEachInstr(fn, func(_ *ssa.BasicBlock, _ int, in ssa.Instruction) {
		st, ok := in.(*ssa.Store)
		if !ok || !storesField("Package", "Metadata")(in) {
			return
		}
		_, _, base, _ := fieldOf(st.Addr)
		if derivesFrom(base, func(v ssa.Value) bool { return v == ssa.Value(al) }, deriveOpts{followStores: true}) {
			if mi, ok := st.Val.(*ssa.MakeInterface); ok {
				out = mi.X.Type().String()
			}
		}
	})
	return out
}

var knownNoLocation = map[string]bool{}

func c14Locations(p *Prog, r *Report, fn *ssa.Function, pa pkgAlloc, site string) {
	lv, has := pa.fields["Locations"]
	nonEmpty := func(v ssa.Value) bool {
		switch x := v.(type) {
		case *ssa.Slice:
			if al, ok := x.X.(*ssa.Alloc); ok {
				if arr, ok := al.Type().Underlying().(*types.Pointer).Elem().Underlying().(*types.Array); ok {
					return arr.Len() >= 1
				}
			}
		case *ssa.Call:
			if isCallTo(x, "builtin", "", "append") {
				return true
			}
		}
		return false
	}
	if has && nonEmpty(lv) {
		r.OK("D3-locations", site, p.Pos(pa.alloc.Pos()), "non-empty Locations at allocation")
		return
	}
	// a later store to .Locations of this package (or of the elements of the slice the function builds) in the same function or its direct callers
	later := false
	check := func(f *ssa.Function) {
		forEachInstr(f, func(_ *ssa.BasicBlock, _ int, in ssa.Instruction) {
			st, ok := in.(*ssa.Store)
			if ok && storesField("Package", "Locations")(in) && nonEmpty(st.Val) {
				if _, isAlloc := func() (ssa.Value, bool) { _, _, b, _ := fieldOf(st.Addr); a, ok := b.(*ssa.Alloc); return a, ok }(); !isAlloc {
					later = true
				}
			}
		})
	}
	check(fn)
	frontier := []*ssa.Function{fn}
	seenF := map[*ssa.Function]bool{fn: true}
	for depth := 0; depth < 4 && !later; depth++ {
		var next []*ssa.Function
		for _, f := range frontier {
			for _, call := range p.calls().callers[f] {
				pf := call.Parent()
				if !seenF[pf] {
					seenF[pf] = true
					check(pf)
					next = append(next, pf)
				}
			}
		}
		frontier = next
	}
	if has && !later {
		// Locations copied from another value (e.g. a parameter): accept when it is not a nil/empty constant
		if !isNilConst(lv) {
			if sl, ok := lv.(*ssa.Slice); !ok || sl != nil {
				r.OK("D3-locations", site, p.Pos(pa.alloc.Pos()), "Locations copied from "+short(lv.String(), 40))
				return
			}
		}
	}
	if later {
		r.OK("D3-locations", site, p.Pos(pa.alloc.Pos()), "Locations filled in by a later store on the built packages")
		return
	}
	r.Fail("D3-locations", site, p.Pos(pa.alloc.Pos()), "this Package is emitted without any location (no Locations at allocation and no later store)")
}

// ---- D4 ----

// checkCover: fn converts *S (param srcIdx) into a freshly allocated D; every exported field of S
// is read and every store into a D field draws only on the like-named S field.
func checkCover(p *Prog, r *Report, fn *ssa.Function, srcIdx int, srcStruct, dstStruct string, derived map[string]bool, rename map[string]string) {
	key := fnKey(fn)
	if fn == nil {
		return
	}
	src := fn.Params[srcIdx]
	st, _ := structOf(src.Type())
	if st == nil {
		if n := namedOf(src.Type()); n != nil {
			if sl, ok := n.Underlying().(*types.Slice); ok {
				st, _ = structOf(sl.Elem())
			}
		}
	}
	if st == nil {
		r.Undecided("D4-conversion", key+":source", p.Pos(fn.Pos()), "source parameter is not a struct")
		return
	}
	isSrcField := func(v ssa.Value) (string, bool) {
		s, f, base, ok := fieldOf(loadAddr(v))
		if !ok || s != srcStruct {
			return "", false
		}
		if derivesFrom(base, func(x ssa.Value) bool { return x == ssa.Value(src) }, deriveOpts{followStores: true}) || base == ssa.Value(src) {
			return f, true
		}
		return "", false
	}
	read := map[string]bool{}
	forEachInstr(fn, func(_ *ssa.BasicBlock, _ int, in ssa.Instruction) {
		if v, ok := in.(ssa.Value); ok {
			if f, ok := isSrcField(v); ok {
				read[f] = true
			}
		}
	})
	for i := 0; i < st.NumFields(); i++ {
		f := st.Field(i)
		if !f.Exported() {
			continue
		}
		r.Check(read[f.Name()], "D4-conversion", key+":reads:"+f.Name(), p.Pos(fn.Pos()), "field read", fmt.Sprintf("%s never reads %s.%s: the converted record silently loses it", key, srcStruct, f.Name()))
	}
	norm := func(s string) string { return strings.ToLower(strings.ReplaceAll(s, "_", "")) }
	forEachInstr(fn, func(_ *ssa.BasicBlock, _ int, in ssa.Instruction) {
		stt, ok := in.(*ssa.Store)
		if !ok {
			return
		}
		s, g, _, ok := fieldOf(stt.Addr)
		if !ok || s != dstStruct || derived[g] {
			return
		}
		var from []string
		seen := map[string]bool{}
		derivesFrom(stt.Val, func(v ssa.Value) bool {
			if f, ok := isSrcField(v); ok && !seen[f] {
				seen[f] = true
				from = append(from, f)
			}
			return false
		}, deriveOpts{throughCall: func(*ssa.CallCommon) bool { return true }})
		sort.Strings(from)
		want := g
		if rn, ok := rename[g]; ok {
			want = rn
		}
		okk := len(from) == 1 && norm(from[0]) == norm(want)
		r.Check(okk, "D4-conversion", key+":writes:"+g, p.Pos(stt.Pos()), "filled from "+srcStruct+"."+strings.Join(from, ","), fmt.Sprintf("%s fills %s.%s from %v instead of the like-named source field", key, dstStruct, g, from))
	})
}

func c14Conversion(p *Prog, r *Report) {
	const pp = "binary/proto"
	if fn := p.Func(pp, "packageToProto"); fn != nil {
		checkCover(p, r, fn, 0, "Package", "Package", map[string]bool{"Purl": true, "Ecosystem": true, "state": true, "sizeCache": true, "unknownFields": true, "Metadata": true}, map[string]string{})
		// Metadata goes through setProtoMetadata(pkg.Metadata, proto)
		okM := false
		forEachInstr(fn, func(_ *ssa.BasicBlock, _ int, in ssa.Instruction) {
			if c, ok := in.(*ssa.Call); ok && refOf(c.Common()).is(fp(pp), "", "setProtoMetadata") && loadsField(c.Call.Args[0], "Package", "Metadata") {
				okM = true
			}
		})
		r.Check(okM, "D4-conversion", fnKey(fn)+":metadata", p.Pos(fn.Pos()), "setProtoMetadata(pkg.Metadata, proto)", "packageToProto does not convert the package's Metadata")
		// Purl is purlToProto(converter.ToPURL(pkg)) of the same pkg
		okP := false
		forEachInstr(fn, func(_ *ssa.BasicBlock, _ int, in ssa.Instruction) {
			if c, ok := in.(*ssa.Call); ok && refOf(c.Common()).is(fp("converter"), "", "ToPURL") && c.Call.Args[0] == ssa.Value(fn.Params[0]) {
				okP = true
			}
		})
		r.Check(okP, "D4-conversion", fnKey(fn)+":purl", p.Pos(fn.Pos()), "Purl = purlToProto(ToPURL(pkg))", "the proto's package URL is not computed from the package being converted")
	} else {
		r.Undecided("D4-conversion", "anchor:packageToProto", "-", "not found")
	}
	for _, c := range []struct {
		fn, src, dst string
		derived      map[string]bool
	}{
		{"purlToProto", "PackageURL", "Purl", map[string]bool{"Purl": true}},
		{"layerDetailsToProto", "LayerDetails", "LayerDetails", nil},
		{"sourceCodeIdentifierToProto", "SourceCodeIdentifier", "SourceCodeIdentifier", nil},
		{"qualifiersToProto", "Qualifier", "Qualifier", nil},
	} {
		fn := p.Func(pp, c.fn)
		if fn == nil {
			r.Undecided("D4-conversion", "anchor:"+c.fn, "-", "not found")
			continue
		}
		d := map[string]bool{"state": true, "sizeCache": true, "unknownFields": true}
		for k := range c.derived {
			d[k] = true
		}
		checkCover(p, r, fn, 0, c.src, c.dst, d, map[string]string{"DiffId": "DiffID"})
	}
	// purlToProto.Purl = p.String()
	if fn := p.Func(pp, "purlToProto"); fn != nil {
		okS := false
		forEachInstr(fn, func(_ *ssa.BasicBlock, _ int, in ssa.Instruction) {
			if st, ok := in.(*ssa.Store); ok {
				if s, g, _, ok := fieldOf(st.Addr); ok && s == "Purl" && g == "Purl" {
					if c, _ := callValue(st.Val); c != nil && refOf(c.Common()).is(fp("purl"), "PackageURL", "String") {
						okS = true
					}
				}
			}
		})
		r.Check(okS, "D4-conversion", fnKey(fn)+":string", p.Pos(fn.Pos()), "Purl = p.String()", "the proto's URL string is not p.String()")
	}
	// SBOM converters
	for _, cv := range []struct{ fn, dstStruct, urlField string }{{"ToCDX", "Component", "PackageURL"}, {"ToSPDX23", "PackageExternalReference", "Locator"}} {
		fn := p.Func("converter", cv.fn)
		if fn == nil {
			r.Undecided("D4-conversion", "anchor:converter."+cv.fn, "-", "not found")
			continue
		}
		key := fnKey(fn)
		// the package being converted: element of r.Inventory.Packages at the loop index
		isPkg := func(v ssa.Value) bool {
			u, ok := v.(*ssa.UnOp)
			if !ok {
				return false
			}
			ia, ok := u.X.(*ssa.IndexAddr)
			if !ok {
				return false
			}
			if _, isC := ia.Index.(*ssa.Const); isC {
				return false
			}
			return loadsField(ia.X, "Inventory", "Packages")
		}
		var tp *ssa.Call
		forEachInstr(fn, func(_ *ssa.BasicBlock, _ int, in ssa.Instruction) {
			if c, ok := in.(*ssa.Call); ok && refOf(c.Common()).is(fp("converter"), "", "ToPURL") {
				tp = c
			}
		})
		if tp == nil {
			r.Fail("D4-conversion", key+":purl", p.Pos(fn.Pos()), cv.fn+" does not compute the package URL with ToPURL")
			continue
		}
		r.Check(isPkg(tp.Call.Args[0]), "D4-conversion", key+":purl-of-current-package", p.Pos(tp.Pos()), "ToPURL(current package)", cv.fn+" computes the package URL of something other than the package being converted")
		okURL := false
		forEachInstr(fn, func(_ *ssa.BasicBlock, _ int, in ssa.Instruction) {
			st, ok := in.(*ssa.Store)
			if !ok {
				return
			}
			if s, g, _, ok := fieldOf(st.Addr); ok && s == cv.dstStruct && g == cv.urlField {
				if c, _ := callValue(st.Val); c != nil && refOf(c.Common()).is(fp("purl"), "PackageURL", "String") && loadAddr(c.Call.Args[0]) == ssa.Value(tp) {
					okURL = true
				}
			}
		})
		r.Check(okURL, "D4-conversion", key+":url-string", p.Pos(tp.Pos()), cv.dstStruct+"."+cv.urlField+" = ToPURL(pkg).String()", cv.fn+" does not write ToPURL(pkg).String() as the record's package URL")
		if cv.fn == "ToCDX" {
			// the URL is left out of a component only when the package has none
			frozenSkips(p, r, "D4-conversion", key+":url-always-written", fn, storesField("Component", "PackageURL"), c14CDXURLSkips, "CDXURL",
				"a component can be written without its package URL although the package has one (e.g. when the URL's version is empty): the SBOM record does not preserve the package URL")
			for _, f := range []string{"Name", "Version"} {
				okF := false
				forEachInstr(fn, func(_ *ssa.BasicBlock, _ int, in ssa.Instruction) {
					st, ok := in.(*ssa.Store)
					if !ok {
						return
					}
					if s, g, _, ok := fieldOf(st.Addr); ok && s == "Component" && g == f {
						if s2, f2, base, ok := fieldOf(loadAddr(st.Val)); ok && s2 == "Package" && f2 == f && isPkg(base) {
							okF = true
						}
					}
				})
				r.Check(okF, "D4-conversion", key+":"+f, p.Pos(fn.Pos()), "component."+f+" = pkg."+f, "ToCDX does not copy the package's "+f+" into the component")
			}
			// every location: loop over pkg.Locations appending EvidenceOccurrence{Location: loc}
			okL := false
			forEachInstr(fn, func(_ *ssa.BasicBlock, _ int, in ssa.Instruction) {
				st, ok := in.(*ssa.Store)
				if !ok {
					return
				}
				if s, g, _, ok := fieldOf(st.Addr); ok && s == "EvidenceOccurrence" && g == "Location" && inLoop(st.Block()) {
					if derivesFrom(st.Val, func(v ssa.Value) bool {
						s2, f2, base, ok := fieldOf(loadAddr(v))
						return ok && s2 == "Package" && f2 == "Locations" && isPkg(base)
					}, deriveOpts{}) {
						okL = true
					}
				}
			})
			r.Check(okL, "D4-conversion", key+":Locations", p.Pos(fn.Pos()), "an occurrence per location", "ToCDX does not record every location of the package")
		}
	}
}

// c14CDXURLSkips: the decisions after which ToCDX writes a component without PackageURL.
var c14CDXURLSkips = []string{
	// the package's extractor yields no package URL
	"extractor.ToPURL(param0.Inventory.Packages[ι].Extractor,param0.Inventory.Packages[ι]) == nil:*github.com/google/osv-scalibr/purl.PackageURL",
	// end of the inventory
	"range-end: param0.Inventory.Packages",
}

// compositeNameAt renders the source text of the Name element of the &extractor.Package{...}
// literal that produced the allocation (stable across unrelated edits, unlike SSA temp names).
func (p *Prog) compositeNameAt(fn *ssa.Function, pa pkgAlloc) string {
	pk := p.pkgOfFn(fn)
	pos := pa.alloc.Pos()
	if pk != nil && pos.IsValid() {
		for _, f := range pk.Syntax {
			if f.Pos() <= pos && pos <= f.End() {
				path, _ := astutil.PathEnclosingInterval(f, pos, pos)
				for _, n := range path {
					if cl, ok := n.(*ast.CompositeLit); ok {
						for _, el := range cl.Elts {
							if kv, ok := el.(*ast.KeyValueExpr); ok {
								if id, ok := kv.Key.(*ast.Ident); ok && id.Name == "Name" {
									return "Name: " + types.ExprString(kv.Value)
								}
							}
						}
						return "literal without Name"
					}
				}
			}
		}
	}
	return exprName(pa.fields["Name"])
}

// c14ParsedOnlyOnSuccess: every use of the PackageURL returned by purl.FromString is dominated by
// err == nil (on failure FromString returns the zero URL, whose type the parser itself rejects).
func c14ParsedOnlyOnSuccess(p *Prog, r *Report) {
	n := 0
	for _, fn := range p.Funcs() {
		forEachInstr(fn, func(_ *ssa.BasicBlock, _ int, in ssa.Instruction) {
			call, ok := in.(*ssa.Call)
			if !ok || !refOf(call.Common()).is(fp("purl"), "", "FromString") {
				return
			}
			n++
			fa := newFA(p, r, fn)
			isErr := func(v ssa.Value) bool {
				ex, ok := v.(*ssa.Extract)
				return ok && ex.Tuple == ssa.Value(call) && ex.Index == 1
			}
			_, okEdges := guardEdges(fn, condNonNil(isErr))
			site := fa.key + ":purl.FromString"
			if len(okEdges) == 0 {
				r.Fail("D1-parsed-url", site, p.Pos(call.Pos()), "the error of purl.FromString is not tested before its result is used")
				return
			}
			var users []ssa.Instruction
			for _, ref := range *call.Referrers() {
				ex, ok := ref.(*ssa.Extract)
				if !ok || ex.Index != 0 {
					continue
				}
				for _, u := range *ex.Referrers() {
					if st, ok := u.(*ssa.Store); ok {
						if al, ok := st.Addr.(*ssa.Alloc); ok && st.Val == ssa.Value(ex) {
							for _, u2 := range *al.Referrers() {
								if u2 != u {
									if _, dbg := u2.(*ssa.DebugRef); !dbg {
										users = append(users, u2)
									}
								}
							}
							continue
						}
					}
					if _, dbg := u.(*ssa.DebugRef); !dbg {
						users = append(users, u)
					}
				}
			}
			bad := 0
			for _, u := range users {
				if !onlyVia(fn, u.Block(), okEdges) {
					bad++
					r.Fail("D1-parsed-url", site, p.Pos(u.Pos()), "the PackageURL returned by purl.FromString is used on a path where its error was not found nil: a package then carries the zero URL (type \"\"), which the library's own parser rejects")
				}
			}
			if bad == 0 {
				r.OK("D1-parsed-url", site, p.Pos(call.Pos()), fmt.Sprintf("%d uses, all under err == nil", len(users)))
			}
		})
	}
	r.Instances("D1-parsed-url", "calls of purl.FromString", n, 2)
}
