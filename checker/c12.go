package main

import (
	"fmt"
	"go/token"
	"go/types"
	"os"
	"sort"
	"strings"

	"golang.org/x/tools/go/ssa"
)

func init() {
	register(&PropDef{
		ID: "C12",
		Explain: "Decided (plumbing between analysis, report and written manifest; every clause is a necessary condition of 're-analysis matches the report'): " +
			"D1 one view of the vulnerabilities — ConstructPatches diffs the filtered Vulns list of the original against the filtered Vulns list of the patched manifest, and computeVulnsResult reports that same list (no function mixes in UnfilteredVulns); " +
			"D2 de-duplication equality is the sort order's equality — every slices.CompactFunc over a slice the same function sorted uses 'comparator(a,b) == 0' with that very comparator, and ConstructPatches' comparator compares Name, VersionFrom, VersionTo and Type, mirrored; " +
			"D3 the reported updates are the manifest diff — PackageUpdate{Name, VersionFrom, VersionTo} come from the new requirement and the old requirement with the same requirement key, and a changed requirement is left out only under the audited decisions (frozen table); choosePatches returns unmodified elements of allPatches and skips a patch only under the audited decisions; " +
			"D4 what is written is what is reported — doStrategy/Update pass to writeManifestPatches the very patch list they return in Result.Patches, the manifest they parsed from the same path, and return its error; writeManifestPatches hands all of it to the ReadWriter; common.ComputePatches builds every patch with ConstructPatches(original, strategy result); " +
			"D5 unactionable — computeVulnsResult marks a vulnerability unactionable exactly when its ID is absent from the set of all Fixed IDs of allPatches (built without omissions), and doStrategy gives it the same allPatches that choosePatches selects from; " +
			"D6 the package.json writer applies every update or fails, and changes nothing else (rules shared with C13). " +
			"Added in round 2: D1 additionally: every vulnerability filter is MatchVuln(*opts, v) on the caller's options object and the explicit-list expansion is stored into that object; the pom.xml writer marks a section as handled under the origin whose patches it applied (C13 D6). Added in round 3: D7 MatchVuln equals the option semantics (decision table); D8 manifest Clone reads every field and iterates only over the receiver's data; D9/D10 pom.xml identity and parent-origin agreement (shared with C13). Added in round 7: D13 OriginalDependency answers with the first declaration that has a version (returned from inside the loop). NOT decided: that resolving the written manifest again yields the reported vulnerability sets (resolver, matcher and registry behaviour; alias/duplicate requirement semantics inside PatchRequirement); the pom.xml writer's application of updates (XML rewriting by position — see C13 for its decided clauses).",
		Run: runC12,
		Controls: []Mutant{
			{Name: "diff-against-unfiltered", File: "guidedremediation/internal/remediation/remediation.go", Old: "	for _, v := range oldRes.Vulns {\n		fixedVulns[v.OSV.ID] = &v", New: "	for _, v := range oldRes.UnfilteredVulns {\n		fixedVulns[v.OSV.ID] = &v", Rule: "D1-one-view", Site: "ConstructPatches"},
			{Name: "dedupe-by-name-and-target", File: "guidedremediation/internal/remediation/remediation.go", Old: "	output.PackageUpdates = slices.CompactFunc(output.PackageUpdates, func(a, b result.PackageUpdate) bool {\n		return cmpFn(a, b) == 0\n	})", New: "	output.PackageUpdates = slices.CompactFunc(output.PackageUpdates, func(a, b result.PackageUpdate) bool {\n		return a.Name == b.Name && a.VersionTo == b.VersionTo\n	})", Rule: "D2-dedupe-equality", Site: "ConstructPatches"},
			{Name: "comparator-drops-versionfrom", File: "guidedremediation/internal/remediation/remediation.go", Old: "		if c := cmp.Compare(a.VersionFrom, b.VersionFrom); c != 0 {\n			return c\n		}\n", New: "", Rule: "D2-dedupe-equality", Site: "VersionFrom"},
			{Name: "version-to-from-old", File: "guidedremediation/internal/remediation/remediation.go", Old: "			VersionFrom: oldReq.Version,\n			VersionTo:   req.Version,", New: "			VersionFrom: req.Version,\n			VersionTo:   oldReq.Version,", Rule: "D3-update-is-diff", Site: "ConstructPatches"},
			{Name: "skip-transitive-updates", File: "guidedremediation/internal/remediation/remediation.go", Old: "		if req.Version == oldReq.Version {\n			continue\n		}\n", New: "		if req.Version == oldReq.Version || len(oldRes.Vulns) == 0 {\n			continue\n		}\n", Rule: "D3-update-is-diff", Site: "ConstructPatches"},
			{Name: "write-all-report-chosen", File: "guidedremediation/guidedremediation.go", Old: "	err = writeManifestPatches(opts.Manifest, m, res.Patches, rw)\n\n	return res, err", New: "	err = writeManifestPatches(opts.Manifest, m, allPatches, rw)\n\n	return res, err", Rule: "D4-written-is-reported", Site: "doStrategy"},
			{Name: "write-error-dropped", File: "guidedremediation/guidedremediation.go", Old: "	err = writeManifestPatches(opts.Manifest, m, res.Patches, rw)\n\n	return res, err", New: "	_ = writeManifestPatches(opts.Manifest, m, res.Patches, rw)\n\n	return res, nil", Rule: "D4-written-is-reported", Site: "doStrategy"},
			{Name: "unactionable-from-chosen-only", File: "guidedremediation/guidedremediation.go", Old: "	res.Vulnerabilities = computeVulnsResult(resolved, allPatches)\n	res.Patches = choosePatches(allPatches, opts.MaxUpgrades, opts.NoIntroduce)", New: "	res.Patches = choosePatches(allPatches, opts.MaxUpgrades, opts.NoIntroduce)\n	res.Vulnerabilities = computeVulnsResult(resolved, res.Patches[:0])", Rule: "D5-unactionable", Site: "doStrategy"},
			{Name: "fixable-skips-introducing-patches", File: "guidedremediation/guidedremediation.go", Old: "	for _, p := range allPatches {\n		for _, v := range p.Fixed {", New: "	for _, p := range allPatches {\n		if len(p.Introduced) > 0 {\n			continue\n		}\n		for _, v := range p.Fixed {", Rule: "D5-unactionable", Site: "computeVulnsResult"},
			{Name: "choose-ignores-nointroduce", File: "guidedremediation/guidedremediation.go", Old: "		if noIntroduce && len(patch.Introduced) > 0 {\n			continue\n		}\n", New: "", Rule: "D3-update-is-diff", Site: "choosePatches"},
			{Name: "filter-with-private-options-copy", File: "guidedremediation/internal/remediation/remediation.go", Old: "	filteredVulns = slices.DeleteFunc(filteredVulns, func(v resolution.Vulnerability) bool { return !MatchVuln(*opts, v) })\n	return ResolvedGraph{", New: "	matchOpts := *opts\n	filteredVulns = slices.DeleteFunc(filteredVulns, func(v resolution.Vulnerability) bool { return !MatchVuln(matchOpts, v) })\n	return ResolvedGraph{", Rule: "D1-one-view", Site: "ResolveGraphVulns"},
			{Name: "devdeps-test-inverted", File: "guidedremediation/internal/remediation/match.go", Old: "	if !opts.DevDeps && v.DevOnly {", New: "	if opts.DevDeps && v.DevOnly {", Rule: "D7-filter-semantics", Site: "MatchVuln"},
			{Name: "severity-or-depth", File: "guidedremediation/internal/remediation/match.go", Old: "	return matchSeverity(v, opts.MinSeverity) && matchDepth(v, opts.MaxDepth)", New: "	return matchSeverity(v, opts.MinSeverity) || matchDepth(v, opts.MaxDepth)", Rule: "D7-filter-semantics", Site: "MatchVuln"},
		},
		Neutral: c12Neutral,
	})
}

// c12Sanctioned: audited decisions after which the current element is not reported
// (regenerate candidates with SCALINT_LEARN=1 and confirm each by reading).
var c12Sanctioned = map[string][]string{
	"guidedremediation/internal/remediation.ConstructPatches": {
		// end of the patched manifest's requirements
		"range-end: guidedremediation/internal/manifest.Requirements(param1.Manifest)",
		// the requirement has the same version as the original requirement with the same key: not an update
		"guidedremediation/internal/manifest.Requirements(param1.Manifest)[ι].VersionKey.Version == make(map)[guidedremediation/internal/resolution.MakeRequirementKey(guidedremediation/internal/manifest.Requirements(param1.Manifest)[ι])]#0.VersionKey.Version",
	},
	"guidedremediation.choosePatches": {
		"range-end: param0",
		// incompatible with an already chosen patch: touches a package already changed / fixes a vulnerability already fixed
		"slices.ContainsFunc(param0[ι].PackageUpdates,*ssa.MakeClosure)",
		"slices.ContainsFunc(param0[ι].Fixed,*ssa.MakeClosure)",
		// the no-introduce option (second half of `noIntroduce && len(patch.Introduced) > 0`)
		"builtin.len(param0[ι].Introduced) != 0 && param2",
	},
	// the fixable set and the reported list are built without omissions: loop ends only
	"guidedremediation.computeVulnsResult": {
		"range-end: param0.ResolvedGraph.Vulns",
		"range-end: param1",
		"range-end: param1[ι].Fixed",
		"range-end: param1[ι].Fixed",
	},
	"guidedremediation/internal/strategy/common.ComputePatches": {
		// all strategy runs have reported
		"φ:int <= 0:int",
		// the strategy could not patch these vulnerabilities
		"<-*ssa.MakeChan.Err != nil:error",
		// the strategy changed nothing
		"builtin.len(guidedremediation/internal/remediation.ConstructPatches(param1,<-*ssa.MakeChan.Resolved).PackageUpdates) == 0",
	},
}

func runC12(p *Prog, r *Report) {
	r.Rule("D1-one-view", "old and new vulnerabilities are compared on the same (filtered) list that is reported")
	r.Rule("D2-dedupe-equality", "de-duplication uses the sort comparator's equality; the update comparator covers every identifying field")
	r.Rule("D3-update-is-diff", "reported updates are the requirement diff; elements are left out only under audited decisions")
	r.Rule("D4-written-is-reported", "the written patch list, manifest and path are the reported ones; the write error is returned")
	r.Rule("D5-unactionable", "unactionable == not fixed by any computed patch")
	r.Rule("D1-escaped-path", "dependency names reach gjson/sjson paths only through gjson.Escape")
	r.Rule("D3-applied-or-error", "package.json: an update is applied or Write fails")
	r.Rule("D4-identity", "package.json: the buffer changes only inside the update loop; it is what gets written")
	r.Rule("D6-section-bookkeeping", "pom.xml: a section is marked as handled under the origin whose patches were applied to it")
	r.Rule("D7-filter-semantics", "MatchVuln decides exactly as the option semantics says")
	r.Rule("D8-clone", "a manifest clone carries every field of the original")
	r.Rule("D9-identity", "pom.xml: projects and dependencies are identified the same way by the reader and the writer")
	r.Rule("D10-parent-origin", "pom.xml writer: a parent's requirements are filed under the path of the parent file that was opened")
	c12Clone(p, r)
	c13Identity(p, r)
	c13ParentOrigin(p, r, "D10-parent-origin")
	c12MatchTable(p, r)
	c12View(p, r)
	c12Dedupe(p, r)
	c12Diff(p, r)
	c12Plumbing(p, r)
	c12Unactionable(p, r)
	c13PackageJSON(p, r)
	c13Sections(p, r)
	// an update filed under an origin the writer never looks up is reported but not written (shared with C13)
	r.Rule("D5-origin-separator", "pom.xml: origin strings are split, joined and trimmed with the '@' separator")
	c13Origins(p, r)
	r.Rule("D11-analysis-current", "a strategy's result pairs the patched manifest with the analysis of that manifest")
	analysisFollowsManifest(p, r, "D11-analysis-current")
	r.Rule("D12-requirement-identity", "old and new requirements are paired by RequirementKey, never by package alone")
	requirementsPairedByKey(p, r, "D12-requirement-identity")
	r.Rule("D13-first-declaration", "pom.xml writer edits the declaration the resolver reads: the first one with a version")
	firstMatchWins(p, r, "D13-first-declaration", p.Func("guidedremediation/internal/manifest/maven", "OriginalDependency"), 1, "OriginalDependency no longer answers with the first declaration of the dependency that carries a version: for a dependency declared twice (in <dependencies> and in <dependencyManagement>, in the project and in a profile) the writer edits a later declaration while Maven — and the next analysis of the written file — reads the first, so a patch reported as fixing a vulnerability leaves the vulnerable version in place")
	// shared with C13 (D12-property-conflicts): an overwritten property writes a requirement at a version no analysis looked at
	r.Rule("D14-property-conflicts", "pom.xml: the 'property already set?' test reads the cell the value is stored in")
	guardedInsertSameCell(p, r, "D14-property-conflicts", p.Func("guidedremediation/internal/manifest/maven", "buildPatches"), 1, "the test 'was this property already given a value?' reads another origin's table than the one the value is stored in: a second update sharing the property silently replaces the value of the first, so a dependency is written at a version the reported analysis never resolved — re-analysing the written pom.xml no longer gives 'original minus fixed plus introduced'")
}

const (
	pkgRemediation = "guidedremediation/internal/remediation"
	pkgGR          = "guidedremediation"
)

func isVulnSlice(t types.Type) bool {
	sl, ok := t.Underlying().(*types.Slice)
	if !ok {
		return false
	}
	n := namedOf(sl.Elem())
	return n != nil && n.Obj().Name() == "Vulnerability" && n.Obj().Pkg() != nil && strings.HasSuffix(n.Obj().Pkg().Path(), "internal/resolution")
}

// vulnListReads: for every load of a []resolution.Vulnerability field rooted at a parameter of fn
// (closures included), parameter index -> field names.
func vulnListReads(fn *ssa.Function) map[int]map[string]bool {
	out := map[int]map[string]bool{}
	for _, f := range withAnon(fn) {
		forEachInstr(f, func(_ *ssa.BasicBlock, _ int, in ssa.Instruction) {
			u, ok := in.(*ssa.UnOp)
			if !ok || u.Op != token.MUL || !isVulnSlice(u.Type()) {
				return
			}
			_, fld, base, ok := fieldOf(u.X)
			if !ok {
				return
			}
			root := rootParam(base)
			for i, prm := range fn.Params {
				if root == ssa.Value(prm) {
					if out[i] == nil {
						out[i] = map[string]bool{}
					}
					out[i][fld] = true
				}
			}
		})
	}
	return out
}

func c12View(p *Prog, r *Report) {
	cp := p.Func(pkgRemediation, "ConstructPatches")
	cv := p.Func(pkgGR, "computeVulnsResult")
	if cp == nil || cv == nil {
		r.Undecided("D1-one-view", "anchor:ConstructPatches/computeVulnsResult", "-", "not found")
		return
	}
	n := 0
	for _, x := range []struct {
		fn   *ssa.Function
		prms []int
		what string
	}{{cp, []int{0, 1}, "ConstructPatches"}, {cv, []int{0}, "computeVulnsResult"}} {
		reads := vulnListReads(x.fn)
		for _, i := range x.prms {
			var flds []string
			for f := range reads[i] {
				flds = append(flds, f)
			}
			sort.Strings(flds)
			n += len(flds)
			side := []string{"original", "patched"}[i]
			if x.what == "computeVulnsResult" {
				side = "resolved"
			}
			ok := len(flds) == 1 && flds[0] == "Vulns"
			r.Check(ok, "D1-one-view", fmt.Sprintf("%s:%s", x.what, side), p.Pos(x.fn.Pos()), "reads the filtered list Vulns",
				fmt.Sprintf("%s reads %v of the %s result instead of exactly the filtered Vulns list: vulnerabilities the options hide are compared against (or reported with) ones they do not hide, so Fixed/Introduced disagree with a fresh analysis under the same options", x.what, flds, side))
		}
	}
	r.Instances("D1-one-view", "vulnerability-list reads", n, 3)

	// one options object: every filter of a vulnerability list (the original analysis and every
	// re-analysis inside the strategies) is MatchVuln(*opts, v) on the options pointer the caller
	// handed in, and the explicit-list expansion is stored into that same object — so the original and
	// the patched lists are filtered alike
	nm := 0
	for _, fnn := range p.Funcs() {
		if !strings.HasPrefix(fnKey(fnn), "guidedremediation/internal/") {
			continue
		}
		forEachInstr(fnn, func(_ *ssa.BasicBlock, _ int, in ssa.Instruction) {
			c, ok := in.(*ssa.Call)
			if !ok || !refOf(c.Common()).is(fp(pkgRemediation), "", "MatchVuln") {
				return
			}
			nm++
			// arg0 = *X where X is (a captured / parameter) *RemediationOptions
			okO := false
			if u, isU := c.Call.Args[0].(*ssa.UnOp); isU && u.Op == token.MUL {
				root := u.X
				loads := 1
				if u2, ok := root.(*ssa.UnOp); ok && u2.Op == token.MUL {
					root = u2.X // load of the captured variable
					loads = 2
				}
				switch x := root.(type) {
				case *ssa.Parameter:
					okO = isOptsPtr(x.Type()) && loads == 1
				case *ssa.FreeVar:
					// a captured pointer variable is a **Options cell read with two loads; a single load
					// of a *Options free variable reads a captured local *copy* of the options
					okO = loads == 2 && isOptsPtrPtr(x.Type())
					if okO {
						okO = freeVarIsParamCell(fnn, x)
					}
				case *ssa.Alloc:
					// spilled parameter
					ss := storesTo(x)
					if len(ss) == 1 && loads == 2 {
						if prm, ok := ss[0].(*ssa.Parameter); ok {
							okO = isOptsPtr(prm.Type())
						}
					}
				}
			}
			// a filter predicate built on MatchVuln removes exactly what MatchVuln rejects: the closure
			// answers !MatchVuln(…) and nothing else (an extra conjunct keeps or drops vulnerabilities
			// in the patched analysis that the original analysis treats the other way)
			if fnn.Parent() != nil && fnn.Signature.Results().Len() == 1 {
				if bt, isB := fnn.Signature.Results().At(0).Type().Underlying().(*types.Basic); isB && bt.Kind() == types.Bool {
					exact := true
					for _, ret := range returnsOf(fnn) {
						inner, flip := stripNot(retVal(ret, 0))
						if inner != ssa.Value(c) || !flip {
							exact = false
						}
					}
					r.Check(exact, "D1-one-view", fnKey(fnn)+":filter-is-matchvuln", p.Pos(c.Pos()), "the predicate is !MatchVuln(*opts, v)", "a vulnerability list is filtered by something other than exactly !MatchVuln(options, v): the list the patched analysis keeps differs from what a fresh analysis with the same options would keep, so Fixed/Introduced and a re-run disagree")
				}
			}
			r.Check(okO, "D1-one-view", fnKey(fnn)+":filter-options", p.Pos(c.Pos()), "MatchVuln(*opts, v) on the caller's options object", "a vulnerability list is filtered with a private copy of the options instead of the options object shared by the analysis and the strategies: the explicit-list / ignore-list expansion made for the original analysis is not applied to the patched one (or vice versa), so Fixed/Introduced are computed from differently filtered lists")
		})
	}
	r.Instances("D1-one-view", "MatchVuln filter sites", nm, 3)
	// the explicit-list expansion writes opts.IgnoreVulns of the parameter
	if rg := p.Func(pkgRemediation, "ResolveGraphVulns"); rg != nil {
		okS, ns := true, 0
		for _, f := range withAnon(rg) {
			forEachInstr(f, func(_ *ssa.BasicBlock, _ int, in ssa.Instruction) {
				st, ok := in.(*ssa.Store)
				if !ok {
					return
				}
				if _, fld, base, ok := fieldOf(st.Addr); ok && fld == "IgnoreVulns" {
					ns++
					root := rootParam(base)
					isP := false
					for _, prm := range rg.Params {
						if root == ssa.Value(prm) {
							isP = true
						}
					}
					if !isP {
						okS = false
					}
				}
			})
		}
		r.Check(okS && ns > 0, "D1-one-view", "ResolveGraphVulns:explicit-list-expansion", p.Pos(rg.Pos()), "vulnerabilities outside the explicit list are added to the shared options' ignore list", "the explicit-list expansion is not stored into the options object the strategies filter with")
	}
}

func isOptsPtr(t types.Type) bool {
	pt, ok := t.Underlying().(*types.Pointer)
	if !ok {
		return false
	}
	n := namedOf(pt.Elem())
	return n != nil && n.Obj().Name() == "RemediationOptions"
}

func isOptsPtrPtr(t types.Type) bool {
	pt, ok := t.Underlying().(*types.Pointer)
	return ok && isOptsPtr(pt.Elem())
}

// closureFunc resolves a func-typed value to the closure/function it denotes, following a local
// variable that is assigned exactly once (cmpFn := func…, captured by reference).
func closureFunc(v ssa.Value, in *ssa.Function) *ssa.Function {
	switch x := v.(type) {
	case *ssa.MakeClosure, *ssa.Function, *ssa.ChangeType:
		return funcValue(v)
	case *ssa.UnOp:
		if x.Op != token.MUL {
			return nil
		}
		switch a := x.X.(type) {
		case *ssa.Alloc:
			ss := storesTo(a)
			if len(ss) == 1 {
				return closureFunc(ss[0], in)
			}
		case *ssa.FreeVar:
			// binding in the MakeClosure that created `in`
			par := in.Parent()
			if par == nil {
				return nil
			}
			var res *ssa.Function
			for _, pf := range withAnon(par) {
				forEachInstr(pf, func(_ *ssa.BasicBlock, _ int, ins ssa.Instruction) {
					mc, ok := ins.(*ssa.MakeClosure)
					if !ok || mc.Fn != ssa.Value(in) {
						return
					}
					for i, fv := range in.FreeVars {
						if fv == a {
							if al, ok := mc.Bindings[i].(*ssa.Alloc); ok {
								ss := storesTo(al)
								if len(ss) == 1 {
									res = closureFunc(ss[0], pf)
								}
							}
						}
					}
				})
			}
			return res
		}
	}
	return nil
}

func c12Dedupe(p *Prog, r *Report) {
	n := 0
	for _, fn := range p.Funcs() {
		if !strings.HasPrefix(fnKey(fn), "guidedremediation") {
			continue
		}
		type sortCall struct {
			c   *ssa.Call
			cmp *ssa.Function
		}
		var sorts []sortCall
		forEachInstr(fn, func(_ *ssa.BasicBlock, _ int, in ssa.Instruction) {
			c, ok := in.(*ssa.Call)
			if !ok || refOf(c.Common()).Pkg != "slices" || !strings.HasPrefix(refOf(c.Common()).Name, "SortFunc") {
				return
			}
			sorts = append(sorts, sortCall{c, closureFunc(c.Call.Args[1], fn)})
		})
		forEachInstr(fn, func(b *ssa.BasicBlock, _ int, in ssa.Instruction) {
			c, ok := in.(*ssa.Call)
			if !ok || refOf(c.Common()).Pkg != "slices" || !strings.HasPrefix(refOf(c.Common()).Name, "CompactFunc") {
				return
			}
			// the sort of the same slice that dominates this call
			var sc *sortCall
			for i := range sorts {
				s := &sorts[i]
				if s.c.Block().Dominates(b) && (s.c.Call.Args[0] == c.Call.Args[0] || sameCell(s.c.Call.Args[0], c.Call.Args[0])) {
					sc = s
				}
			}
			site := fmt.Sprintf("%s:compact(%s)", fnKey(fn), typeShort(c.Call.Args[0].Type()))
			if sc == nil {
				r.Trivial("D2-dedupe-equality", site, p.Pos(c.Pos()), "no sort of the same slice in this function to compare against")
				return
			}
			n++
			pred := closureFunc(c.Call.Args[1], fn)
			ok2 := false
			if pred != nil && sc.cmp != nil && len(pred.Blocks) > 0 {
				ok2 = true
				nret := 0
				for _, ret := range returnsOf(pred) {
					nret++
					bo, isB := retVal(ret, 0).(*ssa.BinOp)
					if !isB || bo.Op != token.EQL {
						ok2 = false
						continue
					}
					z, isZ := constInt(bo.Y)
					call, isC := bo.X.(*ssa.Call)
					if !isZ || z != 0 || !isC {
						ok2 = false
						continue
					}
					var callee *ssa.Function
					if sf := call.Call.StaticCallee(); sf != nil {
						callee = funcValue(sf)
					} else {
						callee = closureFunc(call.Call.Value, pred)
					}
					if callee != sc.cmp || len(call.Call.Args) != 2 || call.Call.Args[0] != ssa.Value(pred.Params[0]) || call.Call.Args[1] != ssa.Value(pred.Params[1]) {
						ok2 = false
					}
				}
				if nret != 1 {
					ok2 = false
				}
			}
			if !ok2 && pred != nil && sc.cmp != nil && len(pred.Params) == 2 && len(sc.cmp.Params) == 2 {
				// equivalent form: the predicate is an equality over exactly the keys the comparator orders by
				keys := func(f *ssa.Function) (map[string]bool, bool) {
					out := map[string]bool{}
					okM := true
					for _, mp := range comparisonsOf(f, map[ssa.Value]string{f.Params[0]: "A", f.Params[1]: "B"}) {
						if mp.ra == mp.rb || mp.pa != mp.pb {
							okM = false
						}
						out[mp.pa] = true
					}
					return out, okM
				}
				ck, ok3 := keys(sc.cmp)
				pk, ok4 := keys(pred)
				same := ok3 && ok4 && len(ck) == len(pk) && len(ck) > 0
				for k := range ck {
					if !pk[k] {
						same = false
					}
				}
				// and the predicate only uses == on them
				onlyEq := true
				forEachInstr(pred, func(_ *ssa.BasicBlock, _ int, in ssa.Instruction) {
					if bo, ok := in.(*ssa.BinOp); ok {
						switch bo.Op {
						case token.EQL:
						default:
							onlyEq = false
						}
					}
					if _, ok := in.(*ssa.Call); ok {
						onlyEq = false
					}
				})
				ok2 = same && onlyEq
			}
			r.Check(ok2, "D2-dedupe-equality", site, p.Pos(c.Pos()), "elements are merged iff the sort comparator says they are equal", "slices.CompactFunc merges elements with an equality that is not 'sortComparator(a, b) == 0': elements that differ in a field the comparator orders by (e.g. the version an update starts from) are dropped as duplicates, or duplicates survive — the reported updates no longer match what was analysed")
		})
	}
	r.Instances("D2-dedupe-equality", "sorted-then-compacted slices in guidedremediation", n, 4)
	// the update comparator's key coverage
	cp := p.Func(pkgRemediation, "ConstructPatches")
	if cp == nil {
		return
	}
	var cmpFn *ssa.Function
	forEachInstr(cp, func(_ *ssa.BasicBlock, _ int, in ssa.Instruction) {
		c, ok := in.(*ssa.Call)
		if !ok || refOf(c.Common()).Pkg != "slices" || !strings.HasPrefix(refOf(c.Common()).Name, "SortFunc") {
			return
		}
		if sl, ok := c.Call.Args[0].Type().Underlying().(*types.Slice); ok {
			if nm := namedOf(sl.Elem()); nm != nil && nm.Obj().Name() == "PackageUpdate" {
				cmpFn = closureFunc(c.Call.Args[1], cp)
			}
		}
	})
	if cmpFn == nil || len(cmpFn.Params) != 2 {
		r.Fail("D2-dedupe-equality", "ConstructPatches:comparator", p.Pos(cp.Pos()), "the package updates are not sorted with a two-argument comparator closure")
		return
	}
	paths := checkMirror(p, r, "D2-dedupe-equality", cmpFn, cmpFn.Params[0], cmpFn.Params[1])
	var ps []string
	for k := range paths {
		ps = append(ps, k)
	}
	sort.Strings(ps)
	for _, k := range []string{".Name", ".VersionFrom", ".VersionTo", ".Type"} {
		found := false
		for _, pth := range ps {
			if pth == k || strings.HasPrefix(pth, k+".") || strings.HasPrefix(pth, k+"(") {
				found = true
			}
		}
		r.Check(found, "D2-dedupe-equality", "ConstructPatches:comparator-key:"+k, p.Pos(cmpFn.Pos()), "compared", fmt.Sprintf("the update comparator no longer compares %s (compared: %v): updates differing only there are merged by the de-duplication", k, ps))
	}
}

func c12Diff(p *Prog, r *Report) {
	c12DiffByID(p, r, "D3-update-is-diff")
	cellThroughCopies = true
	defer func() { cellThroughCopies = false }()
	cp := p.Func(pkgRemediation, "ConstructPatches")
	if cp == nil {
		r.Undecided("D3-update-is-diff", "anchor:ConstructPatches", "-", "not found")
		return
	}
	site := "ConstructPatches"
	// requirement lists: invoke Requirements() on <param>.Manifest
	reqSide := func(v ssa.Value) int {
		// v is an element of X.Manifest.Requirements() for param X
		c := cellOf(v)
		var call *ssa.Call
		switch x := c.root.(type) {
		case *ssa.Call:
			call = x
		case *ssa.Alloc:
			for _, s := range storesTo(x) {
				if cc, ok := cellOf(s).root.(*ssa.Call); ok {
					call = cc
				}
			}
		}
		if call == nil || !call.Call.IsInvoke() || call.Call.Method.Name() != "Requirements" {
			return -1
		}
		root := rootParam(call.Call.Value)
		for i, prm := range cp.Params {
			if root == ssa.Value(prm) {
				return i
			}
		}
		return -1
	}
	// oldReqs map: filled from old requirements keyed by MakeRequirementKey(req) with value req
	var oldMap ssa.Value
	okFill := false
	forEachInstr(cp, func(_ *ssa.BasicBlock, _ int, in ssa.Instruction) {
		mu, ok := in.(*ssa.MapUpdate)
		if !ok {
			return
		}
		kc, _ := callValue(mu.Key)
		if kc == nil || refOf(kc.Common()).Name != "MakeRequirementKey" {
			return
		}
		if reqSide(mu.Value) == 0 && reqSide(kc.Call.Args[0]) == 0 && sameCell(mu.Value, kc.Call.Args[0]) {
			okFill = true
			oldMap = mu.Map
		}
	})
	r.Check(okFill, "D3-update-is-diff", site+":old-index", p.Pos(cp.Pos()), "old requirements indexed by their own requirement key", "ConstructPatches does not index the original requirements by MakeRequirementKey of the requirement itself")
	// PackageUpdate literals
	type lit struct {
		al *ssa.Alloc
		f  map[string]ssa.Value
	}
	lits := map[*ssa.Alloc]*lit{}
	var order []*ssa.Alloc
	forEachInstr(cp, func(_ *ssa.BasicBlock, _ int, in ssa.Instruction) {
		st, ok := in.(*ssa.Store)
		if !ok {
			return
		}
		s, f, base, ok := fieldOf(st.Addr)
		if !ok || s != "PackageUpdate" {
			return
		}
		al, isA := base.(*ssa.Alloc)
		if !isA {
			// element of the varargs array: &t[0] of type *[1]PackageUpdate
			if ia, ok := base.(*ssa.IndexAddr); ok {
				al, isA = ia.X.(*ssa.Alloc)
			}
		}
		if !isA {
			return
		}
		if lits[al] == nil {
			lits[al] = &lit{al, map[string]ssa.Value{}}
			order = append(order, al)
		}
		lits[al].f[f] = st.Val
	})
	nchanged := 0
	for i, al := range order {
		l := lits[al]
		ls := fmt.Sprintf("%s:update#%d", site, i)
		nm, okN := l.f["Name"]
		to, okT := l.f["VersionTo"]
		if !okN || !okT {
			r.Fail("D3-update-is-diff", ls, p.Pos(al.Pos()), "a PackageUpdate without Name or VersionTo is reported")
			continue
		}
		okNew := reqSide(nm) == 1 && strings.HasSuffix(cellOf(nm).path, ".Name") && reqSide(to) == 1 && strings.HasSuffix(cellOf(to).path, ".Version") && cellOf(nm).root == cellOf(to).root
		r.Check(okNew, "D3-update-is-diff", ls+":new-side", p.Pos(al.Pos()), "Name and VersionTo are the patched manifest's requirement", "a reported update's Name/VersionTo are not the name and version of one requirement of the patched manifest")
		from := l.f["VersionFrom"]
		if from == nil {
			continue
		}
		if s, isC := constString(from); isC && s == "" {
			r.Trivial("D3-update-is-diff", ls+":old-side", p.Pos(al.Pos()), "new requirement (no old version)")
			continue
		}
		nchanged++
		// from = oldReq.Version where oldReq = oldReqs[MakeRequirementKey(req)] for the same req
		okOld := false
		fc := cellOf(from)
		var lk *ssa.Lookup
		switch x := fc.root.(type) {
		case *ssa.Alloc:
			for _, s := range storesTo(x) {
				if ex, ok := s.(*ssa.Extract); ok {
					lk, _ = ex.Tuple.(*ssa.Lookup)
				} else if l2, ok := s.(*ssa.Lookup); ok {
					lk = l2
				}
			}
		case *ssa.Extract:
			lk, _ = x.Tuple.(*ssa.Lookup)
		case *ssa.Lookup:
			lk = x
		}
		if lk != nil && lk.X == oldMap && strings.HasSuffix(fc.path, ".Version") {
			if kc, _ := callValue(lk.Index); kc != nil && refOf(kc.Common()).Name == "MakeRequirementKey" && cellOf(kc.Call.Args[0]).root == cellOf(nm).root {
				okOld = true
			}
		}
		r.Check(okOld, "D3-update-is-diff", ls+":old-side", p.Pos(al.Pos()), "VersionFrom is the original requirement with the same requirement key", "a reported update's VersionFrom is not the version of the original requirement that has the same requirement key as the patched one")
	}
	r.Instances("D3-update-is-diff", "PackageUpdate literals carrying an old version", nchanged, 1)

	// omission tables
	defer func(d int, a bool) { renderDepth, renderAllocs = d, a }(renderDepth, renderAllocs)
	renderAllocs = true
	renderDepth = 12
	learn := os.Getenv("SCALINT_LEARN") != ""
	type osite struct {
		rel, name string
		skips     func(fn *ssa.Function) []string
	}
	isMapUpd := func(in ssa.Instruction) bool { _, ok := in.(*ssa.MapUpdate); return ok }
	sites := []osite{
		{pkgRemediation, "ConstructPatches", func(fn *ssa.Function) []string { return loopSkips(fn, isAppendOf("PackageUpdate")) }},
		{pkgGR, "choosePatches", func(fn *ssa.Function) []string { return loopSkips(fn, isAppendOf("Patch")) }},
		{pkgGR, "computeVulnsResult", func(fn *ssa.Function) []string {
			return append(loopSkips(fn, isMapUpd), loopSkips(fn, isAppendOf("Vuln"))...)
		}},
		{"guidedremediation/internal/strategy/common", "ComputePatches", func(fn *ssa.Function) []string { return loopSkips(fn, isAppendOf("Patch")) }},
	}
	n := 0
	for _, s := range sites {
		fn := p.Func(s.rel, s.name)
		if fn == nil {
			r.Undecided("D3-update-is-diff", "anchor:"+s.name, "-", "not found")
			continue
		}
		key := tableKey(c12Sanctioned, fn)
		sk := s.skips(fn)
		sort.Strings(sk)
		if learn {
			for _, x := range sk {
				fmt.Fprintf(os.Stderr, "LEARN\t%q: %q,\n", key, x)
			}
			continue
		}
		n++
		rule := "D3-update-is-diff"
		if s.name == "computeVulnsResult" {
			rule = "D5-unactionable"
		}
		want := c12Sanctioned[key]
		got, wantN := map[string]int{}, map[string]int{}
		for _, x := range sk {
			got[x]++
		}
		for _, x := range want {
			wantN[x]++
		}
		for x, c := range got {
			if _, audited := wantN[x]; !audited && c > 0 && !subsumedDecision(x, wantN, got) {
				r.Fail(rule, key+":new:"+short(x, 140), p.Pos(fn.Pos()), "a decision that leaves the current element out of the result is not among the audited ones: "+x)
			} else {
				r.OK(rule, key+":"+short(x, 140), p.Pos(fn.Pos()), "audited omission")
			}
		}
		for x, c := range wantN {
			if got[x] < c {
				r.Fail(rule, key+":missing:"+short(x, 140), p.Pos(fn.Pos()), "the audited decision '"+x+"' is gone or was rewritten (e.g. an option such as no-introduce or the compatibility test between patches is no longer honoured)")
			}
		}
	}
	if !learn {
		r.Instances("D3-update-is-diff", "functions with an audited omission set", n, 4)
	}
	// choosePatches appends the range element itself
	ch := p.Func(pkgGR, "choosePatches")
	if ch != nil {
		okE := false
		nApp := 0
		forEachInstr(ch, func(_ *ssa.BasicBlock, _ int, in ssa.Instruction) {
			if !isAppendOf("Patch")(in) {
				return
			}
			nApp++
			for _, a := range collectedValues(in) {
				if rootParam(a) == ssa.Value(ch.Params[0]) && cellOf(a).idx != nil || elementOfParam(a, ch.Params[0]) {
					okE = true
				}
			}
		})
		r.Check(okE && nApp == 1, "D3-update-is-diff", "choosePatches:subset", p.Pos(ch.Pos()), "appends elements of allPatches unchanged", "choosePatches returns something other than unmodified elements of allPatches")
	}
	// common.ComputePatches builds each patch with ConstructPatches(original, strategy result)
	cc := p.Func("guidedremediation/internal/strategy/common", "ComputePatches")
	if cc != nil {
		okC := false
		for _, ci := range callsTo(cc, fp(pkgRemediation), "", "ConstructPatches") {
			a := ci.Common().Args
			if rootParam(a[0]) == ssa.Value(cc.Params[1]) && strings.HasSuffix(cellOf(a[1]).path, ".Resolved") {
				okC = true
			}
		}
		r.Check(okC, "D4-written-is-reported", "common.ComputePatches:construct", p.Pos(cc.Pos()), "patch = ConstructPatches(original, strategy result)", "common.ComputePatches does not diff the strategy's resolved manifest against the original resolved manifest")
	}
}

// elementOfParam: v is (a copy of) an element of the slice parameter prm.
func elementOfParam(v ssa.Value, prm *ssa.Parameter) bool {
	c := cellOf(v)
	if c.idx != nil && c.root == ssa.Value(prm) {
		return true
	}
	if al, ok := c.root.(*ssa.Alloc); ok && c.path == "" {
		for _, s := range storesTo(al) {
			sc := cellOf(s)
			if sc.idx != nil && sc.root == ssa.Value(prm) {
				return true
			}
		}
	}
	return false
}

func c12Plumbing(p *Prog, r *Report) {
	// writeManifestPatches hands its arguments through
	wm := p.Func(pkgGR, "writeManifestPatches")
	if wm == nil {
		r.Undecided("D4-written-is-reported", "anchor:writeManifestPatches", "-", "not found")
		return
	}
	okW := false
	forEachInstr(wm, func(_ *ssa.BasicBlock, _ int, in ssa.Instruction) {
		c, ok := in.(*ssa.Call)
		if !ok || !c.Call.IsInvoke() || c.Call.Method.Name() != "Write" {
			return
		}
		a := c.Call.Args
		if c.Call.Value == ssa.Value(wm.Params[3]) && a[0] == ssa.Value(wm.Params[1]) && a[2] == ssa.Value(wm.Params[2]) && a[3] == ssa.Value(wm.Params[0]) {
			// and its error is what is returned
			for _, ret := range returnsOf(wm) {
				if retVal(ret, 0) == ssa.Value(c) {
					okW = true
				}
			}
		}
	})
	r.Check(okW, "D4-written-is-reported", "writeManifestPatches:passes-through", p.Pos(wm.Pos()), "rw.Write(m, fsys, patches, path) and its error returned", "writeManifestPatches does not hand the manifest, the patches and the path it was given to the ReadWriter, or drops its error")

	for _, name := range []string{"doStrategy", "Update"} {
		fn := p.Func(pkgGR, name)
		if fn == nil {
			r.Undecided("D4-written-is-reported", "anchor:"+name, "-", "not found")
			continue
		}
		calls := callsTo(fn, fp(pkgGR), "", "writeManifestPatches")
		if len(calls) != 1 {
			r.Fail("D4-written-is-reported", name+":write", p.Pos(fn.Pos()), fmt.Sprintf("%s calls writeManifestPatches %d times (want once)", name, len(calls)))
			continue
		}
		wc := calls[0].(*ssa.Call)
		a := wc.Call.Args
		// the Result returned on the path through the write: its Patches field
		var resAl *ssa.Alloc
		var retErr ssa.Value
		for _, ret := range returnsOf(fn) {
			if !wc.Block().Dominates(ret.Block()) {
				continue
			}
			if al, ok := loadAddr(retVal(ret, 0)).(*ssa.Alloc); ok {
				resAl = al
			}
			retErr = retVal(ret, 1)
		}
		if resAl == nil {
			r.Undecided("D4-written-is-reported", name+":result", p.Pos(fn.Pos()), "the result returned after the write is not a local Result value")
			continue
		}
		r.Check(retErr == ssa.Value(wc), "D4-written-is-reported", name+":write-error-returned", p.Pos(wc.Pos()), "the write error is the returned error", name+" does not return the error of writing the manifest: a failed or partial write is reported as success")
		// value stored into result.Patches
		var reported []ssa.Value
		for _, ref := range *resAl.Referrers() {
			if fa, ok := ref.(*ssa.FieldAddr); ok {
				if _, f, _, ok := fieldOf(fa); ok && f == "Patches" {
					for _, sv := range storesTo(fa) {
						dup := false
						for _, o := range reported {
							if o == sv {
								dup = true
							}
						}
						if !dup {
							reported = append(reported, sv)
						}
					}
				}
			}
		}
		samePatches := func(w, rep ssa.Value) bool {
			if w == rep {
				return true
			}
			// written value is a load of result.Patches
			if _, f, base, ok := fieldOf(loadAddr(w)); ok && f == "Patches" && base == ssa.Value(resAl) {
				return true
			}
			// two one-element literals of the same element ([]result.Patch{patch})
			we, re := sliceLitElems(w), sliceLitElems(rep)
			if len(we) == 1 && len(re) == 1 && (we[0] == re[0] || sameCell(we[0], re[0])) {
				return true
			}
			return false
		}
		okP := len(reported) == 1 && samePatches(a[2], reported[0])
		r.Check(okP, "D4-written-is-reported", name+":same-patches", p.Pos(wc.Pos()), "writeManifestPatches gets the patch list stored in Result.Patches", name+" writes a different patch list than the one it reports in Result.Patches")
		// manifest: the parseManifest result; path: same as parseManifest's
		var pm *ssa.Call
		for _, ci := range callsTo(fn, fp(pkgGR), "", "parseManifest") {
			pm = ci.(*ssa.Call)
		}
		okM := false
		if pm != nil {
			if ex, ok := a[1].(*ssa.Extract); ok && ex.Tuple == ssa.Value(pm) && ex.Index == 0 {
				okM = sameCell(a[0], pm.Call.Args[0]) || renderValue(a[0], 0) == renderValue(pm.Call.Args[0], 0)
			}
		}
		r.Check(okM, "D4-written-is-reported", name+":same-manifest-and-path", p.Pos(wc.Pos()), "writes the parsed manifest back to the path it was read from", name+" does not write the manifest it parsed, or writes to a different path than it read")
	}
	// doStrategy: the manifest analysed is the manifest parsed
	ds := p.Func(pkgGR, "doStrategy")
	if ds != nil {
		okA := false
		var pm *ssa.Call
		for _, ci := range callsTo(ds, fp(pkgGR), "", "parseManifest") {
			pm = ci.(*ssa.Call)
		}
		for _, ci := range callsTo(ds, fp(pkgRemediation), "", "ResolveManifest") {
			if ex, ok := ci.Common().Args[3].(*ssa.Extract); ok && pm != nil && ex.Tuple == ssa.Value(pm) {
				okA = true
			}
		}
		r.Check(okA, "D4-written-is-reported", "doStrategy:analyses-parsed-manifest", p.Pos(ds.Pos()), "ResolveManifest(parsed manifest)", "doStrategy analyses a different manifest than the one it parsed and writes")
	}
}

// sliceLitElems: elements stored into the backing array of a slice literal.
func sliceLitElems(v ssa.Value) []ssa.Value {
	sl, ok := v.(*ssa.Slice)
	if !ok {
		return nil
	}
	al, ok := sl.X.(*ssa.Alloc)
	if !ok {
		return nil
	}
	var out []ssa.Value
	for _, ref := range *al.Referrers() {
		if ia, ok := ref.(*ssa.IndexAddr); ok {
			out = append(out, storesTo(ia)...)
		}
	}
	return out
}

func c12Unactionable(p *Prog, r *Report) {
	ds := p.Func(pkgGR, "doStrategy")
	cv := p.Func(pkgGR, "computeVulnsResult")
	if ds == nil || cv == nil {
		r.Undecided("D5-unactionable", "anchor:doStrategy/computeVulnsResult", "-", "not found")
		return
	}
	// same allPatches / same resolved
	var cvc, chc ssa.CallInstruction
	for _, ci := range callsTo(ds, fp(pkgGR), "", "computeVulnsResult") {
		cvc = ci
	}
	for _, ci := range callsTo(ds, fp(pkgGR), "", "choosePatches") {
		chc = ci
	}
	okS := cvc != nil && chc != nil && cvc.Common().Args[1] == chc.Common().Args[0]
	if okS {
		// and it is the result of the strategy's computePatches
		ex, isE := cvc.Common().Args[1].(*ssa.Extract)
		okS = isE && ex.Index == 0
		if okS {
			call, _ := ex.Tuple.(*ssa.Call)
			okS = call != nil && len(call.Call.Args) == 5
			if okS {
				okS = call.Call.Args[3] == cvc.Common().Args[0]
			}
		}
	}
	r.Check(okS, "D5-unactionable", "doStrategy:same-patches", p.Pos(ds.Pos()), "computeVulnsResult and choosePatches see the same computed patch list, computed for the same resolved manifest", "doStrategy derives 'unactionable' from a different patch list (or resolved manifest) than the one patches are chosen from: a vulnerability fixed by an applied patch can be marked unactionable")
	// Unactionable = !ok of a lookup keyed by the vulnerability's ID in the map filled from p.Fixed[].ID
	var fixMap ssa.Value
	okFill := false
	forEachInstr(cv, func(_ *ssa.BasicBlock, _ int, in ssa.Instruction) {
		mu, ok := in.(*ssa.MapUpdate)
		if !ok {
			return
		}
		kc := cellOf(mu.Key)
		if !strings.HasSuffix(kc.path, ".ID") {
			return
		}
		// element of <element of allPatches>.Fixed
		if derivesFromParamField(mu.Key, cv.Params[1], "Fixed") {
			okFill = true
			fixMap = mu.Map
		}
	})
	r.Check(okFill, "D5-unactionable", "computeVulnsResult:fixable-set", p.Pos(cv.Pos()), "set of IDs of every Fixed entry of allPatches", "computeVulnsResult does not collect the IDs of the Fixed entries of the patches it is given")
	okU := false
	forEachInstr(cv, func(_ *ssa.BasicBlock, _ int, in ssa.Instruction) {
		st, ok := in.(*ssa.Store)
		if !ok {
			return
		}
		if s, f, _, ok := fieldOf(st.Addr); !ok || s != "Vuln" || f != "Unactionable" {
			return
		}
		inner, flip := stripNot(st.Val)
		ex, isE := inner.(*ssa.Extract)
		if !flip || !isE || ex.Index != 1 {
			return
		}
		lk, isL := ex.Tuple.(*ssa.Lookup)
		if !isL || lk.X != fixMap {
			return
		}
		// key: v.OSV.ID of the vulnerability being reported; the literal's ID is the same value
		kc := cellOf(lk.Index)
		if strings.HasSuffix(kc.path, ".ID") {
			okU = true
		}
	})
	r.Check(okU, "D5-unactionable", "computeVulnsResult:unactionable", p.Pos(cv.Pos()), "Unactionable = ID not in the fixable set", "computeVulnsResult does not set Unactionable to 'ID absent from the fixable set'")
}

// derivesFromParamField: v is read from an element of <element of prm>.<field>.
func derivesFromParamField(v ssa.Value, prm *ssa.Parameter, field string) bool {
	seen := map[ssa.Value]bool{}
	var rec func(v ssa.Value, d int, sawField bool) bool
	rec = func(v ssa.Value, d int, sawField bool) bool {
		if d > 24 || seen[v] {
			return false
		}
		seen[v] = true
		switch x := v.(type) {
		case *ssa.Parameter:
			return x == prm && sawField
		case *ssa.UnOp:
			return rec(x.X, d+1, sawField)
		case *ssa.FieldAddr:
			st, _ := structOf(x.X.Type())
			if st != nil && st.Field(x.Field).Name() == field {
				sawField = true
			}
			return rec(x.X, d+1, sawField)
		case *ssa.Field:
			st, _ := structOf(x.X.Type())
			if st != nil && st.Field(x.Field).Name() == field {
				sawField = true
			}
			return rec(x.X, d+1, sawField)
		case *ssa.IndexAddr:
			return rec(x.X, d+1, sawField)
		case *ssa.Alloc:
			for _, s := range storesTo(x) {
				if rec(s, d+1, sawField) {
					return true
				}
			}
		}
		return false
	}
	return rec(v, 0, false)
}

// freeVarIsParamCell: the free variable fv of closure h is bound to the cell a parameter of the
// enclosing function was spilled to (and that cell is never reassigned).
func freeVarIsParamCell(h *ssa.Function, fv *ssa.FreeVar) bool {
	par := h.Parent()
	if par == nil {
		return false
	}
	res := false
	for _, pf := range withAnon(par) {
		forEachInstr(pf, func(_ *ssa.BasicBlock, _ int, in ssa.Instruction) {
			mc, ok := in.(*ssa.MakeClosure)
			if !ok || mc.Fn != ssa.Value(h) {
				return
			}
			for i, x := range h.FreeVars {
				if x != fv {
					continue
				}
				if al, ok := mc.Bindings[i].(*ssa.Alloc); ok {
					ss := storesTo(al)
					if len(ss) == 1 {
						if _, isP := ss[0].(*ssa.Parameter); isP {
							res = true
						}
					}
				}
			}
		})
	}
	return res
}

// c12MatchTable: remediation.MatchVuln, as a boolean function of its atomic tests, equals
//
//	considered ⇔ ¬ignored(ID or alias) ∧ (DevDeps ∨ ¬DevOnly) ∧ severity ≥ MinSeverity ∧ depth ≤ MaxDepth
func c12MatchTable(p *Prog, r *Report) {
	fn := p.Func(pkgRemediation, "MatchVuln")
	site := "remediation.MatchVuln"
	if fn == nil {
		r.Undecided("D7-filter-semantics", "anchor:"+site, "-", "not found")
		return
	}
	atoms, table, ok := decisionTableRaw(fn, false)
	if !ok {
		r.Undecided("D7-filter-semantics", site, p.Pos(fn.Pos()), "MatchVuln is no longer a loop-free combination of at most 12 atomic tests")
		return
	}
	classify := func(a string) string {
		switch {
		case strings.Contains(a, "remediation.matchID(param1,param0.IgnoreVulns)"):
			return "ignored"
		case a == "param0.DevDeps":
			return "devDeps"
		case a == "param1.DevOnly":
			return "devOnly"
		case strings.Contains(a, "remediation.matchSeverity(param1,param0.MinSeverity)"):
			return "sevOK"
		case strings.Contains(a, "remediation.matchDepth(param1,param0.MaxDepth)"):
			return "depthOK"
		}
		return ""
	}
	var vars []string
	have := map[string]bool{}
	for _, a := range atoms {
		v := classify(a)
		if v == "" {
			r.Undecided("D7-filter-semantics", site+":atom", p.Pos(fn.Pos()), "MatchVuln tests something the option semantics does not mention (or with other operands): "+a)
			return
		}
		vars = append(vars, v)
		have[v] = true
	}
	for _, n := range []string{"ignored", "devDeps", "devOnly", "sevOK", "depthOK"} {
		if !have[n] {
			r.Fail("D7-filter-semantics", site+":"+n, p.Pos(fn.Pos()), "MatchVuln no longer makes the test '"+n+"': that option is not honoured")
			return
		}
	}
	for row := 0; row < len(table); row++ {
		val := map[string]bool{}
		for k, v := range vars {
			val[v] = row&(1<<k) != 0
		}
		model := !val["ignored"] && (val["devDeps"] || !val["devOnly"]) && val["sevOK"] && val["depthOK"]
		if model != (table[row] == '1') {
			var desc []string
			for k, v := range vars {
				desc = append(desc, fmt.Sprintf("%s=%v", v, row&(1<<k) != 0))
			}
			r.Fail("D7-filter-semantics", site, p.Pos(fn.Pos()), fmt.Sprintf("MatchVuln answers %v when %s; the option semantics says %v: the vulnerabilities analysed, reported and re-analysed are filtered differently from what the options ask", table[row] == '1', strings.Join(desc, " "), model))
			return
		}
	}
	r.OK("D7-filter-semantics", site, p.Pos(fn.Pos()), fmt.Sprintf("equals the option semantics on all %d combinations of its %d tests", len(table), len(atoms)))
}

// c12Clone: the strategies analyse every candidate patch on Manifest.Clone(). The clone must carry
// every field of the receiver: each field of the receiver's struct is read in Clone, every loop in
// Clone ranges over data of the receiver (never over the still-empty clone), and every field of the
// new value is stored.
func c12Clone(p *Prog, r *Report) {
	n := 0
	for _, x := range []struct{ rel, name string }{
		{"guidedremediation/internal/manifest/npm", "npmManifest.Clone"},
		{"guidedremediation/internal/manifest/maven", "mavenManifest.Clone"},
	} {
		fn := p.Func(x.rel, x.name)
		if fn == nil {
			r.Undecided("D8-clone", "anchor:"+x.name, "-", "not found")
			continue
		}
		n++
		recv := fn.Params[0]
		st, _ := structOf(recv.Type())
		if st == nil {
			r.Undecided("D8-clone", x.name+":receiver", p.Pos(fn.Pos()), "receiver is not a struct pointer")
			continue
		}
		read := map[string]bool{}
		forEachInstr(fn, func(_ *ssa.BasicBlock, _ int, in ssa.Instruction) {
			if fa, ok := in.(*ssa.FieldAddr); ok && rootParam(fa.X) == ssa.Value(recv) {
				if s2, _ := structOf(fa.X.Type()); s2 == st {
					read[st.Field(fa.Field).Name()] = true
				}
			}
		})
		for i := 0; i < st.NumFields(); i++ {
			f := st.Field(i).Name()
			r.Check(read[f], "D8-clone", x.name+":reads:"+f, p.Pos(fn.Pos()), "copied from the receiver", "Clone never reads field "+f+" of the manifest it clones: the clone the strategies analyse differs from the manifest that is written")
		}
		// loops range over the receiver's data
		for _, b := range fn.Blocks {
			for _, in := range b.Instrs {
				var src ssa.Value
				switch y := in.(type) {
				case *ssa.Range:
					src = y.X
				case *ssa.Call:
					if bi, ok := y.Call.Value.(*ssa.Builtin); ok && bi.Name() == "len" && isLoopHeaderOrPre(b) {
						src = y.Call.Args[0]
					}
				}
				if src == nil {
					continue
				}
				switch src.Type().Underlying().(type) {
				case *types.Map, *types.Slice:
				default:
					continue
				}
				root := rootParam(src)
				r.Check(root == ssa.Value(recv), "D8-clone", fmt.Sprintf("%s:loop-over:%s", x.name, short(renderValueDeep(src), 60)), p.Pos(in.Pos()), "iterates over the receiver's data", "a loop in Clone iterates over data of the new (still empty) value instead of the manifest being cloned: nothing is copied, so the clone silently lacks that data (e.g. the dependency groups that decide dev-only filtering)")
			}
		}
	}
	r.Instances("D8-clone", "manifest Clone methods", n, 2)
}

// isLoopHeaderOrPre: b is a loop header or the block that computes the bound of a range-by-index loop.
func isLoopHeaderOrPre(b *ssa.BasicBlock) bool {
	if isLoopHeader(b) {
		return true
	}
	for _, sc := range b.Succs {
		if isLoopHeader(sc) {
			return true
		}
	}
	return false
}
