package main

import (
	"fmt"
	"go/token"
	"strings"

	"golang.org/x/tools/go/ssa"
)

// ---------- condition predicates ----------

// condFieldBool: the condition is a load of bool field stype.field; G = "field is true".
func condFieldBool(stype, field string) CondPred {
	return func(c ssa.Value) (bool, bool) {
		if loadsField(c, stype, field) {
			return true, true
		}
		return false, false
	}
}

// callValue: if v is a call result (or an Extract of one) returns the call.
func callValue(v ssa.Value) (*ssa.Call, int) {
	switch x := v.(type) {
	case *ssa.Call:
		return x, -1
	case *ssa.Extract:
		if c, ok := x.Tuple.(*ssa.Call); ok {
			return c, x.Index
		}
	}
	return nil, -1
}

// condCall: the condition is the bool result of a call accepted by match; G = "call returned true".
func condCall(match func(c *ssa.Call) bool) CondPred {
	return func(c ssa.Value) (bool, bool) {
		call, _ := callValue(c)
		if call != nil && match(call) {
			return true, true
		}
		return false, false
	}
}

func callIs(pkg, recv, name string) func(c *ssa.Call) bool {
	return func(c *ssa.Call) bool { return refOf(c.Common()).is(pkg, recv, name) }
}

// condNonNil: the condition compares a value accepted by match with nil; G = "value is non-nil".
func condNonNil(match func(v ssa.Value) bool) CondPred {
	return func(c ssa.Value) (bool, bool) {
		b, ok := c.(*ssa.BinOp)
		if !ok || (b.Op != token.EQL && b.Op != token.NEQ) {
			return false, false
		}
		var v ssa.Value
		switch {
		case isNilConst(b.Y):
			v = b.X
		case isNilConst(b.X):
			v = b.Y
		default:
			return false, false
		}
		if !match(v) {
			return false, false
		}
		return true, b.Op == token.NEQ
	}
}

// cmpNorm decomposes an integer/string comparison.
func cmpNorm(v ssa.Value) (op token.Token, x, y ssa.Value, ok bool) {
	b, isB := v.(*ssa.BinOp)
	if !isB {
		return 0, nil, nil, false
	}
	switch b.Op {
	case token.LSS, token.GTR, token.LEQ, token.GEQ, token.EQL, token.NEQ:
		return b.Op, b.X, b.Y, true
	}
	return 0, nil, nil, false
}

func swapOp(op token.Token) token.Token {
	switch op {
	case token.LSS:
		return token.GTR
	case token.GTR:
		return token.LSS
	case token.LEQ:
		return token.GEQ
	case token.GEQ:
		return token.LEQ
	}
	return op
}

func negOp(op token.Token) token.Token {
	switch op {
	case token.LSS:
		return token.GEQ
	case token.GTR:
		return token.LEQ
	case token.LEQ:
		return token.GTR
	case token.GEQ:
		return token.LSS
	case token.EQL:
		return token.NEQ
	case token.NEQ:
		return token.EQL
	}
	return op
}

// condCmp: condition is `X op Y` (in either operand order) with mx(X) and my(Y); G holds iff
// X gop Y, where the caller states the guard relation gop; only exact relation or its exact
// negation match (e.g. gop = GTR matches X>Y (pos), Y<X (pos), X<=Y (neg), Y>=X (neg)).
func condCmp(mx, my func(ssa.Value) bool, gop token.Token) CondPred {
	return func(c ssa.Value) (bool, bool) {
		op, x, y, ok := cmpNorm(c)
		if !ok {
			return false, false
		}
		if !(mx(x) && my(y)) {
			if mx(y) && my(x) {
				x, y = y, x
				op = swapOp(op)
			} else {
				return false, false
			}
		}
		if op == gop {
			return true, true
		}
		if op == negOp(gop) {
			return true, false
		}
		// a length is never negative: len(x) > 0, len(x) != 0 and !(len(x) == 0) are one condition
		if lc, isCall := x.(*ssa.Call); isCall && isCallTo(lc, "builtin", "", "len") {
			if k, isK := constInt(y); isK && k == 0 {
				norm := func(o token.Token) token.Token {
					switch o {
					case token.NEQ:
						return token.GTR
					case token.EQL:
						return token.LEQ
					}
					return o
				}
				if norm(op) == norm(gop) {
					return true, true
				}
				if norm(op) == norm(negOp(gop)) {
					return true, false
				}
			}
		}
		return false, false
	}
}

func isFieldLoad(stype, field string) func(ssa.Value) bool {
	return func(v ssa.Value) bool {
		if cv, ok := v.(*ssa.Convert); ok {
			v = cv.X
		}
		return loadsField(v, stype, field)
	}
}

func isConstInt(n int64) func(ssa.Value) bool {
	return func(v ssa.Value) bool { c, ok := constInt(v); return ok && c == n }
}

func anyValue(ssa.Value) bool { return true }

// ---------- per-function analysis helper ----------

type FA struct {
	p   *Prog
	r   *Report
	fn  *ssa.Function
	key string
}

func newFA(p *Prog, r *Report, fn *ssa.Function) *FA {
	return &FA{p: p, r: r, fn: fn, key: fnKey(fn)}
}

// dominated: every execution of `target` is preceded by G holding (pos=true) / failing (pos=false)
// for at least one of the predicates (edges of all predicates are cut together).
func (a *FA) guarded(target ssa.Instruction, want bool, preds ...CondPred) (bool, int) {
	var edges []Edge
	n := 0
	for _, pr := range preds {
		h, f := guardEdges(a.fn, pr)
		n += len(h)
		if want {
			edges = append(edges, h...)
		} else {
			edges = append(edges, f...)
		}
	}
	if n == 0 {
		return false, 0
	}
	return onlyVia(a.fn, target.Block(), edges), n
}

// requireGuard reports an obligation: target only under (want) G.
func (a *FA) requireGuard(rule, what string, target ssa.Instruction, want bool, gname string, preds ...CondPred) bool {
	site := a.key + ":" + what
	ok, n := a.guarded(target, want, preds...)
	pos := a.p.Pos(target.Pos())
	if n == 0 {
		a.r.Fail(rule, site, pos, fmt.Sprintf("no test of %s found in %s: %s is not guarded by it", gname, a.key, what))
		return false
	}
	pol := "holds"
	if !want {
		pol = "is false"
	}
	if ok {
		a.r.OK(rule, site, pos, fmt.Sprintf("reachable only through the edge where %s %s (%d test(s))", gname, pol, n))
	} else {
		a.r.Fail(rule, site, pos, fmt.Sprintf("%s is reachable on a path where it was not established that %s %s", what, gname, pol))
	}
	return ok
}

// noPath reports an obligation: there is no path from `from` to an instruction satisfying goal
// that avoids `avoid` instructions and cut edges.
func (a *FA) noPath(rule, what string, from Point, goal, avoid func(ssa.Instruction) bool, cut edgeSet, okMsg, failMsg string) bool {
	site := a.key + ":" + what
	w := findPath(from, goal, avoid, cut)
	pos := a.p.Pos(a.fn.Pos())
	if from.B != nil && from.I >= 0 && from.I < len(from.B.Instrs) {
		if pp := from.B.Instrs[from.I].Pos(); pp.IsValid() {
			pos = a.p.Pos(pp)
		}
	}
	if w == nil {
		a.r.OK(rule, site, pos, okMsg)
		return true
	}
	a.r.Fail(rule, site, pos, failMsg+"; witness path (SSA blocks): "+strings.Join(w, "→"))
	return false
}

func edgesOf(es []Edge) edgeSet {
	s := edgeSet{}
	for _, e := range es {
		s[e] = true
	}
	return s
}

// edgeStart returns the Point just before the first instruction of the edge's target.
func edgeStart(e Edge) Point { return Point{e.To(), -1} }

// firstInstrOf matches the first instruction of block b.
func firstInstrOf(b *ssa.BasicBlock) func(ssa.Instruction) bool {
	return func(in ssa.Instruction) bool { return len(b.Instrs) > 0 && in == b.Instrs[0] }
}

// storesField matches a Store to field stype.field.
func storesField(stype, field string) func(ssa.Instruction) bool {
	return func(in ssa.Instruction) bool {
		st, ok := in.(*ssa.Store)
		if !ok {
			return false
		}
		s, f, _, ok := fieldOf(st.Addr)
		return ok && s == stype && f == field
	}
}

// readsField matches a FieldAddr/Field selecting stype.field (the address computation that every
// load or store goes through).
func touchesField(stype, field string) func(ssa.Instruction) bool {
	return func(in ssa.Instruction) bool {
		v, ok := in.(ssa.Value)
		if !ok {
			return false
		}
		s, f, _, ok := fieldOf(v)
		return ok && s == stype && f == field
	}
}

func anyOf(fs ...func(ssa.Instruction) bool) func(ssa.Instruction) bool {
	return func(in ssa.Instruction) bool {
		for _, f := range fs {
			if f(in) {
				return true
			}
		}
		return false
	}
}

func instrIs(target ssa.Instruction) func(ssa.Instruction) bool {
	return func(in ssa.Instruction) bool { return in == target }
}

// retResult classifies a Return's idx-th result.
func retIsNil(idx int) func(ssa.Instruction) bool {
	return func(in ssa.Instruction) bool {
		r, ok := in.(*ssa.Return)
		return ok && idx < len(r.Results) && isNilConst(retVal(r, idx))
	}
}

func retNonNil(idx int) func(ssa.Instruction) bool {
	return func(in ssa.Instruction) bool {
		r, ok := in.(*ssa.Return)
		return ok && idx < len(r.Results) && !isNilConst(retVal(r, idx))
	}
}

// loadsGlobal: v is a load of package-level variable pkg.name.
func loadsGlobal(v ssa.Value, pkg, name string) bool {
	u, ok := v.(*ssa.UnOp)
	if !ok || u.Op != token.MUL {
		return false
	}
	g, ok := u.X.(*ssa.Global)
	return ok && g.Name() == name && g.Pkg != nil && g.Pkg.Pkg.Path() == pkg
}
