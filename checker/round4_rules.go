package main

// Rules added after seed round 4 (DESIGN.md §7): each decides one structural clause that a seeded
// defect of that round broke and that no earlier rule covered. They are small on purpose; every one
// names the property clause it is a necessary condition of.

import (
	"fmt"
	"go/token"
	"go/types"
	"regexp"
	"strings"

	"golang.org/x/tools/go/ssa"
)

// dotdotBoundary: a test "does this relative path leave its root" must respect the path-component
// boundary: `rel == ".."` or `HasPrefix(rel, "../")`. `HasPrefix(rel, "..")` also matches the ordinary
// names "..data", "...hidden". (C01: requested / skipped paths below a root are rejected.)
func dotdotBoundary(p *Prog, r *Report, rule string, relPkgs ...string) {
	n := 0
	for _, fn := range p.FuncsIn(relPkgs...) {
		forEachInstr(fn, func(_ *ssa.BasicBlock, _ int, in ssa.Instruction) {
			c, ok := in.(*ssa.Call)
			if !ok {
				return
			}
			rf := refOf(c.Common())
			if rf.Pkg != "strings" || (rf.Name != "HasPrefix" && rf.Name != "Contains") || len(c.Call.Args) != 2 {
				return
			}
			k, isK := constString(c.Call.Args[1])
			if !isK || !strings.HasPrefix(k, "..") {
				return
			}
			n++
			okk := k != ".."
			r.Check(okk, rule, fmt.Sprintf("%s:%s(…,%q)", fnKey(fn), rf.Name, k), p.Pos(c.Pos()), "the parent-directory test ends at a separator", "a path is tested with strings."+rf.Name+"(…, \"..\"): names that merely begin with two dots (\"..data\", \"...hidden\") are taken for paths that leave the root")
		})
	}
	r.Count("parent-directory prefix tests checked", n)
}

// c01ParentPatternsReset: in walkIndividualPaths, the parents' gitignore patterns installed for one
// requested directory are removed again before the next requested path is handled (and before the
// function returns normally): every path from the walk call back to the loop head passes a store of
// nil to wc.gitignores. A `defer` in the loop body runs too late.
func c01ParentPatternsReset(p *Prog, r *Report, e *engine, rule string) {
	fn := e.walkIndividual
	if fn == nil {
		return
	}
	fa := newFA(p, r, fn)
	var walk *ssa.Call
	forEachInstr(fn, func(_ *ssa.BasicBlock, _ int, in ssa.Instruction) {
		if c, ok := in.(*ssa.Call); ok && refOf(c.Common()).is(fp(fsInt), "", "WalkDirUnsorted") {
			walk = c
		}
	})
	if walk == nil {
		return
	}
	hdr := loopHeaderOf(walk.Block())
	if hdr == nil {
		return
	}
	isReset := func(in ssa.Instruction) bool {
		st, ok := in.(*ssa.Store)
		return ok && storesField("walkContext", "gitignores")(in) && isNilConst(st.Val)
	}
	fa.noPath(rule, "parent-patterns-removed-per-path", pointOf(walk), firstInstrOf(hdr), isReset, nil,
		"the parents' patterns are removed before the next requested path", "the .gitignore patterns installed for one requested directory are still in force when the next requested path is handled: a requested file listed after a directory is filtered by that directory's parents' patterns")
}

// freshPerIteration: the value collected by the loop (appended / stored at the cursor) is built in
// the same iteration — a literal hoisted out of the loop and only partly re-assigned carries fields
// of the previous element over. (C14: every record preserves its own package's fields.)
func freshPerIteration(p *Prog, r *Report, rule, relPkg, fnName, elem string) {
	fn := p.Func(relPkg, fnName)
	if fn == nil {
		return
	}
	n := 0
	forEachInstr(fn, func(_ *ssa.BasicBlock, _ int, in ssa.Instruction) {
		if !isAppendOf(elem)(in) || !inLoop(in.Block()) {
			return
		}
		for _, v := range collectedValues(in) {
			// the collected value: a load of a local struct, or a pointer to one
			var al *ssa.Alloc
			switch x := v.(type) {
			case *ssa.UnOp:
				al, _ = x.X.(*ssa.Alloc)
			case *ssa.Alloc:
				al = x
			}
			if al == nil {
				continue
			}
			n++
			same := loopHeaderOf(al.Block()) == loopHeaderOf(in.Block())
			r.Check(same, rule, fmt.Sprintf("%s:%s-built-per-iteration", fnKey(fn), elem), p.Pos(in.Pos()), "the record is built in the iteration that collects it", "the "+elem+" collected in the loop is a variable declared outside it and only partly re-assigned: fields that are set conditionally (package URL, CPE, evidence) keep the previous package's value")
		}
	})
	r.Count("collected records checked for per-iteration construction", n)
}

// sameValueArg: argument argIdx of the (single) call of callee inside fn is exactly the given value
// of fn — a parameter or a load of param.field — with nothing computed in between.
func sameValueArg(p *Prog, r *Report, rule, site string, fn *ssa.Function, isCallee func(*ssa.Call) bool, argIdx int, want func(ssa.Value) bool, okMsg, failMsg string) {
	if fn == nil {
		return
	}
	found := false
	forEachInstr(fn, func(_ *ssa.BasicBlock, _ int, in ssa.Instruction) {
		c, ok := in.(*ssa.Call)
		if !ok || !isCallee(c) || argIdx >= len(c.Call.Args) {
			return
		}
		found = true
		r.Check(want(c.Call.Args[argIdx]), rule, site, p.Pos(c.Pos()), okMsg, failMsg)
	})
	if !found {
		r.Undecided(rule, site, p.Pos(fn.Pos()), "the call is gone: "+okMsg)
	}
}

// c03FreshLineBuffer: requirements.txt — the continuation-line buffer handed to readLine is created
// in the iteration that uses it (a buffer shared by all lines leaks an unfinished logical line into
// the next requirement when readLine returns early).
func c03FreshLineBuffer(p *Prog, r *Report, rule string) {
	fn := p.Func("extractor/filesystem/language/python/requirements", "extractFromPath")
	rl := p.Func("extractor/filesystem/language/python/requirements", "readLine")
	if fn == nil || rl == nil {
		return
	}
	forEachInstr(fn, func(_ *ssa.BasicBlock, _ int, in ssa.Instruction) {
		c, ok := in.(*ssa.Call)
		if !ok || c.Call.StaticCallee() != rl || len(c.Call.Args) != 2 {
			return
		}
		al, isAl := c.Call.Args[1].(*ssa.Alloc)
		okk := isAl && loopHeaderOf(al.Block()) == loopHeaderOf(c.Block()) && loopHeaderOf(c.Block()) != nil
		r.Check(okk, rule, "requirements.extractFromPath:line-buffer-per-line", p.Pos(c.Pos()), "each logical line is assembled in a buffer of its own", "the buffer in which continuation lines are joined is shared by all lines of the file: when readLine gives up on a line (an environment variable on a continuation line) the part already buffered is glued to the next requirement")
	})
}

// helperErrorExits: the decisions on which a record-level helper of a package loop reports an error
// (which makes the caller drop or stop at the record) are frozen, like the caller's own omissions.
var helperErrorExits = map[string][]string{
	"extractor/filesystem/os/dpkg.statusInstalled": {
		"3:int != builtin.len(strings.Split(param0,\" \":string))",
	},
}

// c14HelperErrorExits: the same for record parsers outside the twelve C03 formats whose error exit is
// what keeps a record without a name or a version out of the inventory.
var c14HelperErrorExits = map[string][]string{
	"extractor/filesystem/language/python/wheelegg.parse": {
		"builtin.len(net/textproto.MIMEHeader.Get(net/textproto.Reader.ReadMIMEHeader(net/textproto.NewReader(bufio.NewReader(param0)))#0,\"Name\":string)) == 0",
		"builtin.len(net/textproto.MIMEHeader.Get(net/textproto.Reader.ReadMIMEHeader(net/textproto.NewReader(bufio.NewReader(param0)))#0,\"version\":string)) == 0",
	},
}

func c03HelperErrorExits(p *Prog, r *Report, rule string) {
	frozenHelperErrorExits(p, r, rule, helperErrorExits)
}

func frozenHelperErrorExits(p *Prog, r *Report, rule string, table map[string][]string) {
	defer func(d int, a bool) { renderDepth, renderAllocs = d, a }(renderDepth, renderAllocs)
	renderDepth, renderAllocs = 8, true
	for key, want := range table {
		i := strings.LastIndex(key, ".")
		fn := p.Func(key[:i], key[i+1:])
		if fn == nil {
			r.Undecided(rule, "anchor:"+key, "-", "not found")
			continue
		}
		nilErr := func(in ssa.Instruction) bool {
			ret, ok := in.(*ssa.Return)
			return ok && len(ret.Results) > 0 && isNilConst(retVal(ret, len(ret.Results)-1))
		}
		frozenCompare(p, r, rule, key+":error-exits", fn, fnSkips(fn, nilErr), want, "HELPERERR:"+key,
			"the helper rejects records it used to accept (or the reverse): a record the format allows makes the extractor fail or stop")
	}
}

// c04EmptyIsHistory: a layer is empty exactly when the image history says so — the flag stored in
// Layer.isEmpty is convertV1Layer's parameter, not something derived from the layer's content or
// digest (FromV1Image pairs layers with tars by counting the history's non-empty entries).
func c04EmptyIsHistory(p *Prog, r *Report, rule string) {
	fn := p.Func(imgPkg, "convertV1Layer")
	if fn == nil {
		return
	}
	n := 0
	forEachInstr(fn, func(_ *ssa.BasicBlock, _ int, in ssa.Instruction) {
		st, ok := in.(*ssa.Store)
		if !ok || !storesField("Layer", "isEmpty")(in) {
			return
		}
		n++
		_, isParam := st.Val.(*ssa.Parameter)
		r.Check(isParam, rule, fnKey(fn)+":isEmpty-is-the-history-flag", p.Pos(st.Pos()), "isEmpty = the history's empty_layer flag", "a layer is marked empty for a reason other than the image history's flag (e.g. a well-known digest): the loop that pairs chain layers with layer tars skips it without consuming its tar, so every layer below is filled from the wrong tar")
	})
	r.Count("stores to Layer.isEmpty", n)
}

// noPermOnNodeMode: the mode kept in a file node is the tar header's full mode (type, permission,
// setuid/setgid/sticky); FileMode.Perm() drops the special bits.
func c04FullMode(p *Prog, r *Report, rule string) {
	n := 0
	for _, fn := range p.FuncsIn(imgPkg) {
		forEachInstr(fn, func(_ *ssa.BasicBlock, _ int, in ssa.Instruction) {
			st, ok := in.(*ssa.Store)
			if !ok || !storesField("fileNode", "mode")(in) {
				return
			}
			n++
			bad := derivesFrom(st.Val, func(v ssa.Value) bool {
				c, _ := callValue(v)
				return c != nil && refOf(c.Common()).is("io/fs", "FileMode", "Perm")
			}, deriveOpts{throughCall: func(*ssa.CallCommon) bool { return true }})
			r.Check(!bad, rule, fnKey(fn)+":mode-keeps-special-bits", p.Pos(st.Pos()), "mode stored without Perm()", "a file node's mode goes through FileMode.Perm(): setuid, setgid and sticky bits of the tar entry are lost from every view")
		})
	}
	r.Count("stores to fileNode.mode", n)
}

// c08LocationsBeforePackages: CmpPackages compares Locations, so each package's locations are sorted
// before the packages are.
func c08LocationsBeforePackages(p *Prog, r *Report, rule string) {
	sr := p.Func(".", "sortResults")
	if sr == nil {
		return
	}
	var locSort, pkgSort ssa.Instruction
	forEachInstr(sr, func(_ *ssa.BasicBlock, _ int, in ssa.Instruction) {
		c, ok := in.(*ssa.Call)
		if !ok {
			return
		}
		rf := refOf(c.Common())
		if ((rf.Pkg == "sort" && rf.Name == "Strings") || (rf.Pkg == "slices" && rf.Name == "Sort")) && len(c.Call.Args) == 1 {
			if _, f, _, ok := fieldOf(loadAddr(c.Call.Args[0])); ok && f == "Locations" {
				locSort = in
			}
		}
		if rf.Pkg == "slices" && (rf.Name == "SortFunc" || rf.Name == "SortStableFunc") && len(c.Call.Args) == 2 {
			if _, f, _, ok := fieldOf(loadAddr(c.Call.Args[0])); ok && f == "Packages" {
				pkgSort = in
			}
		}
	})
	if locSort == nil || pkgSort == nil {
		return // reported by D1-sorted
	}
	w := findPath(pointOf(pkgSort), instrIs(locSort), nil, nil)
	r.Check(w == nil, rule, fnKey(sr)+":locations-sorted-before-packages", p.Pos(pkgSort.Pos()), "locations are sorted first", "the packages are sorted before each package's locations are: the comparator's last key is read in extraction order, packages that tie on name, version and extractor come out in an order that depends on it")
}

// c09IteratorForwardsError: dirIterator.next — after ReadDir, an error result is either ReadDir's
// own error, or nil on the edge where that error was tested nil. Anything else (io.EOF on an empty
// list) swallows a failed read as an ordinary end of directory.
func c09IteratorForwardsError(p *Prog, r *Report, rule string) {
	fn := p.Func(fsInt, "dirIterator.next")
	if fn == nil {
		return
	}
	var rd *ssa.Call
	forEachInstr(fn, func(_ *ssa.BasicBlock, _ int, in ssa.Instruction) {
		if c, ok := in.(*ssa.Call); ok && c.Call.IsInvoke() && c.Call.Method.Name() == "ReadDir" {
			rd = c
		}
	})
	if rd == nil {
		return
	}
	isErr := func(v ssa.Value) bool {
		ex, ok := v.(*ssa.Extract)
		return ok && ex.Tuple == ssa.Value(rd) && ex.Index == 1
	}
	_, errNil := guardEdges(fn, condNonNil(isErr))
	for i, ret := range returnsOf(fn) {
		if findPath(pointOf(rd), instrIs(ret), nil, nil) == nil {
			continue
		}
		ev := retVal(ret, len(ret.Results)-1)
		okk := derivesFrom(ev, isErr, deriveOpts{}) && !loadsGlobal(ev, "io", "EOF")
		if !okk && isNilConst(ev) {
			okk = len(errNil) > 0 && !reachable(rd.Block(), edgesOf(errNil), nil)[ret.Block()]
		}
		r.Check(okk, rule, fmt.Sprintf("%s:after-ReadDir:return#%d", fnKey(fn), i), p.Pos(ret.Pos()), "ReadDir's error, or nil once it was tested nil", "after the directory was read, next() answers with an error that is not ReadDir's own (io.EOF for an empty batch): a failed entry read ends the directory like a normal end — nothing is surfaced, and with ErrorOnFSErrors the scan still succeeds")
	}
}

// c11LastColon: "pkg:level" configuration strings are split at the last colon (Maven coordinates
// contain colons).
func c11LastColon(p *Prog, r *Report, rule string) {
	fn := p.Func("guidedremediation/upgrade", "NewConfigFromStrings")
	if fn == nil {
		return
	}
	last := false
	var bad []string
	forEachInstr(fn, func(_ *ssa.BasicBlock, _ int, in ssa.Instruction) {
		c, ok := in.(*ssa.Call)
		if !ok {
			return
		}
		rf := refOf(c.Common())
		if rf.Pkg != "strings" || len(c.Call.Args) < 2 {
			return
		}
		if k, isK := constString(c.Call.Args[1]); !isK || k != ":" {
			return
		}
		switch rf.Name {
		case "LastIndex", "LastIndexByte":
			last = true
		case "Cut", "Index", "IndexByte", "Split", "SplitN", "Fields", "CutPrefix":
			bad = append(bad, rf.Name)
		}
	})
	r.Check(last && len(bad) == 0, rule, fnKey(fn)+":split-at-last-colon", p.Pos(fn.Pos()), "package and level are separated at the last ':'", fmt.Sprintf("the \"package:level\" strings are not split at the last colon (%v): for a Maven coordinate group:artifact:none the level is not recognised and the package silently gets the default level (major)", bad))
}

// c12DiffByID: ConstructPatches tells fixed from introduced vulnerabilities by OSV ID only; the
// alias-aware matcher written for the ignore list must not decide it.
func c12DiffByID(p *Prog, r *Report, rule string) {
	fn := p.Func(pkgRemediation, "ConstructPatches")
	if fn == nil {
		return
	}
	n := 0
	for _, f := range withAnon(fn) {
		forEachInstr(f, func(_ *ssa.BasicBlock, _ int, in ssa.Instruction) {
			c, ok := in.(*ssa.Call)
			if !ok {
				return
			}
			if cal := c.Call.StaticCallee(); cal != nil && cal.Name() == "matchID" {
				n++
				r.Fail(rule, "ConstructPatches:diff-by-id", p.Pos(c.Pos()), "the fixed/introduced difference is computed with the alias-aware ID matcher: two distinct records linked by an alias count as one, so an introduced vulnerability is not reported (and passes NoIntroduce) or a fixed one is not")
			}
		})
	}
	if n == 0 {
		r.OK(rule, "ConstructPatches:diff-by-id", p.Pos(fn.Pos()), "no alias-aware matching in the difference")
	}
}

// c13PluginIdentityUntouched: the writer files a plugin's patches under the plugin's ProjectKey as
// decoded (the reader uses the key as declared): no field of the key is assigned before Name().
func c13PluginIdentityUntouched(p *Prog, r *Report, rule string) {
	fn := p.Func("guidedremediation/internal/manifest/maven", "writeProject")
	if fn == nil {
		return
	}
	n := 0
	forEachInstr(fn, func(_ *ssa.BasicBlock, _ int, in ssa.Instruction) {
		st, ok := in.(*ssa.Store)
		if !ok {
			return
		}
		s, f, _, ok := fieldOf(st.Addr)
		if !ok || s != "ProjectKey" && s != "PackageKey" {
			return
		}
		if f == "GroupID" || f == "ArtifactID" {
			n++
			r.Fail(rule, fnKey(fn)+":key."+f, p.Pos(st.Pos()), "the writer changes the "+f+" of a project key before looking up its patches: the reader files them under the key as declared, so the patches are not found and the file is reported written without the update")
		}
	})
	if n == 0 {
		r.OK(rule, fnKey(fn)+":keys-as-declared", p.Pos(fn.Pos()), "project keys are used as decoded")
	}
}

// c15ParseAsGiven: purl.FromString hands its argument to the parser unchanged (names, versions and
// qualifier values are case-sensitive); only validType folds the case of the type.
func c15ParseAsGiven(p *Prog, r *Report, rule string) {
	fn := p.Func("purl", "FromString")
	if fn != nil && len(fn.Params) == 1 {
		sameValueArg(p, r, rule, "purl.FromString:parses-the-string-as-given", fn, func(c *ssa.Call) bool {
			rf := refOf(c.Common())
			return rf.Name == "FromString" && strings.Contains(rf.Pkg, "packageurl")
		}, 0, func(v ssa.Value) bool { return v == ssa.Value(fn.Params[0]) }, "packageurl.FromString(purl)",
			"the package URL is transformed (e.g. lower-cased) before it is parsed: case-sensitive names, versions and qualifier values do not survive an export/import round trip")
	}
	vt := p.Func("purl", "validType")
	if vt != nil {
		folds := false
		forEachInstr(vt, func(_ *ssa.BasicBlock, _ int, in ssa.Instruction) {
			if c, ok := in.(*ssa.Call); ok && refOf(c.Common()).is("strings", "", "ToLower") {
				folds = true
			}
		})
		r.Check(folds, rule, "purl.validType:type-case-folded", p.Pos(vt.Pos()), "the type is compared in lower case", "validType no longer folds the case of the type: PURLs with an upper-case type are rejected on import")
	}
}

// c16ComparatorLoopReturnsDifferences: in Patch.Compare, a return inside the loop over the package
// updates returns a difference that was tested non-zero; returning a comparison result
// unconditionally ends the comparison at the first pair even when it is equal, so patches that differ
// later compare equal and CompactFunc drops one of them — which one depends on arrival order.
func c16ComparatorLoopReturnsDifferences(p *Prog, r *Report, rule string) {
	fn := p.Func("guidedremediation/result", "Patch.Compare")
	if fn == nil {
		return
	}
	n := 0
	// a return "inside" a loop: its block is entered from a block of the loop's body (not from the loop
	// head's own exit)
	inLoopBody := func(b *ssa.BasicBlock) bool {
		for _, h := range fn.Blocks {
			if !isLoopHeader(h) {
				continue
			}
			body := naturalLoop(h)
			if body[b] {
				return true
			}
			for _, pr := range b.Preds {
				if body[pr] && pr != h {
					return true
				}
			}
		}
		return false
	}
	for i, ret := range returnsOf(fn) {
		if !inLoopBody(ret.Block()) || len(ret.Results) != 1 {
			continue
		}
		n++
		v := retVal(ret, 0)
		if k, isK := constInt(v); isK && k != 0 {
			continue
		}
		nz := condCmp(func(x ssa.Value) bool { return x == v }, isConstInt(0), token.NEQ)
		holds, _ := guardEdges(fn, nz)
		okk := len(holds) > 0 && onlyVia(fn, ret.Block(), holds)
		r.Check(okk, rule, fmt.Sprintf("%s:loop-return#%d", fnKey(fn), i), p.Pos(ret.Pos()), "returned only when non-zero", "the comparator leaves its loop over the package updates with a comparison result that may be zero: two patches that differ only in a later update compare equal and the de-duplication keeps whichever arrived first")
	}
	r.Count("returns inside the comparator's loop", n)
}

// c16SortsOwnCopy: getVersionsGreater sorts a copy of the version list the client returned (the
// client's slice is shared by all concurrent patch attempts).
func c16SortsOwnCopy(p *Prog, r *Report, rule string) {
	fn := p.Func("guidedremediation/internal/strategy/override", "getVersionsGreater")
	if fn == nil {
		return
	}
	forEachInstr(fn, func(_ *ssa.BasicBlock, _ int, in ssa.Instruction) {
		c, ok := in.(*ssa.Call)
		if !ok {
			return
		}
		rf := refOf(c.Common())
		if rf.Pkg != "slices" || !strings.HasPrefix(rf.Name, "Sort") || len(c.Call.Args) < 1 {
			return
		}
		okk := true
		for _, l := range phiLeaves(c.Call.Args[0], c.Block()) {
			cc, _ := callValue(l.val)
			if cc == nil || !(refOf(cc.Common()).Pkg == "slices" && strings.HasPrefix(refOf(cc.Common()).Name, "Clone")) {
				okk = false
			}
		}
		r.Check(okk, rule, fnKey(fn)+":sorts-a-copy", p.Pos(c.Pos()), "slices.SortFunc(slices.Clone(versions), …)", "the version list returned by the resolve client is sorted in place: concurrent patch attempts read and write the same backing array, and the client's list is left in another order for later callers")
	})
}

// c17DepthAsConfigured: FromV1Image passes config.MaxSymlinkDepth on as it is (0 is a valid setting:
// no symlink may be followed).
func c17DepthAsConfigured(p *Prog, r *Report, rule string) {
	fn := p.Func(imgPkg, "FromV1Image")
	if fn == nil {
		return
	}
	for _, callee := range []string{"initializeChainLayers", "removeUnnecessaryFileNodes"} {
		sameValueArg(p, r, rule, "FromV1Image:"+callee+":depth-as-configured", fn, func(c *ssa.Call) bool {
			cal := c.Call.StaticCallee()
			return cal != nil && cal.Name() == callee
		}, 2, func(v ssa.Value) bool { return loadsField(v, "Config", "MaxSymlinkDepth") }, "config.MaxSymlinkDepth",
			"the hop budget handed to "+callee+" is not the configured MaxSymlinkDepth itself (a 0 is replaced by the default): with depth 0 chains of up to six hops resolve instead of failing with a depth error")
	}
}

var wVerb = regexp.MustCompile(`%[-+# 0-9.*\[\]]*[a-zA-Z%]`)

// wrappedOperand: the argument of a fmt.Errorf call that its constant format wraps with %w (nil when
// there is none or the format is not constant).
func wrappedOperand(c *ssa.Call) ssa.Value {
	if c == nil || !refOf(c.Common()).is("fmt", "", "Errorf") || len(c.Call.Args) == 0 {
		return nil
	}
	format, ok := constString(c.Call.Args[0])
	if !ok {
		return nil
	}
	args := flattenVariadic(c.Call.Args[1:])
	i := 0
	for _, m := range wVerb.FindAllString(format, -1) {
		if m == "%%" {
			continue
		}
		if strings.HasSuffix(m, "w") {
			if i < len(args) {
				return stripIface(args[i])
			}
			return nil
		}
		i++
	}
	return nil
}

// c17StatKeepsResolverError: when the resolver fails, Stat / Open / ReadDir return that error — as it
// is, or wrapped with %w — not another error class with the resolver's error only printed.
func c17StatKeepsResolverError(p *Prog, r *Report, rule string) {
	for _, m := range []string{"FS.Stat", "FS.Open", "FS.ReadDir"} {
		fn := p.Func(imgPkg, m)
		if fn == nil {
			continue
		}
		var rc *ssa.Call
		forEachInstr(fn, func(_ *ssa.BasicBlock, _ int, in ssa.Instruction) {
			if c, ok := in.(*ssa.Call); ok {
				if cal := c.Call.StaticCallee(); cal != nil && cal.Name() == "resolveSymlink" {
					rc = c
				}
			}
		})
		if rc == nil {
			continue
		}
		isErr := func(v ssa.Value) bool {
			ex, ok := v.(*ssa.Extract)
			return ok && ex.Tuple == ssa.Value(rc) && ex.Index == 1
		}
		holds, _ := guardEdges(fn, condNonNil(isErr))
		for i, ret := range returnsOf(fn) {
			under := false
			for _, ed := range holds {
				if findPath(edgeStart(ed), instrIs(ret), nil, nil) != nil && onlyVia(fn, ret.Block(), holds) {
					under = true
				}
			}
			if !under {
				continue
			}
			ev := stripIface(retVal(ret, len(ret.Results)-1))
			okk := isErr(ev)
			if c, _ := callValue(ev); c != nil {
				if w := wrappedOperand(c); w != nil && isErr(w) {
					okk = true
				}
			}
			r.Check(okk, rule, fmt.Sprintf("%s:resolver-error-kept:return#%d", fnKey(fn), i), p.Pos(ret.Pos()), "the resolver's error is returned (wrapped with %w)", "when the symlink cannot be resolved "+m+" returns another error class and only prints the resolver's error: a cycle or an over-long chain is reported as 'does not exist'")
		}
	}
}

// skipDirOnlyForSkippedDirs: the walk callback returns fs.SkipDir only under shouldSkipDir(path)
// (for a file, SkipDir ends the listing of its directory: what is extracted then depends on the order
// in which the directory lists its entries).
func skipDirOnlyForSkippedDirs(p *Prog, r *Report, e *engine, rule string) {
	hf := newFA(p, r, e.handleFile)
	ssd := condCall(func(c *ssa.Call) bool { return c.Call.StaticCallee() == e.shouldSkipDir })
	n := 0
	for _, ret := range returnsOf(hf.fn) {
		if len(ret.Results) == 1 && loadsGlobal(retVal(ret, 0), "io/fs", "SkipDir") {
			n++
			hf.requireGuard(rule, "SkipDir-only-if-skip", ret, true, "shouldSkipDir(path)", ssd)
		}
	}
	r.Count("returns of fs.SkipDir in the walk callback", n)
}

var _ = types.Typ
