package main

// Source-level normalisation: calls of NEW helper functions are inlined before the analysis.
//
// The rules of this checker were calibrated on the functions of the pinned tree (inventory.txt, one
// line per first-party function or method, regenerate with `scalint -inventory`). When a later change
// moves a piece of one of those functions into a helper that did not exist then — the commonest
// behaviour-preserving refactoring there is — the rules would no longer find the logic where they
// look for it. So every call of a function that is not in the inventory, made from the same package
// in one of the statement shapes below, is replaced by the helper's body (arguments bound to fresh
// locals, `return` turned into assignments and jumps), and the analysis runs on that program. The
// rewrite is a semantics-preserving desugaring; when it cannot be applied safely (defer in the
// helper, named results, result types that differ, shadowed names, …) the call is simply left alone,
// and when the rewritten package does not type-check the whole normalisation is dropped.
//
// Shapes:  return h(a…)         →  { binds; body }                       (result types identical)
//          h(a…)                →  { binds; body[return → goto E]; E: }
//          x, y := h(a…) / =    →  var x T…; { binds; body[return e… → x, y = e…; goto E]; E: }
//          if [!]h(a…) {T} else {F}  →  { binds; body[return e → if e {goto T}; goto F]; T: {T}; goto E; F: {F}; E: }
//          for … range h(a…)    →  r := h(a…) hoisted, then as an assignment
// Positions: every generated line carries a //line directive naming the call's line, and the code
// after the rewritten statement is re-synchronised, so reports keep pointing into the real file.

import (
	"bytes"
	_ "embed"
	"fmt"
	"go/ast"
	"go/constant"
	"go/parser"
	"go/printer"
	"go/token"
	"go/types"
	"os"
	"regexp"
	"sort"
	"strconv"
	"strings"

	"golang.org/x/tools/go/packages"
)

//go:embed inventory.txt
var inventoryTxt string

var inventory map[string]bool

func loadInventory() {
	if inventory != nil {
		return
	}
	inventory = map[string]bool{}
	for _, l := range strings.Split(inventoryTxt, "\n") {
		l = strings.TrimSpace(l)
		if l != "" && !strings.HasPrefix(l, "#") {
			inventory[l] = true
		}
	}
}

// declKey: pkgpath.Recv.name (receiver without pointer and type arguments).
func declKey(pkgPath string, fd *ast.FuncDecl) string {
	recv := ""
	if fd.Recv != nil && len(fd.Recv.List) == 1 {
		t := fd.Recv.List[0].Type
		for {
			switch x := t.(type) {
			case *ast.StarExpr:
				t = x.X
				continue
			case *ast.ParenExpr:
				t = x.X
				continue
			case *ast.IndexExpr:
				t = x.X
				continue
			case *ast.IndexListExpr:
				t = x.X
				continue
			}
			break
		}
		if id, ok := t.(*ast.Ident); ok {
			recv = id.Name
		}
	}
	return pkgPath + "." + recv + "." + fd.Name.Name
}

// movedKnown: fd is a function of the pinned tree that changed between method and plain function (or
// moved to another receiver type): the inventory has the name in this package under another
// receiver, and that other declaration is gone from the current tree. Such a function keeps its role
// as an anchor of the rules and is not inlined.
func movedKnown(pk *packages.Package, fd *ast.FuncDecl) bool {
	loadInventory()
	suffix := "." + fd.Name.Name
	prefix := pk.PkgPath + "."
	present := map[string]bool{}
	for _, f := range pk.Syntax {
		for _, d := range f.Decls {
			if x, ok := d.(*ast.FuncDecl); ok {
				present[declKey(pk.PkgPath, x)] = true
			}
		}
	}
	for k := range inventory {
		if strings.HasPrefix(k, prefix) && strings.HasSuffix(k, suffix) && !strings.Contains(k, "$") {
			rest := strings.TrimSuffix(strings.TrimPrefix(k, prefix), suffix)
			if strings.Contains(rest, ".") || strings.Contains(rest, "/") {
				continue // another package
			}
			if !present[k] {
				return true
			}
		}
	}
	return false
}

// inventoryOf lists the keys of every first-party function declaration with a body.
func inventoryOf(pkgs []*packages.Package) []string {
	var out []string
	for _, pk := range pkgs {
		if !strings.HasPrefix(pk.PkgPath, modPath) {
			continue
		}
		for _, f := range pk.Syntax {
			for _, d := range f.Decls {
				if fd, ok := d.(*ast.FuncDecl); ok {
					out = append(out, declKey(pk.PkgPath, fd))
					if fd.Body == nil {
						continue
					}
					// local closures bound to a name: <function>$<name>
					ast.Inspect(fd.Body, func(n ast.Node) bool {
						switch x := n.(type) {
						case *ast.AssignStmt:
							if x.Tok == token.DEFINE && len(x.Lhs) == 1 && len(x.Rhs) == 1 {
								if id, ok := x.Lhs[0].(*ast.Ident); ok {
									if _, isLit := unparen(x.Rhs[0]).(*ast.FuncLit); isLit {
										out = append(out, declKey(pk.PkgPath, fd)+"$"+id.Name)
									}
								}
							}
						case *ast.ValueSpec:
							if len(x.Names) == 1 && len(x.Values) == 1 {
								if _, isLit := unparen(x.Values[0]).(*ast.FuncLit); isLit {
									out = append(out, declKey(pk.PkgPath, fd)+"$"+x.Names[0].Name)
								}
							}
						}
						return true
					})
				}
			}
		}
	}
	sort.Strings(out)
	return out
}

type helper struct {
	key   string
	sig   *types.Signature
	ftype *ast.FuncType
	recv  *ast.FieldList
	body  *ast.BlockStmt
	file  *ast.File
	decl  *ast.FuncDecl // nil for a local closure
	lit   *ast.FuncLit  // the closure's literal
	def   ast.Node      // the statement that defines the closure variable
	name  string        // the closure variable
	used  bool          // at least one call was inlined in this round
}

// self: the statement lies inside the helper's own body (a helper is never inlined into itself).
func (h *helper) self(encl *ast.FuncDecl, st ast.Stmt) bool {
	if h.lit != nil {
		return h.lit.Pos() <= st.Pos() && st.End() <= h.lit.End()
	}
	return h.decl == encl
}

type textEdit struct {
	start, end int
	text       string
	h          *helper // the helper inlined by this edit
}

type inliner struct {
	pk      *packages.Package
	fset    *token.FileSet
	helpers map[types.Object]*helper
	n       int // fresh-name counter
	log     []string
	nsites  int
	// type aliases declared at the end of the helper's own file (whose imports and package scope
	// give the helper's type expressions their meaning): callers name parameter and result types
	// through them, so neither a missing import nor a shadowed name at the call site matters
	aliasDecl map[*ast.File][]string
	aliasName map[string]string
	last      *helper // helper of the most recent rewrite
	tfile     map[*ast.File]*token.File
	curCall   *ast.CallExpr // the call being rewritten (set by helperCall)
	scanning  bool          // helperCall is only asked whether an expression is a helper call
	tailCall  bool          // the call being inlined is the operand of a return statement
	noFlatten bool          // deferred calls of the helper may not be moved to its returns (the caller has an exact form)
}

// inlineRound returns new contents for the files in which at least one call was inlined.
func inlineRound(pkgs []*packages.Package, overlay map[string][]byte, seq *int) (map[string][]byte, []string) {
	loadInventory()
	out := map[string][]byte{}
	var log []string
	for _, pk := range pkgs {
		if !strings.HasPrefix(pk.PkgPath, modPath) || pk.TypesInfo == nil {
			continue
		}
		il := &inliner{pk: pk, fset: pk.Fset, helpers: map[types.Object]*helper{}, n: *seq, aliasDecl: map[*ast.File][]string{}, aliasName: map[string]string{}}
		for _, f := range pk.Syntax {
			for _, d := range f.Decls {
				fd, ok := d.(*ast.FuncDecl)
				if !ok || fd.Body == nil {
					continue
				}
				il.findClosures(pk.PkgPath, f, fd)
				key := declKey(pk.PkgPath, fd)
				if inventory[key] || movedKnown(pk, fd) {
					continue
				}
				obj, _ := pk.TypesInfo.Defs[fd.Name].(*types.Func)
				if obj == nil {
					continue
				}
				il.helpers[obj] = &helper{key: key, sig: obj.Type().(*types.Signature), ftype: fd.Type, recv: fd.Recv, body: fd.Body, file: f, decl: fd}
			}
		}
		// a helper that is also used as a value (passed to slices.SortFunc, stored in a table) has an
		// identity some rule may compare (the same comparator sorts and de-duplicates): its calls stay
		for _, f := range pk.Syntax {
			callPos := map[*ast.Ident]bool{} // identifiers in call position
			blank := map[*ast.Ident]bool{}   // `_ = name` left by an earlier round
			ast.Inspect(f, func(n ast.Node) bool {
				switch x := n.(type) {
				case *ast.CallExpr:
					switch fn := unparen(x.Fun).(type) {
					case *ast.Ident:
						callPos[fn] = true
					case *ast.SelectorExpr:
						callPos[fn.Sel] = true
					}
				case *ast.AssignStmt:
					if x.Tok == token.ASSIGN && len(x.Lhs) == 1 && len(x.Rhs) == 1 {
						if l, ok := x.Lhs[0].(*ast.Ident); ok && l.Name == "_" {
							if r, ok := x.Rhs[0].(*ast.Ident); ok {
								blank[r] = true
							}
						}
					}
				}
				return true
			})
			ast.Inspect(f, func(n ast.Node) bool {
				id, ok := n.(*ast.Ident)
				if !ok || callPos[id] || blank[id] {
					return true
				}
				if o := pk.TypesInfo.Uses[id]; o != nil {
					if fo, isF := o.(*types.Func); isF {
						o = fo.Origin()
					}
					if il.helpers[o] != nil {
						delete(il.helpers, o)
					}
				}
				return true
			})
		}
		if len(il.helpers) == 0 {
			continue
		}
		type fileWork struct {
			f     *ast.File
			name  string
			src   []byte
			edits []textEdit
		}
		var work []*fileWork
		for _, f := range pk.Syntax {
			tf := il.fset.File(f.Pos())
			if tf == nil {
				continue
			}
			name := tf.Name()
			src, ok := overlay[name]
			if !ok {
				b, err := os.ReadFile(name)
				if err != nil {
					continue
				}
				src = b
			}
			work = append(work, &fileWork{f: f, name: name, src: src, edits: il.fileEdits(f, tf, src)})
		}
		for _, w := range work {
			if len(w.edits) == 0 && len(il.aliasDecl[w.f]) == 0 {
				continue
			}
			// nothing inlined in the package: aliases are not needed either
			sort.Slice(w.edits, func(i, j int) bool { return w.edits[i].start < w.edits[j].start })
			// which edits apply in this round (an edit nested in an applied one waits for the next)
			var applied []textEdit
			last := 0
			nApplied := map[*helper]int{}
			for _, e := range w.edits {
				if e.start < last {
					continue
				}
				applied = append(applied, e)
				last = e.end
				if e.h != nil {
					nApplied[e.h]++
				}
			}
			// a closure all of whose uses were inlined is removed (its lines stay, blank); one with uses
			// left keeps its definition and gets a blank use
			tf := il.fset.File(w.f.Pos())
			for h, n := range nApplied {
				if h.lit == nil || h.def == nil || h.file != w.f || n == 0 {
					continue
				}
				st, en := tf.Offset(h.def.Pos()), tf.Offset(h.def.End())
				inside := false
				for _, e := range applied {
					if e.start <= st && en <= e.end {
						inside = true
					}
				}
				if inside {
					continue
				}
				if n == il.usesOf(h) {
					if _, isSpec := h.def.(*ast.ValueSpec); !isSpec {
						blank := strings.Repeat("\n", strings.Count(string(w.src[st:en]), "\n"))
						// the blank use left by an earlier round goes with the definition
						if tail := "; _ = " + h.name; strings.HasPrefix(string(w.src[en:]), tail) {
							en += len(tail)
						}
						applied = append(applied, textEdit{start: st, end: en, text: blank})
						continue
					}
				}
				applied = append(applied, textEdit{start: en, end: en, text: "; _ = " + h.name})
			}
			sort.Slice(applied, func(i, j int) bool { return applied[i].start < applied[j].start })
			var buf bytes.Buffer
			last = 0
			for _, e := range applied {
				if e.start < last {
					continue
				}
				buf.Write(w.src[last:e.start])
				buf.WriteString(e.text)
				last = e.end
			}
			buf.Write(w.src[last:])
			if ds := il.aliasDecl[w.f]; len(ds) > 0 {
				if !bytes.HasSuffix(buf.Bytes(), []byte("\n")) {
					buf.WriteString("\n")
				}
				for _, d := range ds {
					buf.WriteString(d + "\n")
				}
			}
			out[w.name] = buf.Bytes()
		}
		*seq = il.n
		log = append(log, il.log...)
	}
	return out, log
}

// stmtLists visits every statement list of a file together with the enclosing function body.
func stmtLists(f *ast.File, visit func(list []ast.Stmt)) {
	ast.Inspect(f, func(n ast.Node) bool {
		switch x := n.(type) {
		case *ast.BlockStmt:
			visit(x.List)
		case *ast.CaseClause:
			visit(x.Body)
		case *ast.CommClause:
			visit(x.Body)
		}
		return true
	})
}

func unparen(e ast.Expr) ast.Expr {
	for {
		p, ok := e.(*ast.ParenExpr)
		if !ok {
			return e
		}
		e = p.X
	}
}

// helperCall: e is a direct call of a new helper of this package.
func (il *inliner) helperCall(e ast.Expr) (*ast.CallExpr, *helper) {
	c, ok := unparen(e).(*ast.CallExpr)
	if !ok || c.Ellipsis.IsValid() {
		return nil, nil
	}
	var id *ast.Ident
	switch f := unparen(c.Fun).(type) {
	case *ast.Ident:
		id = f
	case *ast.SelectorExpr:
		id = f.Sel
	default:
		return nil, nil
	}
	obj := il.pk.TypesInfo.Uses[id]
	if obj == nil {
		return nil, nil
	}
	if fo, isF := obj.(*types.Func); isF {
		obj = fo.Origin() // a method of a generic type is used through an instance
	}
	h := il.helpers[obj]
	if h == nil {
		return nil, nil
	}
	if h.lit != nil {
		if _, isIdent := unparen(c.Fun).(*ast.Ident); !isIdent {
			return nil, nil
		}
	}
	if h.generic() && !il.sameTypeParams(c, h) {
		return nil, nil
	}
	if !il.scanning {
		il.curCall = c
	}
	return c, h
}

// generic: a method of a generic type (functions with type parameters of their own are not handled).
func (h *helper) generic() bool {
	return h.sig.RecvTypeParams() != nil && h.sig.RecvTypeParams().Len() > 0
}

// sameTypeParams: the call's receiver is the helper's generic type instantiated with type
// parameters of the calling function that carry the very names the helper gave its own (rq
// *RequestCache[K, V] calling a method declared on *RequestCache[K, V]): the helper's body, read at the
// call site, then speaks of the same types.
func (il *inliner) sameTypeParams(c *ast.CallExpr, h *helper) bool {
	if h.sig.TypeParams() != nil && h.sig.TypeParams().Len() > 0 {
		return false
	}
	sel, ok := unparen(c.Fun).(*ast.SelectorExpr)
	if !ok {
		return false
	}
	t := il.pk.TypesInfo.TypeOf(sel.X)
	if t == nil {
		return false
	}
	if pt, isP := t.Underlying().(*types.Pointer); isP {
		t = pt.Elem()
	}
	named, ok := types.Unalias(t).(*types.Named)
	if !ok {
		return false
	}
	want := h.sig.RecvTypeParams()
	got := named.TypeArgs()
	if got == nil || got.Len() != want.Len() {
		return false
	}
	sc := il.pk.Types.Scope().Innermost(c.Pos())
	if sc == nil {
		return false
	}
	for i := 0; i < want.Len(); i++ {
		tp, isTP := got.At(i).(*types.TypeParam)
		if !isTP || tp.Obj().Name() != want.At(i).Obj().Name() {
			return false
		}
		// and that name means this type parameter where the call stands
		_, at := sc.LookupParent(tp.Obj().Name(), c.Pos())
		if at != types.Object(tp.Obj()) {
			return false
		}
	}
	return true
}

// sigOf: the helper's signature as the current call sees it (instantiated for a generic receiver).
func (il *inliner) sigOf(h *helper) *types.Signature {
	if h.generic() && il.curCall != nil {
		if s, ok := il.pk.TypesInfo.TypeOf(il.curCall.Fun).(*types.Signature); ok {
			return s
		}
	}
	return h.sig
}

// typeText: t written out for the file and position of the current call; refuses when a package it
// names is not imported there or a name it uses means something else there.
func (il *inliner) typeText(t types.Type) (string, bool) {
	c := il.curCall
	if c == nil {
		return "", false
	}
	var file *ast.File
	for _, f := range il.pk.Syntax {
		if f.Pos() <= c.Pos() && c.Pos() < f.End() {
			file = f
		}
	}
	if file == nil {
		return "", false
	}
	ok := true
	text := types.TypeString(t, func(p *types.Package) string {
		if p == il.pk.Types {
			return ""
		}
		for _, im := range file.Imports {
			path, err := strconv.Unquote(im.Path.Value)
			if err != nil || path != p.Path() {
				continue
			}
			if im.Name != nil {
				if im.Name.Name == "_" || im.Name.Name == "." {
					ok = false
				}
				return im.Name.Name
			}
			return p.Name()
		}
		ok = false
		return p.Name()
	})
	if !ok || strings.Contains(text, "\n") {
		return "", false
	}
	e, err := parser.ParseExpr(text)
	if err != nil {
		return "", false
	}
	sc := il.pk.Types.Scope().Innermost(c.Pos())
	if sc == nil {
		return "", false
	}
	ast.Inspect(e, func(n ast.Node) bool {
		switch x := n.(type) {
		case *ast.SelectorExpr:
			if id, isID := x.X.(*ast.Ident); isID {
				if _, at := sc.LookupParent(id.Name, c.Pos()); at == nil {
					ok = false
				} else if _, isPkg := at.(*types.PkgName); !isPkg {
					ok = false
				}
			}
			return false
		case *ast.StructType, *ast.InterfaceType, *ast.FuncType:
			ok = false // literal types: not needed, not handled
			return false
		case *ast.Ident:
			_, at := sc.LookupParent(x.Name, c.Pos())
			if _, isTN := at.(*types.TypeName); !isTN {
				ok = false
			}
		}
		return true
	})
	return text, ok
}

// usesOf counts the uses of a closure variable (blank assignments `_ = name` left by earlier rounds
// do not count).
func (il *inliner) usesOf(h *helper) int {
	info := il.pk.TypesInfo
	var obj types.Object
	for o, hh := range il.helpers {
		if hh == h {
			obj = o
		}
	}
	if obj == nil {
		return -1
	}
	n := 0
	ast.Inspect(h.file, func(nd ast.Node) bool {
		if as, ok := nd.(*ast.AssignStmt); ok && as.Tok == token.ASSIGN && len(as.Lhs) == 1 && len(as.Rhs) == 1 {
			if l, ok := as.Lhs[0].(*ast.Ident); ok && l.Name == "_" {
				if r, ok := as.Rhs[0].(*ast.Ident); ok && info.Uses[r] == obj {
					return false
				}
			}
		}
		if id, ok := nd.(*ast.Ident); ok && info.Uses[id] == obj {
			n++
		}
		return true
	})
	return n
}

// findClosures registers the local closures of fd that are new: `name := func(…) … {…}` (or
// `var name = func…`), never assigned again and never address-taken. Key: <function key>$<name>.
func (il *inliner) findClosures(pkgPath string, f *ast.File, fd *ast.FuncDecl) {
	info := il.pk.TypesInfo
	cands := map[types.Object]*helper{}
	reg := func(id *ast.Ident, rhs ast.Expr, def ast.Node) {
		lit, ok := unparen(rhs).(*ast.FuncLit)
		if !ok || id.Name == "_" {
			return
		}
		obj := info.Defs[id]
		if obj == nil {
			return
		}
		key := declKey(pkgPath, fd) + "$" + id.Name
		if inventory[key] {
			return
		}
		sig, _ := info.TypeOf(lit).(*types.Signature)
		if sig == nil {
			return
		}
		cands[obj] = &helper{key: key, sig: sig, ftype: lit.Type, body: lit.Body, file: f, lit: lit, def: def, name: id.Name}
	}
	ast.Inspect(fd.Body, func(n ast.Node) bool {
		switch x := n.(type) {
		case *ast.AssignStmt:
			if x.Tok == token.DEFINE && len(x.Lhs) == 1 && len(x.Rhs) == 1 {
				if id, ok := x.Lhs[0].(*ast.Ident); ok {
					reg(id, x.Rhs[0], x)
				}
			}
		case *ast.ValueSpec:
			if len(x.Names) == 1 && len(x.Values) == 1 {
				reg(x.Names[0], x.Values[0], x)
			}
		}
		return true
	})
	if len(cands) == 0 {
		return
	}
	// disqualify: assigned again, address taken, incremented
	ast.Inspect(fd.Body, func(n ast.Node) bool {
		switch x := n.(type) {
		case *ast.AssignStmt:
			if x.Tok == token.DEFINE {
				return true
			}
			for _, l := range x.Lhs {
				if id, ok := unparen(l).(*ast.Ident); ok {
					delete(cands, info.Uses[id])
				}
			}
		case *ast.UnaryExpr:
			if x.Op == token.AND {
				if id, ok := unparen(x.X).(*ast.Ident); ok {
					delete(cands, info.Uses[id])
				}
			}
		}
		return true
	})
	for o, h := range cands {
		il.helpers[o] = h
		if os.Getenv("SCALINT_INLINE_DEBUG") != "" {
			fmt.Fprintf(os.Stderr, "inline: new closure %s\n", h.key)
		}
	}
}

func (il *inliner) fileEdits(f *ast.File, tf *token.File, src []byte) []textEdit {
	var edits []textEdit
	// else-branches cannot be prefixed with statements
	elseIfs := map[*ast.IfStmt]bool{}
	ast.Inspect(f, func(n ast.Node) bool {
		if is, ok := n.(*ast.IfStmt); ok {
			if e, ok := is.Else.(*ast.IfStmt); ok {
				elseIfs[e] = true
			}
		}
		return true
	})
	// the function declaration each statement list belongs to (a helper is never inlined into itself)
	var curDecl *ast.FuncDecl
	for _, d := range f.Decls {
		fd, ok := d.(*ast.FuncDecl)
		if !ok || fd.Body == nil {
			continue
		}
		curDecl = fd
		ast.Inspect(fd.Body, func(n ast.Node) bool {
			var list []ast.Stmt
			switch x := n.(type) {
			case *ast.BlockStmt:
				list = x.List
			case *ast.CaseClause:
				list = x.Body
			case *ast.CommClause:
				list = x.Body
			default:
				return true
			}
			span := func(first, last ast.Stmt) (ls, nl int, ok bool) {
				start := tf.Offset(first.Pos())
				end := tf.Offset(last.End())
				// the rest of the last line must be blank or a comment
				nl = end
				for nl < len(src) && src[nl] != '\n' {
					nl++
				}
				rest := strings.TrimSpace(string(src[end:nl]))
				if (rest != "" && !strings.HasPrefix(rest, "//")) || nl >= len(src) {
					return 0, 0, false
				}
				// the statement must start its line (only blanks before it)
				ls = start
				for ls > 0 && src[ls-1] != '\n' {
					ls--
				}
				if strings.TrimSpace(string(src[ls:start])) != "" {
					return 0, 0, false
				}
				return ls, nl, true
			}
			for i := 0; i < len(list); i++ {
				st := list[i]
				if elseIfs[asIf(st)] {
					continue
				}
				last := st
				text, ok := "", false
				// v, err := h(…) followed by a test of one of its results: threaded
				if as, isAs := st.(*ast.AssignStmt); isAs && i+1 < len(list) {
					if ifs := asIf(list[i+1]); ifs != nil && ifs.Init == nil {
						if _, _, fits := span(st, ifs); fits {
							if text, ok = il.rewriteAssignIf(f, curDecl, as, ifs, false, src, tf); ok {
								last = ifs
								i++
							}
						}
					}
				}
				if !ok {
					if ifs := asIf(st); ifs != nil && ifs.Init != nil {
						if as, isAs := ifs.Init.(*ast.AssignStmt); isAs {
							if _, _, fits := span(st, st); fits {
								text, ok = il.rewriteAssignIf(f, curDecl, as, ifs, true, src, tf)
							}
						}
					}
				}
				if !ok {
					if _, _, fits := span(st, st); !fits {
						continue
					}
					text, ok = il.rewriteStmt(f, curDecl, st, src, tf)
				}
				if !ok {
					continue
				}
				ls, nl, _ := span(st, last)
				endLine := il.fset.PositionFor(last.End(), true).Line
				fname := il.fset.PositionFor(st.Pos(), true).Filename
				text += "\n" + fmt.Sprintf("//line %s:%d\n", fname, endLine+1)
				edits = append(edits, textEdit{start: ls, end: nl + 1, text: text, h: il.last})
				il.nsites++
			}
			return true
		})
	}
	return edits
}

func asIf(s ast.Stmt) *ast.IfStmt {
	is, _ := s.(*ast.IfStmt)
	return is
}

// rewriteStmt recognises the statement shape and produces the replacement text.
func (il *inliner) rewriteStmt(f *ast.File, encl *ast.FuncDecl, st ast.Stmt, src []byte, tf *token.File) (string, bool) {
	if text, ok := il.rewriteStmtDirect(f, encl, st, src, tf); ok {
		return text, true
	}
	return il.hoistFirstCall(f, encl, st, src, tf)
}

func (il *inliner) rewriteStmtDirect(f *ast.File, encl *ast.FuncDecl, st ast.Stmt, src []byte, tf *token.File) (string, bool) {
	info := il.pk.TypesInfo
	line := il.fset.PositionFor(st.Pos(), true).Line
	fname := il.fset.PositionFor(st.Pos(), true).Filename
	pin := func(s string) string { return pinLines(s, fname, line) }
	verbatim := func(n ast.Node) string {
		p := il.fset.PositionFor(n.Pos(), true)
		return fmt.Sprintf("//line %s:%d\n%s", p.Filename, p.Line, string(src[tf.Offset(n.Pos()):tf.Offset(n.End())]))
	}
	switch x := st.(type) {
	case *ast.ReturnStmt:
		if len(x.Results) != 1 {
			return "", false
		}
		c, h := il.helperCall(x.Results[0])
		if h == nil || h.self(encl, st) {
			return "", false
		}
		// result types of caller and helper must be identical
		var callerRes *types.Tuple
		if obj, _ := info.Defs[encl.Name].(*types.Func); obj != nil {
			callerRes = obj.Type().(*types.Signature).Results()
		}
		if lit := enclosingFuncLit(encl, st); lit != nil {
			if sig, ok := info.TypeOf(lit).(*types.Signature); ok {
				callerRes = sig.Results()
			}
		}
		hres := il.sigOf(h).Results()
		if callerRes == nil || !types.Identical(callerRes, hres) {
			if os.Getenv("SCALINT_INLINE_DEBUG") != "" {
				fmt.Fprintf(os.Stderr, "inline: %s at line %d refused: result types differ (%v vs %v)\n", h.key, line, callerRes, hres)
			}
			return "", false
		}
		pre, binds, ok := il.bind(f, c, h)
		if !ok {
			if os.Getenv("SCALINT_INLINE_DEBUG") != "" {
				fmt.Fprintf(os.Stderr, "inline: %s at line %d refused: bind\n", h.key, line)
			}
			return "", false
		}
		il.tailCall = true
		body, ok := il.body(f, c, h, func(r *ast.ReturnStmt) []ast.Stmt { return []ast.Stmt{r} })
		il.tailCall = false
		if !ok {
			if os.Getenv("SCALINT_INLINE_DEBUG") != "" {
				fmt.Fprintf(os.Stderr, "inline: %s at line %d refused: body\n", h.key, line)
			}
			return "", false
		}
		il.note(h, "return", fname, line)
		// the block ends in a return on every path, but the compiler's terminating-statement rule does
		// not see that through a labelled or looping body: when this is the function's last
		// statement, a panic that is never reached keeps the function well-formed
		tailGuard := ""
		if isTail(encl, enclosingFuncLit(encl, st), st) {
			tailGuard = "\npanic(\"unreachable\")"
		}
		return pin("{\n" + pre + "{\n" + binds + body + "\n}\n}" + tailGuard), true
	case *ast.ExprStmt:
		c, h := il.helperCall(x.X)
		if h == nil || h.self(encl, st) {
			return "", false
		}
		if h.sig.Results().Len() != 0 {
			return "", false
		}
		pre, binds, ok := il.bind(f, c, h)
		if !ok {
			return "", false
		}
		il.n++
		end := fmt.Sprintf("ſ%dE", il.n)
		il.noFlatten = true
		body, ok := il.body(f, c, h, func(r *ast.ReturnStmt) []ast.Stmt {
			return []ast.Stmt{&ast.BranchStmt{Tok: token.GOTO, Label: ast.NewIdent(end)}}
		})
		il.noFlatten = false
		if !ok {
			// a result-less helper that defers: its body runs in a function literal called on the
			// spot, so its deferred calls still run when *it* returns
			il.tailCall = true
			body, ok = il.body(f, c, h, func(r *ast.ReturnStmt) []ast.Stmt { return []ast.Stmt{r} })
			il.tailCall = false
			if !ok || !hasDefer(h.body) {
				return "", false
			}
			il.note(h, "statement (literal)", fname, line)
			return pin("{\n" + pre + "func() {\n" + binds + body + "\n}()\n}"), true
		}
		il.note(h, "statement", fname, line)
		return pin("{\n" + pre + "{\n" + binds + body + "\n}\ngoto " + end + "\n" + end + ":\n}"), true
	case *ast.DeferStmt, *ast.GoStmt:
		// `defer h(a…)` / `go h(a…)` with a result-less helper: the arguments are evaluated where the
		// statement stands, the body runs in a function literal (its returns stay returns)
		var call *ast.CallExpr
		kw := "defer"
		if d, isD := x.(*ast.DeferStmt); isD {
			call = d.Call
		} else {
			call = x.(*ast.GoStmt).Call
			kw = "go"
		}
		c, h := il.helperCall(call)
		if h == nil || h.self(encl, st) || h.sig.Results().Len() != 0 {
			return "", false
		}
		pre, binds, ok := il.bind(f, c, h)
		if !ok {
			return "", false
		}
		body, ok := il.body(f, c, h, func(r *ast.ReturnStmt) []ast.Stmt { return []ast.Stmt{r} })
		if !ok {
			return "", false
		}
		il.note(h, kw, fname, line)
		return pin("{\n" + pre + kw + " func() {\n" + binds + body + "\n}()\n}"), true
	case *ast.AssignStmt:
		if len(x.Rhs) != 1 || (x.Tok != token.DEFINE && x.Tok != token.ASSIGN) {
			return "", false
		}
		c, h := il.helperCall(x.Rhs[0])
		if h == nil || h.self(encl, st) {
			return "", false
		}
		return il.assignForm(f, c, h, x.Lhs, x.Tok == token.DEFINE, pin, fname, line)
	case *ast.DeclStmt:
		gd, ok := x.Decl.(*ast.GenDecl)
		if !ok || gd.Tok != token.VAR || len(gd.Specs) != 1 {
			return "", false
		}
		vs := gd.Specs[0].(*ast.ValueSpec)
		if vs.Type != nil || len(vs.Values) != 1 {
			return "", false
		}
		c, h := il.helperCall(vs.Values[0])
		if h == nil || h.self(encl, st) {
			return "", false
		}
		var lhs []ast.Expr
		for _, n := range vs.Names {
			lhs = append(lhs, n)
		}
		return il.assignForm(f, c, h, lhs, true, pin, fname, line)
	case *ast.IfStmt:
		if x.Init != nil {
			// `if v := h(a…); COND {…}` whose test is of no threadable form: the binding is inlined as an
			// assignment in a block of its own, the test follows unchanged
			as, isAs := x.Init.(*ast.AssignStmt)
			if !isAs || len(as.Rhs) != 1 || as.Tok != token.DEFINE {
				return "", false
			}
			c, h := il.helperCall(as.Rhs[0])
			if h == nil || h.self(encl, st) {
				return "", false
			}
			text, ok := il.assignForm(f, c, h, as.Lhs, true, pin, fname, line)
			if !ok {
				return "", false
			}
			condPos := il.fset.PositionFor(x.Cond.Pos(), true)
			rest := "if " + string(src[tf.Offset(x.Cond.Pos()):tf.Offset(x.End())])
			return pin("{") + "\n" + text + "\n" + fmt.Sprintf("//line %s:%d\n", condPos.Filename, condPos.Line) + rest + "\n" + pin("}"), true
		}
		cond := unparen(x.Cond)
		neg := false
		if u, ok := cond.(*ast.UnaryExpr); ok && u.Op == token.NOT {
			neg = true
			cond = unparen(u.X)
		}
		c, h := il.helperCall(cond)
		if h == nil || h.self(encl, st) {
			return "", false
		}
		res := h.sig.Results()
		if res.Len() != 1 || !types.Identical(res.At(0).Type(), types.Typ[types.Bool]) {
			return "", false
		}
		pre, binds, ok := il.bind(f, c, h)
		if !ok {
			return "", false
		}
		il.n++
		lt, lf, le := fmt.Sprintf("ſ%dT", il.n), fmt.Sprintf("ſ%dF", il.n), fmt.Sprintf("ſ%dE", il.n)
		usedT, usedF := false, false
		jump := func(l string) ast.Stmt { return &ast.BranchStmt{Tok: token.GOTO, Label: ast.NewIdent(l)} }
		body, ok := il.body(f, c, h, func(r *ast.ReturnStmt) []ast.Stmt {
			if len(r.Results) != 1 {
				return nil
			}
			if id, ok := unparen(r.Results[0]).(*ast.Ident); ok && (id.Name == "true" || id.Name == "false") {
				if _, isConst := info.Uses[id].(*types.Const); isConst {
					if id.Name == "true" {
						usedT = true
						return []ast.Stmt{jump(lt)}
					}
					usedF = true
					return []ast.Stmt{jump(lf)}
				}
			}
			usedT, usedF = true, true
			return []ast.Stmt{
				&ast.IfStmt{Cond: r.Results[0], Body: &ast.BlockStmt{List: []ast.Stmt{jump(lt)}}},
				jump(lf),
			}
		})
		if !ok {
			return "", false
		}
		thenTxt := verbatim(x.Body)
		elseTxt := "{}"
		if x.Else != nil {
			if _, isBlock := x.Else.(*ast.BlockStmt); isBlock {
				elseTxt = verbatim(x.Else)
			} else {
				elseTxt = "{\n" + verbatim(x.Else) + "\n}"
			}
		}
		tTxt, fTxt := thenTxt, elseTxt
		if neg {
			tTxt, fTxt = elseTxt, thenTxt
		}
		var b strings.Builder
		b.WriteString(pin("{\n" + pre + "{\n" + binds + body + "\n}"))
		b.WriteString("\n")
		if usedT {
			b.WriteString(pin(lt+":") + "\n")
		}
		b.WriteString(tTxt + "\n")
		b.WriteString(pin("goto "+le) + "\n")
		if usedF {
			b.WriteString(pin(lf+":") + "\n")
		}
		b.WriteString(fTxt + "\n")
		b.WriteString(pin("goto " + le + "\n" + le + ":\n}"))
		il.note(h, "condition", fname, line)
		return b.String(), true
	case *ast.RangeStmt:
		c, h := il.helperCall(x.X)
		if h == nil || h.self(encl, st) {
			return "", false
		}
		res := h.sig.Results()
		if res.Len() != 1 {
			return "", false
		}
		il.n++
		tmp := fmt.Sprintf("ſ%dr", il.n)
		text, ok := il.assignForm(f, c, h, []ast.Expr{ast.NewIdent(tmp)}, true, pin, fname, line)
		if !ok {
			return "", false
		}
		// the loop itself, with the hoisted value as its operand
		hdr := string(src[tf.Offset(x.Pos()):tf.Offset(x.X.Pos())])
		rest := string(src[tf.Offset(x.X.End()):tf.Offset(x.End())])
		p := il.fset.PositionFor(x.Pos(), true)
		return text + "\n" + fmt.Sprintf("//line %s:%d\n", p.Filename, p.Line) + hdr + tmp + rest, true
	}
	return "", false
}

// hoistFirstCall: a helper call nested in a larger statement — `xs = append(xs, h(a))`,
// `return h(a), nil`, `f(h(a))`, `for … := range g(h(a))`, `switch g(h(a))`, `if g(h(a)) {` — is bound to a fresh local first when it is the lexically first call
// of the statement (Go evaluates calls left to right, so no other call can observe the move), is not
// under `&&`/`||` or inside a function literal, and the statement assigns only to plain variables.
// The binding is then inlined as an assignment.
func (il *inliner) hoistFirstCall(f *ast.File, encl *ast.FuncDecl, st ast.Stmt, src []byte, tf *token.File) (string, bool) {
	info := il.pk.TypesInfo
	var root ast.Node = st
	switch x := st.(type) {
	case *ast.ExprStmt, *ast.ReturnStmt:
	case *ast.AssignStmt:
		for _, l := range x.Lhs {
			if !simpleOperand(l) {
				return "", false
			}
		}
	case *ast.DeclStmt:
	case *ast.RangeStmt:
		// the range expression is evaluated once, before the first iteration
		root = x.X
	case *ast.SwitchStmt:
		if x.Init != nil || x.Tag == nil {
			return "", false
		}
		root = x.Tag
	case *ast.IfStmt:
		root = x.Cond
		if x.Init != nil {
			// the init statement runs first, once: `if v, err = f(h(a)); err != nil {` — hoist out of it
			switch in := x.Init.(type) {
			case *ast.ExprStmt:
			case *ast.AssignStmt:
				for _, l := range in.Lhs {
					if !simpleOperand(l) {
						return "", false
					}
				}
			default:
				return "", false
			}
			root = x.Init
		}
	default:
		return "", false
	}
	var first *ast.CallExpr
	guarded := map[*ast.CallExpr]bool{}
	var walk func(n ast.Node, underShort bool)
	walk = func(n ast.Node, underShort bool) {
		ast.Inspect(n, func(m ast.Node) bool {
			switch y := m.(type) {
			case *ast.FuncLit:
				return false
			case *ast.BinaryExpr:
				if y.Op == token.LAND || y.Op == token.LOR {
					walk(y.X, underShort)
					walk(y.Y, true)
					return false
				}
			case *ast.CallExpr:
				tv := info.Types[y.Fun]
				if tv.IsType() || tv.IsBuiltin() {
					return true
				}
				if underShort {
					guarded[y] = true
				}
				if first == nil || y.Pos() < first.Pos() {
					// pre-order visits the outer call before its arguments, but the arguments' calls are
					// evaluated first: the innermost-leftmost call is found by position of evaluation,
					// i.e. the call whose arguments contain no other call and that starts earliest
					first = y
				}
			}
			return true
		})
	}
	walk(root, false)
	if first == nil {
		return "", false
	}
	// descend to the call evaluated first: among first's function operand and arguments, the earliest call
	for {
		var inner *ast.CallExpr
		for _, part := range append([]ast.Expr{first.Fun}, first.Args...) {
			ast.Inspect(part, func(m ast.Node) bool {
				if inner != nil {
					return false
				}
				switch y := m.(type) {
				case *ast.FuncLit:
					return false
				case *ast.CallExpr:
					tv := info.Types[y.Fun]
					if tv.IsType() || tv.IsBuiltin() {
						return true
					}
					inner = y
					return false
				}
				return true
			})
			if inner != nil {
				break
			}
		}
		if inner == nil {
			break
		}
		first = inner
	}
	if guarded[first] {
		return "", false
	}
	c, h := il.helperCall(first)
	if h == nil || h.self(encl, st) || h.sig.Results().Len() != 1 {
		return "", false
	}
	// a method value receiver with calls in it (x().h()) would be evaluated before: helperCall's
	// receiver is part of c.Fun and was searched above
	line := il.fset.PositionFor(st.Pos(), true).Line
	fname := il.fset.PositionFor(st.Pos(), true).Filename
	pin := func(t string) string { return pinLines(t, fname, line) }
	il.n++
	tmp := fmt.Sprintf("ſ%dh", il.n)
	text, ok := il.assignForm(f, c, h, []ast.Expr{ast.NewIdent(tmp)}, true, pin, fname, line)
	if !ok {
		return "", false
	}
	rest := string(src[tf.Offset(st.Pos()):tf.Offset(c.Pos())]) + tmp + string(src[tf.Offset(c.End()):tf.Offset(st.End())])
	if es, isES := st.(*ast.ExprStmt); isES && unparen(es.X) == ast.Expr(c) {
		rest = "_ = " + tmp // the call was the whole statement: its result is dropped
	}
	return text + "\n" + fmt.Sprintf("//line %s:%d\n", fname, line) + rest, true
}

func enclosingFuncLit(fd *ast.FuncDecl, st ast.Stmt) *ast.FuncLit {
	var best *ast.FuncLit
	ast.Inspect(fd.Body, func(n ast.Node) bool {
		if fl, ok := n.(*ast.FuncLit); ok && fl.Pos() <= st.Pos() && st.End() <= fl.End() {
			best = fl
		}
		return true
	})
	return best
}

// tail: st is the last statement of the enclosing function's body.
func isTail(fd *ast.FuncDecl, lit *ast.FuncLit, st ast.Stmt) bool {
	body := fd.Body
	if lit != nil {
		body = lit.Body
	}
	return len(body.List) > 0 && body.List[len(body.List)-1] == st
}

func (il *inliner) note(h *helper, shape, fname string, line int) {
	h.used = true
	il.last = h
	il.log = append(il.log, fmt.Sprintf("%s inlined (%s) at %s:%d", h.key, shape, rel(fname), line))
}

// assignForm: lhs... (:= or =) h(args).
func (il *inliner) assignForm(f *ast.File, c *ast.CallExpr, h *helper, lhs []ast.Expr, define bool, pin func(string) string, fname string, line int) (string, bool) {
	res := h.sig.Results()
	if res.Len() != len(lhs) || res.Len() == 0 {
		return "", false
	}
	declsTxt, temps, copyTxt, ok := il.targets(h, lhs, define)
	if !ok {
		return "", false
	}
	pre, binds, ok := il.bind(f, c, h)
	if !ok {
		return "", false
	}
	il.n++
	end := fmt.Sprintf("ſ%dE", il.n)
	// every return copies its own results into the targets (a store into a field then has one
	// instruction per return, as hand-written code would)
	nsites := 0
	body, ok := il.body(f, c, h, func(r *ast.ReturnStmt) []ast.Stmt {
		if len(r.Results) == 0 {
			return nil
		}
		if len(r.Results) != len(temps) && len(r.Results) != 1 {
			return nil
		}
		nsites++
		return []ast.Stmt{
			&ast.AssignStmt{Lhs: temps, Tok: token.ASSIGN, Rhs: r.Results},
			&ast.BranchStmt{Tok: token.GOTO, Label: ast.NewIdent(fmt.Sprintf("%sS%d", end, nsites))},
		}
	})
	if !ok {
		return "", false
	}
	il.note(h, "assignment", fname, line)
	var tail strings.Builder
	for k := 1; k <= nsites; k++ {
		fmt.Fprintf(&tail, "%sS%d:\n%s\ngoto %s\n", end, k, copyTxt, end)
	}
	// arguments are evaluated before the new variables come into scope (x := h(x) reads the outer x)
	return pin(pre + declsTxt + "{\n" + binds + body + "\n}\ngoto " + end + "\n" + tail.String() + end + ":;"), true
}

// bodyGlobals: the names through which the helper's body refers to package-level objects, imported
// packages and universe names. A variable the rewrite declares in the caller before the body runs
// must not have one of these names.
func (il *inliner) bodyGlobals(h *helper) map[string]bool {
	info := il.pk.TypesInfo
	out := map[string]bool{}
	ast.Inspect(h.body, func(n ast.Node) bool {
		id, ok := n.(*ast.Ident)
		if !ok {
			return true
		}
		obj := info.Uses[id]
		if obj == nil {
			return true
		}
		if _, isPkg := obj.(*types.PkgName); isPkg || obj.Parent() == il.pk.Types.Scope() || obj.Parent() == types.Universe {
			out[id.Name] = true
		} else if v, isVar := obj.(*types.Var); isVar && h.lit != nil && !v.IsField() && obj.Pkg() == il.pk.Types && obj.Parent() != nil && !(h.lit.Pos() <= obj.Pos() && obj.Pos() < h.lit.End()) {
			out[id.Name] = true // captured by the closure
		}
		return true
	})
	return out
}

// targets: declarations for the variables a := form introduces, fresh temporaries that receive the
// helper's results inside its body (the body may declare locals with the targets' names), and the
// statement that copies the temporaries into the targets.
func (il *inliner) targets(h *helper, lhs []ast.Expr, define bool) (decls string, temps []ast.Expr, copyTxt string, ok bool) {
	info := il.pk.TypesInfo
	res := il.sigOf(h).Results()
	var db strings.Builder
	resExprs := fieldTypeExprs(h.ftype.Results)
	if len(resExprs) != len(lhs) || res.Len() != len(lhs) {
		return "", nil, "", false
	}
	var ls, rs []string
	for i, l := range lhs {
		id, isIdent := l.(*ast.Ident)
		rt := res.At(i).Type()
		ts, ok := il.typeAlias(h, fmt.Sprintf("r%d", i), resExprs[i])
		if !ok {
			return "", nil, "", false
		}
		il.n++
		tmp := fmt.Sprintf("ſ%dr", il.n)
		fmt.Fprintf(&db, "var %s %s\n_ = %s\n", tmp, ts, tmp)
		temps = append(temps, ast.NewIdent(tmp))
		switch {
		case isIdent && id.Name == "_":
			continue
		case isIdent && define && (info.Defs[id] != nil || strings.HasPrefix(id.Name, "ſ")):
			if il.bodyGlobals(h)[id.Name] {
				return "", nil, "", false
			}
			fmt.Fprintf(&db, "var %s %s\n_ = %s\n", id.Name, ts, id.Name)
			ls = append(ls, id.Name)
		default:
			// an existing variable (or another addressable operand with no side effects): same type only
			lt := info.TypeOf(l)
			if lt == nil || !types.Identical(lt, rt) || !simpleOperand(l) {
				return "", nil, "", false
			}
			var buf bytes.Buffer
			if err := printer.Fprint(&buf, il.fset, l); err != nil {
				return "", nil, "", false
			}
			ls = append(ls, buf.String())
		}
		rs = append(rs, tmp)
	}
	if len(ls) > 0 {
		copyTxt = strings.Join(ls, ", ") + " = " + strings.Join(rs, ", ")
	}
	return db.String(), temps, copyTxt, true
}

// rewriteAssignIf: `lhs… := h(a…)` directly followed by (or as the init of) `if COND {A} else {B}` where
// COND tests one of the assigned variables (v != nil, v == nil, v, !v). The helper's returns are
// threaded: a return whose value for v decides COND by itself (nil, true, false, fmt.Errorf(…),
// errors.New(…), &T{…}) jumps straight to the branch it selects, the others to the test.
func (il *inliner) rewriteAssignIf(f *ast.File, encl *ast.FuncDecl, as *ast.AssignStmt, ifs *ast.IfStmt, initForm bool, src []byte, tf *token.File) (string, bool) {
	info := il.pk.TypesInfo
	if len(as.Rhs) != 1 || (as.Tok != token.DEFINE && as.Tok != token.ASSIGN) {
		return "", false
	}
	c, h := il.helperCall(as.Rhs[0])
	if h == nil || h.self(encl, as) {
		return "", false
	}
	// the tested variable
	cond := unparen(ifs.Cond)
	var cid *ast.Ident
	form := "" // "nonnil", "nil", "true", "false": the state of v in which COND holds
	switch x := cond.(type) {
	case *ast.Ident:
		cid, form = x, "true"
	case *ast.UnaryExpr:
		if id, ok := unparen(x.X).(*ast.Ident); ok && x.Op == token.NOT {
			cid, form = id, "false"
		}
	case *ast.BinaryExpr:
		if x.Op != token.NEQ && x.Op != token.EQL {
			return "", false
		}
		l, r := unparen(x.X), unparen(x.Y)
		isNil := func(e ast.Expr) bool {
			id, ok := e.(*ast.Ident)
			if !ok {
				return false
			}
			_, n := info.Uses[id].(*types.Nil)
			return n
		}
		isEmptyStr := func(e ast.Expr) bool {
			bl, ok := e.(*ast.BasicLit)
			return ok && bl.Kind == token.STRING && (bl.Value == `""` || bl.Value == "``")
		}
		var other ast.Expr
		str := false
		switch {
		case isNil(r):
			other = l
		case isNil(l):
			other = r
		case isEmptyStr(r):
			other, str = l, true
		case isEmptyStr(l):
			other, str = r, true
		default:
			return "", false
		}
		id, ok := other.(*ast.Ident)
		if !ok {
			return "", false
		}
		cid = id
		switch {
		case str && x.Op == token.NEQ:
			form = "nonempty"
		case str:
			form = "empty"
		case x.Op == token.NEQ:
			form = "nonnil"
		default:
			form = "nil"
		}
	}
	if cid == nil {
		return "", false
	}
	idx := -1
	for i, l := range as.Lhs {
		id, ok := l.(*ast.Ident)
		if !ok || id.Name != cid.Name {
			continue
		}
		lo := info.Defs[id]
		if lo == nil {
			lo = info.Uses[id]
		}
		if lo != nil && lo == info.Uses[cid] {
			idx = i
		}
	}
	if idx < 0 {
		return "", false
	}
	line := il.fset.PositionFor(as.Pos(), true).Line
	fname := il.fset.PositionFor(as.Pos(), true).Filename
	pin := func(s string) string { return pinLines(s, fname, line) }
	verbatim := func(n ast.Node) string {
		p := il.fset.PositionFor(n.Pos(), true)
		return fmt.Sprintf("//line %s:%d\n%s", p.Filename, p.Line, string(src[tf.Offset(n.Pos()):tf.Offset(n.End())]))
	}
	declsTxt, targets, copyTxt, ok := il.targets(h, as.Lhs, as.Tok == token.DEFINE)
	if !ok {
		return "", false
	}
	pre, binds, ok := il.bind(f, c, h)
	if !ok {
		return "", false
	}
	il.n++
	lc, lt, lf, le := fmt.Sprintf("ſ%dC", il.n), fmt.Sprintf("ſ%dT", il.n), fmt.Sprintf("ſ%dF", il.n), fmt.Sprintf("ſ%dE", il.n)
	usedC, usedT, usedF := false, false, false
	jump := func(l string) ast.Stmt { return &ast.BranchStmt{Tok: token.GOTO, Label: ast.NewIdent(l)} }
	// a package-level error variable named Err… / EOF (a sentinel) is taken to be non-nil
	sentinel := func(id *ast.Ident) bool {
		v, ok := info.Uses[id].(*types.Var)
		if !ok || v.IsField() || v.Pkg() == nil || v.Parent() != v.Pkg().Scope() {
			return false
		}
		if !types.Identical(v.Type(), types.Universe.Lookup("error").Type()) {
			return false
		}
		n := v.Name()
		return n == "EOF" || (strings.HasPrefix(n, "Err") && len(n) > 3 && n[3] >= 'A' && n[3] <= 'Z')
	}
	// guardedNonNil: the identifier is returned inside the body of `if id != nil { … }` of the helper and
	// is not assigned in that body: it is non-nil there
	parents := map[ast.Node]ast.Node{}
	{
		var stack []ast.Node
		ast.Inspect(h.body, func(n ast.Node) bool {
			if n == nil {
				stack = stack[:len(stack)-1]
				return true
			}
			if len(stack) > 0 {
				parents[n] = stack[len(stack)-1]
			}
			stack = append(stack, n)
			return true
		})
	}
	guardedNonNil := func(id *ast.Ident) bool {
		obj := info.Uses[id]
		if obj == nil {
			return false
		}
		var child ast.Node = id
		for p := parents[id]; p != nil; child, p = p, parents[p] {
			ifs, ok := p.(*ast.IfStmt)
			if !ok || child != ast.Node(ifs.Body) {
				continue
			}
			be, ok := unparen(ifs.Cond).(*ast.BinaryExpr)
			if !ok || be.Op != token.NEQ {
				continue
			}
			l, lok := unparen(be.X).(*ast.Ident)
			r, rok := unparen(be.Y).(*ast.Ident)
			if !lok || !rok {
				continue
			}
			var tested *ast.Ident
			if _, isNil := info.Uses[r].(*types.Nil); isNil {
				tested = l
			} else if _, isNil := info.Uses[l].(*types.Nil); isNil {
				tested = r
			}
			if tested == nil || info.Uses[tested] != obj {
				continue
			}
			assigned := false
			ast.Inspect(ifs.Body, func(n ast.Node) bool {
				if as, ok := n.(*ast.AssignStmt); ok {
					for _, lhs := range as.Lhs {
						if li, ok := unparen(lhs).(*ast.Ident); ok && (info.Uses[li] == obj || info.Defs[li] == obj) {
							assigned = true
						}
					}
				}
				if u, ok := n.(*ast.UnaryExpr); ok && u.Op == token.AND {
					if li, ok := unparen(u.X).(*ast.Ident); ok && info.Uses[li] == obj {
						assigned = true
					}
				}
				return true
			})
			return !assigned
		}
		return false
	}
	// literalLocal: a local of the helper that is defined as `x := &T{…}` (or new(T)) and never assigned
	// again nor has its address taken: it is not nil wherever it is returned
	literalLocal := func(id *ast.Ident) bool {
		obj, isVar := info.Uses[id].(*types.Var)
		if !isVar || obj.IsField() || !(h.body.Pos() <= obj.Pos() && obj.Pos() < h.body.End()) {
			return false
		}
		defined, other := false, false
		ast.Inspect(h.body, func(n ast.Node) bool {
			switch y := n.(type) {
			case *ast.AssignStmt:
				for i, lhs := range y.Lhs {
					li, ok := unparen(lhs).(*ast.Ident)
					if !ok {
						continue
					}
					if info.Defs[li] == types.Object(obj) && y.Tok == token.DEFINE && len(y.Lhs) == len(y.Rhs) {
						switch r := unparen(y.Rhs[i]).(type) {
						case *ast.UnaryExpr:
							if _, isLit := unparen(r.X).(*ast.CompositeLit); isLit && r.Op == token.AND {
								defined = true
								continue
							}
						case *ast.CallExpr:
							if fid, ok := unparen(r.Fun).(*ast.Ident); ok && fid.Name == "new" {
								if _, isB := info.Uses[fid].(*types.Builtin); isB {
									defined = true
									continue
								}
							}
						}
						other = true
					} else if info.Uses[li] == types.Object(obj) || info.Defs[li] == types.Object(obj) {
						other = true
					}
				}
			case *ast.UnaryExpr:
				if li, ok := unparen(y.X).(*ast.Ident); ok && y.Op == token.AND && info.Uses[li] == types.Object(obj) {
					other = true
				}
			case *ast.RangeStmt:
				for _, e := range []ast.Expr{y.Key, y.Value} {
					if li, ok := e.(*ast.Ident); ok && (info.Uses[li] == types.Object(obj) || info.Defs[li] == types.Object(obj)) {
						other = true
					}
				}
			case *ast.IncDecStmt:
				if li, ok := unparen(y.X).(*ast.Ident); ok && info.Uses[li] == types.Object(obj) {
					other = true
				}
			}
			return true
		})
		return defined && !other
	}
	classify := func(e ast.Expr) string {
		e = unparen(e)
		switch x := e.(type) {
		case *ast.SelectorExpr:
			if sentinel(x.Sel) {
				return "nonnil"
			}
		case *ast.Ident:
			if sentinel(x) || guardedNonNil(x) || literalLocal(x) {
				return "nonnil"
			}
			switch o := info.Uses[x].(type) {
			case *types.Nil:
				return "nil"
			case *types.Const:
				if o.Parent() == types.Universe && (x.Name == "true" || x.Name == "false") {
					return x.Name
				}
			}
		case *ast.UnaryExpr:
			if _, ok := unparen(x.X).(*ast.CompositeLit); ok && x.Op == token.AND {
				return "nonnil"
			}
		case *ast.BasicLit:
			if x.Kind == token.STRING {
				if x.Value == `""` || x.Value == "``" {
					return "empty"
				}
				return "nonempty"
			}
		case *ast.CallExpr:
			if sel, ok := unparen(x.Fun).(*ast.SelectorExpr); ok {
				if fn, ok := info.Uses[sel.Sel].(*types.Func); ok {
					switch fn.FullName() {
					case "fmt.Errorf", "errors.New":
						return "nonnil"
					case "fmt.Sprintf":
						// a constant format with text outside the verbs yields a non-empty string
						if len(x.Args) > 0 {
							if tv, ok := info.Types[x.Args[0]]; ok && tv.Value != nil && tv.Value.Kind() == constant.String {
								if strings.TrimSpace(sprintfVerbs.ReplaceAllString(constant.StringVal(tv.Value), "")) != "" {
									return "nonempty"
								}
							}
						}
					}
				}
			}
		}
		return ""
	}
	// each return gets its own copy of the branch it selects (so no value of the helper merges with
	// another return's before the caller's test), unless the branches are long or carry labels
	perSite := true
	branchLen := int(ifs.Body.End() - ifs.Body.Pos())
	if ifs.Else != nil {
		branchLen += int(ifs.Else.End() - ifs.Else.Pos())
	}
	nret := 0
	ast.Inspect(h.body, func(n ast.Node) bool {
		switch n.(type) {
		case *ast.FuncLit:
			return false
		case *ast.ReturnStmt:
			nret++
		}
		return true
	})
	if branchLen > 1200 || nret > 6 {
		perSite = false
	}
	for _, br := range []ast.Node{ifs.Body, ifs.Else} {
		if br == nil || br == ast.Node((*ast.BlockStmt)(nil)) {
			continue
		}
		ast.Inspect(br, func(n ast.Node) bool {
			if _, isL := n.(*ast.LabeledStmt); isL {
				perSite = false
			}
			return true
		})
	}
	var sites []string
	body, ok := il.body(f, c, h, func(r *ast.ReturnStmt) []ast.Stmt {
		if len(r.Results) == 0 || (len(r.Results) != len(targets) && len(r.Results) != 1) {
			return nil
		}
		asg := &ast.AssignStmt{Lhs: targets, Tok: token.ASSIGN, Rhs: r.Results}
		state := ""
		if len(r.Results) == len(targets) {
			state = classify(r.Results[idx])
		}
		if perSite {
			kind := "C"
			switch {
			case state == "":
			case state == form:
				kind = "T"
			case (form == "nonnil" && state == "nil") || (form == "nil" && state == "nonnil") || (form == "true" && state == "false") || (form == "false" && state == "true") || (form == "nonempty" && state == "empty") || (form == "empty" && state == "nonempty"):
				kind = "F"
			}
			sites = append(sites, kind)
			return []ast.Stmt{asg, jump(fmt.Sprintf("%sS%d", le, len(sites)))}
		}
		switch {
		case state == "":
			usedC = true
			return []ast.Stmt{asg, jump(lc)}
		case state == form:
			usedT = true
			return []ast.Stmt{asg, jump(lt)}
		case (form == "nonnil" && state == "nil") || (form == "nil" && state == "nonnil") || (form == "true" && state == "false") || (form == "false" && state == "true") || (form == "nonempty" && state == "empty") || (form == "empty" && state == "nonempty"):
			usedF = true
			return []ast.Stmt{asg, jump(lf)}
		}
		usedC = true
		return []ast.Stmt{asg, jump(lc)}
	})
	if !ok {
		return "", false
	}
	thenTxt := verbatim(ifs.Body)
	elseTxt := "{}"
	if ifs.Else != nil {
		if _, isBlock := ifs.Else.(*ast.BlockStmt); isBlock {
			elseTxt = verbatim(ifs.Else)
		} else {
			elseTxt = "{\n" + verbatim(ifs.Else) + "\n}"
		}
	}
	condTxt := string(src[tf.Offset(ifs.Cond.Pos()):tf.Offset(ifs.Cond.End())])
	if strings.Contains(condTxt, "\n") {
		return "", false
	}
	var b strings.Builder
	if initForm {
		b.WriteString(pin("{") + "\n")
	}
	b.WriteString(pin(pre+declsTxt+"{\n"+binds+body+"\n}") + "\n")
	if perSite {
		for k, kind := range sites {
			b.WriteString(pin(fmt.Sprintf("%sS%d:\n%s", le, k+1, copyTxt)) + "\n")
			switch kind {
			case "T":
				b.WriteString(thenTxt + "\n")
			case "F":
				b.WriteString(elseTxt + "\n")
			default:
				b.WriteString(pin("if "+condTxt+" {") + "\n" + thenTxt + "\n" + pin("} else {") + "\n" + elseTxt + "\n" + pin("}") + "\n")
			}
			b.WriteString(pin("goto "+le) + "\n")
		}
		b.WriteString(pin("goto " + le + "\n" + le + ":;"))
		if initForm {
			b.WriteString("\n" + pin("}"))
		}
		il.note(h, "assignment+test", fname, line)
		return b.String(), true
	}
	lt2, lf2 := lt+"x", lf+"x"
	if usedC {
		b.WriteString(pin(lc+":\n"+copyTxt+"\nif "+condTxt+" {\ngoto "+lt2+"\n}\ngoto "+lf2) + "\n")
	}
	if usedT {
		b.WriteString(pin(lt+":\n"+copyTxt) + "\n")
	}
	if usedC {
		b.WriteString(pin(lt2+":") + "\n")
	}
	b.WriteString(thenTxt + "\n")
	b.WriteString(pin("goto "+le) + "\n")
	if usedF {
		b.WriteString(pin(lf+":\n"+copyTxt) + "\n")
	}
	if usedC {
		b.WriteString(pin(lf2+":") + "\n")
	}
	b.WriteString(elseTxt + "\n")
	b.WriteString(pin("goto " + le + "\n" + le + ":;"))
	if initForm {
		b.WriteString("\n" + pin("}"))
	}
	il.note(h, "assignment+test", fname, line)
	return b.String(), true
}

// simpleOperand: an identifier or a selector chain of identifiers (no calls, no index expressions).
func simpleOperand(e ast.Expr) bool {
	switch x := e.(type) {
	case *ast.Ident:
		return true
	case *ast.SelectorExpr:
		return simpleOperand(x.X)
	case *ast.StarExpr:
		return simpleOperand(x.X)
	case *ast.ParenExpr:
		return simpleOperand(x.X)
	}
	return false
}

// typeAlias returns the name of a package-level alias for the type expression e of helper h
// (declared at the end of h's file).
func (il *inliner) typeAlias(h *helper, what string, e ast.Expr) (string, bool) {
	if h.generic() {
		// the helper's type parameters are not in scope at package level: the type is written out
		// where the call stands, from the signature instantiated there
		sig := il.sigOf(h)
		var n int
		switch {
		case what == "recv":
			sel, ok := unparen(il.curCall.Fun).(*ast.SelectorExpr)
			if !ok {
				return "", false
			}
			t := il.pk.TypesInfo.TypeOf(sel.X)
			if t == nil {
				return "", false
			}
			_, wantPtr := h.sig.Recv().Type().(*types.Pointer)
			pt, havePtr := t.Underlying().(*types.Pointer)
			switch {
			case wantPtr && !havePtr:
				t = types.NewPointer(t)
			case !wantPtr && havePtr:
				t = pt.Elem()
			}
			return il.typeText(t)
		case strings.HasPrefix(what, "p"):
			if _, err := fmt.Sscanf(what, "p%d", &n); err != nil || n >= sig.Params().Len() {
				return "", false
			}
			return il.typeText(sig.Params().At(n).Type())
		case strings.HasPrefix(what, "r"):
			if _, err := fmt.Sscanf(what, "r%d", &n); err != nil || n >= sig.Results().Len() {
				return "", false
			}
			return il.typeText(sig.Results().At(n).Type())
		}
		return "", false
	}
	k := h.key + "#" + what
	if n, ok := il.aliasName[k]; ok {
		return n, true
	}
	var buf bytes.Buffer
	if err := printer.Fprint(&buf, il.fset, e); err != nil || strings.Contains(buf.String(), "\n") {
		return "", false
	}
	il.n++
	n := fmt.Sprintf("ſ%dt", il.n)
	il.aliasName[k] = n
	il.aliasDecl[h.file] = append(il.aliasDecl[h.file], fmt.Sprintf("type %s = %s", n, buf.String()))
	return n, true
}

// resultTypeExprs / paramTypeExprs: one type expression per result / parameter, in order.
func fieldTypeExprs(fl *ast.FieldList) []ast.Expr {
	var out []ast.Expr
	if fl == nil {
		return nil
	}
	for _, f := range fl.List {
		n := len(f.Names)
		if n == 0 {
			n = 1
		}
		for i := 0; i < n; i++ {
			out = append(out, f.Type)
		}
	}
	return out
}

// bind: evaluation of receiver and arguments into fresh locals (in the caller's scope), and the
// helper's parameter names bound to them (inside the block that holds the body).
func (il *inliner) bind(f *ast.File, c *ast.CallExpr, h *helper) (pre, binds string, ok bool) {
	info := il.pk.TypesInfo
	sig := h.sig
	if sig.Variadic() || (sig.TypeParams() != nil && sig.TypeParams().Len() > 0) {
		return "", "", false
	}
	if h.generic() && (il.curCall != c || !il.sameTypeParams(c, h)) {
		return "", "", false
	}
	isig := il.sigOf(h) // parameter types as the call sees them
	if len(c.Args) != sig.Params().Len() {
		return "", "", false // f(g()) with a multi-value g
	}
	var pb, bb strings.Builder
	paramExprs := fieldTypeExprs(h.ftype.Params)
	emit := func(i int, name string, pt types.Type, arg ast.Expr, argText string) bool {
		il.n++
		tmp := fmt.Sprintf("ſ%da", il.n)
		tv, known := info.Types[arg]
		direct := false
		if known && tv.Type != nil && tv.Value == nil && types.Identical(tv.Type, pt) {
			if b, isBasic := tv.Type.(*types.Basic); !isBasic || b.Info()&types.IsUntyped == 0 {
				direct = true
			}
		}
		if argText == "" {
			var buf bytes.Buffer
			if err := printer.Fprint(&buf, il.fset, arg); err != nil {
				return false
			}
			argText = buf.String()
		}
		if strings.Contains(argText, "\n") {
			// multi-line arguments (function literals, composite literals): keep them, the line pins cope
			if strings.Contains(argText, "`") {
				return false
			}
		}
		if direct {
			fmt.Fprintf(&pb, "%s := %s\n_ = %s\n", tmp, argText, tmp)
		} else {
			if i >= len(paramExprs) {
				return false
			}
			ts, ok := il.typeAlias(h, fmt.Sprintf("p%d", i), paramExprs[i])
			if !ok {
				return false
			}
			fmt.Fprintf(&pb, "var %s %s = %s\n_ = %s\n", tmp, ts, argText, tmp)
		}
		if name != "" && name != "_" {
			fmt.Fprintf(&bb, "%s := %s\n_ = %s\n", name, tmp, name)
		}
		return true
	}
	// receiver
	if sig.Recv() != nil {
		sel, isSel := unparen(c.Fun).(*ast.SelectorExpr)
		if !isSel {
			return "", "", false
		}
		s := info.Selections[sel]
		if s == nil || s.Kind() != types.MethodVal || len(s.Index()) != 1 {
			return "", "", false // method expression, promoted method
		}
		rt := sig.Recv().Type()
		xt := info.TypeOf(sel.X)
		if xt == nil {
			return "", "", false
		}
		var buf bytes.Buffer
		if err := printer.Fprint(&buf, il.fset, sel.X); err != nil {
			return "", "", false
		}
		xText := buf.String()
		_, wantPtr := rt.(*types.Pointer)
		_, havePtr := xt.Underlying().(*types.Pointer)
		switch {
		case wantPtr && !havePtr:
			xText = "&(" + xText + ")"
		case !wantPtr && havePtr:
			xText = "*(" + xText + ")"
		}
		name := ""
		if h.recv != nil && len(h.recv.List) == 1 && len(h.recv.List[0].Names) == 1 {
			name = h.recv.List[0].Names[0].Name
		}
		// the receiver temp is typed explicitly unless the operand already has exactly that type
		il.n++
		tmp := fmt.Sprintf("ſ%da", il.n)
		if (wantPtr == havePtr) && (types.Identical(xt, rt) || h.generic()) {
			fmt.Fprintf(&pb, "%s := %s\n_ = %s\n", tmp, xText, tmp)
		} else {
			ts, ok := il.typeAlias(h, "recv", h.recv.List[0].Type)
			if !ok {
				return "", "", false
			}
			fmt.Fprintf(&pb, "var %s %s = %s\n_ = %s\n", tmp, ts, xText, tmp)
		}
		if name != "" && name != "_" {
			fmt.Fprintf(&bb, "%s := %s\n_ = %s\n", name, tmp, name)
		}
	} else if _, isSel := unparen(c.Fun).(*ast.SelectorExpr); isSel {
		return "", "", false // pkg.F from another package: not handled
	}
	// parameters, in declaration order
	var names []string
	for _, fl := range h.ftype.Params.List {
		if len(fl.Names) == 0 {
			names = append(names, "_")
		}
		for _, n := range fl.Names {
			names = append(names, n.Name)
		}
	}
	if len(names) != len(c.Args) {
		return "", "", false
	}
	for i, a := range c.Args {
		if !emit(i, names[i], isig.Params().At(i).Type(), a, "") {
			return "", "", false
		}
	}
	return pb.String(), bb.String(), true
}

// hasDefer: the block contains a defer statement outside function literals.
func hasDefer(b *ast.BlockStmt) bool {
	found := false
	ast.Inspect(b, func(n ast.Node) bool {
		switch n.(type) {
		case *ast.FuncLit:
			return false
		case *ast.DeferStmt:
			found = true
		}
		return true
	})
	return found
}

// body prints the helper's body with every return replaced by onReturn's statements (nil = give up).
// Gives up on helpers whose inlining could change behaviour or scoping.
func (il *inliner) body(f *ast.File, c *ast.CallExpr, h *helper, onReturn func(*ast.ReturnStmt) []ast.Stmt) (string, bool) {
	info := il.pk.TypesInfo
	sig := h.sig
	// named results become locals of the inlined body (no defer can observe them: helpers with defer
	// are refused below); a bare return returns them
	namedDecls := ""
	var namedIdents []ast.Expr
	if sig.Results().Len() > 0 && sig.Results().At(0).Name() != "" {
		resExprs := fieldTypeExprs(h.ftype.Results)
		if len(resExprs) != sig.Results().Len() {
			return "", false
		}
		for i := 0; i < sig.Results().Len(); i++ {
			name := sig.Results().At(i).Name()
			if name == "_" || name == "" {
				il.n++
				name = fmt.Sprintf("ſ%dn", il.n)
			}
			ts, ok := il.typeAlias(h, fmt.Sprintf("r%d", i), resExprs[i])
			if !ok {
				return "", false
			}
			namedDecls += fmt.Sprintf("var %s %s\n_ = %s\n", name, ts, name)
			namedIdents = append(namedIdents, ast.NewIdent(name))
		}
	}
	bad := false
	recursive := false
	flat := map[*ast.DeferStmt]bool{}
	if !il.tailCall && !il.noFlatten {
		flat = il.flattenable(h)
	}
	ast.Inspect(h.body, func(n ast.Node) bool {
		switch x := n.(type) {
		case *ast.DeferStmt:
			// a helper that defers is inlined as it stands where its return is its caller's return
			// (`return h(a…)`): its deferred calls then run at the very same moment, before the
			// caller's own — and only without named results, which a deferred call could modify.
			// Elsewhere its deferred calls are moved to its returns (flattenable, below)
			if namedDecls != "" || (!il.tailCall && !flat[x]) {
				bad = true
			}
		case *ast.BasicLit:
			if x.Kind == token.STRING && strings.Contains(x.Value, "\n") {
				bad = true
			}
		case *ast.CallExpr:
			if id, ok := unparen(x.Fun).(*ast.Ident); ok && id.Name == "recover" {
				bad = true
			}
			il.scanning = true
			_, hh := il.helperCall(x)
			il.scanning = false
			if hh == h {
				recursive = true
			}
		case *ast.Ident:
			obj := info.Uses[x]
			if obj == nil {
				return true
			}
			// a type parameter of the helper's generic receiver: the same name must be the matching
			// type parameter where the call stands (sameTypeParams checked the receiver's arguments)
			if tn, isTN := obj.(*types.TypeName); isTN {
				if _, isTP := tn.Type().(*types.TypeParam); isTP {
					sc := il.pk.Types.Scope().Innermost(c.Pos())
					if sc == nil {
						bad = true
						return true
					}
					_, at := sc.LookupParent(x.Name, c.Pos())
					atn, isTN2 := at.(*types.TypeName)
					if !isTN2 {
						bad = true
						return true
					}
					if _, isTP2 := atn.Type().(*types.TypeParam); !isTP2 {
						bad = true
					}
					return true
				}
			}
			// names that mean something else at the call site
			pkgLevel := obj.Parent() == il.pk.Types.Scope() || obj.Parent() == types.Universe
			_, isPkgName := obj.(*types.PkgName)
			// a closure's captured variables must be the same variables at the call site
			captured := false
			if v, isVar := obj.(*types.Var); isVar && h.lit != nil && !v.IsField() && obj.Pkg() == il.pk.Types && obj.Parent() != nil && !pkgLevel {
				captured = !(h.lit.Pos() <= obj.Pos() && obj.Pos() < h.lit.End())
			}
			if !pkgLevel && !isPkgName && !captured {
				return true
			}
			sc := il.pk.Types.Scope().Innermost(c.Pos())
			if sc == nil {
				bad = true
				return true
			}
			_, at := sc.LookupParent(x.Name, c.Pos())
			switch {
			case at == nil:
				bad = true
			case isPkgName:
				pn, ok := at.(*types.PkgName)
				if !ok || pn.Imported() != obj.(*types.PkgName).Imported() {
					bad = true
				}
			case at != obj:
				bad = true
			}
		}
		return true
	})
	if bad || recursive {
		return "", false
	}
	// the body must end in a terminating statement when it returns values (it does, it compiled);
	// rewrite returns outside function literals
	failed := false
	var rewriteList func(list []ast.Stmt) []ast.Stmt
	var rewriteStmt func(s ast.Stmt) ast.Stmt
	// the helper's own labels (those of its function literals are theirs) get fresh names: the helper
	// may be inlined twice into one function
	relabel := map[string]string{}
	{
		var scan func(n ast.Node) bool
		scan = func(n ast.Node) bool {
			switch x := n.(type) {
			case *ast.FuncLit:
				return false
			case *ast.LabeledStmt:
				il.n++
				relabel[x.Label.Name] = fmt.Sprintf("ſ%dL", il.n)
			}
			return true
		}
		ast.Inspect(h.body, scan)
	}
	var active []*ast.DeferStmt // the moved deferred calls already registered where the walk stands
	// locals of the helper that something other than the helper's own statements could reach: their
	// address is taken, or a function literal mentions them
	reachable := map[types.Object]bool{}
	if len(flat) > 0 {
		var inLit int
		var scan func(n ast.Node) bool
		scan = func(n ast.Node) bool {
			switch x := n.(type) {
			case *ast.FuncLit:
				inLit++
				ast.Inspect(x.Body, scan)
				inLit--
				return false
			case *ast.UnaryExpr:
				if id, ok := unparen(x.X).(*ast.Ident); ok && x.Op == token.AND {
					reachable[info.Uses[id]] = true
				}
			case *ast.Ident:
				if inLit > 0 {
					reachable[info.Uses[x]] = true
				}
			}
			return true
		}
		ast.Inspect(h.body, scan)
	}
	runDeferred := func() []ast.Stmt {
		var out []ast.Stmt
		for i := len(active) - 1; i >= 0; i-- {
			out = append(out, &ast.ExprStmt{X: active[i].Call})
		}
		return out
	}
	rewriteStmt = func(s ast.Stmt) ast.Stmt {
		switch x := s.(type) {
		case *ast.DeferStmt:
			if flat[x] {
				active = append(active, x)
				return &ast.EmptyStmt{Implicit: false}
			}
		case *ast.ReturnStmt:
			if len(x.Results) == 0 && len(namedIdents) > 0 {
				x = &ast.ReturnStmt{Results: namedIdents}
			}
			var pre []ast.Stmt
			if len(active) > 0 {
				// the results are evaluated first, then the deferred calls run, then control leaves
				if len(x.Results) != sig.Results().Len() {
					failed = true
					return s
				}
				resExprs := fieldTypeExprs(h.ftype.Results)
				if len(resExprs) != sig.Results().Len() {
					failed = true
					return s
				}
				nr := &ast.ReturnStmt{}
				for i, e := range x.Results {
					if plainResult(info, e, reachable) {
						nr.Results = append(nr.Results, e)
						continue
					}
					ts, ok := il.typeAlias(h, fmt.Sprintf("r%d", i), resExprs[i])
					if !ok {
						failed = true
						return s
					}
					il.n++
					tmp := ast.NewIdent(fmt.Sprintf("ſ%dv", il.n))
					pre = append(pre, &ast.DeclStmt{Decl: &ast.GenDecl{Tok: token.VAR, Specs: []ast.Spec{&ast.ValueSpec{Names: []*ast.Ident{tmp}, Type: ast.NewIdent(ts), Values: []ast.Expr{e}}}}})
					nr.Results = append(nr.Results, tmp)
				}
				pre = append(pre, runDeferred()...)
				x = nr
			}
			rep := onReturn(x)
			if rep == nil {
				failed = true
				return s
			}
			if len(pre) > 0 {
				return &ast.BlockStmt{List: append(pre, rep...)}
			}
			if len(rep) == 1 {
				return rep[0]
			}
			return &ast.BlockStmt{List: rep}
		case *ast.LabeledStmt:
			if nn, ok := relabel[x.Label.Name]; ok {
				x.Label = ast.NewIdent(nn)
			}
			x.Stmt = rewriteStmt(x.Stmt)
		case *ast.BranchStmt:
			if x.Label != nil {
				if nn, ok := relabel[x.Label.Name]; ok {
					x.Label = ast.NewIdent(nn)
				}
			}
		case *ast.BlockStmt:
			x.List = rewriteList(x.List)
		case *ast.IfStmt:
			x.Body.List = rewriteList(x.Body.List)
			if x.Else != nil {
				x.Else = rewriteStmt(x.Else)
			}
		case *ast.ForStmt:
			x.Body.List = rewriteList(x.Body.List)
		case *ast.RangeStmt:
			x.Body.List = rewriteList(x.Body.List)
		case *ast.SwitchStmt:
			x.Body.List = rewriteList(x.Body.List)
		case *ast.TypeSwitchStmt:
			x.Body.List = rewriteList(x.Body.List)
		case *ast.SelectStmt:
			x.Body.List = rewriteList(x.Body.List)
		case *ast.CaseClause:
			x.Body = rewriteList(x.Body)
		case *ast.CommClause:
			x.Body = rewriteList(x.Body)
		}
		return s
	}
	rewriteList = func(list []ast.Stmt) []ast.Stmt {
		out := make([]ast.Stmt, len(list))
		for i, s := range list {
			out[i] = rewriteStmt(s)
		}
		return out
	}
	cp := copyBlock(h.body)
	cp.List = rewriteList(cp.List)
	if failed {
		return "", false
	}
	if len(active) > 0 && sig.Results().Len() == 0 {
		// control can fall off the end of a result-less helper: its deferred calls run there too
		if n := len(cp.List); n == 0 || !isReturnLike(cp.List[n-1]) {
			cp.List = append(cp.List, runDeferred()...)
		}
	}
	var buf bytes.Buffer
	if err := printer.Fprint(&buf, token.NewFileSet(), cp); err != nil {
		return "", false
	}
	return namedDecls + buf.String(), true
}

// flattenable: the defer statements of helper h whose calls may be moved to h's returns. All of them
// or none: every defer of h is a statement of the body's own list (so every return below it runs
// it, and none above it does), defers a plain call `x.M(a…)` / `f(a…)` — no function literal —
// whose operands are constants or variables that nothing assigns or takes the address of after
// the defer statement, and h has no labels, goto or recover. What is given up is the deferred
// call's running when the helper panics: no rule of this checker reasons about panicking paths.
func (il *inliner) flattenable(h *helper) map[*ast.DeferStmt]bool {
	info := il.pk.TypesInfo
	out := map[*ast.DeferStmt]bool{}
	top := map[*ast.DeferStmt]bool{}
	for _, s := range h.body.List {
		if d, ok := s.(*ast.DeferStmt); ok {
			top[d] = true
		}
	}
	if len(top) == 0 {
		return out
	}
	good := true
	var operands []*ast.Ident
	// an argument is evaluated when the defer statement runs: only what has the same value later
	plainArg := func(e ast.Expr) bool {
		switch x := unparen(e).(type) {
		case *ast.Ident:
			operands = append(operands, x)
			return true
		case *ast.BasicLit:
			return true
		}
		return false
	}
	// the called function: f, pkg.F, x.M, or x.a.b.M where x.a.b is a struct held by value (the
	// receiver is then its address, which later assignments to its fields do not change)
	plainFun := func(e ast.Expr) bool {
		switch x := unparen(e).(type) {
		case *ast.Ident:
			operands = append(operands, x)
			return true
		case *ast.SelectorExpr:
			recv := unparen(x.X)
			if id, ok := recv.(*ast.Ident); ok {
				operands = append(operands, id)
				return true
			}
			for {
				sel, ok := recv.(*ast.SelectorExpr)
				if !ok {
					break
				}
				t := info.TypeOf(sel)
				if t == nil {
					return false
				}
				if _, isStruct := t.Underlying().(*types.Struct); !isStruct {
					return false
				}
				recv = unparen(sel.X)
			}
			id, ok := recv.(*ast.Ident)
			if ok {
				operands = append(operands, id)
			}
			return ok
		}
		return false
	}
	ast.Inspect(h.body, func(n ast.Node) bool {
		switch x := n.(type) {
		case *ast.FuncLit:
			return false
		case *ast.DeferStmt:
			if !top[x] || !plainFun(x.Call.Fun) || x.Call.Ellipsis.IsValid() {
				good = false
				return false
			}
			for _, a := range x.Call.Args {
				if !plainArg(a) {
					good = false
				}
			}
			return false
		case *ast.LabeledStmt:
			good = false
		case *ast.BranchStmt:
			if x.Tok == token.GOTO {
				good = false
			}
		}
		return true
	})
	if !good {
		return out
	}
	// nothing writes an operand after its defer statement
	var first token.Pos
	for d := range top {
		if !first.IsValid() || d.Pos() < first {
			first = d.Pos()
		}
	}
	objs := map[types.Object]bool{}
	for _, id := range operands {
		if o := info.Uses[id]; o != nil {
			if _, isVar := o.(*types.Var); isVar {
				objs[o] = true
			}
		}
	}
	ast.Inspect(h.body, func(n ast.Node) bool {
		if n == nil || n.End() < first {
			return n != nil
		}
		written := func(e ast.Expr) {
			if id, ok := unparen(e).(*ast.Ident); ok && objs[info.Uses[id]] && id.Pos() > first {
				good = false
			}
		}
		switch x := n.(type) {
		case *ast.AssignStmt:
			for _, l := range x.Lhs {
				written(l)
			}
		case *ast.IncDecStmt:
			written(x.X)
		case *ast.UnaryExpr:
			if x.Op == token.AND {
				written(x.X)
			}
		case *ast.RangeStmt:
			if x.Key != nil {
				written(x.Key)
			}
			if x.Value != nil {
				written(x.Value)
			}
		}
		return true
	})
	if !good {
		return out
	}
	return top
}

// plainResult: evaluating e later gives the same value — a constant, nil, or a local variable whose
// address is never taken and that no function literal mentions (a deferred call that runs in
// between cannot reach it).
func plainResult(info *types.Info, e ast.Expr, reachable map[types.Object]bool) bool {
	switch x := unparen(e).(type) {
	case *ast.BasicLit:
		return true
	case *ast.Ident:
		switch o := info.Uses[x].(type) {
		case *types.Const, *types.Nil:
			return true
		case *types.Var:
			return !o.IsField() && o.Parent() != nil && o.Parent() != o.Pkg().Scope() && !reachable[o]
		}
	}
	return false
}

func isReturnLike(s ast.Stmt) bool {
	switch x := s.(type) {
	case *ast.ReturnStmt:
		return true
	case *ast.BlockStmt:
		return len(x.List) > 0 && isReturnLike(x.List[len(x.List)-1])
	case *ast.BranchStmt:
		return x.Tok == token.GOTO
	}
	return false
}

// copyBlock deep-copies the statement structure of a block (expressions are shared: they are only printed).
func copyBlock(b *ast.BlockStmt) *ast.BlockStmt {
	var cpStmt func(s ast.Stmt) ast.Stmt
	cpList := func(l []ast.Stmt) []ast.Stmt {
		out := make([]ast.Stmt, len(l))
		for i, s := range l {
			out[i] = cpStmt(s)
		}
		return out
	}
	cpBlock := func(b *ast.BlockStmt) *ast.BlockStmt {
		if b == nil {
			return nil
		}
		return &ast.BlockStmt{List: cpList(b.List)}
	}
	cpStmt = func(s ast.Stmt) ast.Stmt {
		switch x := s.(type) {
		case *ast.BlockStmt:
			return cpBlock(x)
		case *ast.IfStmt:
			n := *x
			n.Body = cpBlock(x.Body)
			if x.Else != nil {
				n.Else = cpStmt(x.Else)
			}
			return &n
		case *ast.ForStmt:
			n := *x
			n.Body = cpBlock(x.Body)
			return &n
		case *ast.RangeStmt:
			n := *x
			n.Body = cpBlock(x.Body)
			return &n
		case *ast.SwitchStmt:
			n := *x
			n.Body = cpBlock(x.Body)
			return &n
		case *ast.TypeSwitchStmt:
			n := *x
			n.Body = cpBlock(x.Body)
			return &n
		case *ast.SelectStmt:
			n := *x
			n.Body = cpBlock(x.Body)
			return &n
		case *ast.CaseClause:
			n := *x
			n.Body = cpList(x.Body)
			return &n
		case *ast.CommClause:
			n := *x
			n.Body = cpList(x.Body)
			return &n
		case *ast.ReturnStmt:
			n := *x
			return &n
		case *ast.LabeledStmt:
			n := *x
			n.Stmt = cpStmt(x.Stmt)
			return &n
		case *ast.BranchStmt:
			n := *x
			return &n
		}
		return s
	}
	return cpBlock(b)
}

var sprintfVerbs = regexp.MustCompile(`%[-+# 0-9.*\[\]]*[a-zA-Z%]`)

// pinLines prefixes every line of s with a //line directive naming (fname, line).
func pinLines(s, fname string, line int) string {
	var b strings.Builder
	for i, l := range strings.Split(s, "\n") {
		if i > 0 {
			b.WriteString("\n")
		}
		fmt.Fprintf(&b, "//line %s:%d\n%s", fname, line, l)
	}
	return b.String()
}
