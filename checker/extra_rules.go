package main

import (
	"fmt"
	"go/token"
	"go/types"
	"os"
	"sort"
	"strings"

	"golang.org/x/tools/go/ssa"
)

// targetOutsideRootBody: symlink.TargetOutsideRoot answers, on every path, with the result of
// examining the joined and cleaned path that contains the target (the marker-directory test): no
// constant answer, no answer derived from the raw target text alone. A "fast path" that returns
// false for targets that merely do not *start* with "../" lets "a/../../x" through.
func targetOutsideRootBody(p *Prog, r *Report, rule string) {
	fn := p.Func("artifact/image/symlink", "TargetOutsideRoot")
	if fn == nil {
		r.Undecided(rule, "anchor:symlink.TargetOutsideRoot", "-", "not found")
		return
	}
	n := 0
	for i, ret := range returnsOf(fn) {
		n++
		v := retVal(ret, 0)
		site := fmt.Sprintf("symlink.TargetOutsideRoot:return#%d", i)
		inner, _ := stripNot(v)
		ok := false
		if c, isC := inner.(*ssa.Call); isC {
			rf := refOf(c.Common())
			if rf.Pkg == "strings" && (rf.Name == "Contains" || rf.Name == "HasPrefix") {
				// first operand: filepath.Join(..., target) / Clean of it
				ok = derivesFrom(c.Call.Args[0], func(x ssa.Value) bool {
					jc, isJ := x.(*ssa.Call)
					if !isJ {
						return false
					}
					jr := refOf(jc.Common())
					if jr.Pkg != "path/filepath" && jr.Pkg != "path" {
						return false
					}
					if jr.Name != "Join" && jr.Name != "Clean" {
						return false
					}
					for _, a := range flattenVariadic(jc.Call.Args) {
						if a == ssa.Value(fn.Params[1]) {
							return true
						}
						// Join(elems...) with the target appended to elems
						if _, isSlice := a.Type().Underlying().(*types.Slice); isSlice {
							if derivesFrom(a, func(y ssa.Value) bool { return y == ssa.Value(fn.Params[1]) }, deriveOpts{followStores: true, throughCall: func(c *ssa.CallCommon) bool {
								b, isB := c.Value.(*ssa.Builtin)
								return isB && b.Name() == "append"
							}}) {
								return true
							}
						}
					}
					return false
				}, deriveOpts{})
			}
		}
		if c, isC := inner.(*ssa.Call); ok && isC && len(c.Call.Args) == 2 {
			// the marker that stands for the root cannot occur in a target: it is a fresh random
			// identifier (a constant one can be written into a link target, which then "contains the
			// marker" although it climbed out of the root)
			fresh := derivesFrom(c.Call.Args[1], func(x ssa.Value) bool {
				uc, isU := x.(*ssa.Call)
				if !isU {
					return false
				}
				ur := refOf(uc.Common())
				return (ur.Pkg == "github.com/google/uuid" && (ur.Name == "New" || ur.Name == "NewString" || ur.Name == "NewRandom" || ur.Name == "Must")) || ur.Pkg == "crypto/rand"
			}, deriveOpts{throughCall: func(cc *ssa.CallCommon) bool {
				ur := refOf(cc)
				return ur.Pkg == "github.com/google/uuid" || ur.Pkg == "fmt" || ur.Pkg == "encoding/hex" || ur.Pkg == "strings" || ur.Pkg == "path/filepath" || ur.Pkg == "path"
			}})
			r.Check(fresh, rule, site+":marker-unguessable", p.Pos(ret.Pos()), "the root marker is a fresh random identifier", "the marker directory that stands for the root in TargetOutsideRoot is not a fresh random value: a link target that contains the marker text passes the containment test although it leaves the root (\"../../<marker>/etc/passwd\")")
		}
		r.Check(ok, rule, site, p.Pos(ret.Pos()), "answer = marker test on Join(marker, …, target)", "TargetOutsideRoot answers on some path without examining the joined, cleaned path of the target (a constant or a test on the raw target text): a target that climbs out after a harmless first component is accepted, and the symlink kept in the unpacked tree resolves outside it")
	}
	r.Instances(rule, "returns of symlink.TargetOutsideRoot", n, 1)
}

// counterOnlyIncrements: the field is written only by `field = field + 1` (and by the struct
// literal that creates the object).
func counterOnlyIncrements(p *Prog, r *Report, rule, stype, field, relPkg, why string) {
	n := 0
	for _, fn := range p.FuncsIn(relPkg) {
		forEachInstr(fn, func(_ *ssa.BasicBlock, _ int, in ssa.Instruction) {
			st, ok := in.(*ssa.Store)
			if !ok || !storesField(stype, field)(in) {
				return
			}
			// initialisation inside the literal that creates the object
			if _, _, base, ok := fieldOf(st.Addr); ok {
				if al, isA := base.(*ssa.Alloc); isA && al.Heap {
					if k, isK := constInt(st.Val); isK && k == 0 {
						return
					}
				}
			}
			n++
			okInc := false
			if bo, ok := st.Val.(*ssa.BinOp); ok && bo.Op == token.ADD {
				if k, isK := constInt(bo.Y); isK && k == 1 && loadsField(bo.X, stype, field) {
					okInc = true
				}
			}
			r.Check(okInc, rule, fmt.Sprintf("%s:%s.%s-write", fnKey(fn), stype, field), p.Pos(st.Pos()), "incremented by one", why)
		})
	}
	r.Instances(rule, "writes of "+stype+"."+field, n, 1)
}

// mapOnlySetTrue: every update of the map held in the field stores the constant true.
func mapOnlySetTrue(p *Prog, r *Report, rule, stype, field, relPkg, why string) {
	n := 0
	for _, fn := range p.FuncsIn(relPkg) {
		forEachInstr(fn, func(_ *ssa.BasicBlock, _ int, in ssa.Instruction) {
			mu, ok := in.(*ssa.MapUpdate)
			if !ok || !loadsField(mu.Map, stype, field) {
				return
			}
			n++
			b, isB := constBool(mu.Value)
			r.Check(isB && b, rule, fmt.Sprintf("%s:%s.%s[…]", fnKey(fn), stype, field), p.Pos(mu.Pos()), "set to true only", why)
		})
	}
	r.Instances(rule, "updates of "+stype+"."+field, n, 1)
}

// onlyLoopEndSkips: in fn, the loop that contains a call matching progress has no decision that
// ends an iteration without that call other than the end of the range and the listed substrings.
func onlyLoopEndSkips(p *Prog, r *Report, rule, site string, fn *ssa.Function, progress func(ssa.Instruction) bool, allowed []string, why string) {
	var extra []string
	for _, x := range loopSkips(fn, progress) {
		if strings.HasPrefix(x, "range-end: ") {
			continue
		}
		ok := false
		for _, a := range allowed {
			if strings.Contains(x, a) {
				ok = true
			}
		}
		if !ok {
			extra = append(extra, x)
		}
	}
	r.Check(len(extra) == 0, rule, site, p.Pos(fn.Pos()), "no element is skipped", fmt.Sprintf("%s (decisions: %v)", why, extra))
}

// extractorLoopDecisions: the decisions that end the handling of the current file for the current
// extractor (or for all remaining extractors) without dispatching it, in the callback's loop over
// the configured extractors. Audited: the extractor does not require the file; the size limit is
// exceeded / the size cannot be determined (those end the file for every extractor, by design).
var extractorLoopSanctioned = []string{
	"!extractor/filesystem.FileRequired(param0.extractors[ι],param0.fileAPI)",
	"range-end: param0.extractors",
	"extractor/filesystem.Stat(param0.fileAPI)#1 != nil:error",
	"param0.maxFileSize < io/fs.FileInfo.Size(extractor/filesystem.Stat(param0.fileAPI)#0)",
	// early exits of the loop: only the two size-limit decisions (they end the file for every extractor)
	"exit: extractor/filesystem.Stat(param0.fileAPI)#1 != nil:error",
	"exit: param0.maxFileSize < io/fs.FileInfo.Size(extractor/filesystem.Stat(param0.fileAPI)#0)",
}

func extractorLoopRule(p *Prog, r *Report, e *engine, rule string) {
	defer func(d int, a bool) { renderDepth, renderAllocs = d, a }(renderDepth, renderAllocs)
	renderDepth, renderAllocs = 10, true
	isDisp := func(in ssa.Instruction) bool { return in == ssa.Instruction(e.dispatchCall) }
	got := loopSkips(e.handleFile, isDisp)
	// early exits of the loop (break / return before the last extractor): they keep the file from
	// every remaining extractor
	if hdr := loopHeaderOf(e.dispatchCall.Block()); hdr != nil {
		for _, x := range loopExitDecisions(hdr) {
			got = append(got, "exit: "+x)
		}
	}
	if os.Getenv("SCALINT_LEARN") != "" {
		for _, g := range got {
			fmt.Fprintf(os.Stderr, "LEARN-EXLOOP\t%q,\n", g)
		}
		return
	}
	want := map[string]int{}
	for _, w := range extractorLoopSanctioned {
		want[w]++
	}
	have := map[string]int{}
	for _, g := range got {
		have[g]++
	}
	key := fnKey(e.handleFile)
	for g, n := range have {
		if _, audited := want[g]; !audited && n > 0 && !subsumedDecision(g, want, have) {
			r.Fail(rule, key+":extractor-loop:new:"+short(g, 120), p.Pos(e.handleFile.Pos()), "a decision that keeps the current file from an extractor (or from all remaining extractors) is not among the audited ones: "+g+" — e.g. leaving the loop after one extractor failed to open the file means the other extractors that require it never see it and are reported as succeeded")
		} else {
			r.OK(rule, key+":extractor-loop:"+short(g, 120), p.Pos(e.handleFile.Pos()), "audited decision")
		}
	}
	for w, n := range want {
		if have[w] < n {
			r.Fail(rule, key+":extractor-loop:missing:"+short(w, 120), p.Pos(e.handleFile.Pos()), "the audited decision '"+w+"' is gone or was rewritten")
		}
	}
}

// loopExitDecisions: the branch decisions (rendered with polarity, conjunction chains merged) on
// which control leaves the natural loop of hdr from inside its body — breaks and returns — not
// counting the loop head's own "range exhausted" exit.
func loopExitDecisions(hdr *ssa.BasicBlock) []string {
	body := naturalLoop(hdr)
	var out []string
	for b := range body {
		if b == hdr {
			continue
		}
		ifi := blockIf(b)
		if ifi == nil {
			continue
		}
		for k, sc := range b.Succs {
			if !body[sc] {
				out = append(out, renderSkipDecision(b, k))
			}
		}
	}
	sort.Strings(out)
	return out
}

// frozenSkips: the decisions after which the current element of a loop in fn can no longer reach a
// "progress" instruction must equal the audited list (rendered by definition, conjunction chains
// sorted, emptiness tests canonical). learnTag != "" prints candidates under SCALINT_LEARN.
var frozenSkipsDepth = 10

func frozenSkips(p *Prog, r *Report, rule, site string, fn *ssa.Function, progress func(ssa.Instruction) bool, want []string, learnTag, why string) {
	defer func(d int, a bool) { renderDepth, renderAllocs = d, a }(renderDepth, renderAllocs)
	renderDepth, renderAllocs = frozenSkipsDepth, true
	frozenCompare(p, r, rule, site, fn, loopSkips(fn, progress), want, learnTag, why)
}

// frozenFnSkips: the same for a function body taken as one iteration (fnSkips).
func frozenFnSkips(p *Prog, r *Report, rule, site string, fn *ssa.Function, progress func(ssa.Instruction) bool, want []string, learnTag, why string) {
	defer func(d int, a bool) { renderDepth, renderAllocs = d, a }(renderDepth, renderAllocs)
	renderDepth, renderAllocs = frozenSkipsDepth, true
	frozenCompare(p, r, rule, site, fn, fnSkips(fn, progress), want, learnTag, why)
}

// subsumedDecision: x is a conjunction whose conjuncts include all conjuncts of a decision that is
// audited and still present — `A && B` next to an audited `A` that still skips: whenever the new
// decision holds the audited one holds too, so it leaves out nothing the audited one does not.
// (`if err != nil { if fatal {return err}; return nil }` ≡ `switch { case err != nil && fatal: …; case err != nil: … }`.)
func subsumedDecision(x string, audited map[string]int, present map[string]int) bool {
	pre := ""
	xs := x
	if strings.HasPrefix(xs, "exit: ") {
		pre, xs = "exit: ", strings.TrimPrefix(xs, "exit: ")
	}
	parts := strings.Split(xs, " && ")
	if len(parts) < 2 {
		return false
	}
	have := map[string]bool{}
	for _, c := range parts {
		have[c] = true
	}
	for a := range audited {
		if present[a] == 0 || !strings.HasPrefix(a, pre) || (pre == "" && strings.HasPrefix(a, "exit: ")) {
			continue
		}
		as := strings.Split(strings.TrimPrefix(a, pre), " && ")
		if len(as) >= len(parts) {
			continue
		}
		all := true
		for _, c := range as {
			if !have[c] {
				all = false
			}
		}
		if !all {
			continue
		}
		// and structurally: when the new conjunction does not hold, the very next test is the audited
		// decision (the next case of the same switch) — an audited test made somewhere else, under
		// other conditions, says nothing about this place
		for _, sx := range skipSites[strings.TrimPrefix(x, pre)] {
			if len(sx.b.Succs) != 2 {
				continue
			}
			t := sx.b.Succs[1-sx.k]
			for hop := 0; hop < 4 && len(t.Succs) == 1 && len(t.Instrs) == 1; hop++ {
				t = t.Succs[0]
			}
			for _, sa := range skipSites[strings.TrimPrefix(a, pre)] {
				if sa.b == t || (blockIf(t) != nil && sa.b.Parent() == t.Parent() && impliesBlock(t, sa.b)) {
					return true
				}
			}
		}
	}
	return false
}

// impliesBlock: the decision block sa is reached from t through the short-circuit chain that starts
// in t (t tests the first conjunct of the decision rendered at sa).
func impliesBlock(t, sa *ssa.BasicBlock) bool {
	for hop := 0; hop < 4; hop++ {
		if t == sa {
			return true
		}
		if len(t.Succs) != 2 {
			return false
		}
		// follow the edge that stays inside the chain (the one that does not leave to a block with several predecessors)
		next := t.Succs[0]
		if len(next.Preds) > 1 {
			next = t.Succs[1]
		}
		t = next
	}
	return false
}

func frozenCompare(p *Prog, r *Report, rule, site string, fn *ssa.Function, got, want []string, learnTag, why string) {
	if os.Getenv("SCALINT_LEARN") != "" {
		for _, g := range got {
			fmt.Fprintf(os.Stderr, "LEARN-%s\t%q,\n", learnTag, g)
		}
		return
	}
	w := map[string]int{}
	for _, x := range want {
		w[x]++
	}
	h := map[string]int{}
	for _, x := range got {
		h[x]++
	}
	for x, n := range h {
		if _, audited := w[x]; !audited && n > 0 && !subsumedDecision(x, w, h) {
			r.Fail(rule, site+":new:"+short(x, 120), p.Pos(fn.Pos()), why+" — unaudited decision: "+x)
		} else {
			r.OK(rule, site+":"+short(x, 120), p.Pos(fn.Pos()), "audited decision")
		}
	}
	for x, n := range w {
		if strings.HasPrefix(x, "range-end: ") {
			// whether the end of an inner loop still counts as "nothing more for this element"
			// depends on what follows the loop (a collected batch appended afterwards is progress);
			// the row stays audited, its absence is not a finding
			continue
		}
		if h[x] < n {
			r.Fail(rule, site+":missing:"+short(x, 120), p.Pos(fn.Pos()), "the audited decision '"+x+"' is gone or was rewritten")
		}
	}
}
