package main

import (
	"fmt"
	"go/token"
	"go/types"
	"os"
	"sort"
	"strings"

	"golang.org/x/tools/go/ssa"
)

// Rules added after seed round 5 (DESIGN.md §3c).

var _ = token.ADD
var _ = types.Typ
var _ = sort.Strings

// configPlumbing: every filesystem.Config literal that the root package builds from a ScanConfig
// carries the limits (MaxFileSize, MaxInodes) from the same-named ScanConfig fields, and sibling
// literals agree on the fields they set (audited differences excepted): the traced re-extraction of a
// container scan must run under the limits of the scan itself.
var configPlumbingAudited = map[string]string{
	"Scanner.ScanContainer:ErrorOnFSErrors": "the layer tracing is best effort: file-system errors of the re-extraction are not the scan's errors",
}

func configPlumbing(p *Prog, r *Report, rule string) {
	type lit struct {
		fn     *ssa.Function
		al     *ssa.Alloc
		fields map[string]string // Config field -> ScanConfig field it is loaded from ("" = other value)
	}
	var lits []lit
	for _, fn := range p.FuncsIn(".") {
		forEachInstr(fn, func(_ *ssa.BasicBlock, _ int, in ssa.Instruction) {
			al, ok := in.(*ssa.Alloc)
			if !ok {
				return
			}
			n := namedOf(al.Type())
			if n == nil || n.Obj().Name() != "Config" || n.Obj().Pkg() == nil || !strings.HasSuffix(n.Obj().Pkg().Path(), "/extractor/filesystem") {
				return
			}
			l := lit{fn: fn, al: al, fields: map[string]string{}}
			for _, ref := range *al.Referrers() {
				fa, ok := ref.(*ssa.FieldAddr)
				if !ok {
					continue
				}
				_, f, _, ok := fieldOf(fa)
				if !ok {
					continue
				}
				for _, sv := range storesTo(fa) {
					src := ""
					if s, sf, _, ok := fieldOf(loadAddr(sv)); ok && s == "ScanConfig" {
						src = sf
					}
					l.fields[f] = src
				}
			}
			if len(l.fields) > 0 {
				lits = append(lits, l)
			}
		})
	}
	r.Instances(rule, "filesystem.Config literals built by the root package", len(lits), 2)
	union := map[string]bool{}
	for _, l := range lits {
		for f := range l.fields {
			union[f] = true
		}
	}
	for _, l := range lits {
		site := fnKey(l.fn)
		for _, lim := range []string{"MaxFileSize", "MaxInodes"} {
			r.Check(l.fields[lim] == lim, rule, site+":"+lim, p.Pos(l.al.Pos()), "the limit is the scan's own", fmt.Sprintf("the filesystem.Config built in %s does not carry %s from the scan configuration: the extraction it configures (the re-extraction of older layers while tracing package origins, or the scan itself) runs without that limit", stripRecvKey(site), lim))
		}
		var fs []string
		for f := range union {
			fs = append(fs, f)
		}
		sort.Strings(fs)
		for _, f := range fs {
			if _, set := l.fields[f]; set || f == "MaxFileSize" || f == "MaxInodes" {
				continue
			}
			key := stripRecvKey(site) + ":" + f
			if why, ok := configPlumbingAudited[key]; ok {
				r.Trivial(rule, site+":"+f, p.Pos(l.al.Pos()), "audited difference: "+why)
				continue
			}
			r.Fail(rule, site+":"+f, p.Pos(l.al.Pos()), fmt.Sprintf("the filesystem.Config built in %s leaves out %s, which the sibling literal passes on from the scan configuration: the two extractions run under different settings", stripRecvKey(site), f))
		}
	}
}

// stripRecvKey: "pkg.Recv.name" -> "Recv.name" without the package path.
func stripRecvKey(k string) string {
	if i := strings.LastIndex(k, "/"); i >= 0 {
		k = k[i+1:]
	}
	if i := strings.Index(k, "."); i >= 0 {
		k = k[i+1:]
	}
	return strings.TrimPrefix(k, ".")
}

// freshContentPerEntry: what unpack writes for a regular entry is what was read for *that* entry: when
// the bytes handed to os.WriteFile come out of a bytes.Buffer, the buffer is created in the same
// iteration, or emptied (Reset / Truncate(0)) on every path from the loop head to the write.
func freshContentPerEntry(p *Prog, r *Report, rule string) {
	up := p.Func("artifact/image/unpack", "unpack")
	if up == nil {
		r.Undecided(rule, "anchor:unpack.unpack", "-", "not found")
		return
	}
	n := 0
	forEachInstr(up, func(b *ssa.BasicBlock, _ int, in ssa.Instruction) {
		c, ok := in.(*ssa.Call)
		if !ok || !refOf(c.Common()).is("os", "", "WriteFile") {
			return
		}
		n++
		site := "unpack.unpack:content-of-this-entry"
		bc, _ := callValue(c.Call.Args[1])
		if bc == nil || !refOf(bc.Common()).is("bytes", "Buffer", "Bytes") {
			r.OK(rule, site, p.Pos(c.Pos()), "the content is not taken from a reused buffer")
			return
		}
		buf := bc.Call.Args[0]
		hdr := loopHeaderOf(b)
		if hdr == nil {
			r.OK(rule, site, p.Pos(c.Pos()), "not in a loop")
			return
		}
		if al, isAl := buf.(*ssa.Alloc); isAl && loopHeaderOf(al.Block()) == hdr && naturalLoop(hdr)[al.Block()] {
			r.OK(rule, site, p.Pos(c.Pos()), "a buffer of its own per entry")
			return
		}
		isReset := func(i ssa.Instruction) bool {
			rc, ok := i.(*ssa.Call)
			if !ok || len(rc.Call.Args) == 0 || rc.Call.Args[0] != buf {
				return false
			}
			rf := refOf(rc.Common())
			if rf.is("bytes", "Buffer", "Reset") {
				return true
			}
			if rf.is("bytes", "Buffer", "Truncate") && len(rc.Call.Args) == 2 {
				k, isK := constInt(rc.Call.Args[1])
				return isK && k == 0
			}
			return false
		}
		w := findPath(Point{hdr, -1}, func(i ssa.Instruction) bool { return i == ssa.Instruction(c) }, isReset, nil)
		r.Check(w == nil, rule, site, p.Pos(c.Pos()), "the shared buffer is emptied for every entry", "the buffer whose bytes are written for a regular entry is shared by the entries and not emptied on every path to the write: an entry without payload (or any entry, if Reset is skipped) is written with the content of an earlier file; witness path (SSA blocks): "+strings.Join(w, "→"))
	})
	r.Instances(rule, "regular-file writes in unpack", n, 1)
}

// nullableFieldDerefs (a contradiction rule): a pointer-typed field of a first-party struct that some
// function of the analysed set compares with nil is believed to be nil sometimes (the SBOM importers
// keep components that only have a CPE: Metadata.PURL == nil). Every dereference of a value loaded
// from that field must then be dominated by a non-nil test of the field (same base), or come after a
// store of a freshly taken address to it in the same function.
func nullableFieldDerefs(p *Prog, r *Report, rule string, fns []*ssa.Function) {
	type fkey struct{ s, f string }
	believed := map[fkey]bool{}
	fieldLoad := func(v ssa.Value) (fkey, *ssa.FieldAddr, bool) {
		ld, ok := v.(*ssa.UnOp)
		if !ok || ld.Op != token.MUL {
			return fkey{}, nil, false
		}
		fa, ok := ld.X.(*ssa.FieldAddr)
		if !ok {
			return fkey{}, nil, false
		}
		if _, isPtr := ld.Type().Underlying().(*types.Pointer); !isPtr {
			return fkey{}, nil, false
		}
		s, f, _, ok := fieldOf(fa)
		if !ok {
			return fkey{}, nil, false
		}
		st, _ := structOf(fa.X.Type())
		_ = st
		n := namedOf(fa.X.Type())
		if n == nil || n.Obj().Pkg() == nil || !strings.HasPrefix(n.Obj().Pkg().Path(), modPath) {
			return fkey{}, nil, false
		}
		return fkey{n.Obj().Pkg().Path() + "." + s, f}, fa, true
	}
	for _, fn := range fns {
		forEachInstr(fn, func(_ *ssa.BasicBlock, _ int, in ssa.Instruction) {
			bo, ok := in.(*ssa.BinOp)
			if !ok || (bo.Op != token.EQL && bo.Op != token.NEQ) {
				return
			}
			var v ssa.Value
			switch {
			case isNilConst(bo.Y):
				v = bo.X
			case isNilConst(bo.X):
				v = bo.Y
			default:
				return
			}
			if k, _, ok := fieldLoad(v); ok {
				believed[k] = true
			}
		})
	}
	n := 0
	for _, fn := range fns {
		forEachInstr(fn, func(b *ssa.BasicBlock, _ int, in ssa.Instruction) {
			var ptr ssa.Value
			switch x := in.(type) {
			case *ssa.UnOp:
				if x.Op == token.MUL {
					ptr = x.X
				}
			case *ssa.FieldAddr:
				ptr = x.X
			}
			if ptr == nil {
				return
			}
			k, fa, ok := fieldLoad(ptr)
			if !ok || !believed[k] {
				return
			}
			n++
			site := fmt.Sprintf("%s:%s.%s", fnKey(fn), k.s[strings.LastIndex(k.s, ".")+1:], k.f)
			same := func(v ssa.Value) bool {
				if v == ptr {
					return true // the loaded value itself was tested
				}
				_, fa2, ok := fieldLoad(v)
				return ok && (fa2 == fa || sameCell(fa2, fa))
			}
			nonNil, _ := guardEdges(fn, condNonNil(same))
			guarded := len(nonNil) > 0 && onlyVia(fn, b, nonNil)
			if !guarded {
				// a fresh address stored to the field earlier on every path
				for _, st := range storesTo(fa) {
					if _, isAl := st.(*ssa.Alloc); isAl {
						guarded = true
					}
				}
			}
			r.Check(guarded, rule, site, p.Pos(in.Pos()), "dereferenced only where the field was tested (or just set)", fmt.Sprintf("%s.%s is compared with nil elsewhere (it is nil for some records, e.g. an SBOM component that only has a CPE) but dereferenced here without a test: a nil-pointer panic that takes the whole scan down", k.s[strings.LastIndex(k.s, ".")+1:], k.f))
		})
	}
	r.Count("dereferences of fields believed to be nil sometimes", n)
}

// setOnlyAtConstruction: field f of struct s (package relPkg) is stored only into a value the storing
// function has just allocated. (dirIterator.files != nil *is* the iterator's mode — "the directory
// was preloaded, there is nothing more to read"; a later store turns a streaming iterator into an
// exhausted one and the rest of the directory is never visited.)
func setOnlyAtConstruction(p *Prog, r *Report, rule, relPkg, s, f, why string) {
	n := 0
	for _, fn := range p.FuncsIn(relPkg) {
		forEachInstr(fn, func(_ *ssa.BasicBlock, _ int, in ssa.Instruction) {
			st, ok := in.(*ssa.Store)
			if !ok {
				return
			}
			s2, f2, base, ok := fieldOf(st.Addr)
			if !ok || s2 != s || f2 != f {
				return
			}
			n++
			_, fresh := base.(*ssa.Alloc)
			r.Check(fresh, rule, fmt.Sprintf("%s:%s.%s-set-at-construction", fnKey(fn), s, f), p.Pos(st.Pos()), "stored into a freshly allocated "+s, why)
		})
	}
	r.Instances(rule, "stores to "+s+"."+f, n, 1)
}

// recursesIntoEveryChild: fn walks a tree — in the loop over its elements it calls itself on the
// element's children (field childField). Every iteration whose element has children (the field is
// not nil) must reach that call before the next element is taken or the function returns: an early
// `continue` above it drops a whole subtree.
func recursesIntoEveryChild(p *Prog, r *Report, rule, relPkg, fnName, childField, why string) {
	fn := p.Func(relPkg, fnName)
	if fn == nil {
		r.Undecided(rule, "anchor:"+fnName, "-", "not found")
		return
	}
	var rec *ssa.Call
	forEachInstr(fn, func(_ *ssa.BasicBlock, _ int, in ssa.Instruction) {
		if c, ok := in.(*ssa.Call); ok && c.Call.StaticCallee() == fn && inLoop(c.Block()) {
			rec = c
		}
	})
	site := stripRecvKey(fnKey(fn)) + ":every-subtree-visited"
	if rec == nil {
		r.Fail(rule, site, p.Pos(fn.Pos()), fnName+" no longer calls itself on the children of the elements it walks: "+why)
		return
	}
	hdr := loopHeaderOf(rec.Block())
	if hdr == nil || len(hdr.Succs) == 0 {
		r.Undecided(rule, site, p.Pos(rec.Pos()), "loop not found")
		return
	}
	isChild := func(v ssa.Value) bool {
		_, f, _, ok := fieldOf(loadAddr(v))
		return ok && f == childField
	}
	_, childNil := guardEdges(fn, condNonNil(isChild))
	// emptiness tests (len(x.children) == 0 / > 0) leave the same way
	emptyH, _ := guardEdges(fn, condCmp(func(v ssa.Value) bool {
		c, ok := v.(*ssa.Call)
		return ok && isCallTo(c, "builtin", "", "len") && isChild(c.Call.Args[0])
	}, isConstInt(0), token.EQL))
	cut := edgesOf(append(append([]Edge{}, childNil...), emptyH...))
	goal := func(in ssa.Instruction) bool {
		if _, isRet := in.(*ssa.Return); isRet {
			return true
		}
		return len(hdr.Instrs) > 0 && in == hdr.Instrs[0]
	}
	w := findPath(Point{hdr.Succs[0], -1}, goal, func(in ssa.Instruction) bool { return in == ssa.Instruction(rec) }, cut)
	r.Check(w == nil, rule, site, p.Pos(rec.Pos()), "every element with children is descended into", why+"; witness path (SSA blocks): "+strings.Join(w, "→"))
}

// resultListsNeverShrink: on the way from the plugins to the ScanResult nothing removes entries from
// a list of findings or packages: no slices.Compact/CompactFunc/Delete/DeleteFunc (and no
// sort+dedupe helper built on them) is applied to a []*detector.Finding or []*extractor.Package in
// the packages that assemble the result. (A "de-duplication" keyed by less than the whole finding
// drops findings that differ only in their target.)
func resultListsNeverShrink(p *Prog, r *Report, rule string, relPkgs ...string) {
	n, calls := 0, 0
	for _, fn := range p.FuncsIn(relPkgs...) {
		forEachInstr(fn, func(_ *ssa.BasicBlock, _ int, in ssa.Instruction) {
			c, ok := in.(*ssa.Call)
			if !ok {
				return
			}
			rf := refOf(c.Common())
			if rf.Pkg != "slices" && rf.Pkg != "golang.org/x/exp/slices" {
				return
			}
			calls++
			switch rf.Name {
			case "Compact", "CompactFunc", "Delete", "DeleteFunc":
			default:
				return
			}
			if len(c.Call.Args) == 0 {
				return
			}
			sl, ok := c.Call.Args[0].Type().Underlying().(*types.Slice)
			if !ok {
				return
			}
			el := namedOf(sl.Elem())
			if el == nil || el.Obj().Pkg() == nil || !strings.HasPrefix(el.Obj().Pkg().Path(), modPath) {
				return
			}
			if name := el.Obj().Name(); name != "Finding" && name != "Package" {
				return
			}
			n++
			r.Fail(rule, fmt.Sprintf("%s:slices.%s([]%s)", fnKey(fn), rf.Name, el.Obj().Name()), p.Pos(c.Pos()), fmt.Sprintf("entries are removed from a list of %ss while the scan result is assembled: what a plugin returned no longer reaches the result intact (two findings of one advisory for different targets, two packages with equal name and version at different locations, are merged into one)", strings.ToLower(el.Obj().Name())))
		})
	}
	if n == 0 {
		r.OK(rule, "all", "-", fmt.Sprintf("%d calls into package slices, none removes findings or packages", calls))
	}
	r.Instances(rule, "calls into package slices in the result-assembling packages", calls, 1)
}

// inputsNotModified: the converters read the scan result, they do not change it: no store through
// memory reached from a parameter, and no in-place sort/reverse of a slice reached from a parameter
// (a local `locs := pkg.Locations` is the same backing array). What one output format does to the
// result would otherwise show in every format written after it.
func inputsNotModified(p *Prog, r *Report, rule string, relPkgs ...string) {
	nfn, nsort := 0, 0
	fromParam := func(fn *ssa.Function) func(ssa.Value) bool {
		return func(v ssa.Value) bool {
			return derivesFrom(v, func(x ssa.Value) bool {
				prm, ok := x.(*ssa.Parameter)
				if !ok || prm.Parent() != fn {
					return false
				}
				// inputs are first-party data types (the scan result and what hangs off it); the
				// generated proto messages and third-party document types are what is being built
				t := prm.Type()
				for {
					switch u := t.Underlying().(type) {
					case *types.Pointer:
						if _, named := t.(*types.Named); !named {
							t = u.Elem()
							continue
						}
					case *types.Slice:
						if _, named := t.(*types.Named); !named {
							t = u.Elem()
							continue
						}
					}
					break
				}
				n := namedOf(t)
				if n == nil || n.Obj().Pkg() == nil {
					return false
				}
				path := n.Obj().Pkg().Path()
				return strings.HasPrefix(path, modPath) && !strings.Contains(path, "_go_proto")
			}, deriveOpts{})
		}
	}
	for _, fn := range p.FuncsIn(relPkgs...) {
		if fn.Parent() != nil {
			continue
		}
		nfn++
		isIn := fromParam(fn)
		for _, f := range withAnon(fn) {
			forEachInstr(f, func(_ *ssa.BasicBlock, _ int, in ssa.Instruction) {
				switch x := in.(type) {
				case *ssa.Store:
					switch x.Addr.(type) {
					case *ssa.FieldAddr, *ssa.IndexAddr:
					default:
						return
					}
					if f == fn && isIn(x.Addr) {
						r.Fail(rule, fnKey(fn)+":store:"+exprShort(p, f, in), p.Pos(x.Pos()), "a converter writes into the data it was given (a field or element reached from a parameter): the scan result is changed for every consumer that reads it afterwards")
					}
				case *ssa.Call:
					rf := refOf(x.Common())
					inPlace := (rf.Pkg == "sort" && (rf.Name == "Strings" || rf.Name == "Ints" || rf.Name == "Float64s" || rf.Name == "Slice" || rf.Name == "SliceStable" || rf.Name == "Sort" || rf.Name == "Stable")) ||
						((rf.Pkg == "slices" || rf.Pkg == "golang.org/x/exp/slices") && (strings.HasPrefix(rf.Name, "Sort") || rf.Name == "Reverse"))
					if !inPlace || len(x.Call.Args) == 0 {
						return
					}
					nsort++
					r.Check(!(f == fn && isIn(stripIface(x.Call.Args[0]))), rule, fnKey(fn)+":"+rf.Pkg+"."+rf.Name, p.Pos(x.Pos()), "sorts a slice of its own", "a converter sorts a slice of the scan result in place (a local that was assigned the slice shares its backing array): the package's own Locations are reordered, the other output formats and the proto written afterwards no longer carry them in the order the extractor reported")
				}
			})
		}
	}
	r.Count("in-place sorts in the converters", nsort)
	r.Instances(rule, "converter functions checked for writes into their input", nfn, 3)
}

// recursionOneLevel: fn calls itself only where its string parameter prm is empty, and passes a
// non-empty constant for it: the nesting depth is at most one whatever the document looks like. (The
// pom.xml writer re-enters itself on the text of a <profile>/<plugin> element, which starts with that
// very element: only the "I am already inside one" parameter stops the descent.)
func recursionOneLevel(p *Prog, r *Report, rule, relPkg, fnName string, prmIdx int, why string) {
	fn := p.Func(relPkg, fnName)
	if fn == nil {
		r.Undecided(rule, "anchor:"+fnName, "-", "not found")
		return
	}
	if prmIdx >= len(fn.Params) {
		r.Undecided(rule, fnName+":signature", p.Pos(fn.Pos()), "unexpected signature")
		return
	}
	prm := fn.Params[prmIdx]
	isPrm := func(v ssa.Value) bool { return v == ssa.Value(prm) }
	empty, _ := guardEdges(fn, func(c ssa.Value) (bool, bool) {
		b, ok := c.(*ssa.BinOp)
		if !ok || (b.Op != token.EQL && b.Op != token.NEQ) {
			return false, false
		}
		if s, isS := constString(b.Y); isS && s == "" && isPrm(b.X) {
			return true, b.Op == token.EQL
		}
		if s, isS := constString(b.X); isS && s == "" && isPrm(b.Y) {
			return true, b.Op == token.EQL
		}
		if lc, isL := b.X.(*ssa.Call); isL && isCallTo(lc, "builtin", "", "len") && isPrm(lc.Call.Args[0]) {
			if k, isK := constInt(b.Y); isK && k == 0 {
				return true, b.Op == token.EQL
			}
		}
		return false, false
	})
	n := 0
	forEachInstr(fn, func(b *ssa.BasicBlock, _ int, in ssa.Instruction) {
		c, ok := in.(*ssa.Call)
		if !ok || c.Call.StaticCallee() != fn {
			return
		}
		n++
		site := fmt.Sprintf("%s:self-call#%d", fnName, n)
		s, isC := constString(c.Call.Args[prmIdx])
		r.Check(isC && s != "", rule, site+":marks-nesting", p.Pos(c.Pos()), "the nested call is told it is nested", "the nested call of "+fnName+" is not given a non-empty constant for the parameter that says \"already inside an element\": "+why)
		r.Check(len(empty) > 0 && onlyVia(fn, b, empty), rule, site+":only-at-top-level", p.Pos(c.Pos()), "re-entered only from the top level", fnName+" can call itself although it is already nested (the test of the nesting parameter no longer guards the call): "+why)
	})
	r.Instances(rule, "self-calls of "+fnName, n, 1)
}

// noSharedMutableState: the functions compute their answer from their arguments alone — they (and the
// first-party code they reach) neither write a package-level variable nor use one in any way but
// reading it, and every package-level variable they read is written by package initialisers only. A
// process-wide memo (a sync.Map of parsed versions keyed by the string alone) makes the answer for
// one ecosystem depend on which ecosystems were evaluated before.
func noSharedMutableState(p *Prog, r *Report, rule, example string, roots []*ssa.Function, inPkgs ...string) {
	scope := map[*ssa.Function]bool{}
	for _, f := range p.FuncsIn(inPkgs...) {
		scope[f] = true
	}
	written := map[*ssa.Global]bool{}
	for _, f := range p.Funcs() {
		forEachInstr(f, func(_ *ssa.BasicBlock, _ int, in ssa.Instruction) {
			if st, ok := in.(*ssa.Store); ok {
				if g, isG := st.Addr.(*ssa.Global); isG {
					written[g] = true
				}
			}
		})
	}
	n := 0
	for _, fn := range p.reachableFrom(roots) {
		if !scope[fn] {
			continue
		}
		n++
		forEachInstr(fn, func(_ *ssa.BasicBlock, _ int, in ssa.Instruction) {
			var ops [12]*ssa.Value
			for _, op := range in.Operands(ops[:0]) {
				if op == nil || *op == nil {
					continue
				}
				g, ok := (*op).(*ssa.Global)
				if !ok || g.Pkg == nil || !strings.HasPrefix(g.Pkg.Pkg.Path(), modPath) {
					continue
				}
				site := fmt.Sprintf("%s:%s", fnKey(fn), g.Name())
				if ld, isLd := in.(*ssa.UnOp); isLd && ld.Op == token.MUL && ld.X == ssa.Value(g) {
					r.Check(!written[g], rule, site, p.Pos(in.Pos()), "reads a package-level variable only initialisers write", "the package-level variable "+g.Name()+" is read here and also written at run time: the result depends on what was computed before — "+example)
					continue
				}
				r.Fail(rule, site, p.Pos(in.Pos()), "the package-level variable "+g.Name()+" is used other than by reading it (it is stored to, or its address is handed to a method such as sync.Map.Load/Store or sync.Pool.Get/Put): state shared by every call in the process — "+example)
			}
		})
	}
	r.Instances(rule, "functions checked for process-wide state", n, 1)
}

// elementwiseComparesLength: a comparator (or a helper it calls in its own package) that walks two
// slices side by side up to the shorter one's end — min(len(a), len(b)) — must also compare the two
// lengths: otherwise a list that is a proper prefix of the other compares equal and the order of the
// two records is whatever the walk produced.
func elementwiseComparesLength(p *Prog, r *Report, rule string, names ...string) {
	n := 0
	for _, name := range names {
		fn := p.Func(".", name)
		if fn == nil {
			continue
		}
		seen := map[*ssa.Function]bool{}
		var fns []*ssa.Function
		var add func(f *ssa.Function)
		add = func(f *ssa.Function) {
			if f == nil || seen[f] || fnPkg(f) != fnPkg(fn) {
				return
			}
			seen[f] = true
			fns = append(fns, f)
			for _, a := range f.AnonFuncs {
				add(a)
			}
			forEachInstr(f, func(_ *ssa.BasicBlock, _ int, in ssa.Instruction) {
				if c, ok := in.(*ssa.Call); ok {
					if cal := c.Call.StaticCallee(); cal != nil && isNewFunc(cal) {
						add(cal)
					}
				}
			})
		}
		add(fn)
		for _, f := range fns {
			lenOf := func(v ssa.Value) ssa.Value {
				c, ok := v.(*ssa.Call)
				if !ok || !isCallTo(c, "builtin", "", "len") {
					return nil
				}
				if _, isSl := c.Call.Args[0].Type().Underlying().(*types.Slice); !isSl {
					return nil
				}
				return c.Call.Args[0]
			}
			forEachInstr(f, func(_ *ssa.BasicBlock, _ int, in ssa.Instruction) {
				c, ok := in.(*ssa.Call)
				if !ok || !isCallTo(c, "builtin", "", "min") || len(c.Call.Args) != 2 {
					return
				}
				a, b := lenOf(c.Call.Args[0]), lenOf(c.Call.Args[1])
				if a == nil || b == nil || a == b {
					return
				}
				n++
				// a comparison of the two lengths anywhere in the function
				cmpd := false
				forEachInstr(f, func(_ *ssa.BasicBlock, _ int, in2 ssa.Instruction) {
					var x, y ssa.Value
					switch z := in2.(type) {
					case *ssa.BinOp:
						switch z.Op {
						case token.LSS, token.GTR, token.LEQ, token.GEQ, token.EQL, token.NEQ, token.SUB:
							x, y = z.X, z.Y
						}
					case *ssa.Call:
						if rf := refOf(z.Common()); rf.is("cmp", "", "Compare") && len(z.Call.Args) == 2 {
							x, y = z.Call.Args[0], z.Call.Args[1]
						}
					}
					if x == nil {
						return
					}
					lx, ly := lenOf(x), lenOf(y)
					if lx != nil && ly != nil && ((lx == a && ly == b) || (lx == b && ly == a)) {
						cmpd = true
					}
				})
				r.Check(cmpd, rule, name+":"+stripRecvKey(fnKey(f))+":lengths-compared", p.Pos(c.Pos()), "the side-by-side walk is completed by a comparison of the lengths", "two lists are compared element by element up to the end of the shorter one and the lengths are never compared: a list that is a proper prefix of the other ([x] and [x y]) compares equal, so two records that differ only there are left in arrival order — the order of the scan's output then depends on the order in which the file system listed the files")
			})
		}
	}
	r.Count("side-by-side slice walks in result comparators", n)
}

// loopLeftOnlyWithError: fn processes every element of a list (the loop that ranges over the field
// collField): a return from inside the loop carries an error that is known not to be nil there — it is
// the tested value on the `!= nil` edge, or freshly made. `return f(x)` hands back whatever f says:
// when that is nil the elements after x are silently never processed.
func loopLeftOnlyWithError(p *Prog, r *Report, rule string, fn *ssa.Function, collStruct, collField, why string) {
	if fn == nil {
		return
	}
	var hdr *ssa.BasicBlock
	for _, b := range fn.Blocks {
		if coll, _, ok := loopScansAll(b); ok && loadsField(coll, collStruct, collField) {
			hdr = b
		}
	}
	site := stripRecvKey(fnKey(fn))
	if hdr == nil {
		r.Undecided(rule, site+":every-element", p.Pos(fn.Pos()), "no loop over "+collField+" found")
		return
	}
	body := naturalLoop(hdr)
	var entry *ssa.BasicBlock
	for _, s := range hdr.Succs {
		if body[s] {
			entry = s
		}
	}
	n := 0
	for i, ret := range returnsOf(fn) {
		// a return "inside the loop": dominated by the loop body's entry (return blocks themselves
		// are exits, they never belong to the natural loop)
		if entry == nil || !entry.Dominates(ret.Block()) || len(ret.Results) == 0 {
			continue
		}
		n++
		v := retVal(ret, len(ret.Results)-1)
		ok := true
		if holds, _ := guardEdges(fn, condNonNil(func(x ssa.Value) bool { return x == v })); len(holds) > 0 && onlyVia(fn, ret.Block(), holds) {
			r.OK(rule, fmt.Sprintf("%s:return-in-loop#%d", site, i), p.Pos(ret.Pos()), "returned on the `!= nil` edge")
			continue
		}
		for _, l := range phiLeaves(v, ret.Block()) {
			if nn, known := nilStateOf(l.val, nil); known && nn {
				continue
			}
			at := ret.Block()
			if l.edge != nil {
				at = l.edge.From
			}
			holds, _ := guardEdges(fn, condNonNil(func(x ssa.Value) bool { return x == l.val }))
			if len(holds) == 0 || !onlyVia(fn, at, holds) {
				ok = false
			}
		}
		r.Check(ok, rule, fmt.Sprintf("%s:return-in-loop#%d", site, i), p.Pos(ret.Pos()), "leaves the loop only with an error that is not nil", why)
	}
	r.Count("returns inside the loop over "+collField, n)
}

// analysisFollowsManifest: in the two strategies' patchVulns, once the in-memory manifest was patched
// (Manifest.PatchRequirement), success is reported only after the manifest was resolved and matched
// again: a `return resolved, nil` that skips the re-resolution hands back the new requirements with
// the previous round's graph and vulnerabilities, and Fixed/Introduced are computed from those.
func analysisFollowsManifest(p *Prog, r *Report, rule string) {
	n := 0
	for _, rel := range []string{"guidedremediation/internal/strategy/override", "guidedremediation/internal/strategy/relax"} {
		fn := p.Func(rel, "patchVulns")
		if fn == nil {
			r.Undecided(rule, "anchor:"+rel+".patchVulns", "-", "not found")
			continue
		}
		site := rel[strings.LastIndex(rel, "/")+1:] + ".patchVulns"
		isResolve := func(in ssa.Instruction) bool {
			return isCallTo(in, fp("guidedremediation/internal/resolution"), "", "Resolve")
		}
		okAll := true
		var w []string
		forEachInstr(fn, func(_ *ssa.BasicBlock, _ int, in ssa.Instruction) {
			c, ok := in.(*ssa.Call)
			if !ok || !c.Call.IsInvoke() || c.Call.Method.Name() != "PatchRequirement" {
				return
			}
			n++
			pt := pointOf(in)
			// (path search that follows the constants boolean flags take: `didPatch = true` … `if !didPatch { break }`)
			if ww := findPathPS(pt, func(i2 ssa.Instruction) bool {
				ret, ok := i2.(*ssa.Return)
				return ok && len(ret.Results) == 2 && isNilConst(retVal(ret, 1)) && !isNilConst(retVal(ret, 0))
			}, isResolve, nil); ww != nil {
				okAll = false
				w = ww
			}
		})
		r.Check(okAll, rule, site+":re-resolved-before-success", p.Pos(fn.Pos()), "after a requirement was patched, success is returned only after re-resolution", "the strategy can return its result successfully after patching the in-memory manifest without resolving it again: the returned manifest carries the new requirements, the returned graph and vulnerability list are those of the previous round, so the reported Fixed/Introduced do not describe the patch that is written; witness path (SSA blocks): "+strings.Join(w, "→"))
	}
	r.Instances(rule, "PatchRequirement calls in the strategies", n, 2)
}

// protoNilReturns: the converters of binary/proto that take a pointer and return a proto message
// answer nil exactly when the audited tests say so (the input is nil): a widened guard (no diff ID, no
// name) silently drops a record that the result carries.
var protoNilReturns = map[string][]string{
	"layerDetailsToProto":         {"nil:*github.com/google/osv-scalibr/extractor.LayerDetails == param0"},
	"packageToProto":              {"nil:*github.com/google/osv-scalibr/extractor.Package == param0"},
	"purlToProto":                 {"nil:*github.com/google/osv-scalibr/purl.PackageURL == param0"},
	"sourceCodeIdentifierToProto": {"nil:*github.com/google/osv-scalibr/extractor.SourceCodeIdentifier == param0"},
}

func protoConvertersKeepRecords(p *Prog, r *Report, rule string) {
	defer func(d int, a bool) { renderDepth, renderAllocs = d, a }(renderDepth, renderAllocs)
	renderDepth, renderAllocs = 8, true
	n := 0
	for _, fn := range p.FuncsIn("binary/proto") {
		if fn.Parent() != nil || fn.Signature.Results().Len() != 1 {
			continue
		}
		if _, isPtr := fn.Signature.Results().At(0).Type().Underlying().(*types.Pointer); !isPtr {
			continue
		}
		hasNil := false
		for _, ret := range returnsOf(fn) {
			if isNilConst(retVal(ret, 0)) {
				hasNil = true
			}
		}
		key := stripRecvKey(fnKey(fn))
		want, audited := protoNilReturns[key]
		if !hasNil && !audited {
			continue
		}
		n++
		nonNil := func(in ssa.Instruction) bool {
			ret, ok := in.(*ssa.Return)
			return ok && len(ret.Results) == 1 && !isNilConst(retVal(ret, 0))
		}
		frozenCompare(p, r, rule, "binary/proto."+key+":nil-returns", fn, fnSkips(fn, nonNil), want, "PROTONIL:"+key,
			"a converter of the result proto drops a record (returns nil for it) under a condition other than the audited ones: the record is in the scan result but not in the proto that is written")
	}
	r.Instances(rule, "proto converters that can answer nil", n, 1)
}

// noCarriedRecordState: the loops of the converters build one output record per input record from
// that record alone: no string, pointer or interface variable declared outside the loop and assigned
// inside it survives into the next iteration (`purl` set only when the package has a URL and read
// unconditionally gives a URL-less package the URL of the previous one). Counters and the slices
// being appended to are what a loop legitimately carries.
func noCarriedRecordState(p *Prog, r *Report, rule string, relPkgs ...string) {
	nloops := 0
	for _, fn := range p.FuncsIn(relPkgs...) {
		for _, hdr := range fn.Blocks {
			if !isLoopHeader(hdr) {
				continue
			}
			if _, _, ok := loopScansAll(hdr); !ok {
				continue
			}
			nloops++
			body := naturalLoop(hdr)
			for _, in := range hdr.Instrs {
				ph, ok := in.(*ssa.Phi)
				if !ok {
					break
				}
				switch t := ph.Type().Underlying().(type) {
				case *types.Basic:
					if t.Info()&types.IsString == 0 {
						continue
					}
				case *types.Pointer, *types.Interface:
				default:
					continue
				}
				carried := false
				for i, e := range ph.Edges {
					if body[hdr.Preds[i]] && e != ssa.Value(ph) {
						carried = true
					}
				}
				if !carried {
					continue
				}
				r.Fail(rule, fmt.Sprintf("%s:carried:%s", fnKey(fn), typeShort(ph.Type())), p.Pos(hdr.Instrs[len(hdr.Instrs)-1].Pos()), fmt.Sprintf("a %s variable declared outside a per-record loop of a converter is assigned inside it and keeps its value into the next iteration: a record for which it is not assigned again (a package without a URL, say) is written with the previous record's value", typeShort(ph.Type())))
			}
		}
	}
	r.Instances(rule, "per-record loops in the converters", nloops, 2)
}

// readDirListsResolvedNode: FS.ReadDir lists the children of the node the resolver returned — the
// end of the chain — and of nothing else: the path handed to getFileNodeChildren is that node's
// virtualPath on every path (the first hop's target is another link when the chain is longer).
func readDirListsResolvedNode(p *Prog, r *Report, rule string) {
	fn := p.Func(imgPkg, "FS.ReadDir")
	if fn == nil {
		r.Undecided(rule, "anchor:FS.ReadDir", "-", "not found")
		return
	}
	var rc, gc *ssa.Call
	forEachInstr(fn, func(_ *ssa.BasicBlock, _ int, in ssa.Instruction) {
		if c, ok := in.(*ssa.Call); ok && c.Call.StaticCallee() != nil {
			switch c.Call.StaticCallee().Name() {
			case "resolveSymlink":
				rc = c
			case "getFileNodeChildren":
				gc = c
			}
		}
	})
	if rc == nil || gc == nil {
		r.Undecided(rule, "FS.ReadDir:shape", p.Pos(fn.Pos()), "ReadDir no longer resolves the node and lists its children through resolveSymlink / getFileNodeChildren")
		return
	}
	arg := gc.Call.Args[len(gc.Call.Args)-1]
	ok := true
	for _, l := range phiLeaves(arg, gc.Block()) {
		_, f, base, isF := fieldOf(loadAddr(l.val))
		if !isF || f != "virtualPath" {
			ok = false
			continue
		}
		var isResolved func(v ssa.Value, d int) bool
		isResolved = func(v ssa.Value, d int) bool {
			if d > 6 {
				return false
			}
			switch x := v.(type) {
			case *ssa.Extract:
				return x.Tuple == ssa.Value(rc) && x.Index == 0
			case *ssa.UnOp:
				if x.Op == token.MUL {
					if al, isAl := x.X.(*ssa.Alloc); isAl {
						ss := storesTo(al)
						if len(ss) == 0 {
							return false
						}
						for _, sv := range ss {
							if !isNilConst(sv) && !isResolved(sv, d+1) {
								return false
							}
						}
						return true
					}
				}
				return false
			case *ssa.Phi:
				for _, e := range x.Edges {
					if !isNilConst(e) && !isResolved(e, d+1) {
						return false
					}
				}
				return true
			}
			return false
		}
		if !isResolved(base, 0) {
			ok = false
		}
	}
	r.Check(ok, rule, "FS.ReadDir:lists-resolved-node", p.Pos(gc.Pos()), "children of resolveSymlink(node).virtualPath", "ReadDir lists the children of a path other than the virtual path of the node the resolver returned (the first hop's target, the looked-up name): through a chain of two or more links it lists the wrong directory — usually nothing — while Stat and Open answer for the right one")
}

// requirementsPairedByKey: where old and new requirements are paired, identity is the ecosystem's
// RequirementKey (package *and* what tells two requirements on one package apart: the npm alias, the
// Maven classifier/type), never the bare package: (1) a map from an identity to a RequirementVersion
// in the patch construction is keyed by manifest.RequirementKey; (2) the npm manifest's
// PatchRequirement compares MakeRequirementKey of both sides and no two bare PackageKeys.
func requirementsPairedByKey(p *Prog, r *Report, rule string) {
	n := 0
	if fn := p.Func("guidedremediation/internal/remediation", "ConstructPatches"); fn != nil {
		forEachInstr(fn, func(_ *ssa.BasicBlock, _ int, in ssa.Instruction) {
			mk, ok := in.(*ssa.MakeMap)
			if !ok {
				return
			}
			mt, ok := mk.Type().Underlying().(*types.Map)
			if !ok {
				return
			}
			if vn := namedOf(mt.Elem()); vn == nil || vn.Obj().Name() != "RequirementVersion" {
				return
			}
			n++
			kn := namedOf(mt.Key())
			if kn == nil {
				if _, isIface := mt.Key().Underlying().(*types.Interface); isIface {
					kn, _ = types.Unalias(mt.Key()).(*types.Named)
				}
			}
			okK := kn != nil && kn.Obj().Name() == "RequirementKey"
			r.Check(okK, rule, "remediation.ConstructPatches:old-requirements-by-key", p.Pos(mk.Pos()), "old requirements are looked up by RequirementKey", "the requirements of the original manifest are indexed by something coarser than the RequirementKey (the bare package): when one package is required twice — an npm alias next to the plain dependency, a Maven artifact with two classifiers — an update is reported (and written) against the sibling requirement, which can be a downgrade of an entry nobody asked to change")
		})
	} else if p.Pkg("guidedremediation/internal/remediation") != nil {
		r.Undecided(rule, "anchor:remediation.ConstructPatches", "-", "not found")
	}
	if fn := p.Func("guidedremediation/internal/manifest/npm", "npmManifest.PatchRequirement"); fn != nil {
		n++
		bare, byKey := false, false
		forEachInstr(fn, func(_ *ssa.BasicBlock, _ int, in ssa.Instruction) {
			bo, ok := in.(*ssa.BinOp)
			if !ok || (bo.Op != token.EQL && bo.Op != token.NEQ) {
				return
			}
			if tn := namedOf(bo.X.Type()); tn != nil && tn.Obj().Name() == "PackageKey" {
				bare = true
			}
			fromKey := func(v ssa.Value) bool {
				return derivesFrom(v, func(x ssa.Value) bool {
					c, ok := x.(*ssa.Call)
					return ok && c.Call.StaticCallee() != nil && c.Call.StaticCallee().Name() == "MakeRequirementKey"
				}, deriveOpts{})
			}
			if fromKey(bo.X) && fromKey(bo.Y) {
				byKey = true
			}
		})
		r.Check(byKey && !bare, rule, "npm.npmManifest.PatchRequirement:matched-by-key", p.Pos(fn.Pos()), "the requirement to patch is found by MakeRequirementKey", "the npm manifest finds the requirement to patch by package only (not by MakeRequirementKey, which includes the alias): with the same package required under an alias and directly, patching one overwrites the other in the in-memory manifest, the analysis runs on a manifest that differs from the one that is written")
	} else if p.Pkg("guidedremediation/internal/manifest/npm") != nil {
		r.Undecided(rule, "anchor:npmManifest.PatchRequirement", "-", "not found")
	}
	r.Instances(rule, "places where requirements are paired", n, 1)
}

// resolvedSetKeyedByPluginName: the functions that resolve a list of names to a de-duplicated set of
// plugins file each plugin under *its own* Name(): a plugin filed under the requested name (a group
// with one member is not that member's name) is added again when its own name, or another group that
// contains it, is requested too.
func resolvedSetKeyedByPluginName(p *Prog, r *Report, rule string) {
	n := 0
	for _, x := range []struct{ rel, fn string }{
		{"extractor/filesystem/list", "ExtractorsFromNames"}, {"extractor/standalone/list", "ExtractorsFromNames"}, {"detector/list", "DetectorsFromNames"},
	} {
		fn := p.Func(x.rel, x.fn)
		if fn == nil {
			continue
		}
		forEachInstr(fn, func(_ *ssa.BasicBlock, _ int, in ssa.Instruction) {
			mu, ok := in.(*ssa.MapUpdate)
			if !ok {
				return
			}
			mt, ok := mu.Map.Type().Underlying().(*types.Map)
			if !ok || !isString(mt.Key()) {
				return
			}
			if _, isIface := mt.Elem().Underlying().(*types.Interface); !isIface {
				return
			}
			n++
			c, _ := callValue(mu.Key)
			okK := c != nil && c.Call.IsInvoke() && c.Call.Method.Name() == "Name" && stripIface(c.Call.Value) == stripIface(mu.Value)
			r.Check(okK, rule, fmt.Sprintf("%s.%s:set-keyed-by-own-name", x.rel, x.fn), p.Pos(mu.Pos()), "result[d.Name()] = d", "a resolved plugin is filed under a key other than its own Name() (the requested name): a group with a single member and that member's own name then yield the same plugin twice, so the resolved set has two plugins with one name")
		})
	}
	r.Instances(rule, "insertions into the resolved-plugin sets", n, 3)
}

// locationCountCases: the SPDX export says where a package was found for every package that has
// locations: the tests it makes on the number of locations are the audited ones (exactly one / more
// than one). A boundary moved by one (`> 2`) leaves the packages with two locations without any.
var spdxLocationTests = []string{
	"1:int == len(Locations)",
	"1:int < len(Locations)",
	"len(Locations) == 0", "len(Locations) != 0", // an explicit "none" case adds nothing
	// other spellings of the same two boundaries (0|1 and 1|2)
	"2:int <= len(Locations)", "len(Locations) < 2:int", "len(Locations) <= 1:int", "1:int <= len(Locations)", "len(Locations) < 1:int", "0:int < len(Locations)", "len(Locations) <= 0:int",
}

func locationCountCases(p *Prog, r *Report, rule string) {
	fn := p.Func("converter", "ToSPDX23")
	if fn == nil {
		r.Undecided(rule, "anchor:converter.ToSPDX23", "-", "not found")
		return
	}
	defer func(d int, a bool) { renderDepth, renderAllocs = d, a }(renderDepth, renderAllocs)
	renderDepth, renderAllocs = 6, true
	got := map[string]bool{}
	for _, f := range withAnon(fn) {
		for _, b := range f.Blocks {
			ifi := blockIf(b)
			if ifi == nil {
				continue
			}
			inner, _ := stripNot(ifi.Cond)
			bo, ok := inner.(*ssa.BinOp)
			if !ok {
				continue
			}
			isLenLoc := func(v ssa.Value) bool {
				c, ok := v.(*ssa.Call)
				return ok && isCallTo(c, "builtin", "", "len") && loadsField(c.Call.Args[0], "Package", "Locations")
			}
			if !isLenLoc(bo.X) && !isLenLoc(bo.Y) {
				continue
			}
			// only the boundary matters, not how the package is reached
			g := renderCondV(inner, true)
			if i := strings.Index(g, "builtin.len("); i >= 0 {
				depth, j := 0, i+len("builtin.len")
				for ; j < len(g); j++ {
					if g[j] == '(' {
						depth++
					} else if g[j] == ')' {
						depth--
						if depth == 0 {
							break
						}
					}
				}
				if j < len(g) {
					g = g[:i] + "len(Locations)" + g[j+1:]
				}
			}
			got[g] = true
		}
	}
	if os.Getenv("SCALINT_LEARN") != "" {
		for g := range got {
			fmt.Fprintf(os.Stderr, "LEARN-SPDXLOC\t%q,\n", g)
		}
		return
	}
	want := map[string]bool{}
	for _, w := range spdxLocationTests {
		want[w] = true
	}
	okAll := len(got) > 0
	var diff []string
	for g := range got {
		if !want[g] {
			okAll = false
			diff = append(diff, g)
		}
	}
	sort.Strings(diff)
	r.Check(okAll, rule, "converter.ToSPDX23:location-count-cases", p.Pos(fn.Pos()), "one location / more than one location", "ToSPDX23 distinguishes the packages by their number of locations at other boundaries than the audited ones ("+strings.Join(diff, "; ")+"): for some count ≥ 1 the source information names no location at all")
}

// scratchSlicesAreEmptied: a slice that a loop carries from one iteration to the next but that is
// never used after the loop is a scratch buffer, not a result. Whatever an iteration reads from it
// (ranges over, indexes, takes the length of, passes on) must have been emptied in that iteration
// (`buf = buf[:0]`, a fresh value): on a path where it was not, the iteration works on the previous
// element's data — a go.mod `replace` directive that has no effect re-applies the previous directive's
// targets.
func scratchSlicesAreEmptied(p *Prog, r *Report, rule string, fns []*ssa.Function) {
	n := 0
	for _, fn := range fns {
		for _, hdr := range fn.Blocks {
			if !isLoopHeader(hdr) {
				continue
			}
			body := naturalLoop(hdr)
			for _, in := range hdr.Instrs {
				ph, ok := in.(*ssa.Phi)
				if !ok {
					break
				}
				if _, isSl := ph.Type().Underlying().(*types.Slice); !isSl {
					continue
				}
				carried := false
				for i, e := range ph.Edges {
					if body[hdr.Preds[i]] && e != ssa.Value(ph) {
						carried = true
					}
				}
				if !carried {
					continue
				}
				// a work list that drives the loop (`for len(queue) > 0`) is not scratch
				if ifi := blockIf(hdr); ifi != nil && derivesFrom(ifi.Cond, func(v ssa.Value) bool { return v == ssa.Value(ph) }, deriveOpts{throughCall: func(c *ssa.CallCommon) bool { return refOf(c).is("builtin", "", "len") }}) {
					continue
				}
				// values that still hold the carried contents
				dirtyMemo := map[ssa.Value]int{}
				var dirty func(v ssa.Value, d int) bool
				dirty = func(v ssa.Value, d int) bool {
					if v == ssa.Value(ph) {
						return true
					}
					if st, ok := dirtyMemo[v]; ok {
						return st == 1
					}
					if d > 8 {
						return false
					}
					dirtyMemo[v] = 0
					res := false
					switch x := v.(type) {
					case *ssa.Phi:
						for _, e := range x.Edges {
							if dirty(e, d+1) {
								res = true
							}
						}
					case *ssa.Slice:
						if k, isK := constInt(x.High); x.High != nil && isK && k == 0 {
							res = false
						} else {
							res = dirty(x.X, d+1)
						}
					case *ssa.Call:
						if isCallTo(x, "builtin", "", "append") && len(x.Call.Args) > 0 {
							res = dirty(x.Call.Args[0], d+1)
						}
					}
					if res {
						dirtyMemo[v] = 1
					}
					return res
				}
				// live after the loop? then it is an accumulator
				usedAfter := false
				var reads []ssa.Instruction
				seen := map[ssa.Value]bool{}
				var walk func(v ssa.Value, d int)
				walk = func(v ssa.Value, d int) {
					if seen[v] || d > 8 {
						return
					}
					seen[v] = true
					refs := v.Referrers()
					if refs == nil {
						return
					}
					for _, ref := range *refs {
						if _, isDbg := ref.(*ssa.DebugRef); isDbg {
							continue
						}
						if !body[ref.Block()] {
							usedAfter = true
							continue
						}
						switch x := ref.(type) {
						case *ssa.Phi:
							walk(x, d+1)
						case *ssa.Slice:
							if k, isK := constInt(x.High); x.High != nil && isK && k == 0 {
								continue
							}
							walk(x, d+1)
						case *ssa.Call:
							if isCallTo(x, "builtin", "", "append") && len(x.Call.Args) > 0 && x.Call.Args[0] == v {
								walk(x, d+1)
								continue
							}
							reads = append(reads, ref)
						case *ssa.IndexAddr, *ssa.Index, *ssa.Range, *ssa.Store, *ssa.Return, *ssa.MapUpdate:
							reads = append(reads, ref)
						}
					}
				}
				walk(ph, 0)
				if usedAfter {
					continue
				}
				n++
				bad := ""
				for _, rd := range reads {
					var ops [8]*ssa.Value
					for _, op := range rd.Operands(ops[:0]) {
						if op != nil && *op != nil && dirty(*op, 0) {
							bad = p.Pos(rd.Pos())
						}
					}
				}
				r.Check(bad == "", rule, fmt.Sprintf("%s:scratch:%s", fnKey(fn), typeShort(ph.Type())), p.Pos(hdr.Instrs[len(hdr.Instrs)-1].Pos()), "a scratch slice is emptied before an iteration reads it", "a slice that is declared outside the loop, reused by every iteration and not used after the loop is read (at "+bad+") on a path on which this iteration has not emptied it: the iteration then works with what the previous element left there")
			}
		}
	}
	r.Count("loop-carried scratch slices", n)
}
