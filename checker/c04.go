package main

import (
	"fmt"
	"go/token"

	"golang.org/x/tools/go/ssa"
)

func init() {
	register(&PropDef{
		ID:       "C04",
		Patterns: []string{"./artifact/image/layerscanning/image", "./artifact/image/pathtree", "./artifact/image/whiteout", "./artifact/image/require", "./artifact/image/unpack", "./artifact/image/symlink"},
		Explain: "Decided: D1 newest wins — a node is inserted into a chain layer's tree only when that tree has no node at the path yet, and FromV1Image walks the layers from the last to the first filling chainLayers[i:]; " +
			"D2 hidden under a deleted or replaced ancestor — insertion happens only when the ancestor scan said 'not hidden'; the scan answers 'hidden' for a whited-out ancestor and for an ancestor that is not a directory (IsDir, so symlinks count), keeps climbing over missing ancestors and answers 'not hidden' only after reaching the root; " +
			"D3 whiteouts invisible — ReadDir lists a child only if it is not a whiteout, Stat/Read/ReadAt/Seek of a whiteout node fail with ErrNotExist before touching the file; " +
			"D4 the file-requirer restriction only removes nodes (no insertion) and only nodes the requirer rejects; D5 only sanctioned omissions — every tar entry read reaches the insertion into the views unless it is an escaping name, a '.'/'..' base name, already present in the newest view being filled, of an unsupported type, or its handler failed; in particular whiteouts are never filtered by the requirer; " +
			"D6 views are built from immutable shared nodes (rule shared with C17-D4). " +
			"Added in round 2: D7 chain-layer view trees are inserted into only by the guarded fill routine (and the root insert); D8 every tar entry passes populateEmptyDirectoryNodes before it is added to the views. Added in round 3: an entry's handler runs only when the newest view has no node at its path; the requirer restriction prunes chainLayers[len-1]. Added in round 7: D12 a layer's regular file is copied from the tar reader or a reader wrapped around it for that entry (no capped reader shared by the entries of a layer). NOT decided: overlay semantics as a whole (opaque whiteouts, which the code does not implement; order of entries within a layer; content/size/mode equality; equivalence with the squashed unpacking).",
		Run: runC04,
		Controls: []Mutant{
			{Name: "overwrite-existing", File: "artifact/image/layerscanning/image/image.go", Old: "		if node := chainLayer.fileNodeTree.Get(virtualPath); node != nil {\n			// A newer version of the file already exists on a later chainLayer.\n			// Since we do not want to overwrite a later layer with information\n			// written in an earlier layer, skip this file.\n			continue\n		}\n", New: "", Rule: "D1-newest-wins", Site: "fillChainLayersWithFileNode"},
			{Name: "whiteout-dir-check-dropped", File: "artifact/image/layerscanning/image/image.go", Old: "		if inWhiteoutDir(chainLayer, virtualPath) {\n			// The entire directory has been deleted, so no need to save this file.\n			continue\n		}\n", New: "", Rule: "D2-hidden", Site: "fillChainLayersWithFileNode"},
			{Name: "ancestor-scan-gives-up", File: "artifact/image/layerscanning/image/image.go", Old: "		if node != nil && (node.isWhiteout || !node.IsDir()) {\n			return true\n		}\n", New: "		if node == nil {\n			return false\n		}\n		if node.isWhiteout || !node.IsDir() {\n			return true\n		}\n", Rule: "D2-hidden", Site: "inWhiteoutDir"},
			{Name: "ancestor-isregular", File: "artifact/image/layerscanning/image/image.go", Old: "(node.isWhiteout || !node.IsDir())", New: "(node.isWhiteout || node.Mode().IsRegular())", Rule: "D2-hidden", Site: "inWhiteoutDir"},
			{Name: "readdir-lists-whiteouts", File: "artifact/image/layerscanning/image/layer.go", Old: "		if child.isWhiteout {\n			continue\n		}\n", New: "", Rule: "D3-whiteouts-invisible", Site: "ReadDir"},
			{Name: "layers-oldest-first", File: "artifact/image/layerscanning/image/image.go", Old: "	for i := len(chainLayers) - 1; i >= 0; i-- {\n		chainLayer := chainLayers[i]\n\n		// If the layer is empty", New: "	for i := 0; i < len(chainLayers); i++ {\n		chainLayer := chainLayers[i]\n\n		// If the layer is empty", Rule: "D1-newest-wins", Site: "FromV1Image"},
			{Name: "whiteouts-filtered-by-requirer", File: "artifact/image/layerscanning/image/image.go", Old: "		// realFilePath is where the file will be written to disk.", New: "		if isWhiteout && !img.config.Requirer.FileRequired(virtualPath, header.FileInfo()) {\n			continue\n		}\n		// realFilePath is where the file will be written to disk.", Rule: "D5-omissions", Site: "fillChainLayersWithFilesFromTar"},
			{Name: "parents-not-populated-for-directories", File: "artifact/image/layerscanning/image/image.go", Old: "		populateEmptyDirectoryNodes(virtualPath, layerDir, dirPath, chainLayersToFill)\n", New: "		if header.Typeflag != tar.TypeDir {\n			populateEmptyDirectoryNodes(virtualPath, layerDir, dirPath, chainLayersToFill)\n		}\n", Rule: "D8-parents-populated", Site: "fillChainLayersWithFilesFromTar"},
			{Name: "implicit-dirs-inserted-unguarded", File: "artifact/image/layerscanning/image/image.go", Old: "		fillChainLayersWithFileNode(chainLayersToFill, node)\n", New: "		for _, chainLayer := range chainLayersToFill {\n			if chainLayer.fileNodeTree.Get(runningDir) == nil {\n				_ = chainLayer.fileNodeTree.Insert(runningDir, node)\n			}\n		}\n", Rule: "D7-who-may-insert", Site: "populateEmptyDirectoryNodes"},
			{Name: "repeated-path-rematerialised", File: "artifact/image/layerscanning/image/image.go", Old: "		if currentChainLayer.fileNodeTree.Get(virtualPath) != nil {\n			continue\n		}\n", New: "		if header.Typeflag == tar.TypeDir && currentChainLayer.fileNodeTree.Get(virtualPath) != nil {\n			continue\n		}\n", Rule: "D1-newest-wins", Site: "only-if-absent"},
			{Name: "prune-last-layer-with-content", File: "artifact/image/layerscanning/image/image.go", Old: "	finalChainLayer := chainLayers[len(chainLayers)-1]\n	filesRequired := map[string]bool{}", New: "	finalIndex := len(chainLayers) - 1\n	for finalIndex > 0 && chainLayers[finalIndex].latestLayer.IsEmpty() {\n		finalIndex--\n	}\n	finalChainLayer := chainLayers[finalIndex]\n	filesRequired := map[string]bool{}", Rule: "D4-requirer-only-removes", Site: "prunes-the-last-chain-layer"},
		},
		Neutral: c04Neutral,
	})
}

func runC04(p *Prog, r *Report) {
	r.Rule("D1-newest-wins", "insert only where the view has no node yet; layers processed newest first")
	r.Rule("D2-hidden", "nothing is inserted beneath a deleted or non-directory ancestor, at any depth")
	r.Rule("D3-whiteouts-invisible", "whiteout nodes are never listed and never readable")
	r.Rule("D4-requirer-only-removes", "the requirer restriction only removes rejected nodes")
	r.Rule("D5-omissions", "tar entries are dropped only for the sanctioned reasons")
	r.Rule("D6-nodes-immutable", "shared file nodes are never modified after construction")
	r.Rule("D7-who-may-insert", "view trees are written only by the guarded fill routine (and the root node)")
	r.Rule("D8-parents-populated", "every entry that reaches the views first gets its implicit parent directories")
	c04Fill(p, r)
	c04Ancestor(p, r)
	c04Whiteouts(p, r)
	c04Requirer(p, r)
	c04Omissions(p, r)
	c17Immutable(p, r, "D6-nodes-immutable")
	c04WhoInserts(p, r)
	c04Materialise(p, r)
	c04EmptyIsHistory(p, r, "D1-newest-wins")
	r.Rule("D9-mode-preserved", "a node's mode is the tar entry's full mode")
	c04FullMode(p, r, "D9-mode-preserved")
	r.Rule("D10-lookup-normalisation", "paths are normalised by prefix, never by a character set (a lookup finds the entry a listing shows)")
	cutsetDiscipline(p, r, "D10-lookup-normalisation", imgPkg, "artifact/image/symlink", "artifact/image/unpack", "artifact/image/pathtree", "artifact/image/whiteout")
	r.Rule("D11-unpacked-content", "the squashed unpack writes, for every regular entry, the bytes read for that entry")
	freshContentPerEntry(p, r, "D11-unpacked-content")
	r.Rule("D12-layer-content", "a layer's regular file is copied from a reader made for that tar entry")
	c04LayerContent(p, r, "D12-layer-content")
}

// c04Materialise: (a) an entry's handler (handleFile/handleDir/handleSymlink — the code that
// writes the entry's bytes under the layer directory) runs only when the newest view being filled
// has no node at the path yet: a second entry for a path must not overwrite the file a node of the
// view already points to; (b) the requirer restriction prunes the last chain layer — the view that
// is scanned — not an earlier one.
func c04Materialise(p *Prog, r *Report) {
	tl := p.Func(imgPkg, "fillChainLayersWithFilesFromTar")
	if tl == nil {
		r.Undecided("D1-newest-wins", "anchor:fillChainLayersWithFilesFromTar", "-", "not found")
		return
	}
	fa := newFA(p, r, tl)
	// guard: <current chain layer>.fileNodeTree.Get(virtualPath) == nil
	absent := func(c ssa.Value) (bool, bool) {
		op, x, y, ok := cmpNorm(c)
		if !ok || (op != token.EQL && op != token.NEQ) {
			return false, false
		}
		isGet := func(v ssa.Value) bool {
			call, _ := callValue(v)
			if call == nil || !treeCall("Get")(call) {
				return false
			}
			_, f, _, ok := fieldOf(loadAddr(call.Call.Args[0]))
			return ok && f == "fileNodeTree"
		}
		if (isGet(x) && isNilConst(y)) || (isGet(y) && isNilConst(x)) {
			return true, op == token.EQL
		}
		return false, false
	}
	holds, _ := guardEdges(tl, absent)
	n := 0
	forEachInstr(tl, func(b *ssa.BasicBlock, _ int, in ssa.Instruction) {
		c := callOf(in)
		if c == nil || c.StaticCallee() == nil {
			return
		}
		switch c.StaticCallee().Name() {
		case "handleFile", "handleDir", "handleSymlink":
		default:
			return
		}
		n++
		hdr := loopHeaderOf(b)
		ok := len(holds) > 0 && hdr != nil && !reachable(hdr, edgesOf(holds), nil)[b]
		r.Check(ok, "D1-newest-wins", fa.key+":"+c.StaticCallee().Name()+"-only-if-absent", p.Pos(in.Pos()), "the entry is materialised only when the view has no node at its path", "a tar entry's content is written under the layer directory although the view being filled already has a node for that path (a path repeated within one layer, or seen on a second pass): the file the existing node points to is overwritten in place while the node keeps the first entry's size and mode")
	})
	r.Instances("D1-newest-wins", "entry handlers called from the tar loop", n, 3)

	rm := p.Func(imgPkg, "removeUnnecessaryFileNodes")
	if rm == nil {
		return
	}
	// every fileNodeTree used (Walk / Remove / Get) belongs to chainLayers[len(chainLayers)-1]
	okAll, m := true, 0
	for _, f := range withAnon(rm) {
		forEachInstr(f, func(_ *ssa.BasicBlock, _ int, in ssa.Instruction) {
			c, ok := in.(*ssa.Call)
			if !ok || !(treeCall("Walk")(c) || treeCall("Remove")(c)) {
				return
			}
			m++
			// the tree may be held in a local or captured by the Walk callback: resolve to its definition
			resolve := func(v ssa.Value, f *ssa.Function) ssa.Value {
				src := v
				for d := 0; d < 8; d++ {
					switch x := src.(type) {
					case *ssa.UnOp:
						if x.Op == token.MUL {
							switch y := x.X.(type) {
							case *ssa.Alloc:
								ss := storesTo(y)
								if len(ss) == 1 {
									src = ss[0]
									continue
								}
							case *ssa.FreeVar:
								bound := ssa.Value(nil)
								if f == nil {
									return src
								}
								if par := f.Parent(); par != nil {
									forEachInstr(par, func(_ *ssa.BasicBlock, _ int, in2 ssa.Instruction) {
										if mc, ok := in2.(*ssa.MakeClosure); ok && mc.Fn == ssa.Value(f) {
											for i, fv := range f.FreeVars {
												if fv == y {
													bound = mc.Bindings[i]
												}
											}
										}
									})
									if al, ok := bound.(*ssa.Alloc); ok {
										ss := storesTo(al)
										if len(ss) == 1 {
											src = ss[0]
											f = par
											continue
										}
									}
								}
							}
						}
					}
					break
				}
				return src
			}
			tree := resolve(c.Call.Args[0], f)
			_, fld, base, ok := fieldOf(loadAddr(tree))
			if !ok || fld != "fileNodeTree" {
				okAll = false
				return
			}
			src := resolve(base, f)
			if u, ok := src.(*ssa.UnOp); ok && u.Op == token.MUL {
				if _, isIA := u.X.(*ssa.IndexAddr); !isIA {
					src = resolve(src, f.Parent())
				}
			}
			ia, isIA := src.(*ssa.IndexAddr)
			if !isIA {
				if u, ok := src.(*ssa.UnOp); ok {
					ia, isIA = u.X.(*ssa.IndexAddr)
				}
			}
			good := false
			if isIA && ia.X == ssa.Value(rm.Params[0]) {
				if bo, ok := ia.Index.(*ssa.BinOp); ok && bo.Op == token.SUB {
					if k, isK := constInt(bo.Y); isK && k == 1 {
						if lc, ok := bo.X.(*ssa.Call); ok {
							if bi, ok := lc.Call.Value.(*ssa.Builtin); ok && bi.Name() == "len" && lc.Call.Args[0] == ssa.Value(rm.Params[0]) {
								good = true
							}
						}
					}
				}
			}
			if !good {
				okAll = false
			}
		})
	}
	r.Check(okAll && m > 0, "D4-requirer-only-removes", fnKey(rm)+":prunes-the-last-chain-layer", p.Pos(rm.Pos()), "walks and prunes chainLayers[len(chainLayers)-1]", "the requirer restriction prunes a chain layer other than the last one (e.g. the last layer 'with content'): the view that is actually scanned keeps nodes whose files were deleted from disk, or is not restricted at all")
}

// c04WhoInserts: D7 — in package image, a chain layer's tree (field fileNodeTree of chainLayer) is
// inserted into only by fillChainLayersWithFileNode (whose insertion D1/D2 guard) and by the
// constant root insert "/"; D8 — in the tar loop every path to the fill call passes
// populateEmptyDirectoryNodes (for every entry type), and that helper itself fills through the
// guarded routine.
func c04WhoInserts(p *Prog, r *Report) {
	n := 0
	for _, fn := range p.FuncsIn(imgPkg) {
		forEachInstr(fn, func(_ *ssa.BasicBlock, _ int, in ssa.Instruction) {
			c, ok := in.(*ssa.Call)
			if !ok || !treeCall("Insert")(c) {
				return
			}
			// receiver: <x>.fileNodeTree of which struct?
			s, f, _, ok := fieldOf(loadAddr(c.Call.Args[0]))
			if !ok || f != "fileNodeTree" || s != "chainLayer" {
				return
			}
			n++
			site := fnKey(fn) + ":Insert"
			switch {
			case fn.Name() == "fillChainLayersWithFileNode":
				r.OK("D7-who-may-insert", site, p.Pos(c.Pos()), "the guarded fill routine")
			default:
				if k, isC := constString(c.Call.Args[1]); isC && k == "/" {
					r.OK("D7-who-may-insert", site, p.Pos(c.Pos()), "root node")
					return
				}
				r.Fail("D7-who-may-insert", site, p.Pos(c.Pos()), "a chain layer's view is written outside fillChainLayersWithFileNode: this insertion is not subject to the newest-wins and hidden-under-deleted-ancestor checks, so nodes (e.g. implicit parent directories) reappear beneath a whited-out or replaced directory")
			}
		})
	}
	r.Instances("D7-who-may-insert", "insertions into chain-layer views", n, 2)
	tl := p.Func(imgPkg, "fillChainLayersWithFilesFromTar")
	if tl == nil {
		r.Undecided("D8-parents-populated", "anchor:fillChainLayersWithFilesFromTar", "-", "not found")
		return
	}
	fa := newFA(p, r, tl)
	var fill ssa.Instruction
	forEachInstr(tl, func(_ *ssa.BasicBlock, _ int, in ssa.Instruction) {
		if isCallTo(in, fp(imgPkg), "", "fillChainLayersWithFileNode") {
			fill = in
		}
	})
	if fill == nil {
		r.Fail("D8-parents-populated", fa.key+":fill", p.Pos(tl.Pos()), "the tar loop does not fill the views through fillChainLayersWithFileNode")
		return
	}
	hdr := loopHeaderOf(fill.Block())
	if hdr == nil {
		r.Fail("D8-parents-populated", fa.key+":loop", p.Pos(fill.Pos()), "the fill call is not inside the per-entry loop")
		return
	}
	isPop := func(in ssa.Instruction) bool { return isCallTo(in, fp(imgPkg), "", "populateEmptyDirectoryNodes") }
	fa.noPath("D8-parents-populated", "populate-before-fill", Point{hdr, -1}, instrIs(fill), isPop, nil, "every entry passes populateEmptyDirectoryNodes before it is added to the views", "a tar entry (e.g. a bare directory entry) can be added to the views without its implicit parent directories having been created in the view: the entry is reachable by direct path but its parents do not exist, so listings and walks never reach it")
	pe := p.Func(imgPkg, "populateEmptyDirectoryNodes")
	if pe != nil {
		okF := len(callsTo(pe, fp(imgPkg), "", "fillChainLayersWithFileNode")) > 0
		r.Check(okF, "D8-parents-populated", fnKey(pe)+":fills-through-guarded-routine", p.Pos(pe.Pos()), "implicit directories are added through fillChainLayersWithFileNode", "implicit parent directories are not added through the guarded fill routine")
	}
}

func treeCall(name string) func(c *ssa.Call) bool {
	return func(c *ssa.Call) bool {
		f := c.Call.StaticCallee()
		if f == nil {
			return false
		}
		rf := refOfSSAFunc(f)
		return rf.Pkg == fp("artifact/image/pathtree") && rf.Name == name
	}
}

func c04Fill(p *Prog, r *Report) {
	fn := p.Func(imgPkg, "fillChainLayersWithFileNode")
	if fn == nil {
		r.Undecided("D1-newest-wins", "anchor:fillChainLayersWithFileNode", "-", "not found")
		return
	}
	fa := newFA(p, r, fn)
	var ins *ssa.Call
	forEachInstr(fn, func(_ *ssa.BasicBlock, _ int, in ssa.Instruction) {
		if c, ok := in.(*ssa.Call); ok && treeCall("Insert")(c) {
			ins = c
		}
	})
	if ins == nil {
		r.Fail("D1-newest-wins", fa.key+":insert", p.Pos(fn.Pos()), "nodes are never inserted into the chain layers")
		return
	}
	tree := ins.Call.Args[0]
	path := ins.Call.Args[1]
	// Get(path) on the same tree == nil
	absent := condNonNil(func(v ssa.Value) bool {
		c, _ := callValue(v)
		return c != nil && treeCall("Get")(c) && sameLoad(c.Call.Args[0], tree) && c.Call.Args[1] == path
	})
	g, n := fa.guarded(ins, false, absent)
	r.Check(n > 0 && g, "D1-newest-wins", fa.key+":insert-only-if-absent", p.Pos(ins.Pos()), "Insert only when Get(path) on the same tree is nil", "a node from an older layer can overwrite the node a newer layer put at the same path (or the absence test is on a different tree/path)")
	// tree is the chain layer's tree, path the node's virtualPath, value the new node
	r.Check(loadsField(tree, "chainLayer", "fileNodeTree") && loadsField(path, "fileNode", "virtualPath") && ins.Call.Args[2] == ssa.Value(fn.Params[1]),
		"D1-newest-wins", fa.key+":insert-args", p.Pos(ins.Pos()), "chainLayer.fileNodeTree.Insert(newNode.virtualPath, newNode)", "the node is inserted under a different path, into a different tree, or a different node is inserted")
	// all chain layers of the slice are visited
	r.Check(inLoop(ins.Block()) && derivesFrom(tree, func(v ssa.Value) bool { return v == ssa.Value(fn.Params[0]) }, deriveOpts{}), "D1-newest-wins", fa.key+":all-views", p.Pos(ins.Pos()), "every chain layer to fill is visited", "not every chain layer of the slice is offered the node")
	// D2: insert only when inWhiteoutDir(chainLayer, path) == false
	hid := condCall(func(c *ssa.Call) bool {
		f := c.Call.StaticCallee()
		return f != nil && f.Name() == "inWhiteoutDir" && c.Call.Args[1] == path
	})
	g2, n2 := fa.guarded(ins, false, hid)
	r.Check(n2 > 0 && g2, "D2-hidden", fa.key+":insert-only-if-not-hidden", p.Pos(ins.Pos()), "Insert only when the ancestor scan said 'not hidden'", "a node is inserted without the ancestor scan having said 'not hidden': files of lower layers reappear beneath a deleted or replaced directory")

	// FromV1Image: loop from last to first, fills chainLayers[i:]
	fv := p.Func(imgPkg, "FromV1Image")
	if fv == nil {
		r.Undecided("D1-newest-wins", "anchor:FromV1Image", "-", "not found")
		return
	}
	fb := newFA(p, r, fv)
	var fillCall *ssa.Call
	for _, f := range withAnon(fv) {
		forEachInstr(f, func(_ *ssa.BasicBlock, _ int, in ssa.Instruction) {
			if c, ok := in.(*ssa.Call); ok && c.Call.StaticCallee() != nil && c.Call.StaticCallee().Name() == "fillChainLayersWithFilesFromTar" {
				fillCall = c
			}
		})
	}
	if fillCall == nil {
		r.Fail("D1-newest-wins", fb.key+":fill", p.Pos(fv.Pos()), "FromV1Image does not fill the chain layers from the layer tars")
		return
	}
	// find `slice chainLayers[i:]` in FromV1Image with i a phi [len-1, i-1]
	okOrder := false
	forEachInstr(fv, func(_ *ssa.BasicBlock, _ int, in ssa.Instruction) {
		sl, ok := in.(*ssa.Slice)
		if !ok || sl.Low == nil || sl.High != nil {
			return
		}
		ph, ok := sl.Low.(*ssa.Phi)
		if !ok {
			return
		}
		start, dec := false, false
		for _, e := range ph.Edges {
			if bo, ok := e.(*ssa.BinOp); ok && bo.Op == token.SUB {
				if k, ok := constInt(bo.Y); ok && k == 1 {
					if bo.X == ssa.Value(ph) {
						dec = true
					} else if lc, ok := bo.X.(*ssa.Call); ok && isCallTo(lc, "builtin", "", "len") && lc.Call.Args[0] == sl.X {
						start = true
					}
				}
			}
		}
		// loop test i >= 0
		test := false
		if ifi := blockIf(ph.Block()); ifi != nil {
			if m, pos := condCmp(func(v ssa.Value) bool { return v == ssa.Value(ph) }, isConstInt(0), token.GEQ)(stripNotV(ifi.Cond)); m && pos {
				test = true
			}
		}
		if start && dec && test {
			okOrder = true
		}
	})
	r.Check(okOrder, "D1-newest-wins", fb.key+":newest-first", p.Pos(fillCall.Pos()), "for i := len(chainLayers)-1; i >= 0; i-- { fill chainLayers[i:] }", "the layers are not processed from the newest to the oldest filling chainLayers[i:]: with 'insert only if absent' an older layer's entry would win over a newer one")
}

func c04Ancestor(p *Prog, r *Report) {
	fn := p.Func(imgPkg, "inWhiteoutDir")
	if fn == nil {
		r.Undecided("D2-hidden", "anchor:inWhiteoutDir", "-", "not found")
		return
	}
	fa := newFA(p, r, fn)
	retFalse := func(in ssa.Instruction) bool {
		ret, ok := in.(*ssa.Return)
		if !ok {
			return false
		}
		b, isB := constBool(retVal(ret, 0))
		return !(isB && b)
	}
	wh, _ := guardEdges(fn, condFieldBool("fileNode", "isWhiteout"))
	_, notDir := guardEdges(fn, condCall(func(c *ssa.Call) bool {
		f := c.Call.StaticCallee()
		return f != nil && f.Name() == "IsDir" && refOfSSAFunc(f).Recv == "fileNode"
	}))
	if len(wh) == 0 {
		r.Fail("D2-hidden", fa.key+":whiteout-test", p.Pos(fn.Pos()), "the ancestor scan does not test isWhiteout")
	}
	if len(notDir) == 0 {
		r.Fail("D2-hidden", fa.key+":directory-test", p.Pos(fn.Pos()), "the ancestor scan does not test whether an existing ancestor is a directory (IsDir): a directory replaced by a file or a symlink keeps showing its former children")
	}
	for _, ed := range wh {
		fa.noPath("D2-hidden", "whiteout-ancestor-hides", edgeStart(ed), retFalse, nil, nil, "a whited-out ancestor ⇒ hidden", "a whited-out ancestor does not hide the entry on some path")
	}
	for _, ed := range notDir {
		fa.noPath("D2-hidden", "non-directory-ancestor-hides", edgeStart(ed), retFalse, nil, nil, "a non-directory ancestor ⇒ hidden", "an ancestor that is not a directory does not hide the entry on some path")
	}
	// 'not hidden' only from the loop's termination exits: no return false from inside the loop body after a Get
	var get *ssa.Call
	forEachInstr(fn, func(_ *ssa.BasicBlock, _ int, in ssa.Instruction) {
		if c, ok := in.(*ssa.Call); ok && treeCall("Get")(c) {
			get = c
		}
	})
	if get == nil {
		r.Fail("D2-hidden", fa.key+":lookup", p.Pos(fn.Pos()), "the ancestor scan does not look ancestors up in the view's tree")
		return
	}
	hdr := loopHeaderOf(get.Block())
	if hdr == nil {
		r.Fail("D2-hidden", fa.key+":loop", p.Pos(get.Pos()), "ancestors are not looked up in a loop up to the root")
		return
	}
	fa.noPath("D2-hidden", "keeps-climbing", pointOf(get), retFalse, firstInstrOf(hdr), nil, "after looking an ancestor up the scan either answers 'hidden' or continues with the next ancestor", "the scan can answer 'not hidden' right after looking up one ancestor (e.g. when that ancestor is missing from the view): entries two or more levels below a deleted directory stay visible")
	// climbing: filePath = Dir(filePath)
	okClimb := false
	forEachInstr(fn, func(_ *ssa.BasicBlock, _ int, in ssa.Instruction) {
		if c, ok := in.(*ssa.Call); ok && (refOf(c.Common()).is("path/filepath", "", "Dir") || refOf(c.Common()).is("path", "", "Dir")) && get.Call.Args[1] == ssa.Value(c) {
			okClimb = true
		}
	})
	r.Check(okClimb, "D2-hidden", fa.key+":parent-lookup", p.Pos(get.Pos()), "looks up Dir(path)", "the scan does not look up the parent directory of the current path")
}

func c04Whiteouts(p *Prog, r *Report) {
	rd := p.Func(imgPkg, "FS.ReadDir")
	if rd == nil {
		r.Undecided("D3-whiteouts-invisible", "anchor:FS.ReadDir", "-", "not found")
	} else {
		fa := newFA(p, r, rd)
		_, visible := guardEdges(rd, condFieldBool("fileNode", "isWhiteout"))
		n := 0
		forEachInstr(rd, func(b *ssa.BasicBlock, _ int, in ssa.Instruction) {
			c, ok := in.(*ssa.Call)
			if !ok || !isCallTo(c, "builtin", "", "append") {
				return
			}
			n++
			r.Check(len(visible) > 0 && onlyVia(rd, b, visible), "D3-whiteouts-invisible", fa.key+":listed-only-if-not-whiteout", p.Pos(c.Pos()), "a child is listed only when it is not a whiteout", "ReadDir can list a whiteout entry: deleted files show up in directory listings and tree walks")
		})
		if n == 0 {
			r.Fail("D3-whiteouts-invisible", fa.key+":listing", p.Pos(rd.Pos()), "ReadDir builds no listing")
		}
	}
	for _, m := range []string{"Stat", "Read", "ReadAt", "Seek"} {
		fn := p.Func(imgPkg, "fileNode."+m)
		if fn == nil {
			r.Undecided("D3-whiteouts-invisible", "anchor:fileNode."+m, "-", "not found")
			continue
		}
		fa := newFA(p, r, fn)
		wh, live := guardEdges(fn, condFieldBool("fileNode", "isWhiteout"))
		if len(wh) == 0 {
			r.Fail("D3-whiteouts-invisible", fa.key+":test", p.Pos(fn.Pos()), "fileNode."+m+" does not test isWhiteout: a deleted file stays readable by direct path")
			continue
		}
		for _, ed := range wh {
			fa.noPath("D3-whiteouts-invisible", "whiteout-not-exist", edgeStart(ed), func(in ssa.Instruction) bool {
				ret, ok := in.(*ssa.Return)
				return ok && !loadsGlobal(retVal(ret, len(ret.Results)-1), "io/fs", "ErrNotExist")
			}, nil, nil, "a whiteout yields fs.ErrNotExist", "fileNode."+m+" of a whiteout does not fail with fs.ErrNotExist")
		}
		// the real file is touched only on the live edge
		forEachInstr(fn, func(b *ssa.BasicBlock, _ int, in ssa.Instruction) {
			if c := callOf(in); c != nil {
				rf := refOf(c)
				if rf.Pkg == "os" && (rf.Name == "Open" || rf.Recv == "File") {
					r.Check(onlyVia(fn, b, live), "D3-whiteouts-invisible", fa.key+":file-after-test:"+rf.Name, p.Pos(in.Pos()), "the real file is touched only for non-whiteouts", "fileNode."+m+" touches the real file before the whiteout test")
				}
			}
		})
	}
}

func c04Requirer(p *Prog, r *Report) {
	fn := p.Func(imgPkg, "removeUnnecessaryFileNodes")
	if fn == nil {
		r.Undecided("D4-requirer-only-removes", "anchor:removeUnnecessaryFileNodes", "-", "not found")
		return
	}
	key := fnKey(fn)
	bad := 0
	nrm := 0
	for _, f := range withAnon(fn) {
		forEachInstr(f, func(_ *ssa.BasicBlock, _ int, in ssa.Instruction) {
			c, ok := in.(*ssa.Call)
			if !ok {
				return
			}
			if treeCall("Insert")(c) {
				bad++
				r.Fail("D4-requirer-only-removes", key+":insert", p.Pos(c.Pos()), "the requirer restriction inserts nodes: it must only remove non-required files")
			}
			if treeCall("Remove")(c) {
				nrm++
			}
			if st, ok := in.(*ssa.Store); ok {
				_ = st
			}
		})
	}
	r.Check(nrm >= 1, "D4-requirer-only-removes", key+":removes", p.Pos(fn.Pos()), "removes through pathtree Remove", "the requirer restriction no longer removes nodes through the tree's Remove")
	if bad == 0 {
		r.OK("D4-requirer-only-removes", key+":no-insert", p.Pos(fn.Pos()), "no insertion")
	}
	// removal only under filesRequired[path] == false, which is only set for !isNodeRequired nodes that are not directories
	// (the map is written false in exactly one place, under the isNodeRequired-false edge)
	var walk *ssa.Function
	for _, a := range fn.AnonFuncs {
		walk = a
	}
	if walk != nil {
		fa := newFA(p, r, walk)
		_, notReq := guardEdges(walk, condCall(func(c *ssa.Call) bool {
			f := c.Call.StaticCallee()
			return f != nil && f.Name() == "isNodeRequired"
		}))
		n := 0
		forEachInstr(walk, func(b *ssa.BasicBlock, _ int, in ssa.Instruction) {
			mu, ok := in.(*ssa.MapUpdate)
			if !ok {
				return
			}
			if v, isB := constBool(mu.Value); isB && !v {
				n++
				r.Check(len(notReq) > 0 && onlyVia(walk, b, notReq), "D4-requirer-only-removes", fa.key+":marked-unnecessary", p.Pos(mu.Pos()), "marked for removal only when the requirer rejects it", "a node can be marked for removal although the requirer requires it")
			}
		})
		r.Check(n >= 1, "D4-requirer-only-removes", fa.key+":marks", p.Pos(walk.Pos()), "marks rejected nodes", "no node is ever marked for removal")
	}
}

// c04Omissions: in the fill routine every entry read from the tar reaches the insertion into the
// views unless one of the sanctioned skip conditions holds.
func c04Omissions(p *Prog, r *Report) { c04OmissionsAs(p, r, "D5-omissions") }

// c04OmissionsAs: the same rule under another rule name (shared with C05: a tar entry that is dropped
// never reaches the views the tracer compares).
func c04OmissionsAs(p *Prog, r *Report, ruleName string) {
	fn := p.Func(imgPkg, "fillChainLayersWithFilesFromTar")
	if fn == nil {
		r.Undecided(ruleName, "anchor:fillChainLayersWithFilesFromTar", "-", "not found")
		return
	}
	fa := newFA(p, r, fn)
	var next, fill *ssa.Call
	forEachInstr(fn, func(_ *ssa.BasicBlock, _ int, in ssa.Instruction) {
		if c, ok := in.(*ssa.Call); ok {
			if refOf(c.Common()).is("archive/tar", "Reader", "Next") {
				next = c
			}
			if f := c.Call.StaticCallee(); f != nil && f.Name() == "fillChainLayersWithFileNode" {
				fill = c
			}
		}
	})
	if next == nil || fill == nil {
		r.Fail(ruleName, fa.key+":anchors", p.Pos(fn.Pos()), "the fill routine does not read entries with tar.Reader.Next and hand nodes to fillChainLayersWithFileNode")
		return
	}
	hdr := loopHeaderOf(next.Block())
	if hdr == nil {
		r.Fail(ruleName, fa.key+":loop", p.Pos(next.Pos()), "entries are not read in a loop")
		return
	}
	isClean := func(v ssa.Value) bool {
		c, _ := callValue(v)
		return c != nil && refOf(c.Common()).is("path", "", "Clean")
	}
	var cut []Edge
	add := func(es []Edge) { cut = append(cut, es...) }
	// escaping names
	h, _ := guardEdges(fn, condCall(func(c *ssa.Call) bool {
		if !refOf(c.Common()).is("strings", "", "HasPrefix") || !isClean(c.Call.Args[0]) {
			return false
		}
		s, ok := constString(c.Call.Args[1])
		return ok && s == "../"
	}))
	add(h)
	// base name "." / ".."
	isBase := func(v ssa.Value) bool {
		c, _ := callValue(v)
		return c != nil && refOf(c.Common()).is("path", "", "Base")
	}
	for _, s := range []string{".", ".."} {
		s := s
		h, _ := guardEdges(fn, condCmp(isBase, func(v ssa.Value) bool { k, ok := constString(v); return ok && k == s }, token.EQL))
		add(h)
	}
	// already present in the newest view being filled
	h, _ = guardEdges(fn, condNonNil(func(v ssa.Value) bool {
		c, _ := callValue(v)
		return c != nil && treeCall("Get")(c) && loadsField(c.Call.Args[0], "chainLayer", "fileNodeTree")
	}))
	add(h)
	// handler failed
	h, _ = guardEdges(fn, condNonNil(func(v ssa.Value) bool {
		if !isErrorType(v) {
			return false
		}
		return derivesFrom(v, func(x ssa.Value) bool {
			ex, ok := x.(*ssa.Extract)
			if !ok || ex.Index != 1 {
				return false
			}
			c, ok := ex.Tuple.(*ssa.Call)
			if !ok || c.Call.StaticCallee() == nil {
				return false
			}
			n := c.Call.StaticCallee().Name()
			return n == "handleDir" || n == "handleFile" || n == "handleSymlink"
		}, deriveOpts{})
	}))
	add(h)
	// Next failed / EOF
	isNextErr := func(v ssa.Value) bool {
		ex, ok := v.(*ssa.Extract)
		return ok && ex.Tuple == ssa.Value(next) && ex.Index == 1
	}
	h, _ = guardEdges(fn, condNonNil(isNextErr))
	add(h)
	h, _ = guardEdges(fn, condCall(func(c *ssa.Call) bool {
		rf := refOf(c.Common())
		return rf.Pkg == "errors" && rf.Name == "Is" && isNextErr(c.Call.Args[0])
	}))
	add(h)
	// unsupported type: the false edge of the last Typeflag comparison of the switch
	isTF := func(c ssa.Value) (bool, bool) {
		op, x, y, ok := cmpNorm(c)
		if !ok || op != token.EQL {
			return false, false
		}
		if isFieldLoad("Header", "Typeflag")(x) || isFieldLoad("Header", "Typeflag")(y) {
			return true, true
		}
		return false, false
	}
	_, tfFalse := guardEdges(fn, isTF)
	// keep only false edges whose target has no further Typeflag comparison reachable without a handler: the default arm
	for _, ed := range tfFalse {
		tgt := ed.To()
		if ifi := blockIf(tgt); ifi != nil {
			if m, _ := isTF(stripNotV(ifi.Cond)); m {
				continue
			}
		}
		// only the chain belonging to the handler switch: the Dir-specific virtual path test earlier also compares Typeflag
		w := findPath(edgeStart(ed), func(in ssa.Instruction) bool {
			c, ok := in.(*ssa.Call)
			return ok && c.Call.StaticCallee() != nil && (c.Call.StaticCallee().Name() == "handleDir" || c.Call.StaticCallee().Name() == "handleFile" || c.Call.StaticCallee().Name() == "handleSymlink")
		}, firstInstrOf(hdr), nil)
		if w == nil {
			cut = append(cut, ed)
		}
	}
	fa.noPath(ruleName, "every-entry-reaches-the-views", pointOf(next), firstInstrOf(hdr), instrIs(fill), edgesOf(cut),
		"an entry is dropped only for: escaping name, '.'/'..' base, already present, unsupported type, failed handler, end of archive", "a tar entry can be dropped for a reason other than the sanctioned ones (escaping name, '.'/'..' base name, already present in the newest view, unsupported type, failed handler): e.g. filtering whiteouts by the file requirer makes deleted files reappear in later views")
	r.Count("sanctioned skip edges", len(cut))
	r.Instances(ruleName, "sanctioned skip edges in the fill routine", len(cut), 7)
	_ = fmt.Sprint
}

// c04LayerContent: the bytes stored for a regular tar entry of a layer are read from the tar reader
// positioned on that entry, through a reader that is created for this entry — a capped reader made
// once per layer keeps its remaining count across entries, so once a layer's files add up to the cap
// every later file of the layer is stored truncated or empty while its size and listing stay right.
func c04LayerContent(p *Prog, r *Report, rule string) {
	const ipkg = "artifact/image/layerscanning/image"
	hf := p.Func(ipkg, "Image.handleFile")
	if hf == nil {
		r.Undecided(rule, "anchor:Image.handleFile", "-", "not found")
		return
	}
	n := 0
	forEachInstr(hf, func(_ *ssa.BasicBlock, _ int, in ssa.Instruction) {
		c, ok := in.(*ssa.Call)
		if !ok || !refOf(c.Common()).is("io", "", "Copy") {
			return
		}
		n++
		site := fnKey(hf) + ":source-of-copy"
		src := stripIface(c.Call.Args[1])
		fresh := false
		isTar := func(v ssa.Value) bool {
			v = stripIface(v)
			pr, isP := v.(*ssa.Parameter)
			if !isP {
				return false
			}
			n := namedOf(pr.Type())
			return n != nil && n.Obj().Name() == "Reader" && n.Obj().Pkg() != nil && n.Obj().Pkg().Path() == "archive/tar"
		}
		switch {
		case isTar(src):
			fresh = true
		default:
			if lc, _ := callValue(src); lc != nil && lc.Parent() == hf {
				rf := refOf(lc.Common())
				if (rf.is("io", "", "LimitReader") || rf.is("io", "", "TeeReader") || rf.is("bufio", "", "NewReader")) && isTar(lc.Call.Args[0]) {
					fresh = true
				}
			}
		}
		r.Check(fresh, rule, site, p.Pos(c.Pos()), "io.Copy reads the tar reader itself, or a reader wrapped around it for this entry", "the content of a layer's regular file is copied from a reader that is not created for this entry from the tar reader (a capped or buffered reader shared by the entries of a layer carries its state from one file to the next: later files are stored truncated or empty)")
	})
	r.Instances(rule, "copies into layer files", n, 1)
}
