package main

import (
	"fmt"
	"os"
	"testing"
)

func TestDbg(t *testing.T) {
	p, err := Load("linux", nil, "./...")
	if err != nil {
		t.Fatal(err)
	}
	ctor := p.Func("detector/weakcredentials/etcshadow", "New")
	ts, ok := concreteResults(ctor, 0)
	fmt.Println(ts, ok)
	fn := p.methodOf(ts[0], "Name")
	fmt.Println(fn, fn.Synthetic, len(fn.Blocks))
	fn.WriteTo(os.Stdout)
}
