package main

import (
	"bufio"
	"crypto/sha1"
	"encoding/json"
	"fmt"
	"os"
	"path/filepath"
	"regexp"
	"sort"
	"strings"
	"time"
)

type Verdict int

const (
	Discharged Verdict = iota
	Audited
	Violation
	Undecided
)

func (v Verdict) String() string {
	return [...]string{"discharged", "audited", "violation", "undecided"}[v]
}

// Obligation is one decided (or undecidable) instance of a rule. Site is a stable key
// (pkg.func:construct), never a line number; Pos is only for the human reader.
type Obligation struct {
	Rule    string  `json:"rule"`
	Site    string  `json:"site"`
	Pos     string  `json:"pos,omitempty"`
	Verdict Verdict `json:"-"`
	V       string  `json:"verdict"`
	Detail  string  `json:"detail,omitempty"`
	Configs string  `json:"configs,omitempty"`
	nontriv bool
}

type ruleStat struct {
	Instances   int `json:"instances"`
	Obligations int `json:"obligations"`
	Discharged  int `json:"discharged"`
	Audited     int `json:"audited"`
	Known       int `json:"known"`
	Violations  int `json:"violations"`
	Undecided   int `json:"undecided"`
}

type Report struct {
	Prop     string
	Tier     string
	start    time.Time
	obls     []*Obligation
	index    map[string]*Obligation
	rules    map[string]*ruleStat
	ruleDocs map[string]string
	notes    []string
	counts   map[string]int
	config   string // current GOOS config
	configs  []string
	Explain  string
	Assume   []string
	controls []controlResult
	quiet    bool
	floors   map[string][3]any
}

type controlResult struct {
	Name   string `json:"name"`
	Kind   string `json:"kind"`
	Result string `json:"result"` // fired | MISSED | skipped
	Detail string `json:"detail,omitempty"`
}

func NewReport(prop, tier string) *Report {
	return &Report{Prop: prop, Tier: tier, start: time.Now(), index: map[string]*Obligation{},
		rules: map[string]*ruleStat{}, ruleDocs: map[string]string{}, counts: map[string]int{}}
}

// Rule registers a rule with a one-line description (shown in evidence).
func (r *Report) Rule(rule, doc string) {
	if _, ok := r.rules[rule]; !ok {
		r.rules[rule] = &ruleStat{}
	}
	r.ruleDocs[rule] = doc
}

func (r *Report) add(rule, site, pos string, v Verdict, nontriv bool, detail string) {
	key := rule + "\x00" + site
	if o, ok := r.index[key]; ok {
		// same obligation seen under another configuration (or twice): keep the worst verdict.
		if !strings.Contains(o.Configs, r.config) {
			o.Configs += "," + r.config
		}
		if v > o.Verdict || (v == o.Verdict && v >= Violation && !strings.Contains(o.Detail, detail)) {
			if v > o.Verdict {
				o.Verdict, o.Detail, o.Pos = v, detail, pos
			}
		}
		return
	}
	o := &Obligation{Rule: rule, Site: site, Pos: pos, Verdict: v, Detail: detail, Configs: r.config, nontriv: nontriv}
	r.index[key] = o
	r.obls = append(r.obls, o)
	if _, ok := r.rules[rule]; !ok {
		r.rules[rule] = &ruleStat{}
	}
}

func (r *Report) OK(rule, site, pos, detail string) { r.add(rule, site, pos, Discharged, true, detail) }
func (r *Report) Trivial(rule, site, pos, detail string) {
	r.add(rule, site, pos, Discharged, false, detail)
}
func (r *Report) Audit(rule, site, pos, reason string) { r.add(rule, site, pos, Audited, true, reason) }
func (r *Report) Fail(rule, site, pos, detail string) {
	r.add(rule, site, pos, Violation, true, detail)
}
func (r *Report) Undecided(rule, site, pos, detail string) {
	r.add(rule, site, pos, Undecided, true, detail)
}

// Check is a convenience: ok → OK else Fail.
func (r *Report) Check(ok bool, rule, site, pos, okDetail, failDetail string) bool {
	if ok {
		r.OK(rule, site, pos, okDetail)
	} else {
		r.Fail(rule, site, pos, failDetail)
	}
	return ok
}

// Instances records how many constructs a rule matched and fails if below the floor confirmed by
// hand on the pinned tree (a rule that matches nothing would pass vacuously).
func (r *Report) Instances(rule, what string, got, floor int) {
	if _, ok := r.rules[rule]; !ok {
		r.rules[rule] = &ruleStat{}
	}
	if got > r.rules[rule].Instances {
		r.rules[rule].Instances = got
	}
	k := rule + ": " + what
	if got > r.counts[k] {
		r.counts[k] = got
	}
	if r.floors == nil {
		r.floors = map[string][3]any{}
	}
	r.floors[k] = [3]any{rule, what, floor}
}

// checkFloors: judged on the largest count seen in any configuration (platform-specific files are
// only present in their own configuration).
func (r *Report) checkFloors() {
	for k, f := range r.floors {
		rule, what, floor := f[0].(string), f[1].(string), f[2].(int)
		if got := r.counts[k]; got < floor {
			r.config = "all"
			r.add(rule, "floor:"+what, "-", Undecided, true,
				fmt.Sprintf("rule matched %d %s, fewer than the %d confirmed on the pinned tree: anchor lost or code moved; the rule would pass vacuously", got, what, floor))
		}
	}
}

func (r *Report) Note(format string, a ...any) { r.notes = append(r.notes, fmt.Sprintf(format, a...)) }
func (r *Report) Count(k string, n int)        { r.counts[k] += n }

// ---- known findings ----

type knownFinding struct{ prop, rule, site, what string }

var knownRe = regexp.MustCompile(`^known:\s+property=(\S+)\s+rule=(\S+)\s+site=(.*?)\s+--\s+(.*)$`)

func loadKnown(path string) ([]knownFinding, int, error) {
	f, err := os.Open(path)
	if err != nil {
		return nil, 0, err
	}
	defer f.Close()
	var out []knownFinding
	fixed := 0
	sc := bufio.NewScanner(f)
	sc.Buffer(make([]byte, 1<<20), 1<<20)
	for sc.Scan() {
		line := strings.TrimSpace(sc.Text())
		if strings.HasPrefix(line, "fixed:") {
			fixed++
			continue
		}
		if !strings.HasPrefix(line, "known:") {
			continue
		}
		k := knownFinding{}
		m := knownRe.FindStringSubmatch(line)
		if m == nil {
			continue
		}
		k.prop, k.rule, k.site, k.what = m[1], m[2], m[3], m[4]
		out = append(out, k)
	}
	return out, fixed, sc.Err()
}

// ---- finish: print, evidence, exit code ----

var verifDir = "/verif"

func (r *Report) Finish() int {
	r.checkFloors()
	known, nfixed, err := loadKnown(filepath.Join(verifDir, "known_findings.txt"))
	if err != nil {
		fmt.Printf("ERROR: cannot read known_findings.txt: %v\n", err)
	}
	sort.SliceStable(r.obls, func(i, j int) bool {
		if r.obls[i].Rule != r.obls[j].Rule {
			return r.obls[i].Rule < r.obls[j].Rule
		}
		return r.obls[i].Site < r.obls[j].Site
	})
	nviol, nknown := 0, 0
	nontriv := map[string]bool{}
	var vioLines []string
	os.MkdirAll(filepath.Join(verifDir, "evidence", "replay"), 0o755)
	for _, o := range r.obls {
		st := r.rules[o.Rule]
		st.Obligations++
		o.V = o.Verdict.String()
		if o.nontriv {
			nontriv[o.Rule+"\x00"+o.Site] = true
		}
		switch o.Verdict {
		case Discharged:
			st.Discharged++
		case Audited:
			st.Audited++
		case Violation, Undecided:
			isKnown := false
			if o.Verdict == Violation {
				for _, k := range known {
					if k.prop == r.Prop && k.rule == o.Rule && k.site == o.Site {
						isKnown = true
						fmt.Printf("KNOWN-FINDING: property=%s rule=%s site=%s %s: %s\n", r.Prop, o.Rule, o.Site, o.Pos, k.what)
						break
					}
				}
			}
			if isKnown {
				st.Known++
				nknown++
				o.V = "known-finding"
				continue
			}
			if o.Verdict == Undecided {
				st.Undecided++
			} else {
				st.Violations++
			}
			nviol++
			h := sha1.Sum([]byte(r.Prop + o.Rule + o.Site))
			rp := filepath.Join(verifDir, "evidence", "replay", fmt.Sprintf("%s-%x.json", r.Prop, h[:6]))
			b, _ := json.MarshalIndent(map[string]string{"property": r.Prop, "rule": o.Rule, "site": o.Site, "pos": o.Pos, "verdict": o.V, "detail": o.Detail, "tier": r.Tier}, "", " ")
			os.WriteFile(rp, b, 0o644)
			what := "violated"
			if o.Verdict == Undecided {
				what = "UNDECIDED (treated as failure)"
			}
			vioLines = append(vioLines, fmt.Sprintf("%s: [%s/%s] %s: %s: %s\nVIOLATION property=%s replay=%s", o.Pos, r.Prop, o.Rule, o.Site, what, o.Detail, r.Prop, rp))
		}
	}
	// summary
	if !r.quiet {
		fmt.Printf("== %s tier=%s configs=%s ==\n", r.Prop, r.Tier, strings.Join(r.configs, ","))
		var rn []string
		for k := range r.rules {
			rn = append(rn, k)
		}
		sort.Strings(rn)
		tot := ruleStat{}
		for _, k := range rn {
			s := r.rules[k]
			fmt.Printf("  rule %-14s instances=%-4d obligations=%-4d discharged=%-4d audited=%-3d known=%-2d violations=%-2d undecided=%-2d  %s\n",
				k, s.Instances, s.Obligations, s.Discharged, s.Audited, s.Known, s.Violations, s.Undecided, r.ruleDocs[k])
			tot.Obligations += s.Obligations
			tot.Discharged += s.Discharged
		}
		for _, n := range r.notes {
			fmt.Println("  note:", n)
		}
		for _, c := range r.controls {
			fmt.Printf("  control %-8s %-40s %s %s\n", c.Kind, c.Name, c.Result, c.Detail)
		}
	}
	for _, l := range vioLines {
		fmt.Println(l)
	}
	// evidence
	samples := []any{}
	perRule := map[string]int{}
	for _, o := range r.obls { // failures first
		if (o.Verdict >= Violation) && len(samples) < 10 {
			samples = append(samples, o)
		}
	}
	for _, o := range r.obls {
		if o.Verdict < Violation && o.nontriv && perRule[o.Rule] < 3 && len(samples) < 24 {
			perRule[o.Rule]++
			samples = append(samples, o)
		}
	}
	if len(samples) == 0 {
		for _, o := range r.obls {
			if len(samples) < 5 {
				samples = append(samples, o)
			}
		}
	}
	totalObl, totalDis := 0, 0
	for _, s := range r.rules {
		totalObl += s.Obligations
		totalDis += s.Discharged + s.Audited + s.Known
	}
	ruleDesc := []string{}
	for k, d := range r.ruleDocs {
		ruleDesc = append(ruleDesc, k+": "+d)
	}
	sort.Strings(ruleDesc)
	cov := map[string]any{
		"explanation":                          r.Explain,
		"rule":                                 "obligations are rule instances enumerated from /repo's type-checked source (SSA); an obligation is non-trivial when its verdict needed at least one dominating fact, CFG edge, table row or call-graph path; distinct = distinct (rule, construct) keys. Rules: " + strings.Join(ruleDesc, " | "),
		"evaluations":                          len(r.obls),
		"distinct_nontrivial":                  len(nontriv),
		"obligations":                          totalObl,
		"discharged":                           totalDis,
		"per_rule":                             r.rules,
		"counts":                               r.counts,
		"configs":                              r.configs,
		"samples":                              samples,
		"controls":                             r.controls,
		"known_findings":                       nknown,
		"fixed_entries_in_known_findings_file": nfixed,
		"notes":                                r.notes,
		"exhaustive":                           false,
	}
	ev := map[string]any{
		"property_id": r.Prop,
		"tier":        r.Tier,
		"seed":        seedFromEnv(),
		"level":       "other",
		"coverage":    cov,
		"assumptions": append([]string{
			"go/types, go/ssa (x/tools v0.29.0) model the program faithfully; third-party and std function bodies are not analysed (API contracts only)",
			"analysis is of the default build (no verif tag exists); GOOS configurations listed under coverage.configs",
		}, r.Assume...),
		"wall_s":     time.Since(r.start).Seconds(),
		"violations": nviol,
	}
	b, _ := json.MarshalIndent(ev, "", " ")
	if !r.quiet {
		if err := os.WriteFile(filepath.Join(verifDir, "evidence", r.Prop+".json"), b, 0o644); err != nil {
			fmt.Printf("ERROR: cannot write evidence: %v\n", err)
			return 1
		}
	}
	if nviol > 0 {
		return 1
	}
	if !r.quiet {
		fmt.Printf("%s: held on everything analysed (%d obligations, %d known findings) in %.1fs\n", r.Prop, len(r.obls), nknown, time.Since(r.start).Seconds())
	}
	return 0
}

func seedFromEnv() int {
	var n int
	fmt.Sscanf(os.Getenv("VERIF_SEED"), "%d", &n)
	return n
}
