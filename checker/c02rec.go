package main

import (
	"fmt"
	"go/token"
	"go/types"
	"sort"
	"strings"

	"golang.org/x/tools/go/ssa"
)

// recursiveGroups: strongly connected components (size > 1, or with a self edge) of the call
// relation among fns: static callees plus every function value mentioned (closures, callbacks).
func recursiveGroups(p *Prog, fns []*ssa.Function) [][]*ssa.Function {
	in := map[*ssa.Function]bool{}
	for _, f := range fns {
		in[f] = true
	}
	succ := map[*ssa.Function][]*ssa.Function{}
	for _, f := range fns {
		seen := map[*ssa.Function]bool{}
		add := func(g *ssa.Function) {
			if g == nil {
				return
			}
			if g.Synthetic != "" {
				if u := unwrapSynthetic(g); u != nil {
					g = u
				}
			}
			if in[g] && !seen[g] {
				seen[g] = true
				succ[f] = append(succ[f], g)
			}
		}
		forEachInstr(f, func(_ *ssa.BasicBlock, _ int, ins ssa.Instruction) {
			var ops [16]*ssa.Value
			for _, op := range ins.Operands(ops[:0]) {
				if op == nil || *op == nil {
					continue
				}
				if g, ok := (*op).(*ssa.Function); ok {
					add(g)
				}
			}
		})
	}
	// Tarjan
	index := map[*ssa.Function]int{}
	low := map[*ssa.Function]int{}
	on := map[*ssa.Function]bool{}
	var stack []*ssa.Function
	var out [][]*ssa.Function
	n := 0
	var strong func(v *ssa.Function)
	strong = func(v *ssa.Function) {
		n++
		index[v], low[v] = n, n
		stack = append(stack, v)
		on[v] = true
		for _, w := range succ[v] {
			if index[w] == 0 {
				strong(w)
				if low[w] < low[v] {
					low[v] = low[w]
				}
			} else if on[w] && index[w] < low[v] {
				low[v] = index[w]
			}
		}
		if low[v] == index[v] {
			var comp []*ssa.Function
			for {
				w := stack[len(stack)-1]
				stack = stack[:len(stack)-1]
				on[w] = false
				comp = append(comp, w)
				if w == v {
					break
				}
			}
			self := false
			for _, w := range succ[v] {
				if w == v {
					self = true
				}
			}
			if len(comp) > 1 || self {
				sort.Slice(comp, func(i, j int) bool { return fnKey(comp[i]) < fnKey(comp[j]) })
				out = append(out, comp)
			}
		}
	}
	for _, f := range fns {
		if index[f] == 0 {
			strong(f)
		}
	}
	sort.Slice(out, func(i, j int) bool { return fnKey(out[i][0]) < fnKey(out[j][0]) })
	return out
}

// c02Recursion: every recursive group reachable from the extractors, with the reason it terminates
// on every input (confirmed by reading) and, where the reason rests on a checkable shape, a witness:
//
//	depth    — an int parameter is compared with a configured limit before the recursive call, which passes parameter+1
//	subtree  — the recursive call is made on a strictly smaller part of the decoded document (an argument derived from a field/element of a parameter, never the parameter itself)
//	budget   — a byte budget parameter is compared with a limit, passed to the recursive call, and the call's updated total is stored back into the variable it was read from
//	reading  — audited by reading only
var c02Recursion = map[string]struct{ reason, witness string }{
	"extractor/filesystem/language/java/archive.Extractor.extractWithMax,extractor/filesystem/language/java/archive.Extractor.extractWithMax$1": {"nested archives: depth is compared with maxZipDepth on entry and the nested call passes depth+1; the opened-bytes budget is passed down and the callee's updated total is assigned back to the same variable, so sibling archives share one budget", "depth+budget"},
	"extractor/filesystem/language/javascript/packagelockjson.parseNpmLockDependencies":                                                         {"recursion over the nested 'dependencies' objects of the decoded JSON document: each call gets a sub-map of its argument", "subtree"},
	"extractor/filesystem/sbom/cdx.enumerateComponents":                                                                                         {"recursion over the nested components of the decoded BOM: each call gets the Components of one element of its argument", "subtree"},
	"extractor/filesystem/language/javascript/yarnlock.extractYarnPackageName":                                                                  {"the recursive call is made on TrimPrefix(right, \"npm:\") where right is the part of the argument after its first '@' (strings.Cut): strictly shorter", "reading"},
	"extractor/filesystem/language/python/requirements.readLine":                                                                                {"line continuation: every call advances the scanner by one line; at end of input Scanner.Text() is \"\", which has no trailing backslash", "reading"},
}

func c02Termination(p *Prog, r *Report, fns []*ssa.Function) {
	r.Rule("D4-recursion", "every recursive function reachable from an extractor is audited for termination (witnessed where possible)")
	r.Rule("D4-visited-set", "a map consulted as a visited/seen set is updated with the very key that was looked up")
	groups := recursiveGroups(p, fns)
	seen := map[string]bool{}
	for _, g := range groups {
		var ks []string
		for _, f := range g {
			ks = append(ks, fnKey(f))
		}
		key := strings.Join(ks, ",")
		e, ok := c02Recursion[key]
		if !ok {
			// the same recursion with its closure turned into a new helper (or a new helper turned into
			// a closure): groups are matched by their functions that exist on the pinned tree; the
			// witness is then checked on the group as it is now
			anchors := func(names []string, fs []*ssa.Function) string {
				var out []string
				for i, n := range names {
					if strings.Contains(n[strings.LastIndex(n, "/")+1:], "$") {
						continue
					}
					if fs != nil && isNewFunc(fs[i]) {
						continue
					}
					out = append(out, n)
				}
				return strings.Join(out, ",")
			}
			if mine := anchors(ks, g); mine != "" {
				for k2, e2 := range c02Recursion {
					if anchors(strings.Split(k2, ","), nil) == mine {
						key, e, ok = k2, e2, true
					}
				}
			}
		}
		seen[key] = true
		if !ok {
			r.Fail("D4-recursion", key, p.Pos(g[0].Pos()), "a recursive function (group) reachable from an extractor is not in the audited termination table: recursion that follows links or nesting taken from file content must be bounded (depth limit, visited set, or strictly smaller sub-document) — otherwise a crafted file overflows the stack and crashes the scan")
			continue
		}
		okW := true
		why := ""
		switch e.witness {
		case "depth":
			okW, why = depthWitness(g)
		case "depth+budget":
			okW, why = depthWitness(g)
			if okW {
				okW, why = budgetWitness(g)
			}
		case "subtree":
			okW, why = subtreeWitness(g)
		}
		if okW {
			r.Audit("D4-recursion", key, p.Pos(g[0].Pos()), e.reason+" [witness: "+e.witness+"]")
		} else {
			r.Fail("D4-recursion", key, p.Pos(g[0].Pos()), "the audited termination argument no longer holds: "+why+" ("+e.reason+")")
		}
	}
	for key := range c02Recursion {
		if !seen[key] {
			r.Trivial("D4-recursion", key, "-", "no longer recursive")
		}
	}
	r.Instances("D4-recursion", "recursive groups reachable from extractors", len(groups), 3)

	nv := checkVisitedSets(p, r, "D4-visited-set", fns)
	r.Instances("D4-visited-set", "visited/seen sets consulted inside loops", nv, 3)
}

// checkVisitedSets: for every map made in the function, holding bool/struct{} values, that is
// consulted inside a loop to decide a branch and updated inside the same loop, some update uses the
// very key that was looked up. Returns the number of such sets.
func checkVisitedSets(p *Prog, r *Report, rule string, fns []*ssa.Function) int {
	nv := 0
	for _, fn := range fns {
		for _, b := range fn.Blocks {
			ifi := blockIf(b)
			if ifi == nil || !inLoop(b) {
				continue
			}
			// condition is (a negation of) the presence/value of a lookup in a map made in this function
			inner, _ := stripNot(ifi.Cond)
			var lk *ssa.Lookup
			switch x := inner.(type) {
			case *ssa.Lookup:
				lk = x
			case *ssa.Extract:
				lk, _ = x.Tuple.(*ssa.Lookup)
			}
			if lk == nil {
				continue
			}
			mk, isMk := stripChangeType(lk.X).(*ssa.MakeMap)
			if !isMk {
				continue
			}
			mt, _ := mk.Type().Underlying().(*types.Map)
			if mt == nil {
				continue
			}
			switch et := mt.Elem().Underlying().(type) {
			case *types.Basic:
				if et.Kind() != types.Bool {
					continue
				}
			case *types.Struct:
				if et.NumFields() != 0 {
					continue
				}
			default:
				continue
			}
			// the decision must be a loop decision: one successor leaves the iteration (continue/break/return)
			hdr := loopHeaderOf(b)
			if hdr == nil {
				continue
			}
			// updates of the same set inside the same loop
			var upd []*ssa.MapUpdate
			body := naturalLoop(hdr)
			forEachInstr(fn, func(b2 *ssa.BasicBlock, _ int, in ssa.Instruction) {
				if mu, ok := in.(*ssa.MapUpdate); ok && stripChangeType(mu.Map) == ssa.Value(mk) && body[b2] {
					upd = append(upd, mu)
				}
			})
			if len(upd) == 0 {
				continue // a pre-built lookup table, not a visited set
			}
			nv++
			okK := false
			for _, mu := range upd {
				if mu.Key == lk.Index || sameCell(mu.Key, lk.Index) || renderValueDeep(mu.Key) == renderValueDeep(lk.Index) {
					okK = true
				}
			}
			site := fmt.Sprintf("%s:set[%s]", fnKey(fn), short(renderValueDeep(lk.Index), 80))
			r.Check(okK, rule, site, p.Pos(lk.Pos()), "the key tested is the key recorded", "a set that decides whether the loop processes an item is never updated with the key it is asked about (it records something else): items are processed again and again — for work lists fed from file content (include chains, parent links) a cycle makes the extractor loop forever")
		}
	}
	return nv
}

func renderValueDeep(v ssa.Value) string {
	d, a := renderDepth, renderAllocs
	renderDepth, renderAllocs = 10, true
	defer func() { renderDepth, renderAllocs = d, a }()
	return renderValue(v, 0)
}

// depthWitness: some function of the group has an int parameter d with a guard `d > limit` (or >=)
// whose failing edge returns, and every recursive call into the group passes d+1 for it.
func depthWitness(g []*ssa.Function) (bool, string) {
	inG := map[*ssa.Function]bool{}
	for _, f := range g {
		inG[f] = true
	}
	for _, f := range g {
		for pi, prm := range f.Params {
			b, ok := prm.Type().Underlying().(*types.Basic)
			if !ok || b.Info()&types.IsInteger == 0 {
				continue
			}
			guarded := false
			for _, blk := range f.Blocks {
				ifi := blockIf(blk)
				if ifi == nil {
					continue
				}
				if bo, ok := ifi.Cond.(*ssa.BinOp); ok && (bo.Op == token.GTR || bo.Op == token.GEQ) && isParamValue(bo.X, prm) {
					// the true edge must return without recursing
					if _, isRet := blk.Succs[0].Instrs[len(blk.Succs[0].Instrs)-1].(*ssa.Return); isRet {
						guarded = true
					}
				}
			}
			if !guarded {
				continue
			}
			// every call from the group to f passes prm+1
			okAll, n := true, 0
			for _, h := range g {
				forEachInstr(h, func(_ *ssa.BasicBlock, _ int, in ssa.Instruction) {
					c := callOf(in)
					if c == nil || c.StaticCallee() == nil || unwrapOr(c.StaticCallee()) != f {
						return
					}
					n++
					a := c.Args[pi]
					bo, ok := a.(*ssa.BinOp)
					if !ok || bo.Op != token.ADD {
						okAll = false
						return
					}
					k, isK := constInt(bo.Y)
					if !isK || k < 1 {
						okAll = false
					}
					// bo.X is the depth of the caller: the parameter itself or the captured one
					if !isParamValue(bo.X, prm) && !passedThrough(g, h, bo.X, f, prm) {
						// inside a closure: a load of the captured variable bound to the parameter's cell
						u, isU := bo.X.(*ssa.UnOp)
						fv, isFV := ssa.Value(nil), false
						if isU {
							fv, isFV = u.X.(*ssa.FreeVar)
						}
						if !isFV || !freeVarBindsParam(h, fv.(*ssa.FreeVar), prm) {
							okAll = false
						}
					}
				})
			}
			if okAll && n > 0 {
				return true, ""
			}
		}
	}
	return false, "no integer parameter is both compared with a limit on entry and passed as parameter+1 by every recursive call"
}

// paramOfHelper: v is (a load of the spill of) a parameter of h; returns its index.
func paramOfHelper(h *ssa.Function, v ssa.Value) int {
	for i, q := range h.Params {
		if isParamValue(v, q) {
			return i
		}
	}
	return -1
}

// passedThrough: v, inside helper h of the group, is a parameter of h, and every call of h from the
// group passes there the parameter prm of f (the function whose recursion is being bounded): the
// helper only carries the value from f to f's recursive call.
func passedThrough(g []*ssa.Function, h *ssa.Function, v ssa.Value, f *ssa.Function, prm *ssa.Parameter) bool {
	if h == f {
		return false
	}
	qi := paramOfHelper(h, v)
	if qi < 0 {
		return false
	}
	n := 0
	ok := true
	for _, caller := range g {
		forEachInstr(caller, func(_ *ssa.BasicBlock, _ int, in ssa.Instruction) {
			c := callOf(in)
			if c == nil || c.StaticCallee() == nil || unwrapOr(c.StaticCallee()) != h {
				return
			}
			n++
			if caller != f || qi >= len(c.Args) || !isParamValue(c.Args[qi], prm) {
				ok = false
			}
		})
	}
	return ok && n > 0
}

// budgetThroughHelper: the recursive call of f sits in a helper h that receives the budget as a
// parameter, passes it on, returns f's updated total, and f assigns what h returns back to the
// variable it passed (so sibling archives share one budget).
func budgetThroughHelper(g []*ssa.Function, h *ssa.Function, call *ssa.Call, pi int, f *ssa.Function, prm *ssa.Parameter) bool {
	qi := paramOfHelper(h, call.Call.Args[pi])
	if qi < 0 {
		return false
	}
	// h returns the call's int64 result on the path after the call, its own parameter otherwise
	ri := -1
	for _, ret := range returnsOf(h) {
		for k := range ret.Results {
			if ex, ok := retVal(ret, k).(*ssa.Extract); ok && ex.Tuple == ssa.Value(call) {
				if eb, ok := ex.Type().Underlying().(*types.Basic); ok && eb.Kind() == types.Int64 {
					ri = k
				}
			}
		}
	}
	if ri < 0 {
		return false
	}
	for _, ret := range returnsOf(h) {
		v := retVal(ret, ri)
		okv := false
		for _, l := range phiLeaves(v, ret.Block()) {
			if ex, ok := l.val.(*ssa.Extract); ok && ex.Tuple == ssa.Value(call) {
				okv = true
			} else if paramOfHelper(h, l.val) == qi {
				okv = true
			} else {
				return false
			}
		}
		if !okv {
			return false
		}
	}
	// every call of h: from f, with the budget variable, and the result stored back into it
	n := 0
	ok := true
	for _, caller := range g {
		forEachInstr(caller, func(_ *ssa.BasicBlock, _ int, in ssa.Instruction) {
			hc, isC := in.(*ssa.Call)
			if !isC || hc.Call.StaticCallee() == nil || unwrapOr(hc.Call.StaticCallee()) != h {
				return
			}
			n++
			if caller != f || qi >= len(hc.Call.Args) {
				ok = false
				return
			}
			a := hc.Call.Args[qi]
			if !isParamValue(a, prm) {
				if _, isPhi := a.(*ssa.Phi); !isPhi {
					ok = false
					return
				}
			}
			// the int64 result ri of this call must be used (flows on as the caller's budget)
			used := false
			for _, ref := range *hc.Referrers() {
				if ex, isE := ref.(*ssa.Extract); isE && ex.Index == ri && len(*ex.Referrers()) > 0 {
					used = true
				}
			}
			if !used {
				ok = false
			}
		})
	}
	return ok && n > 0
}

func unwrapOr(f *ssa.Function) *ssa.Function {
	if f.Synthetic != "" {
		if u := unwrapSynthetic(f); u != nil {
			return u
		}
	}
	return f
}

// subtreeWitness: every recursive call passes, for some parameter position, a value read from
// inside (a field / element / map value of) that parameter — never the parameter itself.
func subtreeWitness(g []*ssa.Function) (bool, string) {
	inG := map[*ssa.Function]bool{}
	for _, f := range g {
		inG[f] = true
	}
	n := 0
	for _, h := range g {
		bad := ""
		forEachInstr(h, func(_ *ssa.BasicBlock, _ int, in ssa.Instruction) {
			c := callOf(in)
			if c == nil || c.StaticCallee() == nil || !inG[unwrapOr(c.StaticCallee())] {
				return
			}
			n++
			callee := unwrapOr(c.StaticCallee())
			ok := false
			for pi := range callee.Params {
				if pi >= len(c.Args) {
					continue
				}
				a := c.Args[pi]
				if pi < len(h.Params) && a == ssa.Value(h.Params[pi]) {
					continue
				}
				if strictlyInside(a, h) {
					ok = true
				}
			}
			if !ok {
				bad = "a recursive call in " + fnKey(h) + " is not made on a part of its own argument"
			}
		})
		if bad != "" {
			return false, bad
		}
	}
	return n > 0, "no recursive call found"
}

// strictlyInside: v is obtained from a parameter of fn through at least one field / element /
// map-value / range step.
func strictlyInside(v ssa.Value, fn *ssa.Function) bool {
	seen := map[ssa.Value]bool{}
	var rec func(v ssa.Value, steps int, d int) bool
	rec = func(v ssa.Value, steps, d int) bool {
		if d > 30 || seen[v] {
			return false
		}
		seen[v] = true
		switch x := v.(type) {
		case *ssa.Parameter:
			return steps > 0 && x.Parent() == fn
		case *ssa.UnOp:
			return rec(x.X, steps, d+1)
		case *ssa.FieldAddr:
			return rec(x.X, steps+1, d+1)
		case *ssa.Field:
			return rec(x.X, steps+1, d+1)
		case *ssa.IndexAddr:
			return rec(x.X, steps+1, d+1)
		case *ssa.Index:
			return rec(x.X, steps+1, d+1)
		case *ssa.Lookup:
			return rec(x.X, steps+1, d+1)
		case *ssa.Extract:
			return rec(x.Tuple, steps, d+1)
		case *ssa.Next:
			return rec(x.Iter, steps+1, d+1)
		case *ssa.Range:
			return rec(x.X, steps, d+1)
		case *ssa.Alloc:
			for _, s := range storesTo(x) {
				if rec(s, steps, d+1) {
					return true
				}
			}
		case *ssa.Phi:
			for _, e := range x.Edges {
				if rec(e, steps, d+1) {
					return true
				}
			}
		case *ssa.ChangeType:
			return rec(x.X, steps, d+1)
		}
		return false
	}
	return rec(v, 0, 0)
}

// isParamValue: v is the parameter or a load of the local it was spilled to (and never reassigned).
func isParamValue(v ssa.Value, prm *ssa.Parameter) bool {
	if v == ssa.Value(prm) {
		return true
	}
	u, ok := v.(*ssa.UnOp)
	if !ok || u.Op != token.MUL {
		return false
	}
	al, ok := u.X.(*ssa.Alloc)
	if !ok {
		return false
	}
	for _, sv := range storesTo(al) {
		if sv == ssa.Value(prm) {
			return true
		}
	}
	return false
}

// freeVarBindsParam: closure h captures, as fv, the cell parameter prm of its parent was spilled to.
func freeVarBindsParam(h *ssa.Function, fv *ssa.FreeVar, prm *ssa.Parameter) bool {
	par := h.Parent()
	if par == nil {
		return false
	}
	res := false
	for _, pf := range withAnon(par) {
		forEachInstr(pf, func(_ *ssa.BasicBlock, _ int, in ssa.Instruction) {
			mc, ok := in.(*ssa.MakeClosure)
			if !ok || mc.Fn != ssa.Value(h) {
				return
			}
			for i, x := range h.FreeVars {
				if x == fv {
					if al, ok := mc.Bindings[i].(*ssa.Alloc); ok {
						// the cell the parameter was spilled to (it may be updated later, e.g. a running total)
						for _, sv := range storesTo(al) {
							if sv == ssa.Value(prm) {
								res = true
							}
						}
					}
				}
			}
		})
	}
	return res
}

// budgetWitness: some 64-bit integer parameter b of a group function is compared with a limit
// (b' > limit with b' derived from b), every recursive call passes the current value of b's cell,
// and the callee's result of the same type is stored back into that cell.
func budgetWitness(g []*ssa.Function) (bool, string) {
	for _, f := range g {
		for pi, prm := range f.Params {
			b, ok := prm.Type().Underlying().(*types.Basic)
			if !ok || b.Kind() != types.Int64 {
				continue
			}
			// guard on entry
			guarded := false
			for _, blk := range f.Blocks {
				ifi := blockIf(blk)
				if ifi == nil {
					continue
				}
				if bo, ok := ifi.Cond.(*ssa.BinOp); ok && (bo.Op == token.GTR || bo.Op == token.GEQ) {
					if derivesFrom(bo.X, func(v ssa.Value) bool { return isParamValue(v, prm) }, deriveOpts{}) {
						guarded = true
					}
				}
			}
			if !guarded {
				continue
			}
			okAll, n := true, 0
			for _, h := range g {
				forEachInstr(h, func(_ *ssa.BasicBlock, _ int, in ssa.Instruction) {
					call, ok := in.(*ssa.Call)
					if !ok || call.Call.StaticCallee() == nil || unwrapOr(call.Call.StaticCallee()) != f {
						return
					}
					n++
					if h != f && budgetThroughHelper(g, h, call, pi, f, prm) {
						return
					}
					a, isU := call.Call.Args[pi].(*ssa.UnOp)
					if !isU || a.Op != token.MUL {
						// the budget lives in a plain local (nothing captures it): the value passed is the
						// parameter as updated so far — the web of phis it comes from holds the parameter and
						// this call's own updated total (it is assigned back and carried to the next call)
						seen := map[ssa.Value]bool{}
						hasPrm, hasBack := false, false
						var walk func(v ssa.Value)
						walk = func(v ssa.Value) {
							if seen[v] || len(seen) > 256 {
								return
							}
							seen[v] = true
							switch x := v.(type) {
							case *ssa.Parameter:
								if x == prm {
									hasPrm = true
								}
							case *ssa.Phi:
								for _, e := range x.Edges {
									walk(e)
								}
							case *ssa.Extract:
								if x.Tuple == ssa.Value(call) {
									if eb, ok := x.Type().Underlying().(*types.Basic); ok && eb.Kind() == types.Int64 {
										hasBack = true
									}
								}
							}
						}
						walk(call.Call.Args[pi])
						if !(h == f && hasPrm && hasBack) {
							okAll = false
						}
						return
					}
					cell := a.X
					switch x := cell.(type) {
					case *ssa.FreeVar:
						if !freeVarBindsParam(h, x, prm) {
							okAll = false
							return
						}
					case *ssa.Alloc:
						if !isParamValue(a, prm) && len(storesTo(x)) == 0 {
							okAll = false
							return
						}
					default:
						okAll = false
						return
					}
					// result of type int64 stored back into the same cell
					back := false
					forEachInstr(h, func(_ *ssa.BasicBlock, _ int, in2 ssa.Instruction) {
						st, ok := in2.(*ssa.Store)
						if !ok || st.Addr != cell {
							return
						}
						if ex, ok := st.Val.(*ssa.Extract); ok && ex.Tuple == ssa.Value(call) {
							if eb, ok := ex.Type().Underlying().(*types.Basic); ok && eb.Kind() == types.Int64 {
								back = true
							}
						}
					})
					if !back {
						okAll = false
					}
				})
			}
			if n > 0 && okAll {
				return true, ""
			}
			if n > 0 {
				return false, "the byte budget passed to the nested call is not assigned back from the call's result (each nested archive would get the budget afresh)"
			}
		}
	}
	return false, "no 64-bit budget parameter is compared with a limit and threaded through the recursive call"
}
