package main

import (
	"fmt"
	"go/token"
	"go/types"
	"strings"

	"golang.org/x/tools/go/ssa"
)

const (
	pkgUpgrade = "guidedremediation/upgrade"
	pkgSemver  = "deps.dev/util/semver"
)

func init() {
	register(&PropDef{
		ID: "C11",
		Explain: "Decided (shape of the three candidate scans; every clause is a necessary condition of 'no further than the configured level, from the right base, strictly upward'): " +
			"D1 level guard — every version that can become the chosen one (flow into Manifest.PatchRequirement in override, into the returned requirement in NpmRelaxer.Relax, into the suggested requirement in suggestMavenVersion) is committed only on paths that, since that candidate was (re)defined, crossed the true edge of Level.Allows(L, D) where D is the difference computed between the base and that same candidate; " +
			"D2 right level — L is Config.Get(cfg, name) with cfg the options' UpgradeConfig (or the level/config parameter the caller fills that way) and name the Name of the very package whose base version D was computed from; " +
			"D3 right base — override: the base is the loop's version key, the candidates are the elements of getVersionsGreater(that key), which sorts and binary-searches with one comparator; relax: the base index is the scan index witnessed by Constraint.MatchVersion on the downward scan of the ascending-sorted version list, or an already level-checked candidate (major stepping), candidates are indices recorded on MatchVersion-false paths or above them; update: the base is the parsed simple requirement or a version witnessed by MatchVersion, and a candidate below the base is skipped (CompareVersions(v, base) < 0 → continue); " +
			"D4 plumbing — relax.patchVulns patches exactly what Relax returned with ok==true, passing the options' UpgradeConfig; MavenSuggester.Suggest reports VersionTo = the suggestion for the same requirement and level Get(UpgradeConfig, req.Name); packages at level None are skipped before any candidate is considered. " +
			"Added in round 2: D5 progress — from the start of a round of the override / relax fix-point loop the next round is reachable only through Manifest.PatchRequirement. Added in round 3: D6 Level.Allows, as a boolean function of its tests, equals the level semantics (decision table). NOT decided: that the ecosystem orders (semver.NPM / Maven comparators, third-party) are total orders consistent with Difference; the version a requirement resolves to in a universe (resolver behaviour); termination of the override/relax fixpoint loops (depends on resolver results); re-resolution effects.",
		Assume: []string{
			"deps.dev/util/semver: Difference(a,b) classifies the change from a to b; Compare orders versions consistently with it",
			"slices.SortFunc/BinarySearchFunc contracts",
		},
		Run: runC11,
		Controls: []Mutant{
			{Name: "override-check-only-when-default-restricted", File: "guidedremediation/internal/strategy/override/override.go",
				Old:  "				if _, diff, _ := vk.System.Semver().Difference(vk.Version, ver.Version); !opts.UpgradeConfig.Get(vk.Name).Allows(diff) {\n					break\n				}",
				New:  "				if _, diff, _ := vk.System.Semver().Difference(vk.Version, ver.Version); opts.UpgradeConfig.Get(\"\") != upgrade.Major && !opts.UpgradeConfig.Get(vk.Name).Allows(diff) {\n					break\n				}",
				Rule: "D1-level-guard", Site: "override"},
			{Name: "override-default-level", File: "guidedremediation/internal/strategy/override/override.go",
				Old: "!opts.UpgradeConfig.Get(vk.Name).Allows(diff)", New: "!opts.UpgradeConfig.Get(\"\").Allows(diff)", Rule: "D2-right-level", Site: "override"},
			{Name: "override-diff-from-candidate-to-candidate", File: "guidedremediation/internal/strategy/override/override.go",
				Old: "Difference(vk.Version, ver.Version)", New: "Difference(bestVK.Version, ver.Version)", Rule: "D1-level-guard", Site: "override"},
			{Name: "relax-base-is-next-minus-one", File: "guidedremediation/internal/strategy/relax/relaxer/npm.go",
				Old: "	cmpVer := vers[lastIdx]\n", New: "	cmpVer := vers[nextIdx-1]\n", Rule: "D3-right-base", Site: "Relax"},
			{Name: "relax-second-loop-unchecked", File: "guidedremediation/internal/strategy/relax/relaxer/npm.go",
				Old: "		if !configLevel.Allows(d) {\n			break\n		}\n", New: "", Rule: "D1-level-guard", Site: "Relax"},
			{Name: "relax-fresh-config", File: "guidedremediation/internal/strategy/relax/relax.go",
				Old: "reqRelaxer.Relax(ctx, cl, req, opts.UpgradeConfig)", New: "reqRelaxer.Relax(ctx, cl, req, upgrade.NewConfig())", Rule: "D4-plumbing", Site: "relax.patchVulns"},
			{Name: "suggest-allows-before-compare-dropped", File: "guidedremediation/internal/suggest/maven.go",
				Old: "		if mavenutil.CompareVersions(req.VersionKey, v, current) < 0 || mavenutil.CompareVersions(req.VersionKey, v, newReq) < 0 {",
				New: "		if mavenutil.CompareVersions(req.VersionKey, v, newReq) < 0 {", Rule: "D3-right-base", Site: "suggestMavenVersion"},
			{Name: "suggest-level-of-other-name", File: "guidedremediation/internal/suggest/maven.go",
				Old: "suggestMavenVersion(ctx, opts.ResolveClient, req, opts.UpgradeConfig.Get(req.Name))", New: "suggestMavenVersion(ctx, opts.ResolveClient, req, opts.UpgradeConfig.Get(req.Version))", Rule: "D2-right-level", Site: "Suggest"},
			{Name: "relax-skips-locked-requirement", File: "guidedremediation/internal/strategy/relax/relax.go", Old: "			if opts.UpgradeConfig.Get(req.VersionKey.Name) == upgrade.None {\n				return nil, common.ErrPatchImpossible\n			}\n", New: "			if opts.UpgradeConfig.Get(req.VersionKey.Name) == upgrade.None {\n				continue\n			}\n", Rule: "D5-progress", Site: "relax"},
			{Name: "override-reresolves-without-patch", File: "guidedremediation/internal/strategy/override/override.go", Old: "		if !didPatch {\n			break\n		}\n", New: "		_ = didPatch\n", Rule: "D5-progress", Site: "override"},
			{Name: "allows-patch-lets-minor-through", File: "guidedremediation/upgrade/upgrade.go", Old: "		return (diff != semver.DiffMajor) && (diff != semver.DiffMinor)", New: "		return (diff != semver.DiffMajor) || (diff != semver.DiffMinor)", Rule: "D6-level-semantics", Site: "Allows"},
			{Name: "allows-none-lets-everything-through", File: "guidedremediation/upgrade/upgrade.go", Old: "	case None:\n		return false\n", New: "	case None:\n		return true\n", Rule: "D6-level-semantics", Site: "Allows"},
		},
		Neutral: c11Neutral,
	})
}

// ---------- cells: which storage location / element a value was read from ----------

type cell struct {
	root ssa.Value // alloc, parameter, or the sliced/indexed collection
	idx  ssa.Value // index value for element cells
	path string    // field path below the root
}

// cellThroughCopies: cellOf follows a local that only holds a copy back to what it was copied from
// (switched on by the rules that ask where a value comes from rather than which variable it is).
var cellThroughCopies = false

func cellOf(v ssa.Value) cell {
	c := cell{}
	for d := 0; d < 16; d++ {
		switch x := v.(type) {
		case *ssa.UnOp:
			if x.Op != token.MUL {
				c.root = v
				return c
			}
			v = x.X
		case *ssa.FieldAddr:
			st, _ := structOf(x.X.Type())
			name := fmt.Sprint(x.Field)
			if st != nil {
				name = st.Field(x.Field).Name()
			}
			c.path = "." + name + c.path
			v = x.X
		case *ssa.Field:
			st, _ := structOf(x.X.Type())
			name := fmt.Sprint(x.Field)
			if st != nil {
				name = st.Field(x.Field).Name()
			}
			c.path = "." + name + c.path
			v = x.X
		case *ssa.IndexAddr:
			if c.idx == nil {
				c.idx = x.Index
				c.root = x.X
				// a local holding a copy of an element keeps the element identity below
				return c
			}
			c.root = v
			return c
		case *ssa.Alloc:
			// a local that only ever holds a copy of another variable or element (a by-value
			// parameter of an inlined helper, `x := y`): the cell is the one copied from
			if ss := storesTo(x); cellThroughCopies && len(ss) == 1 {
				if ld, ok := ss[0].(*ssa.UnOp); ok && ld.Op == token.MUL {
					if _, isAddr := ld.X.(*ssa.Alloc); isAddr {
						v = ld.X
						continue
					}
					if _, isAddr := ld.X.(*ssa.IndexAddr); isAddr {
						v = ld.X
						continue
					}
					if _, isAddr := ld.X.(*ssa.FieldAddr); isAddr {
						v = ld.X
						continue
					}
				}
			}
			c.root = v
			return c
		default:
			c.root = v
			return c
		}
	}
	c.root = v
	return c
}

// sameCell: both values were read from the same variable / the same element (field paths may
// differ by a suffix: ver.VersionKey vs ver.VersionKey.Version).
func sameCell(a, b ssa.Value) bool {
	if a == b {
		return true
	}
	ca, cb := cellOf(a), cellOf(b)
	if ca.root == nil || ca.root != cb.root || ca.idx != cb.idx {
		return false
	}
	switch ca.root.(type) {
	case *ssa.Alloc, *ssa.Parameter, *ssa.Phi, *ssa.Extract, *ssa.Call:
		return strings.HasPrefix(ca.path, cb.path) || strings.HasPrefix(cb.path, ca.path)
	}
	return ca.idx != nil
}

// ---------- level checks ----------

type levelCheck struct {
	allows   *ssa.Call
	level    ssa.Value
	diff     *ssa.Call
	from, to ssa.Value
	edge     Edge // edge taken when Allows returned true
}

func levelChecks(fn *ssa.Function) []levelCheck {
	var out []levelCheck
	for _, b := range fn.Blocks {
		ifi := blockIf(b)
		if ifi == nil {
			continue
		}
		inner, flip := stripNot(ifi.Cond)
		c, ok := inner.(*ssa.Call)
		if !ok || !refOf(c.Common()).is(fp(pkgUpgrade), "Level", "Allows") {
			continue
		}
		lc := levelCheck{allows: c, level: c.Call.Args[0], edge: Edge{b, 0}}
		if flip {
			lc.edge = Edge{b, 1}
		}
		if ex, ok := c.Call.Args[1].(*ssa.Extract); ok {
			if dc, ok := ex.Tuple.(*ssa.Call); ok && refOf(dc.Common()).Name == "Difference" && strings.HasPrefix(refOf(dc.Common()).Pkg, pkgSemver) {
				lc.diff = dc
				a := dc.Call.Args
				switch len(a) {
				case 3: // System.Difference(sys, from, to)
					lc.from, lc.to = a[1], a[2]
				case 2: // (*Version).Difference(v, other): the repo calls candidate.Difference(base)
					lc.to, lc.from = a[0], a[1]
				}
			}
		}
		out = append(out, lc)
	}
	return out
}

type leafAt struct {
	val  ssa.Value
	edge *Edge           // the phi edge that brings the value in (nil: used directly)
	blk  *ssa.BasicBlock // block where the value is committed
}

// phiLeaves expands v through phis, remembering the CFG edge each leaf arrives on.
func phiLeaves(v ssa.Value, at *ssa.BasicBlock) []leafAt { return phiLeavesStop(v, at, nil) }

// phiLeavesStop: like phiLeaves but does not expand phis for which stop holds.
func phiLeavesStop(v ssa.Value, at *ssa.BasicBlock, stop func(ssa.Value) bool) []leafAt {
	var out []leafAt
	seen := map[*ssa.Phi]bool{}
	var rec func(v ssa.Value, e *Edge, blk *ssa.BasicBlock)
	rec = func(v ssa.Value, e *Edge, blk *ssa.BasicBlock) {
		if ph, ok := v.(*ssa.Phi); ok && (stop == nil || !stop(v)) {
			if seen[ph] {
				return
			}
			seen[ph] = true
			for i, x := range ph.Edges {
				pred := ph.Block().Preds[i]
				si := 0
				for k, s := range pred.Succs {
					if s == ph.Block() {
						si = k
					}
				}
				ed := Edge{pred, si}
				rec(x, &ed, pred)
			}
			return
		}
		out = append(out, leafAt{v, e, blk})
	}
	rec(v, nil, at)
	return out
}

// defBlock: where the candidate cell gets its (per-iteration) value.
func defBlock(v ssa.Value) *ssa.BasicBlock {
	c := cellOf(v)
	if c.idx != nil {
		if in, ok := c.idx.(ssa.Instruction); ok {
			return in.Block()
		}
	}
	if al, ok := c.root.(*ssa.Alloc); ok {
		// block of the (single) store that fills the local
		var blk *ssa.BasicBlock
		n := 0
		for _, ref := range *al.Referrers() {
			if st, ok := ref.(*ssa.Store); ok && st.Addr == ssa.Value(al) {
				blk = st.Block()
				n++
			}
		}
		if n == 1 {
			return blk
		}
		return al.Block()
	}
	if in, ok := c.root.(ssa.Instruction); ok {
		return in.Block()
	}
	return nil
}

// guardedBy: the commit of leaf l happens only after crossing lc's true edge since the candidate
// was defined.
func levelGuarded(l leafAt, lc levelCheck) bool {
	if l.edge != nil && *l.edge == lc.edge {
		return true
	}
	def := defBlock(l.val)
	if def == nil || l.blk == nil {
		return false
	}
	return !reachable(def, edgeSet{lc.edge: true}, nil)[l.blk]
}

// c11CompareDeviations: the decisions under which mavenutil.CompareVersions does not return
// semver's own comparison (regenerate candidates with SCALINT_LEARN=1, confirm each by reading).
// c11ParsedSkips: the decisions under which getVersionsGreater does not record a parsed version.
var c11ParsedSkips = []string{
	"deps.dev/util/semver.System.Parse(deps.dev/util/resolve.System.Semver(param2.PackageKey.System),deps.dev/util/resolve.Client.Versions(param1,param0,param2.PackageKey)#0[ι].VersionKey.Version)#1 != nil:error",
	"range-end: deps.dev/util/resolve.Client.Versions(param1,param0,param2.PackageKey)#0",
}

var c11CompareDeviations = []string{
	"nil:*deps.dev/util/semver.Version == param1", // an unparsable version sorts first
	"nil:*deps.dev/util/semver.Version == param2",
	// commons-*: date-versioned releases (200x….) before the semver ones
	"strings.HasPrefix(deps.dev/util/semver.Version.String(param1),\"200\":string) != strings.HasPrefix(deps.dev/util/semver.Version.String(param2),\"200\":string)",
	// guava: the other flavour (-android / -jre) sorts first
	"strings.HasSuffix(deps.dev/util/semver.Version.String(param1),\"-android\":string) != strings.HasSuffix(deps.dev/util/semver.Version.String(param2),\"-android\":string)",
}

func runC11(p *Prog, r *Report) {
	r.Rule("D1-level-guard", "a candidate becomes the chosen version only after Allows(level, diff(base, candidate)) held")
	r.Rule("D2-right-level", "the level is Config.Get(UpgradeConfig, name of the package being changed)")
	r.Rule("D3-right-base", "the base of the difference is the version the requirement resolves to today; candidates lie above it")
	r.Rule("D4-plumbing", "what is patched/reported is what the level-checked scan returned")
	r.Rule("D5-progress", "every round of a strategy's fix-point loop changes the manifest or leaves the loop")
	r.Rule("D6-level-semantics", "Level.Allows decides exactly as the level semantics says")
	c11AllowsTable(p, r)
	c11Override(p, r)
	c11Relax(p, r)
	c11Suggest(p, r)
	c11Progress(p, r)
	r.Rule("D7-choose-patches", "which candidate patches are applied together is decided by the audited compatibility tests (shared with C12)")
	if ch := p.Func(pkgGR, "choosePatches"); ch != nil {
		frozenSkips(p, r, "D7-choose-patches", "choosePatches", ch, isAppendOf("Patch"), c12Sanctioned[tableKey(c12Sanctioned, ch)], "CHOOSE", "a patch is applied (or left out) under another compatibility test than the audited ones: e.g. a child override is applied together with the parent upgrade that already fixes the same vulnerability, pulling the child below the version it would resolve to")
	}
	r.Rule("D9-ecosystem-order", "candidates are ordered by the ecosystem's own version order, except for the audited package-specific workarounds")
	if cv := p.Func("internal/mavenutil", "CompareVersions"); cv != nil {
		frozenFnSkips(p, r, "D9-ecosystem-order", "mavenutil.CompareVersions", cv, func(in ssa.Instruction) bool {
			ret, ok := in.(*ssa.Return)
			if !ok || len(ret.Results) != 1 {
				return false
			}
			c, _ := callValue(retVal(ret, 0))
			return c != nil && refOf(c.Common()).Name == "Compare" && strings.HasPrefix(refOf(c.Common()).Pkg, pkgSemver)
		}, c11CompareDeviations, "MVNCMP", "mavenutil.CompareVersions answers without asking the ecosystem's comparison under a condition that is not one of the audited workarounds (nil operands, guava flavours, date-versioned commons-* releases): \"the greater version\" is then not the greater version in Maven's order, and both the override and the update strategy can propose a downgrade")
	} else {
		r.Undecided("D9-ecosystem-order", "anchor:mavenutil.CompareVersions", "-", "not found")
	}
	// D3 additionally: every version the registry lists is ordered by its parsed form, unless it
	// does not parse — a version left unparsed on purpose (a "never propose pre-releases" filter)
	// sorts below everything, the vulnerable version itself included when it is one, and the
	// "versions greater than the current one" then start below the current one
	if gv := p.Func("guidedremediation/internal/strategy/override", "getVersionsGreater"); gv != nil {
		frozenSkips(p, r, "D3-right-base", "override.getVersionsGreater:parsed-versions", gv, func(in ssa.Instruction) bool {
			mu, ok := in.(*ssa.MapUpdate)
			return ok && strings.Contains(typeShort(mu.Map.Type()), "semver.Version")
		}, c11ParsedSkips, "GVPARSE", "a version of the package is left out of the parsed-version table that getVersionsGreater sorts and searches with, for a reason other than 'it does not parse': it compares as the lowest version, and when it is the version in use the candidates start below it (a downgrade is proposed)")
	} else {
		r.Undecided("D3-right-base", "anchor:override.getVersionsGreater", "-", "not found")
	}
	r.Rule("D10-requirement-identity", "the requirement that is moved is the one that was analysed: old and new requirements are paired by RequirementKey (shared with C12)")
	requirementsPairedByKey(p, r, "D10-requirement-identity")
	r.Rule("D8-config-strings", "package:level strings are split at the last colon")
	c11LastColon(p, r, "D8-config-strings")
	n := 0
	for _, a := range [][2]string{{"guidedremediation/internal/strategy/override", "patchVulns"}, {"guidedremediation/internal/strategy/relax/relaxer", "NpmRelaxer.Relax"}, {"guidedremediation/internal/suggest", "suggestMavenVersion"}} {
		if fn := p.Func(a[0], a[1]); fn != nil {
			n += len(levelChecks(fn))
		}
	}
	r.Instances("D2-right-level", "Level.Allows decisions in the three candidate scans", n, 4)
}

// isConfigGet: v = Config.Get(cfg, name); returns cfg and name.
func isConfigGet(v ssa.Value) (cfg, name ssa.Value, ok bool) {
	c, isC := v.(*ssa.Call)
	if !isC || !refOf(c.Common()).is(fp(pkgUpgrade), "Config", "Get") {
		return nil, nil, false
	}
	return c.Call.Args[0], c.Call.Args[1], true
}

// isUpgradeConfigOf: v loads field UpgradeConfig of (the struct pointed to by) parameter prm.
func isUpgradeConfigOf(v ssa.Value, fn *ssa.Function) bool {
	s, f, base, ok := fieldOf(loadAddr(v))
	_ = s
	if !ok || f != "UpgradeConfig" {
		return false
	}
	root := rootParam(base)
	for _, prm := range fn.Params {
		if root == ssa.Value(prm) {
			return true
		}
	}
	// captured parameter of the enclosing function
	if fv, ok := root.(*ssa.FreeVar); ok {
		_ = fv
		return true
	}
	return false
}

func c11Override(p *Prog, r *Report) {
	fn := p.Func("guidedremediation/internal/strategy/override", "patchVulns")
	if fn == nil {
		r.Undecided("D1-level-guard", "anchor:override.patchVulns", "-", "not found")
		return
	}
	lcs := levelChecks(fn)
	site := "override.patchVulns"
	nsinks := 0
	// the scan may live in a helper that received the key and the level by value: a local that
	// only holds a copy stands for what it was copied from
	cellThroughCopies = true
	defer func() { cellThroughCopies = false }()
	forEachInstr(fn, func(b *ssa.BasicBlock, _ int, in ssa.Instruction) {
		c, ok := in.(*ssa.Call)
		if !ok || !c.Call.IsInvoke() || c.Call.Method.Name() != "PatchRequirement" {
			return
		}
		nsinks++
		// the VersionKey stored into the literal passed
		al, isA := loadAddr(c.Call.Args[0]).(*ssa.Alloc)
		if !isA {
			r.Undecided("D1-level-guard", site+":sink", p.Pos(c.Pos()), "PatchRequirement argument is not a literal")
			return
		}
		var vkVal ssa.Value
		for _, ref := range *al.Referrers() {
			if fa, ok := ref.(*ssa.FieldAddr); ok {
				if _, f, _, ok := fieldOf(fa); ok && f == "VersionKey" {
					for _, s := range storesTo(fa) {
						vkVal = s
					}
				}
			}
		}
		if vkVal == nil {
			r.Undecided("D1-level-guard", site+":sink", p.Pos(c.Pos()), "no VersionKey stored into the patched requirement")
			return
		}
		var base *ssa.Alloc
		ncand := 0
		for _, l := range phiLeaves(vkVal, b) {
			// which level check is about this leaf?
			var mine []levelCheck
			for _, lc := range lcs {
				if lc.to != nil && sameCell(lc.to, l.val) {
					mine = append(mine, lc)
				}
			}
			if len(mine) == 0 {
				// the unchanged base itself: must be the cell every check measures from
				isBase := false
				for _, lc := range lcs {
					if lc.from != nil && sameCell(lc.from, l.val) {
						isBase = true
					}
				}
				if isBase {
					r.Trivial("D1-level-guard", site+":initial", p.Pos(c.Pos()), "the initial best version is the vulnerable version itself (never patched: it fixes nothing)")
					continue
				}
				r.Fail("D1-level-guard", site+":candidate:"+renderValue(l.val, 0), p.Pos(l.val.Pos()), "a version key reaches PatchRequirement without any Level.Allows check computed on it")
				continue
			}
			ncand++
			ok1 := false
			for _, lc := range mine {
				if !levelGuarded(l, lc) {
					continue
				}
				ok1 = true
				// D3: base = the range key local; candidate element of getVersionsGreater(base)
				bc := cellOf(lc.from)
				bal, _ := bc.root.(*ssa.Alloc)
				okBase := bal != nil && strings.HasSuffix(bc.path, ".Version")
				srcOK := false
				if bal != nil {
					cands := []cell{cellOf(l.val)}
					if cal, isA := cands[0].root.(*ssa.Alloc); isA {
						cands = nil
						for _, s := range storesTo(cal) {
							cands = append(cands, cellOf(s))
						}
					}
					for _, ec := range cands {
						if ex, ok := ec.root.(*ssa.Extract); ok && ec.idx != nil {
							if gc, ok := ex.Tuple.(*ssa.Call); ok && refOf(gc.Common()).Name == "getVersionsGreater" && len(gc.Call.Args) == 3 && cellOf(gc.Call.Args[2]).root == ssa.Value(bal) {
								srcOK = true
							}
						}
					}
				}
				r.Check(okBase && srcOK, "D3-right-base", site+":base", p.Pos(lc.diff.Pos()), "difference measured from the vulnerable version key to an element of getVersionsGreater(that key)", "the level check in override.patchVulns does not measure from the vulnerable version key to a candidate taken from getVersionsGreater(that same key)")
				base = bal
				// D2
				cfg, name, isGet := isConfigGet(lc.level)
				nc := cell{}
				if isGet {
					nc = cellOf(name)
				}
				r.Check(isGet && isUpgradeConfigOf(cfg, fn) && bal != nil && nc.root == ssa.Value(bal) && strings.HasSuffix(nc.path, ".Name"), "D2-right-level", site+":level", p.Pos(lc.allows.Pos()), "opts.UpgradeConfig.Get(vk.Name)", "the level applied in override.patchVulns is not opts.UpgradeConfig.Get(<name of the package whose version is compared>) — a per-package level (or the configured default) is ignored")
			}
			r.Check(ok1, "D1-level-guard", site+":candidate", p.Pos(l.val.Pos()), "committed only after Allows(diff(vk, candidate)) held for this candidate", "a candidate version can become bestVK (and be written by PatchRequirement) on a path that did not pass Level.Allows for that candidate: versions beyond the configured level are proposed")
		}
		if ncand == 0 {
			r.Fail("D1-level-guard", site+":candidate", p.Pos(c.Pos()), "no level-checked candidate flows into PatchRequirement")
		}
		// None packages: the block is only reachable when Get(vk.Name) != None
		if base != nil {
			_, fails := guardEdges(fn, func(cond ssa.Value) (bool, bool) {
				bo, ok := cond.(*ssa.BinOp)
				if !ok || (bo.Op != token.EQL && bo.Op != token.NEQ) {
					return false, false
				}
				n, isC := constInt(bo.Y)
				_, name, isGet := isConfigGet(bo.X)
				if !isC || n != 3 || !isGet || cellOf(name).root != ssa.Value(base) {
					return false, false
				}
				return true, bo.Op == token.EQL
			})
			def := defBlock(base)
			okNone := len(fails) > 0 && def != nil && !reachable(def, edgesOf(fails), nil)[b]
			r.Check(okNone, "D4-plumbing", site+":none-skipped", p.Pos(c.Pos()), "PatchRequirement only after Get(vk.Name) != None", "override.patchVulns can patch a package whose level is None")
		}
	})
	r.Instances("D1-level-guard", "override PatchRequirement sinks", nsinks, 1)

	// getVersionsGreater: one comparator for sort, sortedness test and search; search target built from the key
	gv := p.Func("guidedremediation/internal/strategy/override", "getVersionsGreater")
	if gv == nil {
		r.Undecided("D3-right-base", "anchor:getVersionsGreater", "-", "not found")
		return
	}
	var cmps []ssa.Value
	var bs *ssa.Call
	forEachInstr(gv, func(_ *ssa.BasicBlock, _ int, in ssa.Instruction) {
		c, ok := in.(*ssa.Call)
		if !ok {
			return
		}
		rf := refOf(c.Common())
		if rf.Pkg != "slices" {
			return
		}
		switch {
		case strings.HasPrefix(rf.Name, "IsSortedFunc"), strings.HasPrefix(rf.Name, "SortFunc"):
			cmps = append(cmps, c.Call.Args[1])
		case strings.HasPrefix(rf.Name, "BinarySearchFunc"):
			bs = c
			cmps = append(cmps, c.Call.Args[2])
		}
	})
	same := bs != nil && len(cmps) >= 2
	for _, c := range cmps {
		if c != cmps[0] {
			same = false
		}
	}
	r.Check(same, "D3-right-base", "getVersionsGreater:one-comparator", p.Pos(gv.Pos()), "sort, sortedness test and binary search use one comparator", "getVersionsGreater sorts and searches with different comparators: the offset no longer separates smaller from greater versions")
	if bs != nil {
		okT := rootParam(bs.Call.Args[1]) == ssa.Value(gv.Params[2]) || derivesFrom(bs.Call.Args[1], func(v ssa.Value) bool { return v == ssa.Value(gv.Params[2]) }, deriveOpts{})
		if !okT {
			// literal resolve.Version{VersionKey: vk}
			if al, ok := loadAddr(bs.Call.Args[1]).(*ssa.Alloc); ok {
				for _, ref := range *al.Referrers() {
					if fa, ok := ref.(*ssa.FieldAddr); ok {
						for _, s := range storesTo(fa) {
							if rootParam(s) == ssa.Value(gv.Params[2]) {
								okT = true
							}
						}
					}
				}
			}
		}
		r.Check(okT, "D3-right-base", "getVersionsGreater:search-target", p.Pos(bs.Pos()), "searches for the given version key", "getVersionsGreater does not search for the version key it was given")
		// result = versions[offset:] with offset from the search
		okR := false
		for _, ret := range returnsOf(gv) {
			if sl, ok := retVal(ret, 0).(*ssa.Slice); ok && sl.Low != nil && sl.High == nil {
				for _, l := range phiLeaves(sl.Low, ret.Block()) {
					v := l.val
					if bo, ok := v.(*ssa.BinOp); ok && bo.Op == token.ADD {
						v = bo.X
					}
					if ex, ok := v.(*ssa.Extract); ok && ex.Tuple == ssa.Value(bs) && ex.Index == 0 {
						okR = true
					}
				}
			}
		}
		r.Check(okR, "D3-right-base", "getVersionsGreater:tail", p.Pos(gv.Pos()), "returns versions[offset:]", "getVersionsGreater does not return the tail of the sorted list above the search offset")
	}
}

func c11Relax(p *Prog, r *Report) {
	fn := p.Func("guidedremediation/internal/strategy/relax/relaxer", "NpmRelaxer.Relax")
	if fn == nil {
		r.Undecided("D1-level-guard", "anchor:NpmRelaxer.Relax", "-", "not found")
		return
	}
	site := "NpmRelaxer.Relax"
	lcs := levelChecks(fn)
	// parameters: [recv] ctx cl req config
	np := len(fn.Params)
	reqP, cfgP := fn.Params[np-2], fn.Params[np-1]
	// MatchVersion witnesses: index values i with c.MatchVersion(Parse(vers[i]))
	type witness struct {
		idx  ssa.Value
		coll ssa.Value
		t, f Edge
	}
	var wits []witness
	for _, b := range fn.Blocks {
		ifi := blockIf(b)
		if ifi == nil {
			continue
		}
		inner, flip := stripNot(ifi.Cond)
		c, ok := inner.(*ssa.Call)
		if !ok || refOf(c.Common()).Name != "MatchVersion" || len(c.Call.Args) != 2 {
			continue
		}
		ex, ok := c.Call.Args[1].(*ssa.Extract)
		if !ok {
			continue
		}
		pc, ok := ex.Tuple.(*ssa.Call)
		if !ok || refOf(pc.Common()).Name != "Parse" {
			continue
		}
		vc := cellOf(pc.Call.Args[len(pc.Call.Args)-1])
		if vc.idx == nil {
			continue
		}
		w := witness{idx: vc.idx, coll: vc.root, t: Edge{b, 0}, f: Edge{b, 1}}
		if flip {
			w.t, w.f = w.f, w.t
		}
		wits = append(wits, w)
	}
	if len(wits) == 0 {
		r.Fail("D3-right-base", site+":witness", p.Pos(fn.Pos()), "no scan index is tested with Constraint.MatchVersion(Parse(vers[i])): the highest version satisfying the current requirement is not identified")
		return
	}
	// sinks: values concatenated into req.Version on paths to `return req, true`
	var chosen []ssa.Value
	var sinkBlk []*ssa.BasicBlock
	forEachInstr(fn, func(b *ssa.BasicBlock, _ int, in ssa.Instruction) {
		st, ok := in.(*ssa.Store)
		if !ok {
			return
		}
		c := cellOf(st.Addr)
		if !strings.HasSuffix(c.path, ".Version") || rootParam(st.Addr) != ssa.Value(reqP) {
			return
		}
		v := st.Val
		if bo, ok := v.(*ssa.BinOp); ok && bo.Op == token.ADD {
			// "^"+best / "~"+best, the operator written as a constant or chosen first into a local
			if isConstOrPhiOfConsts(bo.X) {
				v = bo.Y
			}
		}
		chosen = append(chosen, v)
		sinkBlk = append(sinkBlk, b)
	})
	r.Instances("D1-level-guard", "stores to the relaxed requirement's version", len(chosen), 1)
	checkedIdx := map[ssa.Value]bool{} // candidate indices that passed a level check
	ncand := 0
	seenLeaf := map[ssa.Value]bool{}
	for k, ch := range chosen {
		for _, l := range phiLeaves(ch, sinkBlk[k]) {
			if seenLeaf[l.val] {
				continue
			}
			seenLeaf[l.val] = true
			lcell := cellOf(l.val)
			if lcell.idx == nil {
				r.Fail("D1-level-guard", site+":chosen:"+renderValue(l.val, 0), p.Pos(l.val.Pos()), "the relaxed requirement is built from something other than an element of the sorted version list")
				continue
			}
			ncand++
			ok1 := false
			for _, lc := range lcs {
				if lc.to == nil || !sameCell(lc.to, l.val) || !levelGuarded(l, lc) {
					continue
				}
				ok1 = true
				checkedIdx[lcell.idx] = true
			}
			r.Check(ok1, "D1-level-guard", fmt.Sprintf("%s:candidate#%d", site, ncand), p.Pos(l.val.Pos()), "chosen only after Allows(diff(base, vers[i])) held for this i", "a version can be chosen for the relaxed requirement without Level.Allows having held for the difference to that very version")
		}
	}
	// D2: every level is config.Get(req.Name)
	for i, lc := range lcs {
		cfg, name, isGet := isConfigGet(lc.level)
		okL := isGet && rootParam(cfg) == ssa.Value(cfgP) && rootParam(name) == ssa.Value(reqP) && strings.HasSuffix(cellOf(name).path, ".Name")
		r.Check(okL, "D2-right-level", fmt.Sprintf("%s:level#%d", site, i), p.Pos(lc.allows.Pos()), "config.Get(req.Name)", "the level applied by NpmRelaxer.Relax is not config.Get(req.Name) of the requirement being relaxed")
	}
	// D3: bases
	isWitnessed := func(idx ssa.Value) bool {
		for _, w := range wits {
			if w.idx == idx {
				return true
			}
		}
		return false
	}
	// candidate indices recorded on MatchVersion-false paths: phi leaves of the index equal a witness index,
	// arriving from a block only reachable through the false edge
	recordedAbove := func(idx ssa.Value, at *ssa.BasicBlock) bool {
		okAll, n := true, 0
		for _, l := range phiLeavesStop(idx, at, isWitnessed) {
			if _, isC := l.val.(*ssa.Const); isC {
				continue
			}
			if bo, ok := l.val.(*ssa.BinOp); ok && bo.Op == token.ADD {
				// i = next+1, i++ : above an already recorded candidate
				if _, isC := bo.Y.(*ssa.Const); isC {
					continue
				}
			}
			n++
			found := false
			for _, w := range wits {
				if w.idx == l.val && l.blk != nil {
					def := w.t.From
					if !reachable(def, edgeSet{w.f: true}, nil)[l.blk] {
						found = true
					}
				}
			}
			if !found {
				okAll = false
			}
		}
		return okAll && n > 0
	}
	for i, lc := range lcs {
		if lc.diff == nil {
			r.Fail("D3-right-base", fmt.Sprintf("%s:diff#%d", site, i), p.Pos(lc.allows.Pos()), "Allows is not applied to the result of a semver Difference call")
			continue
		}
		okB := true
		why := ""
		for _, l := range phiLeaves(lc.from, lc.diff.Block()) {
			c := cellOf(l.val)
			switch {
			case c.idx != nil && isWitnessed(c.idx):
			case c.idx != nil && checkedIdx[c.idx]:
			default:
				okB = false
				why = renderValue(l.val, 0)
			}
		}
		r.Check(okB, "D3-right-base", fmt.Sprintf("%s:base#%d", site, i), p.Pos(lc.diff.Pos()), "base is vers[i] for the index witnessed by MatchVersion (or an already level-checked candidate)", "the level check measures from "+why+", which is not the version witnessed to satisfy the current requirement (nor an already level-checked step): the upgrade level is applied relative to the wrong base version")
		// candidate side of the first check: recorded on MatchVersion-false paths
		tc := cellOf(lc.to)
		if tc.idx != nil && !isInductionAbove(tc.idx) && !isTailScan(tc) {
			r.Check(recordedAbove(tc.idx, lc.diff.Block()), "D3-right-base", fmt.Sprintf("%s:next#%d", site, i), p.Pos(lc.diff.Pos()), "the candidate index was recorded while scanning down over versions that do not satisfy the requirement", "the candidate of the level check is not an index recorded on the MatchVersion-false part of the downward scan: it may lie at or below the current version")
		}
	}
	// the scan is downward over an ascending-sorted list
	for _, w := range wits {
		ph, isPhi := w.idx.(*ssa.Phi)
		down := false
		if isPhi {
			for _, e := range ph.Edges {
				if bo, ok := e.(*ssa.BinOp); ok && bo.Op == token.SUB && bo.X == ssa.Value(ph) {
					if n, ok := constInt(bo.Y); ok && n == 1 {
						down = true
					}
				}
			}
		}
		r.Check(down, "D3-right-base", site+":scan-downward", p.Pos(w.t.From.Instrs[0].Pos()), "index decreases by one per step", "the MatchVersion scan no longer walks the sorted list downward one element at a time: the first match is not the highest matching version")
		sorted := false
		forEachInstr(fn, func(b *ssa.BasicBlock, _ int, in ssa.Instruction) {
			c, ok := in.(*ssa.Call)
			if !ok || refOf(c.Common()).Pkg != "slices" || !strings.HasPrefix(refOf(c.Common()).Name, "SortFunc") {
				return
			}
			if c.Call.Args[0] == w.coll && b.Dominates(w.t.From) {
				if mc, ok := c.Call.Args[1].(*ssa.MakeClosure); ok {
					if f, ok := mc.Fn.(*ssa.Function); ok && strings.Contains(f.Name(), "Compare") {
						sorted = true
					}
				}
			}
		})
		r.Check(sorted, "D3-right-base", site+":sorted", p.Pos(fn.Pos()), "the version list is sorted with the ecosystem comparator before the scan", "the version list scanned by NpmRelaxer.Relax is not sorted with semver Compare first")
	}

	// D4: relax.patchVulns
	pv := p.Func("guidedremediation/internal/strategy/relax", "patchVulns")
	if pv == nil {
		r.Undecided("D4-plumbing", "anchor:relax.patchVulns", "-", "not found")
		return
	}
	psite := "relax.patchVulns"
	var relaxCall *ssa.Call
	forEachInstr(pv, func(_ *ssa.BasicBlock, _ int, in ssa.Instruction) {
		if c, ok := in.(*ssa.Call); ok && c.Call.IsInvoke() && c.Call.Method.Name() == "Relax" {
			relaxCall = c
		}
	})
	if relaxCall == nil {
		r.Fail("D4-plumbing", psite+":relax", p.Pos(pv.Pos()), "relax.patchVulns does not call the ecosystem relaxer")
		return
	}
	r.Check(isUpgradeConfigOf(relaxCall.Call.Args[3], pv), "D4-plumbing", psite+":config", p.Pos(relaxCall.Pos()), "Relax(…, opts.UpgradeConfig)", "relax.patchVulns does not hand the options' UpgradeConfig to the relaxer: configured levels are ignored")
	forEachInstr(pv, func(b *ssa.BasicBlock, _ int, in ssa.Instruction) {
		c, ok := in.(*ssa.Call)
		if !ok || !c.Call.IsInvoke() || c.Call.Method.Name() != "PatchRequirement" {
			return
		}
		ex, isE := c.Call.Args[0].(*ssa.Extract)
		okArg := isE && ex.Tuple == ssa.Value(relaxCall) && ex.Index == 0
		r.Check(okArg, "D4-plumbing", psite+":patched-value", p.Pos(c.Pos()), "PatchRequirement(result of Relax)", "relax.patchVulns patches something other than the requirement Relax returned")
		holds, _ := guardEdges(pv, func(cond ssa.Value) (bool, bool) {
			e, ok := cond.(*ssa.Extract)
			if ok && e.Tuple == ssa.Value(relaxCall) && e.Index == 1 {
				return true, true
			}
			return false, false
		})
		okG := len(holds) > 0 && !reachable(relaxCall.Block(), edgesOf(holds), nil)[b]
		if relaxCall.Block() == b {
			okG = false
		}
		r.Check(okG, "D4-plumbing", psite+":only-when-ok", p.Pos(c.Pos()), "patched only when Relax reported success", "relax.patchVulns patches the requirement even when Relax refused (returned false)")
	})
}

func isConstOrPhiOfConsts(v ssa.Value) bool {
	switch x := v.(type) {
	case *ssa.Const:
		return true
	case *ssa.Phi:
		for _, e := range x.Edges {
			if _, isC := e.(*ssa.Const); !isC {
				return false
			}
		}
		return len(x.Edges) > 0
	}
	return false
}

// isTailScan: the cell is the current element of a full scan over xs[k+1:] — the range form of a
// counter that starts one above another index and increases.
func isTailScan(c cell) bool {
	if c.idx == nil || !isLoopCursor(c.idx) {
		return false
	}
	root := c.root
	if u, ok := root.(*ssa.UnOp); ok && u.Op == token.MUL {
		root = u.X
	}
	sl, ok := root.(*ssa.Slice)
	if !ok || sl.Low == nil || sl.High != nil {
		return false
	}
	bo, ok := sl.Low.(*ssa.BinOp)
	if !ok || bo.Op != token.ADD {
		return false
	}
	n, isC := constInt(bo.Y)
	return isC && n == 1
}

// isInductionAbove: idx is a loop counter that starts one above another index and increases.
func isInductionAbove(idx ssa.Value) bool {
	ph, ok := idx.(*ssa.Phi)
	if !ok {
		return false
	}
	inc, start := false, false
	for _, e := range ph.Edges {
		bo, ok := e.(*ssa.BinOp)
		if !ok || bo.Op != token.ADD {
			return false
		}
		n, isC := constInt(bo.Y)
		if !isC || n != 1 {
			return false
		}
		if bo.X == ssa.Value(ph) {
			inc = true
		} else {
			start = true
		}
	}
	return inc && start
}

func c11Suggest(p *Prog, r *Report) {
	fn := p.Func("guidedremediation/internal/suggest", "suggestMavenVersion")
	if fn == nil {
		r.Undecided("D1-level-guard", "anchor:suggestMavenVersion", "-", "not found")
		return
	}
	site := "suggestMavenVersion"
	lcs := levelChecks(fn)
	reqP, lvlP := fn.Params[2], fn.Params[3]
	// sink: req.Version = X.String()
	var chosen ssa.Value
	var sinkB *ssa.BasicBlock
	forEachInstr(fn, func(b *ssa.BasicBlock, _ int, in ssa.Instruction) {
		st, ok := in.(*ssa.Store)
		if !ok || rootParam(st.Addr) != ssa.Value(reqP) || !strings.HasSuffix(cellOf(st.Addr).path, ".Version") {
			return
		}
		if c, ok := st.Val.(*ssa.Call); ok && refOf(c.Common()).Name == "String" && len(c.Call.Args) == 1 {
			chosen = c.Call.Args[0]
			sinkB = b
		} else {
			r.Fail("D1-level-guard", site+":sink", p.Pos(st.Pos()), "the suggested requirement is not the String() of the chosen version")
		}
	})
	if chosen == nil {
		r.Fail("D1-level-guard", site+":sink", p.Pos(fn.Pos()), "suggestMavenVersion never writes a chosen version into the requirement")
		return
	}
	ncand, nrange := 0, 0
	for _, l := range phiLeaves(chosen, sinkB) {
		if isNilConst(l.val) {
			continue
		}
		ncand++
		ok1 := false
		for _, lc := range lcs {
			if lc.to == nil || !sameCell(lc.to, l.val) || !levelGuarded(l, lc) {
				continue
			}
			ok1 = true
			r.Check(lc.level == ssa.Value(lvlP), "D2-right-level", site+":level", p.Pos(lc.allows.Pos()), "the level parameter", "suggestMavenVersion applies a level other than the one its caller passed for this requirement")
			// base: parsed req.Version or MatchVersion-witnessed element
			okB := true
			for _, bl := range phiLeaves(lc.from, lc.diff.Block()) {
				if isNilConst(bl.val) {
					continue
				}
				if ex, ok := bl.val.(*ssa.Extract); ok {
					if pc, ok := ex.Tuple.(*ssa.Call); ok && refOf(pc.Common()).Name == "Parse" && rootParam(pc.Call.Args[len(pc.Call.Args)-1]) == ssa.Value(reqP) {
						continue
					}
				}
				// witnessed by constraint.MatchVersion(v) on the edge that assigns it
				wit := false
				holds, _ := guardEdges(fn, func(cond ssa.Value) (bool, bool) {
					c, ok := cond.(*ssa.Call)
					if ok && refOf(c.Common()).Name == "MatchVersion" && len(c.Call.Args) == 2 && sameCell(c.Call.Args[1], bl.val) {
						return true, true
					}
					return false, false
				})
				if len(holds) > 0 && bl.blk != nil {
					if def := defBlock(bl.val); def != nil && !reachable(def, edgesOf(holds), nil)[bl.blk] {
						wit = true
					}
				}
				if !wit {
					okB = false
				}
				// round 9: of the versions matching the range the *greatest* is the base: the element
				// replaces the running base only via the true edge of base.Compare(v) < 0 (or
				// v.Compare(base) > 0). With the operands swapped the least match becomes the base and
				// the not-below-base and level guards are measured from a version below the resolved one.
				running := func(x ssa.Value) bool {
					ph, ok := x.(*ssa.Phi)
					if !ok {
						return false
					}
					for _, pl := range phiLeaves(ph, ph.Block()) {
						if sameCell(pl.val, bl.val) {
							return true
						}
					}
					return false
				}
				greater, _ := guardEdges(fn, func(cond ssa.Value) (bool, bool) {
					bo, ok := cond.(*ssa.BinOp)
					if !ok || (bo.Op != token.LSS && bo.Op != token.GTR && bo.Op != token.GEQ && bo.Op != token.LEQ) {
						return false, false
					}
					if n, isC := constInt(bo.Y); !isC || n != 0 {
						return false, false
					}
					c, ok := bo.X.(*ssa.Call)
					if !ok || len(c.Call.Args) < 2 {
						return false, false
					}
					if nm := refOf(c.Common()).Name; nm != "Compare" && nm != "CompareVersions" {
						return false, false
					}
					x, y := c.Call.Args[len(c.Call.Args)-2], c.Call.Args[len(c.Call.Args)-1]
					if bo.Op == token.LSS && running(x) && sameCell(y, bl.val) {
						return true, true
					}
					if bo.Op == token.GTR && running(y) && sameCell(x, bl.val) {
						return true, true
					}
					// the negated forms guard a skip: `base.Compare(v) >= 0 → continue`
					if bo.Op == token.GEQ && running(x) && sameCell(y, bl.val) {
						return true, false
					}
					if bo.Op == token.LEQ && running(y) && sameCell(x, bl.val) {
						return true, false
					}
					return false, false
				})
				nrange++
				okMax := false
				if def := defBlock(bl.val); def != nil && len(greater) > 0 && bl.blk != nil {
					okMax = !reachable(def, edgesOf(greater), nil)[bl.blk]
				}
				r.Check(okMax, "D3-right-base", site+":greatest-match", p.Pos(lc.diff.Pos()), "a matching version replaces the guessed base only when it is greater than it", "the base guessed for a range requirement is no longer the greatest available version matching the range (a match can replace the running base without base.Compare(v) < 0 having held): for a range with a hole the level and not-below-current guards are measured from a version below the one the range resolves to, and the range is replaced by a lower pinned version — a downgrade")
			}
			r.Check(okB, "D3-right-base", site+":base", p.Pos(lc.diff.Pos()), "base is the parsed requirement or a version matching the range requirement", "suggestMavenVersion measures the level from something other than the current requirement's version")
			// candidate not below base: commit only via the false edge of CompareVersions(_, cand, base) < 0
			_, fails := guardEdges(fn, func(cond ssa.Value) (bool, bool) {
				bo, ok := cond.(*ssa.BinOp)
				if !ok || (bo.Op != token.LSS && bo.Op != token.GEQ) {
					return false, false
				}
				if n, isC := constInt(bo.Y); !isC || n != 0 {
					return false, false
				}
				c, ok := bo.X.(*ssa.Call)
				if !ok || refOf(c.Common()).Name != "CompareVersions" || len(c.Call.Args) != 3 {
					return false, false
				}
				if sameCell(c.Call.Args[1], l.val) && c.Call.Args[2] == lc.from {
					// `cmp(v, current) >= 0` is the same test with the branches exchanged
					return true, bo.Op == token.LSS
				}
				return false, false
			})
			okUp := false
			if def := defBlock(l.val); def != nil && len(fails) > 0 && l.blk != nil {
				okUp = !reachable(def, edgesOf(fails), nil)[l.blk]
			}
			r.Check(okUp, "D3-right-base", site+":not-below-base", p.Pos(lc.diff.Pos()), "candidates below the current version are skipped", "suggestMavenVersion can choose a version ordered below the current one (the CompareVersions(v, current) < 0 skip is gone or no longer guards the choice): a downgrade is suggested")
		}
		r.Check(ok1, "D1-level-guard", site+":candidate", p.Pos(l.val.Pos()), "chosen only after Allows(diff(candidate, current)) held", "a version can become the suggested requirement without Level.Allows having held for its difference to the current version")
	}
	r.Instances("D1-level-guard", "suggestMavenVersion candidates", ncand, 1)
	r.Instances("D3-right-base", "range-requirement base guesses in suggestMavenVersion", nrange, 1)

	// Suggest: level = opts.UpgradeConfig.Get(req.Name) for the same req; VersionTo = latest.Version
	sg := p.Func("guidedremediation/internal/suggest", "MavenSuggester.Suggest")
	if sg == nil {
		r.Undecided("D4-plumbing", "anchor:MavenSuggester.Suggest", "-", "not found")
		return
	}
	ssite := "MavenSuggester.Suggest"
	for _, ci := range callsTo(sg, fp("guidedremediation/internal/suggest"), "", "suggestMavenVersion") {
		a := ci.Common().Args
		cfg, name, isGet := isConfigGet(a[3])
		okL := isGet && isUpgradeConfigOf(cfg, sg) && cellOf(name).root == cellOf(a[2]).root && strings.HasSuffix(cellOf(name).path, ".Name")
		r.Check(okL, "D2-right-level", ssite+":level", p.Pos(ci.Pos()), "opts.UpgradeConfig.Get(req.Name) of the requirement passed", "MavenSuggester.Suggest passes a level that is not opts.UpgradeConfig.Get(req.Name) of the requirement being updated")
		// VersionTo / VersionFrom / Name
		okTo, okFrom, okName := false, false, false
		forEachInstr(sg, func(_ *ssa.BasicBlock, _ int, in ssa.Instruction) {
			st, ok := in.(*ssa.Store)
			if !ok {
				return
			}
			s, f, _, ok := fieldOf(st.Addr)
			if !ok || s != "PackageUpdate" {
				return
			}
			vc := cellOf(st.Val)
			switch f {
			case "VersionTo":
				// latest := result #0 of the call, spilled to a local
				if al, ok := vc.root.(*ssa.Alloc); ok {
					for _, s := range storesTo(al) {
						if ex, ok := s.(*ssa.Extract); ok && ex.Tuple == ci.Value() && ex.Index == 0 && strings.HasSuffix(vc.path, ".Version") {
							okTo = true
						}
					}
				}
				if ex, ok := vc.root.(*ssa.Extract); ok && ex.Tuple == ci.Value() && ex.Index == 0 {
					okTo = true
				}
			case "VersionFrom":
				okFrom = vc.root == cellOf(a[2]).root && strings.HasSuffix(vc.path, ".Version")
			case "Name":
				okName = vc.root == cellOf(a[2]).root && strings.HasSuffix(vc.path, ".Name")
			}
		})
		r.Check(okTo && okFrom && okName, "D4-plumbing", ssite+":update-fields", p.Pos(ci.Pos()), "PackageUpdate{Name: req.Name, VersionFrom: req.Version, VersionTo: suggestion.Version}", "the reported update does not carry the requirement's own name/version and the level-checked suggestion")
		// None skipped
		_, fails := guardEdges(sg, func(cond ssa.Value) (bool, bool) {
			bo, ok := cond.(*ssa.BinOp)
			if !ok || bo.Op != token.EQL {
				return false, false
			}
			n, isC := constInt(bo.Y)
			_, nm, isGet := isConfigGet(bo.X)
			if !isC || n != 3 || !isGet || cellOf(nm).root != cellOf(a[2]).root {
				return false, false
			}
			return true, true
		})
		okN := false
		if def := defBlock(a[2]); def != nil && len(fails) > 0 {
			okN = !reachable(def, edgesOf(fails), nil)[ci.Block()]
		}
		r.Check(okN, "D4-plumbing", ssite+":none-skipped", p.Pos(ci.Pos()), "requirements at level None are skipped", "MavenSuggester.Suggest considers a package configured as not upgradable")
	}
}

// c11Progress: a round of the override / relax fix-point loop that patches nothing re-resolves the
// same manifest, finds the same vulnerabilities and repeats forever. Necessary condition of
// termination, decided path-sensitively over boolean flags: from the start of a round, the next
// round is reachable only through a Manifest.PatchRequirement call.
func c11Progress(p *Prog, r *Report) {
	isPatch := func(in ssa.Instruction) bool {
		c, ok := in.(*ssa.Call)
		return ok && c.Call.IsInvoke() && c.Call.Method.Name() == "PatchRequirement"
	}
	for _, x := range []struct{ rel, name string }{
		{"guidedremediation/internal/strategy/override", "patchVulns"},
		{"guidedremediation/internal/strategy/relax", "patchVulns"},
	} {
		fn := p.Func(x.rel, x.name)
		site := x.rel[strings.LastIndex(x.rel, "/")+1:] + ".patchVulns"
		if fn == nil {
			r.Undecided("D5-progress", "anchor:"+site, "-", "not found")
			continue
		}
		// the fix-point loop: the outermost loop that contains the re-resolution (call of resolution.Resolve)
		var resolveBlk *ssa.BasicBlock
		forEachInstr(fn, func(b *ssa.BasicBlock, _ int, in ssa.Instruction) {
			if isCallTo(in, fp("guidedremediation/internal/resolution"), "", "Resolve") {
				resolveBlk = b
			}
		})
		if resolveBlk == nil {
			r.Fail("D5-progress", site+":loop", p.Pos(fn.Pos()), "no re-resolution inside a loop found")
			continue
		}
		var hdr *ssa.BasicBlock
		for h := loopHeaderOf(resolveBlk); h != nil; {
			hdr = h
			// outer loop header, if any
			var outer *ssa.BasicBlock
			for _, b := range fn.Blocks {
				if b != h && isLoopHeader(b) && naturalLoop(b)[h] {
					if outer == nil || naturalLoop(outer)[b] {
						outer = b
					}
				}
			}
			h = outer
		}
		if hdr == nil || len(hdr.Instrs) == 0 {
			r.Fail("D5-progress", site+":loop", p.Pos(fn.Pos()), "the re-resolution is not inside a loop")
			continue
		}
		// start points: the loop head; if an inner loop ranges over the very slice whose non-emptiness
		// is the fix-point loop's condition, its first iteration is certain, so start inside its body
		starts := []Point{{hdr, 0}}
		goalHdr := hdr
		if ifi := blockIf(hdr); ifi != nil {
			if sl := lenOperand(ifi.Cond); sl != nil {
				for _, b := range fn.Blocks {
					if b == hdr || !isLoopHeader(b) || !naturalLoop(hdr)[b] {
						continue
					}
					if rangesOver(b, sl) {
						starts = []Point{{b.Succs[0], -1}}
					}
				}
			}
		}
		var witness []string
		for _, st := range starts {
			w := findPathPS(st, func(in ssa.Instruction) bool { return in == goalHdr.Instrs[0] }, isPatch, nil)
			if w != nil {
				witness = w
			}
		}
		r.Check(witness == nil, "D5-progress", site+":round-patches-or-leaves", p.Pos(hdr.Instrs[0].Pos()), "the next round is reachable only through PatchRequirement", "a round of the fix-point loop can end without patching any requirement and without leaving the loop (witness "+strings.Join(witness, "→")+"): the same manifest is resolved again with the same result, so the strategy never terminates")
	}
}

func isLoopHeader(b *ssa.BasicBlock) bool {
	for _, pr := range b.Preds {
		if b.Dominates(pr) {
			return true
		}
	}
	return false
}

// lenOperand: for a condition len(x) > 0 (any normal form) returns x.
func lenOperand(cond ssa.Value) ssa.Value {
	inner, _ := stripNot(cond)
	bo, ok := inner.(*ssa.BinOp)
	if !ok {
		return nil
	}
	for _, side := range []ssa.Value{bo.X, bo.Y} {
		if c, ok := side.(*ssa.Call); ok {
			if b, ok := c.Call.Value.(*ssa.Builtin); ok && b.Name() == "len" {
				return c.Call.Args[0]
			}
		}
	}
	return nil
}

// rangesOver: loop header b is a range-by-index loop over slice value sl.
func rangesOver(b *ssa.BasicBlock, sl ssa.Value) bool {
	ifi := blockIf(b)
	if ifi == nil {
		return false
	}
	bo, ok := ifi.Cond.(*ssa.BinOp)
	if !ok || bo.Op != token.LSS {
		return false
	}
	c, ok := bo.Y.(*ssa.Call)
	if !ok {
		return false
	}
	bi, ok := c.Call.Value.(*ssa.Builtin)
	return ok && bi.Name() == "len" && c.Call.Args[0] == sl
}

// c11AllowsTable: upgrade.Level.Allows, as a boolean function of its atomic tests, equals
//
//	allows ⇔ diff == Same ∨ level == Major ∨ (level == Minor ∧ diff ≠ DiffMajor)
//	        ∨ (level == Patch ∧ diff ≠ DiffMajor ∧ diff ≠ DiffMinor)
//
// (None and unknown levels allow only "no change"). The level constants are mutually exclusive, so
// rows in which two of them hold are not compared.
func c11AllowsTable(p *Prog, r *Report) {
	fn := p.Func(pkgUpgrade, "Level.Allows")
	site := "upgrade.Level.Allows"
	if fn == nil {
		r.Undecided("D6-level-semantics", "anchor:"+site, "-", "not found")
		return
	}
	atoms, table, ok := decisionTableRaw(fn, false)
	if !ok {
		r.Undecided("D6-level-semantics", site, p.Pos(fn.Pos()), "Level.Allows is no longer a loop-free combination of at most 12 atomic tests")
		return
	}
	up := p.TPkg(pkgUpgrade)
	lv := func(name string) string {
		c, ok := up.Types.Scope().Lookup(name).(*types.Const)
		if !ok {
			return "?"
		}
		return c.Val().ExactString() + ":" + types.TypeString(c.Type(), nil)
	}
	// semver.Diff constants come from deps.dev (export data): find them through the types of the package
	var sem *types.Package
	for _, imp := range up.Types.Imports() {
		if imp.Path() == pkgSemver {
			sem = imp
		}
	}
	dv := func(name string) string {
		if sem == nil {
			return "?"
		}
		c, ok := sem.Scope().Lookup(name).(*types.Const)
		if !ok {
			return "?"
		}
		return c.Val().ExactString() + ":" + types.TypeString(c.Type(), nil)
	}
	eq := func(a, b string) string {
		if a > b {
			a, b = b, a
		}
		return a + " == " + b
	}
	names := map[string]string{
		eq(dv("Same"), "param1"):      "same",
		eq(dv("DiffMajor"), "param1"): "dMajor",
		eq(dv("DiffMinor"), "param1"): "dMinor",
		eq(lv("Major"), "param0"):     "lMajor",
		eq(lv("Minor"), "param0"):     "lMinor",
		eq(lv("Patch"), "param0"):     "lPatch",
		eq(lv("None"), "param0"):      "lNone",
	}
	var vars []string
	for _, a := range atoms {
		v, known := names[a]
		if !known {
			r.Undecided("D6-level-semantics", site+":atom", p.Pos(fn.Pos()), "Level.Allows tests something the level semantics does not mention: "+a)
			return
		}
		vars = append(vars, v)
	}
	have := map[string]bool{}
	for _, v := range vars {
		have[v] = true
	}
	for _, n := range []string{"same", "dMajor", "dMinor", "lMajor", "lMinor", "lPatch"} {
		if !have[n] {
			r.Fail("D6-level-semantics", site+":"+n, p.Pos(fn.Pos()), "Level.Allows no longer makes the test '"+n+"'")
			return
		}
	}
	for row := 0; row < len(table); row++ {
		val := map[string]bool{}
		for k, v := range vars {
			val[v] = row&(1<<k) != 0
		}
		// exclusive constants: at most one level, at most one diff kind
		nl, nd := 0, 0
		for _, n := range []string{"lMajor", "lMinor", "lPatch", "lNone"} {
			if val[n] {
				nl++
			}
		}
		for _, n := range []string{"same", "dMajor", "dMinor"} {
			if val[n] {
				nd++
			}
		}
		if nl > 1 || nd > 1 {
			continue
		}
		model := val["same"] || val["lMajor"] || (val["lMinor"] && !val["dMajor"]) || (val["lPatch"] && !val["dMajor"] && !val["dMinor"])
		if model != (table[row] == '1') {
			var desc []string
			for k, v := range vars {
				if row&(1<<k) != 0 {
					desc = append(desc, v)
				}
			}
			r.Fail("D6-level-semantics", site, p.Pos(fn.Pos()), fmt.Sprintf("Level.Allows answers %v when [%s] hold, the level semantics says %v: an upgrade beyond (or within) the configured level is judged wrongly", table[row] == '1', strings.Join(desc, " "), model))
			return
		}
	}
	r.OK("D6-level-semantics", site, p.Pos(fn.Pos()), fmt.Sprintf("equals the level semantics on all consistent combinations of its %d tests", len(atoms)))
}
