package main

import (
	"fmt"
	"go/constant"
	"go/token"
	"go/types"
	"os"
	"sort"
	"strings"

	"golang.org/x/tools/go/ssa"
)

func init() {
	register(&PropDef{
		ID: "C15",
		Explain: "Decided (structural necessary conditions of the export→import round trip; the serialisation itself is third-party code and is NOT analysed): " +
			"D1 type table — every purl type the library emits or declares is accepted by purl.validType, which both importers call through purl.FromString (rule shared with C14-D1); " +
			"D2 format families — every output format the CLI accepts is dispatched to a writer that has a row for it; each SPDX writer row calls Write of one tools-golang format package and the importer's extension table has a row calling Read of the same package; the CycloneDX writer's file formats are all values of the importer's extension/name tables, and the importer decodes with the format of the matched row; " +
			"D3 reference strings — the external-reference type the SPDX exporter writes is one of the constants the importer's purl branch compares against, and that branch (and the CycloneDX importer) parses exactly the locator / PackageURL field of the record it is looking at, with the result used only on success (C14 D1-parsed-url) and handed back unchanged by the SBOM extractors' ToPURL; " +
			"D4 only sanctioned omissions — the decisions after which an inventory package is not exported (ToSPDX23, ToCDX) or a document entry is not imported (convertSpdxDocToPackage, enumerateComponents, convertComponentToInventory) are exactly the audited ones, rendered by the definition of the tested value (so testing pkg.Name instead of the package URL's name is a different decision); " +
			"D5 supplier shape — every common.Supplier / common.Originator literal the library builds is one the tag-value grammar can express (type Person/Organization, or NOASSERTION without a type). " +
			"Added in round 3: the SBOM writers open their output with truncation. NOT decided: that the written bytes parse back to the same URLs for every inventory (escaping in JSON/YAML/XML/tag-value, namespaces, qualifiers, sub-paths: behaviour of tools-golang, cyclonedx-go and packageurl-go, outside the analysed source), multiset equality, duplicate handling.",
		Assume: []string{
			"tools-golang's <format>.Read parses what the same package's Write produced, except for the supplier grammar encoded in D5 (read from tools-golang v0.5.3 tagvalue reader: a supplier is NOASSERTION or '<Person|Organization>: name')",
			"cyclonedx-go decodes what it encoded for the same BOMFileFormat",
		},
		Run: runC15,
		Controls: []Mutant{
			{Name: "importer-loses-yaml", File: "extractor/filesystem/sbom/spdx/spdx.go", Old: "	\".spdx.json\":    json.Read,\n	\".spdx\":         tagvalue.Read,\n	\".spdx.yml\":     yaml.Read,\n", New: "	\".spdx.json\":    yaml.Read,\n	\".spdx\":         tagvalue.Read,\n	\".spdx.yml\":     json.Read,\n", Rule: "D2-format-family", Site: "reader:.spdx.yml"},
			{Name: "writer-row-crossed", File: "binary/spdx/spdx.go", Old: "	\"spdx23-json\":      writeSPDX23JSON,\n	\"spdx23-yaml\":      writeSPDX23YAML,\n", New: "	\"spdx23-json\":      writeSPDX23YAML,\n	\"spdx23-yaml\":      writeSPDX23JSON,\n", Rule: "D2-format-family", Site: "writer:spdx23-yaml"},
			{Name: "cli-format-without-writer", File: "binary/cli/cli.go", Old: "\"cdx-json\", \"cdx-xml\",\n", New: "\"cdx-json\", \"cdx-xml\", \"cdx-yaml\",\n", Rule: "D2-format-family", Site: "cdx-yaml"},
			{Name: "cdx-importer-crossed-format", File: "extractor/filesystem/sbom/cdx/cdx.go", Old: "	\".cdx.xml\":  cyclonedx.BOMFileFormatXML,\n", New: "	\".cdx.xml\":  cyclonedx.BOMFileFormatJSON,\n", Rule: "D2-format-family", Site: "cdx"},
			{Name: "reftype-renamed", File: "converter/converter.go", Old: "					RefType:  \"purl\",", New: "					RefType:  \"PURL\",", Rule: "D3-reference", Site: "ToSPDX23"},
			{Name: "importer-parses-name", File: "extractor/filesystem/sbom/spdx/spdx.go", Old: "purl.FromString(extRef.Locator)", New: "purl.FromString(spdxPkg.PackageName)", Rule: "D3-reference", Site: "convertSpdxDocToPackage"},
			{Name: "export-checks-package-not-url", File: "converter/converter.go", Old: "		if pName == \"\" || pVersion == \"\" {", New: "		if pkg.Name == \"\" || pkg.Version == \"\" {", Rule: "D4-omissions", Site: "ToSPDX23"},
			{Name: "import-drops-versionless", File: "extractor/filesystem/sbom/cdx/cdx.go", Old: "	pkg.Metadata = m\n	if m.PURL == nil && len(m.CPEs) == 0 {", New: "	pkg.Metadata = m\n	if pkg.Version == \"\" {\n		return nil\n	}\n	if m.PURL == nil && len(m.CPEs) == 0 {", Rule: "D4-omissions", Site: "convertComponentToInventory"},
			{Name: "sbom-topurl-rewrites", File: "extractor/filesystem/sbom/cdx/cdx.go", Old: "func (e Extractor) ToPURL(p *extractor.Package) *purl.PackageURL {\n	return p.Metadata.(*Metadata).PURL", New: "func (e Extractor) ToPURL(p *extractor.Package) *purl.PackageURL {\n	return &purl.PackageURL{Type: p.Metadata.(*Metadata).PURL.Type, Name: p.Name, Version: p.Version}", Rule: "D3-reference", Site: "cdx"},
		},
		Neutral: c15Neutral,
	})
}

// c15Sanctioned: audited decisions that keep an inventory package out of the exported document or a
// document entry out of the imported inventory (regenerate candidates with SCALINT_LEARN=1, confirm
// each by reading).
var c15Sanctioned = map[string][]string{
	"converter.ToSPDX23": {
		// end of the inventory
		"range-end: param0.Inventory.Packages",
		// a package whose extractor produces no package URL cannot be referenced from SPDX
		"extractor.ToPURL(param0.Inventory.Packages[ι].Extractor,param0.Inventory.Packages[ι]) == nil:*github.com/google/osv-scalibr/purl.PackageURL",
		// SPDX requires a name and a version; both are the package URL's, and so is the test
		"builtin.len(extractor.ToPURL(param0.Inventory.Packages[ι].Extractor,param0.Inventory.Packages[ι]).Name) == 0",
		"builtin.len(extractor.ToPURL(param0.Inventory.Packages[ι].Extractor,param0.Inventory.Packages[ι]).Version) == 0",
	},
	// ToCDX exports every package
	"converter.ToCDX": {"range-end: param0.Inventory.Packages"},
	// importers: an entry is left out only when it has neither a parsable package URL nor a CPE
	// (the PURL == nil half of the conjunction is not a skip edge by itself: CPE-only entries are kept)
	"extractor/filesystem/sbom/spdx.Extractor.convertSpdxDocToPackage": {
		"range-end: param0.Packages",
		"builtin.len(local:*spdx.Metadata.CPEs) == 0 && local:*spdx.Metadata.PURL == nil:*github.com/google/osv-scalibr/purl.PackageURL",
	},
	"extractor/filesystem/sbom/cdx.enumerateComponents": {
		"range-end: param0",
		"extractor/filesystem/sbom/cdx.convertComponentToInventory(param0[ι]) == nil:*github.com/google/osv-scalibr/extractor.Package",
	},
	"extractor/filesystem/sbom/cdx.convertComponentToInventory": {
		"builtin.len(local:*cdx.Metadata.CPEs) == 0 && local:*cdx.Metadata.PURL == nil:*github.com/google/osv-scalibr/purl.PackageURL",
	},
	// an absent document / component list has nothing to import
	"extractor/filesystem/sbom/cdx.Extractor.convertCdxBomToPackage": {
		"nil:*[]github.com/CycloneDX/cyclonedx-go.Component == param0.Components",
		"nil:*github.com/CycloneDX/cyclonedx-go.BOM == param0",
	},
}

func runC15(p *Prog, r *Report) {
	r.Rule("D1-type-table", "every emitted / declared purl type is accepted by validType")
	r.Rule("D1-parsed-url", "the result of purl.FromString is used only when it returned no error")
	r.Rule("D2-format-family", "each accepted output format has a writer row and the importer a reader of the same family")
	r.Rule("D3-reference", "exporter and importer agree on where the package URL is stored")
	r.Rule("D4-omissions", "entries are left out only under the audited conditions")
	r.Rule("D5-supplier-shape", "supplier/originator literals are expressible in every SPDX serialisation")
	c14Types(p, r)
	c14ParsedOnlyOnSuccess(p, r)
	c15Formats(p, r)
	c15Reference(p, r)
	c15Omissions(p, r)
	c15Supplier(p, r)
	c15WriterTruncates(p, r)
	c15ParseAsGiven(p, r, "D3-reference")
	// the CycloneDX export writes the URL of every package that has one (shared with C14 D4)
	if fn := p.Func("converter", "ToCDX"); fn != nil {
		frozenSkips(p, r, "D4-omissions", "converter.ToCDX:url-always-written", fn, storesField("Component", "PackageURL"), c14CDXURLSkips, "CDXURL",
			"a component can be written without its package URL although the package has one (e.g. when the URL's version is empty): the importer drops such a component, so the URL is lost in the round trip")
	}
	r.Rule("D7-record-by-record", "a converter's loop builds each output record from its own input record only")
	noCarriedRecordState(p, r, "D7-record-by-record", "converter")
	r.Rule("D6-writers-history-free", "what a writer or converter produces depends on the document it is given only: no process-wide mutable state")
	var wr []*ssa.Function
	for _, fn := range p.FuncsIn("binary/cdx", "binary/spdx", "converter") {
		if fn.Parent() == nil {
			wr = append(wr, fn)
		}
	}
	noSharedMutableState(p, r, "D6-writers-history-free", "a pooled buffer that comes back dirty after a failed write prepends the previous document to the next one", wr, "binary/cdx", "binary/spdx", "converter")
}

// c15WriterTruncates: the SBOM writers replace an existing output file: os.Create, or os.OpenFile
// whose constant flags contain O_TRUNC (or O_EXCL). Without truncation a shorter document written over
// a longer one leaves the tail of the old document behind and the file no longer parses.
func c15WriterTruncates(p *Prog, r *Report) {
	n := 0
	for _, x := range []struct{ rel, name string }{{"binary/spdx", "Write23"}, {"binary/cdx", "Write"}} {
		fn := p.Func(x.rel, x.name)
		if fn == nil {
			r.Undecided("D2-format-family", "anchor:"+x.rel+"."+x.name, "-", "not found")
			continue
		}
		opened := false
		forEachInstr(fn, func(_ *ssa.BasicBlock, _ int, in ssa.Instruction) {
			c, ok := in.(*ssa.Call)
			if !ok {
				return
			}
			rf := refOf(c.Common())
			site := x.rel + "." + x.name + ":open"
			switch {
			case rf.is("os", "", "Create"):
				opened = true
				n++
				r.OK("D2-format-family", site, p.Pos(c.Pos()), "os.Create truncates")
			case rf.is("os", "", "OpenFile"):
				opened = true
				n++
				fl, isK := constInt(c.Call.Args[1])
				ok2 := isK && (fl&int64(os.O_TRUNC) != 0 || fl&int64(os.O_EXCL) != 0)
				r.Check(ok2, "D2-format-family", site, p.Pos(c.Pos()), "opened with O_TRUNC / O_EXCL", "the SBOM output file is opened without O_TRUNC: exporting a smaller inventory to a path that already holds a larger export leaves the old tail in the file, which the importer then rejects")
			}
		})
		if !opened {
			r.Undecided("D2-format-family", x.rel+"."+x.name+":open", p.Pos(fn.Pos()), "the writer does not open its output with os.Create / os.OpenFile")
		}
	}
	r.Instances("D2-format-family", "SBOM output files opened", n, 2)
}

// extPkgOfFunc: import path of the package a function value (possibly external, body-less) belongs to.
func pkgPathOfFuncValue(v ssa.Value) (path, name string) {
	fn := funcValue(v)
	if fn == nil {
		return "", ""
	}
	if fn.Pkg != nil {
		return fn.Pkg.Pkg.Path(), fn.Name()
	}
	if o := fn.Object(); o != nil && o.Pkg() != nil {
		return o.Pkg().Path(), fn.Name()
	}
	return "", fn.Name()
}

const toolsGolang = "github.com/spdx/tools-golang/"

func c15Formats(p *Prog, r *Report) {
	// --- SPDX writer rows
	wrows, wg, ok := globalMapRows(p, "binary/spdx", "spdx23Writers")
	if !ok {
		r.Undecided("D2-format-family", "anchor:spdx23Writers", "-", "the SPDX writer table is not a package-level map literal")
		return
	}
	writerFam := map[string]string{} // format key -> family
	for _, row := range wrows {
		k, isC := constString(row.Key)
		if !isC {
			r.Undecided("D2-format-family", "spdx23Writers:key", p.Pos(row.Pos), "non-constant key")
			continue
		}
		fn := funcValue(row.Val)
		if fn == nil || len(fn.Blocks) == 0 {
			r.Undecided("D2-format-family", "writer:"+k, p.Pos(row.Pos), "writer is not a first-party function")
			continue
		}
		fams := map[string]bool{}
		forEachInstr(fn, func(_ *ssa.BasicBlock, _ int, in ssa.Instruction) {
			if c := callOf(in); c != nil {
				rf := refOf(c)
				if strings.HasPrefix(rf.Pkg, toolsGolang) && rf.Name == "Write" {
					fams[strings.TrimPrefix(rf.Pkg, toolsGolang)] = true
				}
			}
		})
		if len(fams) != 1 {
			r.Fail("D2-format-family", "writer:"+k, p.Pos(fn.Pos()), fmt.Sprintf("the writer for %s calls Write of %d tools-golang format packages (want exactly one)", k, len(fams)))
			continue
		}
		for f := range fams {
			writerFam[k] = f
		}
		// the format key must name the family it writes (spdx23-json -> json, spdx23-tag-value -> tagvalue)
		if want, known := map[string]string{"spdx23-json": "json", "spdx23-yaml": "yaml", "spdx23-tag-value": "tagvalue"}[k]; known {
			r.Check(writerFam[k] == want, "D2-format-family", "writer:"+k, p.Pos(fn.Pos()), "calls "+writerFam[k]+".Write", fmt.Sprintf("the writer registered for %q serialises with tools-golang/%s: the file is written in another syntax than the format asked for (and than the importer row for that extension reads)", k, writerFam[k]))
		} else {
			r.OK("D2-format-family", "writer:"+k, p.Pos(fn.Pos()), "calls "+writerFam[k]+".Write (format name not in the checker's table; only family agreement with the importer is decided)")
		}
	}
	r.Instances("D2-format-family", "SPDX writer rows", len(writerFam), 3)
	// Write23 must pick the function from the table by its format argument
	if w := p.Func("binary/spdx", "Write23"); w != nil {
		okW := false
		forEachInstr(w, func(_ *ssa.BasicBlock, _ int, in ssa.Instruction) {
			if lk, isL := in.(*ssa.Lookup); isL {
				if u, isU := lk.X.(*ssa.UnOp); isU && u.X == ssa.Value(wg) && lk.Index == ssa.Value(w.Params[2]) {
					okW = true
				}
			}
		})
		r.Check(okW, "D2-format-family", "Write23:lookup", p.Pos(w.Pos()), "writer chosen by spdx23Writers[format]", "Write23 no longer chooses the writer by looking its format argument up in spdx23Writers")
	} else {
		r.Undecided("D2-format-family", "anchor:Write23", "-", "not found")
	}

	// --- SPDX importer rows
	rrows, _, ok := globalMapRows(p, "extractor/filesystem/sbom/spdx", "extensionHandlers")
	if !ok {
		r.Undecided("D2-format-family", "anchor:extensionHandlers", "-", "the SPDX importer table is not a package-level map literal")
		return
	}
	readerFam := map[string][]string{}
	for _, row := range rrows {
		ext, _ := constString(row.Key)
		path, name := pkgPathOfFuncValue(row.Val)
		if !strings.HasPrefix(path, toolsGolang) || name != "Read" {
			r.Undecided("D2-format-family", "reader:"+ext, p.Pos(row.Pos), "reader is not a tools-golang Read function ("+path+"."+name+")")
			continue
		}
		f := strings.TrimPrefix(path, toolsGolang)
		readerFam[f] = append(readerFam[f], ext)
	}
	// each extension row must read the family its extension names
	extFam := map[string]string{".spdx.json": "json", ".spdx": "tagvalue", ".spdx.yml": "yaml", ".spdx.yaml": "yaml", ".spdx.rdf": "rdf", ".spdx.rdf.xml": "rdf"}
	for f, exts := range readerFam {
		for _, e := range exts {
			if want, known := extFam[e]; known {
				r.Check(want == f, "D2-format-family", "reader:"+e, p.Pos(0), "read with "+f+".Read", fmt.Sprintf("files named *%s are parsed with tools-golang/%s.Read, not the %s reader: an export in that syntax is rejected", e, f, want))
			}
		}
	}
	for k, f := range writerFam {
		exts := readerFam[f]
		sort.Strings(exts)
		r.Check(len(exts) > 0, "D2-format-family", "family:"+f, "-", fmt.Sprintf("%s written with %s.Write, read back with %s.Read for %v", k, f, f, exts), fmt.Sprintf("format %s is written with tools-golang/%s but no row of the importer's extension table reads with %s.Read: such an export cannot be imported", k, f, f))
	}

	// --- CycloneDX writer and importer
	cw := p.Func("binary/cdx", "Write")
	cdxW := map[string]int64{}
	if cw == nil {
		r.Undecided("D2-format-family", "anchor:cdx.Write", "-", "not found")
	} else {
		// format constants compared with the parameter lead to BOMFileFormat constants merged in a phi
		var enc *ssa.Call
		forEachInstr(cw, func(_ *ssa.BasicBlock, _ int, in ssa.Instruction) {
			if c, ok := in.(*ssa.Call); ok && refOf(c.Common()).Name == "NewBOMEncoder" {
				enc = c
			}
		})
		if enc == nil {
			r.Fail("D2-format-family", "cdx.Write:encoder", p.Pos(cw.Pos()), "Write does not create a BOM encoder")
		} else {
			okAll := true
			var walk func(v ssa.Value, from *ssa.BasicBlock)
			walk = func(v ssa.Value, from *ssa.BasicBlock) {
				switch x := v.(type) {
				case *ssa.Phi:
					for i, e := range x.Edges {
						walk(e, x.Block().Preds[i])
					}
				case *ssa.Const:
					// which format string selects this edge: the equality whose true edge leads here
					key := ""
					b := from
					for hop := 0; b != nil && hop < 4 && key == ""; hop++ {
						for _, pr := range b.Preds {
							if ifi := blockIf(pr); ifi != nil && pr.Succs[0] == b {
								if bo, ok := ifi.Cond.(*ssa.BinOp); ok && bo.Op == token.EQL {
									if s, ok := constString(bo.Y); ok && bo.X == ssa.Value(cw.Params[2]) {
										key = s
									} else if s, ok := constString(bo.X); ok && bo.Y == ssa.Value(cw.Params[2]) {
										key = s
									}
								}
							}
						}
						if key == "" {
							if len(b.Preds) == 1 {
								b = b.Preds[0]
							} else {
								b = nil
							}
						}
					}
					// the edge may come straight from the block holding the comparison
					if key == "" {
						if ifi := blockIf(from); ifi != nil {
							if bo, ok := ifi.Cond.(*ssa.BinOp); ok && bo.Op == token.EQL {
								if s, ok := constString(bo.Y); ok {
									key = s
								}
							}
						}
					}
					if n, ok := constInt(x); ok && key != "" {
						cdxW[key] = n
					} else {
						okAll = false
					}
				default:
					okAll = false
				}
			}
			// the same choice written as a lookup in a package-level table keyed by the format name
			tableForm := false
			if ex, ok := enc.Call.Args[1].(*ssa.Extract); ok && ex.Index == 0 {
				if lk, ok := ex.Tuple.(*ssa.Lookup); ok && lk.CommaOk && lk.Index == ssa.Value(cw.Params[2]) {
					if rows, ok := mapRows(p, cw, lk.X); ok && len(rows) > 0 {
						tableForm = true
						for _, row := range rows {
							k, okK := constString(row.Key)
							n, okN := constInt(row.Val)
							if !okK || !okN {
								tableForm = false
								break
							}
							cdxW[k] = n
						}
						if !tableForm {
							cdxW = map[string]int64{}
						}
					}
				}
			}
			if !tableForm {
				walk(enc.Call.Args[1], enc.Block())
			}
			if !okAll || len(cdxW) == 0 {
				r.Undecided("D2-format-family", "cdx.Write:formats", p.Pos(enc.Pos()), "the encoder's file format is not a constant chosen by comparing the format argument with constants")
			}
		}
	}
	r.Instances("D2-format-family", "CycloneDX writer formats", len(cdxW), 2)
	cdxR := map[int64][]string{}
	for _, tbl := range []string{"cdxExtensions", "cdxNames"} {
		rows, g, ok := globalMapRows(p, "extractor/filesystem/sbom/cdx", tbl)
		if !ok {
			r.Undecided("D2-format-family", "anchor:"+tbl, "-", "not a package-level map literal")
			continue
		}
		for _, row := range rows {
			k, _ := constString(row.Key)
			n, isC := constInt(row.Val)
			if !isC {
				r.Undecided("D2-format-family", tbl+":"+k, p.Pos(row.Pos), "non-constant file format")
				continue
			}
			cdxR[n] = append(cdxR[n], k)
			// the name must announce the syntax it is decoded with
			wantXML := strings.HasSuffix(k, ".xml")
			wantJSON := strings.HasSuffix(k, ".json")
			name := map[int64]string{}
			for wk, wn := range cdxW {
				name[wn] = strings.TrimPrefix(wk, "cdx-")
			}
			if nm, known := name[n]; known && (wantXML || wantJSON) {
				r.Check((nm == "xml") == wantXML, "D2-format-family", "cdx-reader:"+k, p.Pos(row.Pos), "decoded as "+nm, fmt.Sprintf("files named %s are decoded as CycloneDX %s: an export written in the syntax the name announces is rejected", k, nm))
			}
		}
		// findExtractor must decode with the format of the row it matched
		if fe := p.Func("extractor/filesystem/sbom/cdx", "findExtractor"); fe != nil {
			okD := false
			for _, f := range withAnon(fe) {
				forEachInstr(f, func(_ *ssa.BasicBlock, _ int, in ssa.Instruction) {
					c, ok := in.(*ssa.Call)
					if !ok || refOf(c.Common()).Name != "NewBOMDecoder" {
						return
					}
					fv := c.Call.Args[1]
					if u, ok := fv.(*ssa.UnOp); ok {
						if fr, ok := u.X.(*ssa.FreeVar); ok && f.Parent() == fe {
							// binding of that free variable in the MakeClosure
							forEachInstr(fe, func(_ *ssa.BasicBlock, _ int, in2 ssa.Instruction) {
								mc, ok := in2.(*ssa.MakeClosure)
								if !ok || mc.Fn != ssa.Value(f) {
									return
								}
								for i, fvv := range f.FreeVars {
									if fvv == fr {
										if derivesFromRangeOf(mc.Bindings[i], g) {
											okD = true
										}
									}
								}
							})
						}
					} else if derivesFromRangeOf(fv, g) {
						okD = true
					}
				})
			}
			r.Check(okD, "D2-format-family", "cdx-reader:decoder-uses-"+tbl, p.Pos(fe.Pos()), "the decoder gets the format of the matched row", "findExtractor does not decode with the file format of the "+tbl+" row it matched")
		}
	}
	for k, n := range cdxW {
		names := cdxR[n]
		sort.Strings(names)
		r.Check(len(names) > 0, "D2-format-family", "cdx-family:"+k, "-", fmt.Sprintf("read back from %v", names), fmt.Sprintf("output format %s has no importer row decoding the same CycloneDX file format", k))
	}

	// --- CLI: every accepted format reaches a writer that has a row for it
	c15CLI(p, r, writerFam, cdxW)
}

// derivesFromRangeOf: v is the value component of ranging over the map held in global g (possibly
// spilled to a local the closure captures).
func derivesFromRangeOf(v ssa.Value, g *ssa.Global) bool {
	seen := map[ssa.Value]bool{}
	var rec func(v ssa.Value, d int) bool
	rec = func(v ssa.Value, d int) bool {
		if d > 8 || seen[v] {
			return false
		}
		seen[v] = true
		switch x := v.(type) {
		case *ssa.Extract:
			if nx, ok := x.Tuple.(*ssa.Next); ok && x.Index == 2 {
				if rg, ok := nx.Iter.(*ssa.Range); ok {
					if u, ok := rg.X.(*ssa.UnOp); ok && u.X == ssa.Value(g) {
						return true
					}
				}
			}
			if lk, ok := x.Tuple.(*ssa.Lookup); ok && x.Index == 0 {
				return rec(lk, d+1) // v, ok := table[key]
			}
		case *ssa.UnOp:
			return rec(x.X, d+1)
		case *ssa.Alloc:
			for _, s := range storesTo(x) {
				if rec(s, d+1) {
					return true
				}
			}
		case *ssa.Lookup:
			// extensionHandlers[key] form
			if u, ok := x.X.(*ssa.UnOp); ok && u.X == ssa.Value(g) {
				return true
			}
		}
		return false
	}
	return rec(v, 0)
}

func c15CLI(p *Prog, r *Report, spdxKeys map[string]string, cdxKeys map[string]int64) {
	pk := p.Pkg("binary/cli")
	if pk == nil {
		r.Undecided("D2-format-family", "anchor:binary/cli", "-", "package not loaded")
		return
	}
	g, _ := pk.Members["supportedOutputFormats"].(*ssa.Global)
	init := pk.Func("init")
	if g == nil || init == nil {
		r.Undecided("D2-format-family", "anchor:supportedOutputFormats", "-", "not found")
		return
	}
	// elements of the slice literal stored into the global
	var formats []string
	forEachInstr(init, func(_ *ssa.BasicBlock, _ int, in ssa.Instruction) {
		st, ok := in.(*ssa.Store)
		if !ok || st.Addr != ssa.Value(g) {
			return
		}
		sl, ok := st.Val.(*ssa.Slice)
		if !ok {
			return
		}
		for _, v := range storesTo(sl.X) {
			if s, ok := constString(v); ok {
				formats = append(formats, s)
			}
		}
	})
	sort.Strings(formats)
	if len(formats) == 0 {
		r.Undecided("D2-format-family", "cli:formats", "-", "supportedOutputFormats is not a literal of constant strings")
		return
	}
	r.Instances("D2-format-family", "CLI output formats", len(formats), 7)
	// the dispatch chain: strings.Contains(format, "<sub>") tests, ordered by dominance, each leading to a writer
	var disp *ssa.Function
	for _, fn := range p.FuncsIn("binary/cli") {
		if len(callsTo(fn, fp("binary/spdx"), "", "Write23")) > 0 && len(callsTo(fn, fp("binary/cdx"), "", "Write")) > 0 {
			disp = fn
		}
	}
	if disp == nil {
		r.Undecided("D2-format-family", "cli:dispatch", "-", "no function calls both spdx.Write23 and cdx.Write")
		return
	}
	type arm struct {
		sub    string
		blk    *ssa.BasicBlock
		writer string
	}
	var arms []arm
	for _, b := range disp.Blocks {
		ifi := blockIf(b)
		if ifi == nil {
			continue
		}
		c, idx := callValue(ifi.Cond)
		_ = idx
		if c == nil || !refOf(c.Common()).is("strings", "", "Contains") {
			continue
		}
		sub, ok := constString(c.Call.Args[1])
		if !ok {
			continue
		}
		w := ""
		for _, cand := range []struct{ pkg, name, tag string }{{"binary/spdx", "Write23", "spdx"}, {"binary/cdx", "Write", "cdx"}, {"binary/proto", "WriteWithFormat", "proto"}} {
			for _, ci := range callsTo(disp, fp(cand.pkg), "", cand.name) {
				if b.Succs[0].Dominates(ci.Block()) {
					w = cand.tag
				}
			}
		}
		if w != "" {
			arms = append(arms, arm{sub, b, w})
		}
	}
	sort.Slice(arms, func(i, j int) bool { return arms[i].blk.Dominates(arms[j].blk) && arms[i].blk != arms[j].blk })
	if len(arms) < 3 {
		r.Undecided("D2-format-family", "cli:dispatch", p.Pos(disp.Pos()), fmt.Sprintf("found %d strings.Contains dispatch arms, expected at least 3", len(arms)))
		return
	}
	for _, f := range formats {
		chosen := ""
		for _, a := range arms {
			if strings.Contains(f, a.sub) {
				chosen = a.writer
				break
			}
		}
		site := "cli:" + f
		switch chosen {
		case "":
			r.Fail("D2-format-family", site, p.Pos(disp.Pos()), fmt.Sprintf("output format %q is accepted by validateOutput but no arm of the writer dispatch matches it: nothing is written", f))
		case "spdx":
			_, ok := spdxKeys[f]
			r.Check(ok, "D2-format-family", site, p.Pos(disp.Pos()), "dispatched to spdx.Write23, which has a row for it", fmt.Sprintf("output format %q is dispatched to spdx.Write23, whose table has no row for it", f))
		case "cdx":
			_, ok := cdxKeys[f]
			r.Check(ok, "D2-format-family", site, p.Pos(disp.Pos()), "dispatched to cdx.Write, which has a case for it", fmt.Sprintf("output format %q is dispatched to cdx.Write, which has no case for it", f))
		case "proto":
			r.Trivial("D2-format-family", site, p.Pos(disp.Pos()), "proto output (not an SBOM format)")
		}
	}
	// and every SBOM writer row is reachable from the CLI
	have := map[string]bool{}
	for _, f := range formats {
		have[f] = true
	}
	for k := range spdxKeys {
		r.Check(have[k], "D2-format-family", "cli-accepts:"+k, p.Pos(g.Pos()), "accepted by the CLI", fmt.Sprintf("the SPDX writer row %q is not among the CLI's supported output formats", k))
	}
	for k := range cdxKeys {
		r.Check(have[k], "D2-format-family", "cli-accepts:"+k, p.Pos(g.Pos()), "accepted by the CLI", fmt.Sprintf("the CycloneDX writer case %q is not among the CLI's supported output formats", k))
	}
}

func c15Reference(p *Prog, r *Report) {
	// exporter: constants stored into PackageExternalReference.RefType / Category
	exp := p.Func("converter", "ToSPDX23")
	imp := p.Func("extractor/filesystem/sbom/spdx", "Extractor.convertSpdxDocToPackage")
	if exp == nil || imp == nil {
		r.Undecided("D3-reference", "anchor:ToSPDX23/convertSpdxDocToPackage", "-", "not found")
		return
	}
	var refTypes []string
	nonConst := false
	forEachInstr(exp, func(_ *ssa.BasicBlock, _ int, in ssa.Instruction) {
		st, ok := in.(*ssa.Store)
		if !ok {
			return
		}
		if s, f, _, ok := fieldOf(st.Addr); ok && s == "PackageExternalReference" && f == "RefType" {
			if v, ok := constString(st.Val); ok {
				refTypes = append(refTypes, v)
			} else {
				nonConst = true
			}
		}
	})
	if nonConst || len(refTypes) == 0 {
		r.Undecided("D3-reference", "ToSPDX23:reftype", p.Pos(exp.Pos()), "the exported external reference type is not a constant")
		return
	}
	// importer: the call of purl.FromString, the constants its guard compares RefType with, and its argument
	var fs *ssa.Call
	forEachInstr(imp, func(_ *ssa.BasicBlock, _ int, in ssa.Instruction) {
		if c, ok := in.(*ssa.Call); ok && refOf(c.Common()).is(fp("purl"), "", "FromString") {
			fs = c
		}
	})
	if fs == nil {
		r.Fail("D3-reference", "convertSpdxDocToPackage:parse", p.Pos(imp.Pos()), "the SPDX importer does not parse package URLs with purl.FromString")
		return
	}
	// range element of PackageExternalReferences
	isRef := func(v ssa.Value) bool {
		n := namedOf(v.Type())
		return n != nil && n.Obj().Name() == "PackageExternalReference"
	}
	accepted := map[string]bool{}
	var refVal ssa.Value
	for _, b := range imp.Blocks {
		ifi := blockIf(b)
		if ifi == nil {
			continue
		}
		bo, ok := ifi.Cond.(*ssa.BinOp)
		if !ok || bo.Op != token.EQL {
			continue
		}
		s, isC := constString(bo.Y)
		if !isC {
			continue
		}
		st, f, base, ok := fieldOf(loadAddr(bo.X))
		if !ok || st != "PackageExternalReference" || f != "RefType" {
			continue
		}
		// true edge must be able to reach the parse without passing another RefType test... (it leads to the parse block)
		if reachesBlock(b.Succs[0], fs.Block(), b) {
			accepted[s] = true
			refVal = base
		}
	}
	for _, rt := range refTypes {
		r.Check(accepted[rt], "D3-reference", "ToSPDX23:reftype="+rt, p.Pos(exp.Pos()), "the importer's purl branch accepts this reference type", fmt.Sprintf("ToSPDX23 writes package URLs under reference type %q, which the importer's purl branch does not compare against (%v): every exported package is dropped on import", rt, keysOf(accepted)))
	}
	// the argument is the Locator of that same reference
	okArg := false
	if s, f, base, ok := fieldOf(loadAddr(fs.Call.Args[0])); ok && s == "PackageExternalReference" && f == "Locator" && isRef(base) && (refVal == nil || sameValue(base, refVal)) {
		okArg = true
	}
	r.Check(okArg, "D3-reference", "convertSpdxDocToPackage:parses-locator", p.Pos(fs.Pos()), "purl.FromString(extRef.Locator) of the reference being tested", "the SPDX importer parses something other than the locator of the reference whose type it tested")
	// exporter's Locator is p.String() — decided by C14 D4; here: the Category constant is the SPDX one
	forEachInstr(exp, func(_ *ssa.BasicBlock, _ int, in ssa.Instruction) {
		st, ok := in.(*ssa.Store)
		if !ok {
			return
		}
		if s, f, _, ok := fieldOf(st.Addr); ok && s == "PackageExternalReference" && f == "Category" {
			v, isC := constString(st.Val)
			r.Check(isC && (v == "PACKAGE-MANAGER" || v == "PACKAGE_MANAGER"), "D3-reference", "ToSPDX23:category", p.Pos(st.Pos()), "category "+v, "the purl reference is not written under the PACKAGE-MANAGER category the SPDX grammar requires for purl references")
		}
	})

	// CycloneDX importer: parses the component's own PackageURL
	ci := p.Func("extractor/filesystem/sbom/cdx", "convertComponentToInventory")
	if ci == nil {
		r.Undecided("D3-reference", "anchor:convertComponentToInventory", "-", "not found")
	} else {
		var c *ssa.Call
		forEachInstr(ci, func(_ *ssa.BasicBlock, _ int, in ssa.Instruction) {
			if cc, ok := in.(*ssa.Call); ok && refOf(cc.Common()).is(fp("purl"), "", "FromString") {
				c = cc
			}
		})
		okC := false
		if c != nil {
			if s, f, base, ok := fieldOf(loadAddr(c.Call.Args[0])); ok && s == "Component" && f == "PackageURL" {
				if rootParam(base) == ssa.Value(ci.Params[0]) {
					okC = true
				}
			}
		}
		r.Check(okC, "D3-reference", "convertComponentToInventory:parses-purl", p.Pos(ci.Pos()), "purl.FromString(component.PackageURL)", "the CycloneDX importer does not parse the PackageURL field of the component it converts")
		// enumerateComponents passes every component (including nested ones) to it
		if ec := p.Func("extractor/filesystem/sbom/cdx", "enumerateComponents"); ec != nil {
			okE := false
			for _, call := range callsTo(ec, fp("extractor/filesystem/sbom/cdx"), "", "convertComponentToInventory") {
				if rootParam(call.Common().Args[0]) == ssa.Value(ec.Params[0]) && inLoop(call.Block()) {
					okE = true
				}
			}
			r.Check(okE, "D3-reference", "enumerateComponents:each", p.Pos(ec.Pos()), "converts each element of its argument", "enumerateComponents does not convert the elements of the component list it is given")
			okN := false
			for _, call := range callsTo(ec, fp("extractor/filesystem/sbom/cdx"), "", "enumerateComponents") {
				a := call.Common().Args
				if s, f, _, ok := fieldOf(loadAddr(loadAddr(a[0]))); ok && s == "Component" && f == "Components" && rootParam(a[0]) == ssa.Value(ec.Params[0]) && inLoop(call.Block()) {
					if a[1] == ssa.Value(ec.Params[1]) {
						okN = true // the result list is shared through a pointer
						continue
					}
					// or threaded through: the list passed on is the one received (grown by append or
					// by earlier recursive calls) and what the call returns is what is returned
					appendOnly := deriveOpts{throughCall: func(c *ssa.CallCommon) bool { return refOf(c).is("builtin", "", "append") || c.StaticCallee() == ec }}
					cv, isV := call.(ssa.Value)
					if !isV || !derivesFrom(a[1], func(v ssa.Value) bool { return v == ssa.Value(ec.Params[1]) }, appendOnly) {
						continue
					}
					all := true
					for _, ret := range returnsOf(ec) {
						if len(ret.Results) != 1 || !derivesFrom(ret.Results[0], func(v ssa.Value) bool { return v == cv }, appendOnly) {
							all = false
						}
					}
					if all {
						okN = true
					}
				}
			}
			r.Check(okN, "D3-reference", "enumerateComponents:nested", p.Pos(ec.Pos()), "recurses into each element's nested components with the same result list", "enumerateComponents no longer descends into nested components (or collects them elsewhere)")
		}
	}
	// both SBOM extractors' ToPURL return Metadata.PURL unchanged
	for _, pkg := range []string{"spdx", "cdx"} {
		fn := p.Func("extractor/filesystem/sbom/"+pkg, "Extractor.ToPURL")
		if fn == nil {
			r.Undecided("D3-reference", "anchor:"+pkg+".ToPURL", "-", "not found")
			continue
		}
		okT := true
		n := 0
		for _, ret := range returnsOf(fn) {
			n++
			s, f, base, ok := fieldOf(loadAddr(retVal(ret, 0)))
			if !ok || s != "Metadata" || f != "PURL" {
				okT = false
				continue
			}
			ta, isTA := base.(*ssa.TypeAssert)
			if !isTA {
				okT = false
				continue
			}
			if s2, f2, b2, ok := fieldOf(loadAddr(ta.X)); !ok || s2 != "Package" || f2 != "Metadata" || b2 != ssa.Value(fn.Params[len(fn.Params)-1]) {
				okT = false
			}
		}
		r.Check(okT && n > 0, "D3-reference", pkg+":ToPURL-identity", p.Pos(fn.Pos()), "returns p.Metadata.(*Metadata).PURL", "sbom/"+pkg+".ToPURL does not hand back the parsed package URL it stored: what a re-scan reports differs from what the document says")
		// and the stored PURL is the address of the parsed result
		var conv *ssa.Function
		if pkg == "spdx" {
			conv = imp
		} else {
			conv = ci
		}
		if conv == nil {
			continue
		}
		okS, ns := true, 0
		forEachInstr(conv, func(_ *ssa.BasicBlock, _ int, in ssa.Instruction) {
			st, ok := in.(*ssa.Store)
			if !ok {
				return
			}
			if s, f, _, ok := fieldOf(st.Addr); ok && s == "Metadata" && f == "PURL" {
				ns++
				al, isA := st.Val.(*ssa.Alloc)
				if !isA {
					okS = false
					return
				}
				fromParse := false
				for _, v := range storesTo(al) {
					if c, idx := callValue(v); c != nil && idx == 0 && refOf(c.Common()).is(fp("purl"), "", "FromString") {
						fromParse = true
					} else {
						okS = false
					}
				}
				if !fromParse {
					okS = false
				}
			}
		})
		r.Check(okS && ns > 0, "D3-reference", pkg+":stores-parsed-url", p.Pos(conv.Pos()), "Metadata.PURL = &(result of purl.FromString)", "sbom/"+pkg+" stores something other than the parsed package URL into Metadata.PURL")
	}
}

func keysOf(m map[string]bool) []string {
	var out []string
	for k := range m {
		out = append(out, k)
	}
	sort.Strings(out)
	return out
}

// rootParam follows field/index/load chains to the root value.
func rootParam(v ssa.Value) ssa.Value {
	for d := 0; d < 12; d++ {
		switch x := v.(type) {
		case *ssa.UnOp:
			v = x.X
		case *ssa.FieldAddr:
			v = x.X
		case *ssa.Field:
			v = x.X
		case *ssa.IndexAddr:
			v = x.X
		case *ssa.Alloc:
			ss := storesTo(x)
			if len(ss) == 1 {
				v = ss[0]
			} else {
				return v
			}
		default:
			return v
		}
	}
	return v
}

func sameValue(a, b ssa.Value) bool {
	return a == b || renderValue(a, 0) == renderValue(b, 0)
}

// reachesBlock: target reachable from start without going through stop.
func reachesBlock(start, target, stop *ssa.BasicBlock) bool {
	seen := map[*ssa.BasicBlock]bool{stop: true}
	work := []*ssa.BasicBlock{start}
	for len(work) > 0 {
		b := work[len(work)-1]
		work = work[:len(work)-1]
		if b == target {
			return true
		}
		if seen[b] {
			continue
		}
		seen[b] = true
		work = append(work, b.Succs...)
	}
	return false
}

// fnSkips: like loopSkips but for a function body taken as one "iteration": the branch decisions
// after which no progress instruction can be reached while the sibling edge still can.
func fnSkips(fn *ssa.Function, progress func(ssa.Instruction) bool) []string {
	var out []string
	can := func(b *ssa.BasicBlock) bool {
		return findPath(Point{b, -1}, progress, nil, nil) != nil
	}
	for _, b := range fn.Blocks {
		ifi := blockIf(b)
		if ifi == nil {
			continue
		}
		c0, c1 := can(b.Succs[0]), can(b.Succs[1])
		if c0 == c1 {
			continue
		}
		k := 0
		if c0 {
			k = 1
		}
		out = append(out, renderSkipDecision(b, k))
	}
	sort.Strings(out)
	return out
}

func isAppendOf(elem string) func(ssa.Instruction) bool {
	named := func(t types.Type) bool {
		if pt, ok := t.(*types.Pointer); ok {
			t = pt.Elem()
		}
		n := namedOf(t)
		return n != nil && n.Obj().Name() == elem
	}
	return func(in ssa.Instruction) bool {
		switch x := in.(type) {
		case *ssa.Call:
			if !isCallTo(x, "builtin", "", "append") {
				return false
			}
			st, ok := x.Type().Underlying().(*types.Slice)
			return ok && named(st.Elem())
		case *ssa.Store:
			// s[i] = v: filling a pre-sized slice position by position collects just like append
			ia, ok := x.Addr.(*ssa.IndexAddr)
			if !ok {
				return false
			}
			st, ok := ia.X.Type().Underlying().(*types.Slice)
			return ok && named(st.Elem()) && types.Identical(st.Elem(), x.Val.Type())
		}
		return false
	}
}

// collectedValues: what an instruction matched by isAppendOf adds to the collection.
func collectedValues(in ssa.Instruction) []ssa.Value {
	switch x := in.(type) {
	case *ssa.Call:
		if len(x.Call.Args) > 1 {
			return flattenVariadic(x.Call.Args[1:])
		}
	case *ssa.Store:
		return []ssa.Value{x.Val}
	}
	return nil
}

func c15Omissions(p *Prog, r *Report) {
	defer func(d int, a bool) { renderDepth, renderAllocs = d, a }(renderDepth, renderAllocs)
	renderAllocs = true
	renderDepth = 10
	learn := os.Getenv("SCALINT_LEARN") != ""
	type site struct {
		rel, name string
		skips     func(fn *ssa.Function) []string
	}
	nonNilRet := func(in ssa.Instruction) bool {
		ret, ok := in.(*ssa.Return)
		return ok && len(ret.Results) > 0 && !isNilConst(retVal(ret, 0))
	}
	sites := []site{
		{"converter", "ToSPDX23", func(fn *ssa.Function) []string { return loopSkips(fn, isAppendOf("Package")) }},
		{"converter", "ToCDX", func(fn *ssa.Function) []string { return loopSkips(fn, isAppendOf("Component")) }},
		{"extractor/filesystem/sbom/spdx", "Extractor.convertSpdxDocToPackage", func(fn *ssa.Function) []string { return loopSkips(fn, isAppendOf("Package")) }},
		{"extractor/filesystem/sbom/cdx", "enumerateComponents", func(fn *ssa.Function) []string { return loopSkips(fn, isAppendOf("Package")) }},
		{"extractor/filesystem/sbom/cdx", "convertComponentToInventory", func(fn *ssa.Function) []string { return fnSkips(fn, nonNilRet) }},
		{"extractor/filesystem/sbom/cdx", "Extractor.convertCdxBomToPackage", func(fn *ssa.Function) []string {
			return fnSkips(fn, func(in ssa.Instruction) bool {
				return isCallTo(in, fp("extractor/filesystem/sbom/cdx"), "", "enumerateComponents")
			})
		}},
	}
	n := 0
	for _, s := range sites {
		fn := p.Func(s.rel, s.name)
		if fn == nil {
			r.Undecided("D4-omissions", "anchor:"+s.name, "-", "not found")
			continue
		}
		key := tableKey(c15Sanctioned, fn)
		sk := s.skips(fn)
		if learn {
			for _, x := range sk {
				fmt.Fprintf(os.Stderr, "LEARN\t%q: %q,\n", key, x)
			}
			continue
		}
		n++
		want := c15Sanctioned[key]
		got, wantN := map[string]int{}, map[string]int{}
		for _, x := range sk {
			got[x]++
		}
		for _, x := range want {
			wantN[x]++
		}
		if len(sk) == 0 && len(want) == 0 {
			r.OK("D4-omissions", key+":none", p.Pos(fn.Pos()), "every entry is carried over, no omission")
		}
		for x, c := range got {
			if _, audited := wantN[x]; !audited && c > 0 && !subsumedDecision(x, wantN, got) {
				r.Fail("D4-omissions", key+":new:"+short(x, 140), p.Pos(fn.Pos()), "a decision that leaves the current entry out of the result is not among the audited omissions: "+x+" (an export the importer filters, or an importer/exporter that filters on something other than the package URL, breaks the round trip)")
			} else {
				r.OK("D4-omissions", key+":"+short(x, 140), p.Pos(fn.Pos()), "audited omission")
			}
		}
		for x, c := range wantN {
			if got[x] < c {
				r.Fail("D4-omissions", key+":missing:"+short(x, 140), p.Pos(fn.Pos()), "the audited omission '"+x+"' is gone or was rewritten")
			}
		}
	}
	if !learn {
		r.Instances("D4-omissions", "export/import functions with an audited omission set", n, 6)
	}
}

func c15Supplier(p *Prog, r *Report) {
	n := 0
	for _, fn := range p.Funcs() {
		type lit struct {
			al     *ssa.Alloc
			fields map[string]ssa.Value
		}
		lits := map[*ssa.Alloc]*lit{}
		var order []*ssa.Alloc
		forEachInstr(fn, func(_ *ssa.BasicBlock, _ int, in ssa.Instruction) {
			st, ok := in.(*ssa.Store)
			if !ok {
				return
			}
			s, f, base, ok := fieldOf(st.Addr)
			if !ok || (s != "Supplier" && s != "Originator") {
				return
			}
			if nm := namedOf(st.Addr.(*ssa.FieldAddr).X.Type()); nm == nil || nm.Obj().Pkg() == nil || !strings.HasPrefix(nm.Obj().Pkg().Path(), toolsGolang) {
				return
			}
			al, isA := base.(*ssa.Alloc)
			if !isA {
				r.Undecided("D5-supplier-shape", fnKey(fn)+":"+s, p.Pos(st.Pos()), "field of a "+s+" that is not a literal is written")
				return
			}
			if lits[al] == nil {
				lits[al] = &lit{al, map[string]ssa.Value{}}
				order = append(order, al)
			}
			lits[al].fields[f] = st.Val
		})
		for i, al := range order {
			l := lits[al]
			n++
			kind := "Supplier"
			if _, ok := l.fields["Originator"]; ok {
				kind = "Originator"
			}
			if _, ok := l.fields["OriginatorType"]; ok {
				kind = "Originator"
			}
			site := fmt.Sprintf("%s:%s#%d", fnKey(fn), kind, i)
			get := func(f string) (string, bool) {
				v, ok := l.fields[f]
				if !ok {
					return "", true
				}
				c, isC := v.(*ssa.Const)
				if !isC || c.Value == nil || c.Value.Kind() != constant.String {
					return "", false
				}
				return constant.StringVal(c.Value), true
			}
			val, ok1 := get(kind)
			typ, ok2 := get(kind + "Type")
			if !ok1 || !ok2 {
				r.Undecided("D5-supplier-shape", site, p.Pos(al.Pos()), kind+" literal with non-constant fields")
				continue
			}
			good := val == "" || typ == "Person" || typ == "Organization" || (val == "NOASSERTION" && typ == "")
			r.Check(good, "D5-supplier-shape", site, p.Pos(al.Pos()), fmt.Sprintf("%s{%q, type %q}", kind, val, typ),
				fmt.Sprintf("%s{%s: %q, %sType: %q}: the tag-value writer emits 'Package%s: %s: %s', which the tag-value reader rejects (a %s is NOASSERTION or '<Person|Organization>: name'): every spdx23-tag-value export fails to import", kind, kind, val, kind, typ, kind, typ, val, strings.ToLower(kind)))
		}
	}
	r.Instances("D5-supplier-shape", "Supplier/Originator literals", n, 2)
}
