package main

import (
	"fmt"
	"go/token"
	"go/types"
	"regexp"
	"sort"
	"strings"

	"golang.org/x/tools/go/ssa"
)

func init() {
	register(&PropDef{
		ID:       "C07",
		Patterns: []string{"./semantic"},
		Explain: "Decided: D1 panic-freedom discipline over every function of package semantic — each index and slice expression is proved in bounds from dominating checks, API contracts (strings.Split/Index, regexp sub-match counts of the constant patterns, loop counters) and call-site facts of unexported helpers, or is a site audited by reading with a stated data invariant (and, where the invariant rests on a specific guard, a machine-checked witness for it); " +
			"results whose ok/err companion is discarded (big.Int.SetString) must be audited the same way; single-value type assertions are not allowed; " +
			"D2 dispatch/parse agreement — for every ecosystem case of Parse the returned concrete type's CompareStr re-parses its argument with the same parse function and forwards that function's error; MustParse panics only on Parse's error; " +
			"D3 operand mirror — every comparison in a comparator between values rooted at the two operands uses the same access path on both sides; D4 mirrored branches of a comparator return negated constants, self-mirrored conditions return 0. " +
			"Added in round 2: D5 numeric components are never parsed with fixed-width strconv parsing (every numeric test goes through big.Int). Added in round 3: D6 a test made on one operand of a comparator is also made on the other; no multi-character or computed cutset trimming. Added in round 7: D7 character classes — the sets of character codes per outcome of the classifiers (isASCIILetter, isASCIIDigit, shouldBeTrimmed, the Debian digit-prefix closure, weighDebianChar), computed by abstract interpretation over interval sets, equal the audited sets. Added in round 8: D2 additionally: the parser each ecosystem name dispatches to in semantic.Parse is the audited one (16 names). NOT decided: antisymmetry, reflexivity, transitivity and agreement with the ecosystems' published orderings as such (value-level); the mirror/shape rules are necessary conditions only.",
		Assume: []string{"audited sites (listed in evidence with reason) are safe by a data invariant that this analysis does not prove"},
		Run:    runC07,
		Controls: []Mutant{
			{Name: "fetch-guard-removed", File: "semantic/utilities.go", Old: "	if len(slice) <= i {\n		return def\n	}\n", New: "", Rule: "D1-bounds", Site: "semantic.fetch"},
			{Name: "cran-ok-dropped", File: "semantic/version-cran.go", Old: "		v, ok := new(big.Int).SetString(s, 10)\n		if !ok {\n			// Not a number (e.g. empty): a nil component would panic when compared.\n			v = big.NewInt(0)\n		}\n", New: "		v, _ := new(big.Int).SetString(s, 10)\n", Rule: "D1-discarded-ok", Site: "parseCRANVersion"},
			{Name: "semver-digit-test-replaced", File: "semantic/version-semver-like.go", Old: "		if semverIsDigit.MatchString(string(c)) {", New: "		if c >= '0' && c <= '9' || c == '٣' {", Rule: "D1-discarded-ok", Site: "parseSemverLike"},
			{Name: "pypi-nil-match-test-removed", File: "semantic/version-pypi.go", Old: "	if len(match) == 0 {\n		return parsePyPILegacyVersion(str), nil\n	}\n", New: "", Rule: "D1-bounds", Site: "parsePyPIVersion"},
			{Name: "comparestr-drops-error", File: "semantic/version-debian.go", Old: "	w, err := parseDebianVersion(str)\n\n	if err != nil {\n		return 0, err\n	}\n\n	return v.compare(w)", New: "	w, _ := parseDebianVersion(str)\n\n	return v.compare(w)", Rule: "D2-parse-agreement", Site: "debianVersion"},
			{Name: "comparestr-other-parser", File: "semantic/version-packagist.go", Old: "	return v.compare(parsePackagistVersion(str)), nil", New: "	return v.compare(packagistVersion{Original: str, Components: strings.Split(str, \".\")}), nil", Rule: "D2-parse-agreement", Site: "packagistVersion"},
			{Name: "mirror-broken", File: "semantic/version-redhat.go", Old: "	if diff := compareRedHatComponents(v.release, w.release); diff != 0 {", New: "	if diff := compareRedHatComponents(v.release, w.version); diff != 0 {", Rule: "D3-mirror", Site: "redHatVersion"},
			{Name: "branch-sign-flipped", File: "semantic/version-pypi.go", Old: "	case pv.pre.number == nil:\n		return +1\n	case pw.pre.number == nil:\n		return -1", New: "	case pv.pre.number == nil:\n		return +1\n	case pw.pre.number == nil:\n		return +1", Rule: "D4-mirrored-branches", Site: "comparePre"},
			{Name: "packagist-trailing-component-atoi", File: "semantic/version-packagist.go", Old: "		next := a[len(b)]\n\n		if _, err := convertToBigInt(next); err == nil {", New: "		next := a[len(b)]\n\n		if _, err := strconv.Atoi(next); err == nil {", Old2: "import (\n", New2: "import (\n	\"strconv\"\n", Rule: "D5-arbitrary-precision", Site: "comparePackagistComponents"},
			{Name: "alpine-guard-one-sided", File: "semantic/version-alpine.go", Old: "	if anc.index != 0 && b.index != 0 {", New: "	if anc.index != 0 {", Rule: "D6-symmetric-guards", Site: "alpineNumberComponent.Cmp"},
		},
	})
}

type auditEntry struct {
	reason string
	needs  []string // "call:<callee>" must be called in the function; "regex:<global>=<pattern>"
}

func plainAudit(m map[string]string) map[string]auditEntry {
	out := map[string]auditEntry{}
	for k, v := range m {
		out[k] = auditEntry{reason: v}
	}
	return out
}

var auditedC07 = map[string]auditEntry{
	"semantic.alpineNumberComponent.Cmp:anc.original[0]":          {reason: "components come from parseAlpineNumberComponents (each is a non-empty digit run accepted by convertToBigInt) or from Fetch's default \"0\""},
	"semantic.alpineNumberComponent.Cmp:b.original[0]":            {reason: "same invariant as anc.original[0]"},
	"semantic.compareRedHatComponents:a[ai:]":                     {reason: "loop invariant ai <= len(a): ai only grows under ai < len(a) or while ranging over a[ai:]"},
	"semantic.compareRedHatComponents:b[bi:]":                     {reason: "loop invariant bi <= len(b), as for ai"},
	"semantic.compareRedHatComponents:a[ai]":                      {reason: "reached only after 'ai == len(a) || bi == len(b)' was false, with invariant ai <= len(a)"},
	"semantic.mavenVersion.lessThan:mw.tokens[i]":                 {reason: "i < max(len(mv.tokens), len(mw.tokens)) and i >= len(mv.tokens) imply i < len(mw.tokens) (max is not a difference constraint)"},
	"semantic.mavenVersion.lessThan:mv.tokens[i]":                 {reason: "symmetric case: i >= len(mw.tokens) implies i < len(mv.tokens)"},
	"semantic.newMavenVersion:rawTokens[i][prevIndex:transition]": {reason: "transitions are ascending offsets inside rawTokens[i] produced by mavenFindTransitions plus len(rawTokens[i]); prevIndex is the previous one", needs: []string{"call:semantic.mavenFindTransitions"}},
	"semantic.newMavenVersion:tokens[:i]":                         {reason: "trim loop: 0 < i <= len(tokens)-1 is maintained (i starts at len-1, only decreases; tokens shrinks by one exactly when i decreases)"},
	"semantic.newMavenVersion:tokens[i + 1:]":                     {reason: "same trim-loop invariant i <= len(tokens)-1"},
	"semantic.newMavenVersion:tokens[i]":                          {reason: "same trim-loop invariant; inner loop tests i >= 0 first"},
	"semantic.pyPIVersion.comparePre:pv.pre.letter[0]":            {reason: "default case is reached only with pre.number != nil; parseLetterVersion sets a non-empty letter whenever it sets a number", needs: []string{}},
	"semantic.pyPIVersion.comparePre:pw.pre.letter[0]":            {reason: "same invariant as pv.pre.letter[0]"},
	"semantic.removeZeros:segs[:max(i, 0)]":                       {reason: "i starts at len(segs)-1, is only decremented, and incremented once right before break: i <= len(segs)"},
}

// discarded-ok sites: value, _ := f(...) where failure yields nil and the value is stored/used.
var auditedC07OK = map[string]auditEntry{
	"semantic.parseSemverLike:SetString": {reason: "the argument is built only from runes c with semverIsDigit.MatchString(string(c)), i.e. ASCII digits, which SetString(_, 10) always accepts",
		needs: []string{"call:regexp.Regexp.MatchString", "regex:semverIsDigit=\\d"}},
}

func runC07(p *Prog, r *Report) {
	r.Rule("D6-symmetric-guards", "a test made on one operand of a comparator is also made on the other")
	r.Rule("D7-char-classes", "character classes of the comparators (letters, digits, trimmed characters) are the audited sets of codes")
	c07CharClasses(p, r, "D7-char-classes")
	c07ParseDispatch(p, r, "D2-parse-agreement")
	r.Rule("D5-arbitrary-precision", "numeric components are never parsed with fixed-width integer parsing")
	c07Precision(p, r)
	cutsetDiscipline(p, r, "D5-arbitrary-precision", "semantic")
	r.Rule("D1-bounds", "index/slice expressions proved in bounds or audited with invariant")
	r.Rule("D1-discarded-ok", "no nil-on-failure result used with its ok/err discarded")
	r.Rule("D1-assert", "no single-value type assertion")
	r.Rule("D2-parse-agreement", "CompareStr re-parses with the parser Parse used and forwards its error")
	r.Rule("D3-mirror", "comparators compare the same key of both operands")
	r.Rule("D4-mirrored-branches", "mirrored branches return negated constants")
	np, nu := 0, 0
	fns := p.FuncsIn("semantic")
	for _, fn := range fns {
		a, b := checkBoundsA(p, r, "D1-bounds", fn, auditedC07)
		np += a
		nu += b
		checkDiscardedOK(p, r, "D1-discarded-ok", fn, auditedC07OK)
		checkAsserts(p, r, "D1-assert", fn, nil)
	}
	r.Instances("D1-bounds", "index/slice sites in package semantic", np+nu+len(auditedC07), 60)
	r.Count("bounds sites proved", np)
	c07ParseAgreement(p, r)
	c07Mirror(p, r, fns)
	r.Rule("D7-history-free", "parsing and comparing depend on the operands only: no process-wide mutable state")
	noSharedMutableState(p, r, "D7-history-free", "a cache of parsed versions or of comparison results shared between ecosystems makes compare(a, b) depend on earlier calls", fns, "semantic")
}

// checkBoundsA is checkBounds with audit entries that may carry machine-checked witnesses.
func checkBoundsA(p *Prog, r *Report, rule string, fn *ssa.Function, audited map[string]auditEntry) (int, int) {
	plain := map[string]string{}
	key := fnKey(fn)
	for k, e := range audited {
		if !strings.HasPrefix(k, key+":") {
			continue
		}
		if why := auditWitnessMissing(p, fn, e); why != "" {
			// the witness the audit rests on is gone: the entry no longer applies
			continue
		}
		plain[k] = e.reason
	}
	return checkBounds(p, r, rule, fn, plain)
}

// auditWitnessMissing returns "" when all witnesses of the entry are present in fn.
func auditWitnessMissing(p *Prog, fn *ssa.Function, e auditEntry) string {
	for _, n := range e.needs {
		switch {
		case strings.HasPrefix(n, "call:"):
			want := n[5:]
			found := false
			for _, f := range withAnon(fn) {
				forEachInstr(f, func(_ *ssa.BasicBlock, _ int, in ssa.Instruction) {
					if c := callOf(in); c != nil && refOf(c).String() == want {
						found = true
					}
				})
			}
			if !found {
				return "no call of " + want
			}
		case strings.HasPrefix(n, "regex:"):
			kv := strings.SplitN(n[6:], "=", 2)
			ok := false
			if pk := fn.Pkg; pk != nil {
				if g, isG := pk.Members[kv[0]].(*ssa.Global); isG {
					c := newBoundsCtx(p, fn)
					// build a load of the global to reuse regexPattern
					pat, found := c.regexPatternOfGlobal(g)
					ok = found && pat == kv[1]
				}
			}
			if !ok {
				return "pattern of " + kv[0] + " changed"
			}
		}
	}
	return ""
}

func (c *boundsCtx) regexPatternOfGlobal(gl *ssa.Global) (string, bool) {
	res, ok := "", false
	cnt := 0
	for _, m := range gl.Pkg.Members {
		f, isF := m.(*ssa.Function)
		if !isF {
			continue
		}
		for _, fn := range withAnon(f) {
			forEachInstr(fn, func(_ *ssa.BasicBlock, _ int, in ssa.Instruction) {
				st, isSt := in.(*ssa.Store)
				if !isSt || st.Addr != ssa.Value(gl) {
					return
				}
				cnt++
				if cl, isC := st.Val.(*ssa.Call); isC && f.Name() == "init" {
					rf := refOf(cl.Common())
					if rf.Pkg == "regexp" && (rf.Name == "MustCompile" || rf.Name == "MustCompilePOSIX") {
						res, ok = constString(cl.Call.Args[0])
					}
				}
			})
		}
	}
	return res, ok && cnt == 1
}

// checkDiscardedOK: calls returning (T, bool|error) with T nilable whose second result is never
// read while the first is used.
func checkDiscardedOK(p *Prog, r *Report, rule string, fn *ssa.Function, audited map[string]auditEntry) {
	key := fnKey(fn)
	forEachInstr(fn, func(_ *ssa.BasicBlock, _ int, in ssa.Instruction) {
		c, ok := in.(*ssa.Call)
		if !ok {
			return
		}
		tup, ok := c.Type().(*types.Tuple)
		if !ok || tup.Len() != 2 {
			return
		}
		t0, t1 := tup.At(0).Type(), tup.At(1).Type()
		isOK := false
		if b, ok := t1.Underlying().(*types.Basic); ok && b.Kind() == types.Bool {
			isOK = true
		}
		if t1.String() == "error" {
			isOK = true
		}
		if !isOK {
			return
		}
		switch t0.Underlying().(type) {
		case *types.Pointer, *types.Interface, *types.Map:
		default:
			return
		}
		used0, used1 := false, false
		for _, ref := range *c.Referrers() {
			if ex, ok := ref.(*ssa.Extract); ok {
				if len(*ex.Referrers()) == 0 {
					continue
				}
				if ex.Index == 0 {
					used0 = true
				} else {
					used1 = true
				}
			}
		}
		if !used0 || used1 {
			return
		}
		rf := refOf(c.Common())
		site := key + ":" + rf.Name
		pos := p.Pos(c.Pos())
		if e, ok := audited[site]; ok {
			if why := auditWitnessMissing(p, fn, e); why == "" {
				r.Audit(rule, site, pos, e.reason)
				return
			} else {
				r.Fail(rule, site, pos, "the "+rf.String()+" result is used with its ok/err result discarded, and the guard that made this safe is gone ("+why+"): on failure the nil value is stored and later dereferenced")
				return
			}
		}
		r.Fail(rule, site, pos, "the "+rf.String()+" result is used while its ok/err result is discarded: on failure the value is nil (or a zero the caller cannot distinguish) and is dereferenced later")
	})
}

// checkAsserts: single-value type assertions (panic on mismatch) must be in the allowed set.
func checkAsserts(p *Prog, r *Report, rule string, fn *ssa.Function, allowed func(*ssa.TypeAssert) (bool, string)) int {
	n := 0
	key := fnKey(fn)
	forEachInstr(fn, func(_ *ssa.BasicBlock, _ int, in ssa.Instruction) {
		ta, ok := in.(*ssa.TypeAssert)
		if !ok || ta.CommaOk {
			return
		}
		if !ta.Pos().IsValid() {
			return // compiler-generated (type switch lowering)
		}
		n++
		site := key + ":assert:" + types.TypeString(ta.AssertedType, func(p *types.Package) string { return p.Name() })
		if allowed != nil {
			if ok, why := allowed(ta); ok {
				r.OK(rule, site, p.Pos(ta.Pos()), why)
				return
			}
		}
		r.Fail(rule, site, p.Pos(ta.Pos()), "single-value type assertion panics when the dynamic type differs; nothing establishes the dynamic type here")
	})
	return n
}

func c07ParseAgreement(p *Prog, r *Report) {
	parse := p.Func("semantic", "Parse")
	if parse == nil {
		r.Undecided("D2-parse-agreement", "anchor:semantic.Parse", "-", "not found")
		return
	}
	type row struct {
		typ types.Type
		pf  *ssa.Function
		pos token.Pos
	}
	rows := map[string]row{}
	for _, ret := range returnsOf(parse) {
		v := retVal(ret, 0)
		mi, ok := v.(*ssa.MakeInterface)
		if !ok {
			continue
		}
		call, _ := callValue(mi.X)
		if call == nil || call.Call.StaticCallee() == nil {
			r.Undecided("D2-parse-agreement", "Parse:return@"+mi.X.Type().String(), p.Pos(ret.Pos()), "the version returned is not the direct result of a parse function")
			continue
		}
		rows[mi.X.Type().String()] = row{mi.X.Type(), call.Call.StaticCallee(), ret.Pos()}
		// argument is Parse's str
		r.Check(call.Call.Args[0] == ssa.Value(parse.Params[0]), "D2-parse-agreement", "Parse:arg:"+call.Call.StaticCallee().Name(), p.Pos(ret.Pos()), "parses the given string", "Parse does not hand its input string to "+call.Call.StaticCallee().Name())
		// error forwarded
		if tup, ok := call.Type().(*types.Tuple); ok && tup.Len() == 2 {
			fw := false
			for _, l := range errLeaves(retVal(ret, 1)) {
				if ex, ok := l.(*ssa.Extract); ok && ex.Tuple == ssa.Value(call) {
					fw = true
				}
			}
			r.Check(fw, "D2-parse-agreement", "Parse:err:"+call.Call.StaticCallee().Name(), p.Pos(ret.Pos()), "parse error forwarded", "Parse drops the error of "+call.Call.StaticCallee().Name())
		}
	}
	r.Instances("D2-parse-agreement", "concrete version types returned by Parse", len(rows), 9)
	var names []string
	for k := range rows {
		names = append(names, k)
	}
	sort.Strings(names)
	for _, k := range names {
		rw := rows[k]
		site := rel(k)
		if n := namedOf(rw.typ); n != nil {
			site = n.Obj().Name()
		}
		cs := p.methodOf(rw.typ, "CompareStr")
		if cs == nil {
			r.Fail("D2-parse-agreement", site+":CompareStr", p.Pos(rw.pos), "type returned by Parse has no CompareStr")
			continue
		}
		var call *ssa.Call
		forEachInstr(cs, func(_ *ssa.BasicBlock, _ int, in ssa.Instruction) {
			if c, ok := in.(*ssa.Call); ok && c.Call.StaticCallee() == rw.pf {
				call = c
			}
		})
		if call == nil {
			r.Fail("D2-parse-agreement", site+":same-parser", p.Pos(cs.Pos()), fmt.Sprintf("%s.CompareStr does not parse its argument with %s, the function Parse uses for this ecosystem: a string may be accepted by one and rejected or read differently by the other", site, rw.pf.Name()))
			continue
		}
		strParam := cs.Params[len(cs.Params)-1]
		r.Check(call.Call.Args[0] == ssa.Value(strParam), "D2-parse-agreement", site+":same-parser", p.Pos(call.Pos()), "CompareStr parses its argument with "+rw.pf.Name(), "CompareStr does not parse the string it was given")
		if tup, ok := call.Type().(*types.Tuple); ok && tup.Len() == 2 {
			isErr := func(v ssa.Value) bool {
				ex, ok := v.(*ssa.Extract)
				return ok && ex.Tuple == ssa.Value(call) && ex.Index == 1
			}
			holds, _ := guardEdges(cs, condNonNil(isErr))
			okk := len(holds) > 0
			fa := newFA(p, r, cs)
			for _, ed := range holds {
				w := findPath(edgeStart(ed), func(in ssa.Instruction) bool {
					ret, ok := in.(*ssa.Return)
					if !ok {
						return false
					}
					for _, l := range errLeaves(retVal(ret, 1)) {
						if isErr(l) {
							return false
						}
					}
					return true
				}, nil, nil)
				if w != nil {
					okk = false
				}
			}
			_ = fa
			r.Check(okk, "D2-parse-agreement", site+":error-forwarded", p.Pos(call.Pos()), "parse error returned", site+".CompareStr drops the parse error: an invalid version string is compared as if it were valid (nil fields are dereferenced or garbage is ordered)")
		}
	}
	// MustParse
	mp := p.Func("semantic", "MustParse")
	if mp == nil {
		r.Undecided("D2-parse-agreement", "anchor:MustParse", "-", "not found")
		return
	}
	var pc *ssa.Call
	forEachInstr(mp, func(_ *ssa.BasicBlock, _ int, in ssa.Instruction) {
		if c, ok := in.(*ssa.Call); ok && c.Call.StaticCallee() == parse {
			pc = c
		}
	})
	if pc == nil {
		r.Fail("D2-parse-agreement", "MustParse:calls-Parse", p.Pos(mp.Pos()), "MustParse does not call Parse")
		return
	}
	fa := newFA(p, r, mp)
	forEachInstr(mp, func(_ *ssa.BasicBlock, _ int, in ssa.Instruction) {
		if pn, ok := in.(*ssa.Panic); ok {
			g, n := fa.guarded(pn, true, condNonNil(func(v ssa.Value) bool {
				ex, ok := v.(*ssa.Extract)
				return ok && ex.Tuple == ssa.Value(pc) && ex.Index == 1
			}))
			r.Check(n > 0 && g, "D2-parse-agreement", "MustParse:panic-only-on-error", p.Pos(pn.Pos()), "panics only when Parse failed", "MustParse can panic although Parse succeeded")
		}
	})
}

// comparator detection: functions/methods whose first two value operands have the same named type
// and that return int or bool.
func comparatorOperands(fn *ssa.Function) (a, b ssa.Value, ok bool) {
	if len(fn.Params) < 2 || fn.Signature.Results().Len() == 0 {
		return nil, nil, false
	}
	res := fn.Signature.Results().At(0).Type()
	bt, isB := res.Underlying().(*types.Basic)
	if !isB || (bt.Info()&types.IsInteger == 0 && bt.Kind() != types.Bool) {
		return nil, nil, false
	}
	pa, pb := fn.Params[0], fn.Params[1]
	if !types.Identical(pa.Type(), pb.Type()) {
		// method with pointer receiver vs value arg
		ta, tb := pa.Type(), pb.Type()
		if p, ok := ta.(*types.Pointer); ok {
			ta = p.Elem()
		}
		if p, ok := tb.(*types.Pointer); ok {
			tb = p.Elem()
		}
		if !types.Identical(ta, tb) {
			return nil, nil, false
		}
	}
	if namedOf(pa.Type()) == nil {
		if b, ok := pa.Type().Underlying().(*types.Basic); !ok || b.Kind() != types.String {
			return nil, nil, false
		}
	}
	if len(fn.Params) > 2 {
		return nil, nil, false
	}
	return pa, pb, true
}

func c07Mirror(p *Prog, r *Report, fns []*ssa.Function) {
	n := 0
	for _, fn := range fns {
		if fn.Parent() != nil {
			continue
		}
		a, b, ok := comparatorOperands(fn)
		if !ok {
			continue
		}
		n++
		checkMirror(p, r, "D3-mirror", fn, a, b)
		checkMirroredBranches(p, r, "D4-mirrored-branches", fn, a, b)
		checkSymmetricGuards(p, r, "D6-symmetric-guards", fn, a, b)
	}
	r.Instances("D3-mirror", "comparator functions in package semantic", n, 20)
}

// checkMirroredBranches: returns of integer constants whose dominating conditions are pure
// expressions over the two operands; the constant returned under the mirror image of a condition
// set must be the negation.
func checkMirroredBranches(p *Prog, r *Report, rule string, fn *ssa.Function, a, b ssa.Value) {
	roots := map[ssa.Value]string{a: "A", b: "B"}
	type br struct {
		parts, mparts map[string]bool
		sig           string
		k             int64
		pos           token.Pos
	}
	var brs []br
	for _, ret := range returnsOf(fn) {
		v := retVal(ret, 0)
		k, isK := constInt(v)
		if !isK {
			continue
		}
		conds := dominatingConds(ret.Block())
		if len(conds) == 0 {
			continue
		}
		// completeness: every If on the dominator chain must have contributed its decision
		nIf := 0
		for I := ret.Block().Idom(); I != nil; I = I.Idom() {
			if blockIf(I) != nil && !shortCircuitIf(I) {
				nIf++
			}
		}
		if nIf != len(conds) {
			continue
		}
		b := br{parts: map[string]bool{}, mparts: map[string]bool{}, k: k, pos: ret.Pos()}
		okAll := true
		var ps []string
		for _, cd := range conds {
			s, m, ok := renderCond(cd.cond, cd.val, roots)
			if !ok {
				okAll = false
				break
			}
			b.parts[s] = true
			b.mparts[m] = true
			ps = append(ps, s)
		}
		if !okAll {
			continue
		}
		sort.Strings(ps)
		b.sig = strings.Join(ps, " && ")
		brs = append(brs, b)
	}
	subset := func(a, b map[string]bool) bool {
		for k := range a {
			if !b[k] {
				return false
			}
		}
		return true
	}
	key := fnKey(fn)
	for i, x := range brs {
		if subset(x.mparts, x.parts) && subset(x.parts, x.mparts) {
			r.Check(x.k == 0, rule, fmt.Sprintf("%s:self-mirror(%s)", key, short(x.sig, 80)), p.Pos(x.pos), "symmetric condition returns 0", fmt.Sprintf("a branch whose condition is symmetric in the two operands returns %d instead of 0: compare(a,b) and compare(b,a) cannot be negations of each other", x.k))
			continue
		}
		for j, y := range brs {
			if j == i {
				continue
			}
			// whenever y fires on (a,b), x's conditions hold on (b,a)
			if subset(x.mparts, y.parts) && j > i {
				r.Check(x.k == -y.k, rule, fmt.Sprintf("%s:pair(%s)", key, short(x.sig, 80)), p.Pos(y.pos), fmt.Sprintf("mirrored branches return %d / %d", x.k, y.k),
					fmt.Sprintf("the branch under [%s] returns %d but the branch under the mirror image of those conditions [%s] returns %d: compare(a,b) is not the negation of compare(b,a)", x.sig, x.k, y.sig, y.k))
			}
		}
	}
}

// renderCond renders a condition over the operand roots and its mirror image (roots swapped).
func renderCond(cond ssa.Value, val bool, roots map[ssa.Value]string) (string, string, bool) {
	s, ok := renderBool(cond, roots, 0)
	if !ok || !strings.Contains(s, "|") {
		return "", "", false
	}
	mroots := map[ssa.Value]string{}
	for k, v := range roots {
		if v == "A" {
			mroots[k] = "B"
		} else {
			mroots[k] = "A"
		}
	}
	m, _ := renderBool(cond, mroots, 0)
	if !val {
		return "!(" + s + ")", "!(" + m + ")", true
	}
	return s, m, true
}

// renderBool renders a boolean expression canonically (operands of symmetric operators sorted,
// a>b written as b<a, short-circuit phis expanded).
func renderBool(v ssa.Value, roots map[ssa.Value]string, d int) (string, bool) {
	if d > 6 {
		return "", false
	}
	render := func(x ssa.Value) (string, bool) {
		rt, pth, ok := accessPath(x, roots, 0)
		if !ok {
			return "", false
		}
		if rt == "" {
			return pth, true
		}
		return rt + "|" + pth, true
	}
	switch x := v.(type) {
	case *ssa.UnOp:
		if x.Op == token.NOT {
			s, ok := renderBool(x.X, roots, d+1)
			return "!(" + s + ")", ok
		}
	case *ssa.BinOp:
		switch x.Op {
		case token.EQL, token.NEQ, token.LSS, token.GTR, token.LEQ, token.GEQ:
			l, ok1 := render(x.X)
			r, ok2 := render(x.Y)
			if !ok1 || !ok2 {
				return "", false
			}
			op := x.Op
			if op == token.GTR || op == token.GEQ {
				l, r, op = r, l, swapOp(op)
			}
			if (op == token.EQL || op == token.NEQ) && l > r {
				l, r = r, l
			}
			return l + " " + op.String() + " " + r, true
		}
		return "", false
	case *ssa.Phi:
		// short-circuit: phi [const, v] where the const edge comes from a block ending in If
		if len(x.Edges) == 2 {
			for i := 0; i < 2; i++ {
				cb, isC := constBool(x.Edges[i])
				if !isC {
					continue
				}
				pred := x.Block().Preds[i]
				ifi := blockIf(pred)
				if ifi == nil {
					continue
				}
				l, ok1 := renderBool(ifi.Cond, roots, d+1)
				r, ok2 := renderBool(x.Edges[1-i], roots, d+1)
				if !ok1 || !ok2 {
					return "", false
				}
				if l > r {
					l, r = r, l
				}
				if cb { // ||
					return "(" + l + " || " + r + ")", true
				}
				return "(" + l + " && " + r + ")", true
			}
		}
		return "", false
	}
	return render(v)
}

// shortCircuitIf: the If of block b is the first operand of a && / || whose value is a phi.
func shortCircuitIf(b *ssa.BasicBlock) bool {
	for _, s := range b.Succs {
		for _, in := range s.Instrs {
			ph, ok := in.(*ssa.Phi)
			if !ok {
				break
			}
			for i, pred := range s.Preds {
				if pred == b {
					if _, isC := constBool(ph.Edges[i]); isC {
						return true
					}
				}
			}
		}
	}
	return false
}

// c07Precision: version components are arbitrarily long digit strings; every numeric test and
// numeric comparison in package semantic goes through big.Int (convertToBigInt / SetString).
// strconv.Atoi / ParseInt / ParseUint / ParseFloat fail (or lose precision) beyond 64 bits, so a
// site that uses them classifies a long number differently from the sites that use big.Int: the same
// component is a number at one position and a word at another, which breaks transitivity
// (1.99999999999999999999 == 1, 1 < 1.5, 1.99999999999999999999 > 1.5).
func c07Precision(p *Prog, r *Report) {
	n, nbig := 0, 0
	for _, fn := range p.FuncsIn("semantic") {
		forEachInstr(fn, func(_ *ssa.BasicBlock, _ int, in ssa.Instruction) {
			c := callOf(in)
			if c == nil {
				return
			}
			rf := refOf(c)
			if rf.Pkg == "math/big" && rf.Name == "SetString" {
				nbig++
			}
			if rf.Pkg != "strconv" {
				return
			}
			switch rf.Name {
			case "Atoi", "ParseInt", "ParseUint", "ParseFloat":
				n++
				r.Fail("D5-arbitrary-precision", fnKey(fn)+":strconv."+rf.Name, p.Pos(in.Pos()), "a version component is parsed with strconv."+rf.Name+": components longer than 64 bits are rejected here but accepted by the big.Int parsing used elsewhere, so long numeric components are classified inconsistently and the ordering stops being transitive")
			}
		})
	}
	if n == 0 {
		r.OK("D5-arbitrary-precision", "semantic:no-fixed-width-parse", "-", "no strconv integer/float parsing in package semantic")
	}
	r.Instances("D5-arbitrary-precision", "big.Int parsing sites in package semantic", nbig, 3)
}

// checkSymmetricGuards: in a comparator every branch condition that looks at one operand only
// (a field / element / pure call of a compared against a constant, nil or a length) has a twin that
// makes the same test on the other operand somewhere in the function. A guard that exists for one
// side only makes compare(a, b) and compare(b, a) take different branches for the same pair, which
// breaks antisymmetry (e.g. a trailing-zero rule applied only when the receiver has an index).
func checkSymmetricGuards(p *Prog, r *Report, rule string, fn *ssa.Function, a, b ssa.Value) {
	roots := map[ssa.Value]string{a: "A", b: "B"}
	seen := map[string]map[string]bool{} // test -> roots
	pos := map[string]token.Pos{}
	// the tests of a branch: its condition, and — when `a && b` was compiled to a boolean phi (a case of
	// a tagless switch, a condition bound to a local) — the operands that phi merges
	var operands func(v ssa.Value, d int) []ssa.Value
	operands = func(v ssa.Value, d int) []ssa.Value {
		inner, _ := stripNot(v)
		ph, isPhi := inner.(*ssa.Phi)
		if !isPhi || d > 3 {
			return []ssa.Value{inner}
		}
		var out []ssa.Value
		for _, e := range ph.Edges {
			if _, isC := e.(*ssa.Const); isC {
				continue
			}
			out = append(out, operands(e, d+1)...)
		}
		return out
	}
	type condAt struct {
		v   ssa.Value
		pos token.Pos
	}
	var conds []condAt
	for _, blk := range fn.Blocks {
		ifi := blockIf(blk)
		if ifi == nil {
			continue
		}
		for _, v := range operands(ifi.Cond, 0) {
			conds = append(conds, condAt{v, ifi.Pos()})
		}
	}
	for _, ca := range conds {
		inner := ca.v
		var test, root string
		switch x := inner.(type) {
		case *ssa.BinOp:
			switch x.Op {
			case token.EQL, token.NEQ, token.LSS, token.LEQ, token.GTR, token.GEQ:
			default:
				continue
			}
			rx, px, okx := accessPath(x.X, roots, 0)
			ry, py, oky := accessPath(x.Y, roots, 0)
			if !okx || !oky {
				continue
			}
			// comparisons the compiler front end synthesises for `for i := range n` have no position
			if x.Pos() == token.NoPos {
				continue
			}
			// the other side must be a constant (nil, "", 0, …): loop bounds and comparisons with
			// loop-carried locals are out of this rule's reach
			_, cx := x.X.(*ssa.Const)
			_, cy := x.Y.(*ssa.Const)
			if !cx && !cy {
				continue
			}
			op := x.Op
			switch {
			case rx != "" && ry == "":
				root, test = rx, px+" "+normCmp(op)+" "+py
			case ry != "" && rx == "":
				root, test = ry, py+" "+normCmp(swapOp(op))+" "+px
			default:
				continue // both rooted (D3) or neither
			}
		default:
			rx, px, okx := accessPath(inner, roots, 0)
			if !okx || rx == "" {
				continue
			}
			root, test = rx, px
		}
		// elements selected with a loop-carried index (a[ai] vs b[bi]) cannot be paired by name
		if varIndexRe.MatchString(test) || slicedAtVariable(inner, 0) {
			continue
		}
		if seen[test] == nil {
			seen[test] = map[string]bool{}
		}
		seen[test][root] = true
		pos[test] = ca.pos
	}
	var tests []string
	for t := range seen {
		tests = append(tests, t)
	}
	sort.Strings(tests)
	for _, t := range tests {
		rs := seen[t]
		site := fmt.Sprintf("%s:%s", fnKey(fn), short(t, 80))
		if rs["A"] && rs["B"] {
			r.OK(rule, site, p.Pos(pos[t]), "tested on both operands")
			continue
		}
		only := "the first"
		if rs["B"] {
			only = "the second"
		}
		r.Fail(rule, site, p.Pos(pos[t]), "the test '"+t+"' is made on "+only+" operand only: compare(x, y) and compare(y, x) take different branches for the same pair of versions, so the comparison is not the negation of its converse")
	}
}

// slicedAtVariable: the tested value is (derived from) a slice x[lo:hi] with a bound that is not a
// constant — a run cut out at a loop-carried index, the slice form of a[ai].
func slicedAtVariable(v ssa.Value, d int) bool {
	if d > 12 {
		return false
	}
	if sl, ok := v.(*ssa.Slice); ok {
		for _, bnd := range []ssa.Value{sl.Low, sl.High} {
			if bnd == nil {
				continue
			}
			if _, isC := constInt(bnd); !isC {
				return true
			}
		}
	}
	in, ok := v.(ssa.Instruction)
	if !ok {
		return false
	}
	if _, isPhi := v.(*ssa.Phi); isPhi {
		return false
	}
	for _, op := range in.Operands(nil) {
		if *op != nil && slicedAtVariable(*op, d+1) {
			return true
		}
	}
	return false
}

var varIndexRe = regexp.MustCompile(`\[t\d+\]`)

// normCmp folds == / != (and < / >=, <= / >) into one name: the polarity of the branch does not matter here.
func normCmp(op token.Token) string {
	switch op {
	case token.EQL, token.NEQ:
		return "=="
	case token.LSS, token.GEQ:
		return "<"
	case token.LEQ, token.GTR:
		return "<="
	}
	return op.String()
}
