package main

import (
	"fmt"
	"go/token"
	"go/types"
	"sort"
	"strings"

	"golang.org/x/tools/go/ssa"
)

func init() {
	register(&PropDef{
		ID:       "C08",
		Patterns: []string{"./extractor/filesystem", "./extractor/filesystem/internal", ".", "./inventory"},
		Explain: "Decided: D1 every return of Scan goes through newScanResult, which sorts on every path: package locations, plugin statuses, packages and findings, each with its own comparator on the right field; " +
			"D2 the comparators compare the same key of both operands (operand mirror) and CmpPackages covers name, version, extractor name and locations, cmpStatus the name, cmpFindings advisory reference and extra; " +
			"D3 per-root results cannot alias loop-carried state: the walk context's inventory/errors/foundInv are re-initialised with fresh values on every path before each root's walk, Run appends exactly what that walk returned; Inventory.Append copies both packages and findings; " +
			"D5 traversal state is stack-balanced: when gitignore handling is on, every directory for which the callback returns nil or SkipDir has pushed exactly one pattern set, the pop is under the same conditions and removes exactly one. " +
			"Added in round 2: D3 additionally: no decision in Run skips a scan root, and the per-extractor found-inventory flag is only ever set to true. Added in round 3: the shared lazy file API is reset unconditionally for every file (also across roots); comparators never compare pointer identity. Added in round 8: D3 additionally: map fields of the walk context set only at construction (dirsToSkip) are never updated, deleted from or cleared during the walk. NOT decided: equality of result multisets across permutations of listing order as such (values); stability for fully tied packages.",
		Run: runC08,
		Controls: []Mutant{
			{Name: "cmp-self", File: "scalibr.go", Old: "cmp.Compare(a.Extractor.Name(), b.Extractor.Name())", New: "cmp.Compare(a.Extractor.Name(), a.Extractor.Name())", Rule: "D2-mirror", Site: "CmpPackages"},
			{Name: "cmp-drops-version", File: "scalibr.go", Old: "		cmp.Compare(a.Version, b.Version),\n", New: "", Rule: "D2-keys", Site: "CmpPackages"},
			{Name: "sort-skipped-on-error", File: "scalibr.go", Old: "	// Sort results for better diffing.\n	sortResults(r)", New: "	// Sort results for better diffing.\n	if o.Err == nil {\n		sortResults(r)\n	}", Rule: "D1-sorted", Site: "newScanResult"},
			{Name: "findings-not-sorted", File: "scalibr.go", Old: "	slices.SortFunc(results.Inventory.Findings, cmpFindings)\n", New: "", Rule: "D1-sorted", Site: "Findings"},
			{Name: "root-state-not-reset", File: "extractor/filesystem/filesystem.go", Old: "	wc.inventory = inventory.Inventory{}\n", New: "", Rule: "D3-per-root", Site: "inventory"},
			{Name: "skip-before-push", File: "extractor/filesystem/filesystem.go", Old: "		wc.dirsVisited++\n		if wc.useGitignore {", New: "		wc.dirsVisited++\n		if wc.shouldSkipDir(path) {\n			return fs.SkipDir\n		}\n		if wc.useGitignore {", Rule: "D5-balanced", Site: "push"},
			{Name: "append-drops-findings", File: "inventory/inventory.go", Old: "		i.Findings = append(i.Findings, o.Findings...)\n", New: "", Rule: "D3-per-root", Site: "Append"},
			{Name: "found-flag-overwritten-per-file", File: "extractor/filesystem/filesystem.go", Old: "		wc.foundInv[ex.Name()] = true\n", New: "		wc.foundInv[ex.Name()] = len(results.Packages) > 0\n", Rule: "D3-per-root", Site: "foundInv"},
			{Name: "virtual-roots-deduplicated", File: "extractor/filesystem/filesystem.go", Old: "		newInv, st, err := runOnScanRoot(ctx, config, root, wc)\n", New: "		if root.Path == \"\" && len(status) > 0 {\n			continue\n		}\n		newInv, st, err := runOnScanRoot(ctx, config, root, wc)\n", Rule: "D3-per-root", Site: "every-root-walked"},
		},
		Neutral: handleFileNeutral,
	})
}

func runC08(p *Prog, r *Report) {
	r.Rule("D1-sorted", "all results pass the sort on every exit of Scan")
	r.Rule("D2-mirror", "comparators compare the same key of both operands")
	r.Rule("D2-keys", "comparators cover the documented sort keys")
	r.Rule("D3-per-root", "per-root state re-initialised; Run appends what the walk returned")
	r.Rule("D5-balanced", "gitignore push/pop balanced over every directory")
	c08Sorted(p, r)
	c08LocationsBeforePackages(p, r, "D1-sorted")
	c08Comparators(p, r)
	c08NoPointerIdentity(p, r)
	elementwiseComparesLength(p, r, "D2-keys", "CmpPackages", "cmpStatus", "cmpFindings")
	e := resolveEngine(p, r, "D3-per-root")
	if !e.ok() {
		return
	}
	c08PerRoot(p, r, e)
	checkFileAPI(p, r, e, "D3-per-root")
	onlyLoopEndSkips(p, r, "D3-per-root", "filesystem.Run:every-root-walked", e.Run, func(in ssa.Instruction) bool {
		return e.isPerRootCall(callOf(in))
	}, perRootErrorExits(e), "a scan root can be skipped without being walked (e.g. de-duplication by Path, which is empty for every virtual root): its packages and statuses are missing from the union")
	mapOnlySetTrue(p, r, "D3-per-root", "walkContext", "foundInv", "extractor/filesystem", "the 'extractor found inventory' flag is overwritten per file instead of being sticky for the root: whether an extractor with one failing file is reported failed or partially succeeded depends on which of its files the walk reached last")
	configMapsAreReadOnly(p, r, "D3-per-root", "extractor/filesystem", "walkContext")
	c08Balanced(p, r, e, "D5-balanced")
	r.Rule("D6-skipdir-only-for-directories", "the walk callback returns SkipDir only for a directory the skip predicate selected (shared with C01)")
	skipDirOnlyForSkippedDirs(p, r, e, "D6-skipdir-only-for-directories")
	r.Rule("D7-walk", "the walker visits every entry of a directory whatever the order and the batching of the listing (shared with C01)")
	c01Walker(p, r, e)
	setOnlyAtConstruction(p, r, "D7-walk", "extractor/filesystem/internal", "dirIterator", "files", "the preloaded list of a directory iterator is replaced after construction: an iterator that reads in batches reports end-of-directory after its first batch, so which entries are visited depends on the order in which the file system lists them")
}

func c08Sorted(p *Prog, r *Report) {
	c08CmpFns = map[string]*ssa.Function{}
	scan := p.Func(".", "Scanner.Scan")
	nsr := p.Func(".", "newScanResult")
	sr := p.Func(".", "sortResults")
	if scan == nil || nsr == nil || sr == nil {
		r.Undecided("D1-sorted", "anchor:Scan/newScanResult/sortResults", "-", "not found")
		return
	}
	for i, ret := range returnsOf(scan) {
		okk := derivesFrom(retVal(ret, 0), func(v ssa.Value) bool {
			c, _ := callValue(v)
			return c != nil && c.Call.StaticCallee() == nsr
		}, deriveOpts{followStores: true})
		r.Check(okk, "D1-sorted", fmt.Sprintf("%s:return#%d", fnKey(scan), i), p.Pos(ret.Pos()), "returns newScanResult(...)", "Scan returns a result that did not go through newScanResult (unsorted)")
	}
	fa := newFA(p, r, nsr)
	var sc *ssa.Call
	forEachInstr(nsr, func(_ *ssa.BasicBlock, _ int, in ssa.Instruction) {
		if c, ok := in.(*ssa.Call); ok && c.Call.StaticCallee() == sr {
			sc = c
		}
	})
	if sc == nil {
		r.Fail("D1-sorted", fa.key+":sort", p.Pos(nsr.Pos()), "newScanResult does not call sortResults")
		return
	}
	fa.noPath("D1-sorted", "sort-on-every-path", entryPoint(nsr), isReturn, instrIs(sc), nil, "sortResults on every path", "newScanResult can return without sorting (e.g. only on success)")
	for _, ret := range returnsOf(nsr) {
		r.Check(retVal(ret, 0) == sc.Call.Args[0], "D1-sorted", fa.key+":sorted-value-returned", p.Pos(ret.Pos()), "the sorted value is what is returned", "the value returned is not the one that was sorted")
	}
	// sortResults: SortFunc on PluginStatus/cmpStatus, Packages/CmpPackages, Findings/cmpFindings; sort.Strings on Locations
	fs := newFA(p, r, sr)
	want := map[string]string{"PluginStatus": "cmpStatus", "Packages": "CmpPackages", "Findings": "cmpFindings"}
	got := map[string]string{}
	var sortCalls []ssa.Instruction
	forEachInstr(sr, func(_ *ssa.BasicBlock, _ int, in ssa.Instruction) {
		c, ok := in.(*ssa.Call)
		if !ok {
			return
		}
		rf := refOf(c.Common())
		if rf.Pkg == "slices" && (rf.Name == "SortFunc" || rf.Name == "SortStableFunc") && len(c.Call.Args) == 2 {
			_, f, _, ok := fieldOf(loadAddr(c.Call.Args[0]))
			cf := funcValue(c.Call.Args[1])
			if ok && cf != nil {
				got[f] = cf.Name()
				c08CmpFns[f] = cf
				sortCalls = append(sortCalls, in)
			}
		}
		if (rf.Pkg == "sort" && rf.Name == "Strings") || (rf.Pkg == "slices" && rf.Name == "Sort") {
			_, f, _, ok := fieldOf(loadAddr(c.Call.Args[0]))
			if ok && f == "Locations" && inLoop(c.Block()) {
				got["Locations"] = "sort.Strings"
			}
		}
	})
	for _, f := range sortedKeys(want) {
		// the comparator may be the named function or a literal; what it compares is checked by D2 on
		// whichever function the sort call is given
		r.Check(got[f] != "", "D1-sorted", fs.key+":"+f, p.Pos(sr.Pos()), "sorted with "+got[f], fmt.Sprintf("result field %s is not sorted with a comparator function (as with %s): its order depends on directory listing / map iteration order", f, want[f]))
	}
	r.Check(got["Locations"] != "", "D1-sorted", fs.key+":Locations", p.Pos(sr.Pos()), "each package's locations sorted", "package locations are not sorted")
	for _, sc := range sortCalls {
		fs.noPath("D1-sorted", "unconditional:"+fmt.Sprint(p.Pos(sc.Pos())), entryPoint(sr), isReturn, instrIs(sc), nil, "sort is unconditional", "a sort in sortResults can be skipped on some path")
	}
}

// loadAddr: if v is a load, return its address operand.
func loadAddr(v ssa.Value) ssa.Value {
	if u, ok := v.(*ssa.UnOp); ok && u.Op == token.MUL {
		return u.X
	}
	return v
}

// c08CmpFns: the comparator function each result field is sorted with (filled by the D1 rule).
var c08CmpFns = map[string]*ssa.Function{}

func c08Comparators(p *Prog, r *Report) {
	for _, spec := range []struct {
		name  string
		field string
		keys  []string
	}{
		{"CmpPackages", "Packages", []string{".Name", ".Version", ".Extractor.Name()", "Locations"}},
		{"cmpStatus", "PluginStatus", []string{".Name"}},
		{"cmpFindings", "Findings", []string{".Adv.ID.Reference", ".Extra"}},
	} {
		fn := c08CmpFns[spec.field]
		if fn == nil {
			fn = p.Func(".", spec.name)
		}
		if fn == nil || len(fn.Params) != 2 {
			r.Undecided("D2-mirror", "anchor:"+spec.name, "-", "comparator not found")
			continue
		}
		paths := checkMirror(p, r, "D2-mirror", fn, fn.Params[0], fn.Params[1])
		var ps []string
		for k := range paths {
			ps = append(ps, k)
		}
		sort.Strings(ps)
		for _, k := range spec.keys {
			found := false
			for _, pth := range ps {
				if strings.Contains(pth, k) {
					found = true
				}
			}
			r.Check(found, "D2-keys", fnKey(fn)+":"+k, p.Pos(fn.Pos()), "key compared", fmt.Sprintf("%s no longer compares the documented sort key %s (compared: %v): packages tying on the remaining keys are emitted in listing order", spec.name, k, ps))
		}
	}
	cs := p.Func(".", "cmpString")
	if cs != nil && len(cs.Params) == 2 {
		checkMirror(p, r, "D2-mirror", cs, cs.Params[0], cs.Params[1])
		// a<b → -1, a>b → +1 : sign consistency
		fa := newFA(p, r, cs)
		lt := condCmp(func(v ssa.Value) bool { return v == ssa.Value(cs.Params[0]) }, func(v ssa.Value) bool { return v == ssa.Value(cs.Params[1]) }, token.LSS)
		gt := condCmp(func(v ssa.Value) bool { return v == ssa.Value(cs.Params[0]) }, func(v ssa.Value) bool { return v == ssa.Value(cs.Params[1]) }, token.GTR)
		for _, ret := range returnsOf(cs) {
			k, ok := constInt(retVal(ret, 0))
			if !ok {
				continue
			}
			switch {
			case k < 0:
				g, n := fa.guarded(ret, true, lt)
				r.Check(n > 0 && g, "D2-mirror", fa.key+":negative-iff-less", p.Pos(ret.Pos()), "-1 only under a<b", "cmpString returns a negative value on a path where a<b was not established")
			case k > 0:
				g, n := fa.guarded(ret, true, gt)
				r.Check(n > 0 && g, "D2-mirror", fa.key+":positive-iff-greater", p.Pos(ret.Pos()), "+1 only under a>b", "cmpString returns a positive value on a path where a>b was not established")
			}
		}
	}
}

// perRootErrorExits: with runOnScanRoot written out in Run's loop, its two error exits (the root's
// path cannot be made absolute; the walk context cannot be moved to the root) precede the walk. They
// return the error to the caller; they are not silent skips.
func perRootErrorExits(e *engine) []string {
	if e.runOnScanRoot != nil {
		return nil
	}
	return []string{"path/filepath.Abs(", "extractor/filesystem.UpdateScanRoot("}
}

func c08PerRoot(p *Prog, r *Report, e *engine) {
	up := newFA(p, r, e.UpdateRoot)
	for _, f := range []string{"inventory", "errors", "foundInv"} {
		up.noPath("D3-per-root", "reset-"+f, entryPoint(up.fn), isReturn, func(in ssa.Instruction) bool {
			st, ok := in.(*ssa.Store)
			if !ok || !storesField("walkContext", f)(in) {
				return false
			}
			// fresh value: not derived from a load of the same field
			return !derivesFrom(st.Val, func(v ssa.Value) bool { return loadsField(v, "walkContext", f) && v != st.Val }, deriveOpts{})
		}, nil, "re-initialised on every path", "moving to the next scan root does not re-initialise wc."+f+": results of earlier roots are reported again (Run appends the cumulative value per root)")
	}
	// runOnScanRoot (or its body written out in Run's loop): UpdateScanRoot before RunFS on every path
	ro := newFA(p, r, e.perRootFn())
	var upd, run ssa.Instruction
	forEachInstr(ro.fn, func(_ *ssa.BasicBlock, _ int, in ssa.Instruction) {
		if c, ok := in.(*ssa.Call); ok {
			if c.Call.StaticCallee() == e.UpdateRoot {
				upd = in
			}
			if c.Call.StaticCallee() == e.RunFS {
				run = in
			}
		}
	})
	if upd == nil || run == nil {
		r.Fail("D3-per-root", ro.key+":order", p.Pos(ro.fn.Pos()), "runOnScanRoot does not call UpdateScanRoot and RunFS")
	} else {
		start := entryPoint(ro.fn)
		if hdr := loopHeaderOf(run.Block()); hdr != nil && e.runOnScanRoot == nil {
			start = Point{hdr, -1} // per iteration of Run's loop over the roots
		}
		ro.noPath("D3-per-root", "update-before-walk", start, instrIs(run), instrIs(upd), nil, "UpdateScanRoot precedes every RunFS", "a root can be walked without the walk context having been moved (and reset) to it")
	}
	// RunFS returns wc.inventory
	rf := e.RunFS
	okRet := false
	for _, ret := range returnsOf(rf) {
		if loadsField(retVal(ret, 0), "walkContext", "inventory") {
			okRet = true
		}
	}
	r.Check(okRet, "D3-per-root", fnKey(rf)+":returns-inventory", p.Pos(rf.Pos()), "returns wc.inventory", "RunFS does not return the walk's inventory")
	// Run: inv.Append(newInv) where newInv is result #0 of runOnScanRoot in the same iteration; once per iteration
	rn := newFA(p, r, e.Run)
	var call *ssa.Call
	forEachInstr(rn.fn, func(_ *ssa.BasicBlock, _ int, in ssa.Instruction) {
		if c, ok := in.(*ssa.Call); ok && e.isPerRootCall(c.Common()) {
			call = c
		}
	})
	if call == nil {
		r.Fail("D3-per-root", rn.key+":per-root-call", p.Pos(rn.fn.Pos()), "Run does not call runOnScanRoot")
		return
	}
	var app *ssa.Call
	forEachInstr(rn.fn, func(_ *ssa.BasicBlock, _ int, in ssa.Instruction) {
		if c, ok := in.(*ssa.Call); ok && refOf(c.Common()).is(fp("inventory"), "Inventory", "Append") {
			app = c
		}
	})
	okApp := app != nil && derivesFromSliceElem(app.Call.Args[1], func(v ssa.Value) bool {
		return derivesFrom(v, func(x ssa.Value) bool {
			ex, ok := x.(*ssa.Extract)
			return ok && ex.Tuple == ssa.Value(call) && ex.Index == 0
		}, deriveOpts{followStores: true})
	})
	r.Check(okApp, "D3-per-root", rn.key+":append", p.Pos(call.Pos()), "inv.Append(<this root's inventory>)", "Run does not append exactly the inventory returned for the current root")
	if app != nil {
		hdr := loopHeaderOf(call.Block())
		if hdr != nil {
			w := findPath(pointOf(app), instrIs(app), firstInstrOf(hdr), nil)
			r.Check(w == nil, "D3-per-root", rn.key+":append-once", p.Pos(app.Pos()), "appended once per root", "a root's inventory can be appended more than once")
		}
	}
	// Inventory.Append copies Packages and Findings of every argument
	ia := p.Func("inventory", "Inventory.Append")
	if ia == nil {
		r.Undecided("D3-per-root", "anchor:Inventory.Append", "-", "not found")
		return
	}
	for _, f := range []string{"Packages", "Findings"} {
		okk := false
		forEachInstr(ia, func(_ *ssa.BasicBlock, _ int, in ssa.Instruction) {
			st, ok := in.(*ssa.Store)
			if !ok || !storesField("Inventory", f)(in) {
				return
			}
			c, _ := callValue(st.Val)
			if c != nil && isCallTo(c, "builtin", "", "append") && loadsField(c.Call.Args[0], "Inventory", f) && loadsField(c.Call.Args[1], "Inventory", f) && inLoop(st.Block()) {
				okk = true
			}
		})
		r.Check(okk, "D3-per-root", fnKey(ia)+":Append-"+f, p.Pos(ia.Pos()), "i."+f+" = append(i."+f+", o."+f+"...) for every argument", "Inventory.Append does not carry over "+f+": the union of results loses them")
	}
}

// c08Balanced: push/pop discipline of the gitignore stack.
func c08Balanced(p *Prog, r *Report, e *engine, rule string) {
	hf := newFA(p, r, e.handleFile)
	isPush := func(in ssa.Instruction) bool {
		st, ok := in.(*ssa.Store)
		if !ok || !storesField("walkContext", "gitignores")(in) {
			return false
		}
		c, _ := callValue(st.Val)
		return c != nil && isCallTo(c, "builtin", "", "append") && loadsField(c.Call.Args[0], "walkContext", "gitignores")
	}
	var push ssa.Instruction
	npush := 0
	forEachInstr(hf.fn, func(_ *ssa.BasicBlock, _ int, in ssa.Instruction) {
		if isPush(in) {
			push = in
			npush++
		}
	})
	if push == nil {
		r.Fail(rule, hf.key+":push", p.Pos(hf.fn.Pos()), "the callback never pushes a gitignore pattern set")
		return
	}
	dirHolds, _ := guardEdges(hf.fn, condCall(callIs("io/fs", "FileMode", "IsDir")))
	_, ugFalse := guardEdges(hf.fn, condFieldBool("walkContext", "useGitignore"))
	okExit := func(in ssa.Instruction) bool {
		ret, ok := in.(*ssa.Return)
		if !ok {
			return false
		}
		v := retVal(ret, 0)
		return isNilConst(v) || loadsGlobal(v, "io/fs", "SkipDir")
	}
	for _, ed := range dirHolds {
		hf.noPath(rule, "push-before-every-directory-exit", edgeStart(ed), okExit, isPush, edgesOf(ugFalse),
			"with gitignore on, a directory never leaves the callback (nil or SkipDir) without having pushed", "with gitignore on, the callback can return nil/SkipDir for a directory without pushing a pattern set; the deferred pop then removes the parent's patterns and ignored files later in the parent get extracted")
	}
	w := findPath(pointOf(push), isPush, nil, nil)
	r.Check(npush == 1 && w == nil && !inLoop(push.Block()), rule, hf.key+":push-once", p.Pos(push.Pos()), "exactly one push per directory", "more than one pattern set can be pushed for one directory")
	// files never push
	for _, ed := range dirHolds {
		_ = ed
	}
	_, notDir := guardEdges(hf.fn, condCall(callIs("io/fs", "FileMode", "IsDir")))
	for _, ed := range notDir {
		hf.noPath(rule, "files-do-not-push", edgeStart(ed), isPush, nil, nil, "only directories push", "a non-directory can push a pattern set (the pop only runs for directories)")
	}
	// pop side
	ph := newFA(p, r, e.postHandleFile)
	var pop ssa.Instruction
	forEachInstr(ph.fn, func(_ *ssa.BasicBlock, _ int, in ssa.Instruction) {
		if storesField("walkContext", "gitignores")(in) {
			pop = in
		}
	})
	if pop == nil {
		r.Fail(rule, ph.key+":pop", p.Pos(ph.fn.Pos()), "the post-visit callback never pops the gitignore stack")
		return
	}
	st := pop.(*ssa.Store)
	one := false
	if sl, ok := st.Val.(*ssa.Slice); ok && sl.Low == nil && sl.High != nil {
		if bo, ok := sl.High.(*ssa.BinOp); ok && bo.Op == token.SUB {
			if k, ok := constInt(bo.Y); ok && k == 1 {
				if lc, ok := bo.X.(*ssa.Call); ok && isCallTo(lc, "builtin", "", "len") && loadsField(lc.Call.Args[0], "walkContext", "gitignores") && loadsField(sl.X, "walkContext", "gitignores") {
					one = true
				}
			}
		}
	}
	r.Check(one, rule, ph.key+":pop-one", p.Pos(pop.Pos()), "gitignores = gitignores[:len-1]", "the pop does not remove exactly the last pattern set")
	g1, n1 := ph.guarded(pop, true, condFieldBool("walkContext", "useGitignore"))
	g2, n2 := ph.guarded(pop, true, condCall(callIs("io/fs", "FileMode", "IsDir")))
	r.Check(n1 > 0 && g1 && n2 > 0 && g2, rule, ph.key+":pop-conditions", p.Pos(pop.Pos()), "pop only for directories with gitignore on", "the pop is not under the same conditions as the push (useGitignore ∧ directory)")
	// pop happens for every directory when on: from entry, cut edges {useGitignore false, IsDir false, len==0}: must reach pop on all paths
	_, ugF := guardEdges(ph.fn, condFieldBool("walkContext", "useGitignore"))
	_, dF := guardEdges(ph.fn, condCall(callIs("io/fs", "FileMode", "IsDir")))
	lenOf := func(v ssa.Value) bool {
		c, ok := v.(*ssa.Call)
		return ok && isCallTo(c, "builtin", "", "len") && loadsField(c.Call.Args[0], "walkContext", "gitignores")
	}
	_, emptyF := guardEdges(ph.fn, condCmp(lenOf, isConstInt(0), token.GTR))
	cut := edgesOf(append(append(append([]Edge{}, ugF...), dF...), emptyF...))
	ph.noPath(rule, "pop-for-every-directory", entryPoint(ph.fn), isReturn, instrIs(pop), cut, "every directory with a non-empty stack pops", "a directory can finish without popping its pattern set: patterns of a sibling subtree leak into the rest of the walk")
}

// c08NoPointerIdentity: the result comparators order by content. A comparison of two pointer values
// with == / != (other than against nil) compares object identity: two findings / packages that are
// equal in content but separately allocated are "different" there and the following content keys
// are never reached, so ties stay in arrival order.
func c08NoPointerIdentity(p *Prog, r *Report) {
	n := 0
	for _, name := range []string{"CmpPackages", "cmpStatus", "cmpFindings", "cmpString"} {
		fn := p.Func(".", name)
		if fn == nil {
			continue
		}
		n++
		bad := ""
		for _, f := range withAnon(fn) {
			forEachInstr(f, func(_ *ssa.BasicBlock, _ int, in ssa.Instruction) {
				bo, ok := in.(*ssa.BinOp)
				if !ok || (bo.Op != token.EQL && bo.Op != token.NEQ) {
					return
				}
				if isNilConst(bo.X) || isNilConst(bo.Y) {
					return
				}
				if _, isPtr := bo.X.Type().Underlying().(*types.Pointer); isPtr {
					bad = renderValueDeep(bo.X) + " " + bo.Op.String() + " " + renderValueDeep(bo.Y)
				}
			})
		}
		r.Check(bad == "", "D2-mirror", name+":no-pointer-identity", p.Pos(fn.Pos()), "orders by content only", "the comparator compares two pointers for identity ("+bad+"): separately allocated but equal values compare as different, the content keys behind that test are never consulted and ties are left in arrival (walk / map) order")
	}
	r.Instances("D2-mirror", "result comparators checked for pointer identity", n, 3)
}
