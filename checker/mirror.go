package main

import (
	"fmt"
	"go/token"
	"go/types"
	"sort"
	"strings"

	"golang.org/x/tools/go/ssa"
)

// accessPath renders a pure expression rooted at one of the given roots as "<root>|<path>".
// ok=false when the expression is not rooted at a root (constants return root "").
func accessPath(v ssa.Value, roots map[ssa.Value]string, depth int) (root, path string, ok bool) {
	if depth > 12 {
		return "", "", false
	}
	if n, isRoot := roots[v]; isRoot {
		return n, "", true
	}
	switch x := v.(type) {
	case *ssa.Const:
		return "", x.String(), true
	case *ssa.Alloc:
		// spilled parameter: a local whose only store is the parameter itself
		var src ssa.Value
		n := 0
		for _, ref := range *x.Referrers() {
			if st, ok := ref.(*ssa.Store); ok && st.Addr == ssa.Value(x) {
				n++
				src = st.Val
			}
		}
		if n == 1 {
			if name, isRoot := roots[src]; isRoot {
				return name, "", true
			}
		}
		return "", "", false
	case *ssa.UnOp:
		if x.Op == token.MUL {
			return accessPath(x.X, roots, depth+1)
		}
		r, p, ok := accessPath(x.X, roots, depth+1)
		return r, x.Op.String() + p, ok
	case *ssa.FieldAddr:
		st, _ := structOf(x.X.Type())
		r, p, ok := accessPath(x.X, roots, depth+1)
		if st == nil {
			return r, p, false
		}
		return r, p + "." + st.Field(x.Field).Name(), ok
	case *ssa.Field:
		st, _ := structOf(x.X.Type())
		r, p, ok := accessPath(x.X, roots, depth+1)
		if st == nil {
			return r, p, false
		}
		return r, p + "." + st.Field(x.Field).Name(), ok
	case *ssa.MakeInterface:
		return accessPath(x.X, roots, depth+1)
	case *ssa.ChangeType:
		return accessPath(x.X, roots, depth+1)
	case *ssa.ChangeInterface:
		return accessPath(x.X, roots, depth+1)
	case *ssa.Convert:
		return accessPath(x.X, roots, depth+1)
	case *ssa.IndexAddr:
		r, p, ok := accessPath(x.X, roots, depth+1)
		return r, p + "[" + indexName(x.Index) + "]", ok
	case *ssa.Index:
		r, p, ok := accessPath(x.X, roots, depth+1)
		return r, p + "[" + indexName(x.Index) + "]", ok
	case *ssa.Slice:
		r, p, ok := accessPath(x.X, roots, depth+1)
		return r, p + "[:]", ok
	case *ssa.Extract:
		r, p, ok := accessPath(x.Tuple, roots, depth+1)
		return r, fmt.Sprintf("%s#%d", p, x.Index), ok
	case *ssa.Call:
		c := x.Common()
		if c.IsInvoke() {
			r, p, ok := accessPath(c.Value, roots, depth+1)
			return r, p + "." + c.Method.Name() + "()", ok && len(c.Args) == 0
		}
		rf := refOf(c)
		// method call with receiver as first arg, or function of one rooted argument
		var rootName string
		var parts []string
		rooted := 0
		for _, a := range flattenVariadic(c.Args) {
			r, p, ok := accessPath(a, roots, depth+1)
			if !ok {
				return "", "", false
			}
			if r != "" {
				if rootName != "" && rootName != r {
					return "", "", false
				}
				rootName = r
				rooted++
			}
			parts = append(parts, p)
		}
		if rooted == 0 {
			return "", "", false
		}
		return rootName, rf.String() + "(" + strings.Join(parts, ",") + ")", true
	}
	return "", "", false
}

func indexName(v ssa.Value) string {
	if k, ok := constInt(v); ok {
		return fmt.Sprint(k)
	}
	return v.Name()
}

// flattenVariadic expands a trailing `slice t[:]` of a fresh array into its stored elements.
func flattenVariadic(args []ssa.Value) []ssa.Value {
	var out []ssa.Value
	for _, a := range args {
		if sl, ok := a.(*ssa.Slice); ok {
			if al, ok := sl.X.(*ssa.Alloc); ok {
				type el struct {
					i int64
					v ssa.Value
				}
				var els []el
				for _, ref := range *al.Referrers() {
					if ia, ok := ref.(*ssa.IndexAddr); ok {
						k, _ := constInt(ia.Index)
						for _, r2 := range *ia.Referrers() {
							if st, ok := r2.(*ssa.Store); ok {
								els = append(els, el{k, st.Val})
							}
						}
					}
				}
				sort.Slice(els, func(i, j int) bool { return els[i].i < els[j].i })
				for _, e := range els {
					out = append(out, e.v)
				}
				continue
			}
		}
		// a package-level table of constants passed whole is the list of its constants
		if ld, ok := a.(*ssa.UnOp); ok && ld.Op == token.MUL {
			if g, ok := ld.X.(*ssa.Global); ok {
				if vals := constTable(g); len(vals) > 0 {
					out = append(out, vals...)
					continue
				}
			}
		}
		out = append(out, a)
	}
	return out
}

// constTable: the constants a package-level slice or array is initialised with, provided nothing
// but the package initialiser ever writes it (or takes its address for anything but reading).
var constTableCache = map[*ssa.Global][]ssa.Value{}

func constTable(g *ssa.Global) []ssa.Value {
	if v, ok := constTableCache[g]; ok {
		return v
	}
	constTableCache[g] = nil
	if g.Pkg == nil || activeProg == nil || activeProg.SSA != g.Pkg.Prog {
		delete(constTableCache, g)
		return nil
	}
	gt := g.Type()
	if pt, isP := gt.Underlying().(*types.Pointer); isP {
		gt = pt.Elem()
	}
	switch gt.Underlying().(type) {
	case *types.Slice, *types.Array:
	default:
		return nil
	}
	fromG := func(a ssa.Value) bool {
		for d := 0; d < 4; d++ {
			switch x := a.(type) {
			case *ssa.Global:
				return x == g
			case *ssa.IndexAddr:
				a = x.X
			case *ssa.UnOp:
				a = x.X
			case *ssa.Slice:
				a = x.X
			default:
				return false
			}
		}
		return false
	}
	ok := true
	var vals []ssa.Value
	filled := func(al *ssa.Alloc) {
		type el struct {
			i int64
			v ssa.Value
		}
		var els []el
		for _, ref := range *al.Referrers() {
			if ia, isIA := ref.(*ssa.IndexAddr); isIA {
				k, isK := constInt(ia.Index)
				if !isK {
					ok = false
				}
				for _, r2 := range *ia.Referrers() {
					if st, isS := r2.(*ssa.Store); isS {
						if _, isC := st.Val.(*ssa.Const); !isC {
							ok = false
						}
						els = append(els, el{k, st.Val})
					}
				}
			}
		}
		sort.Slice(els, func(i, j int) bool { return els[i].i < els[j].i })
		for _, e := range els {
			vals = append(vals, e.v)
		}
	}
	nInit := 0
	for _, fn := range activeProg.allFnsWithInit(g.Pkg) {
		forEachInstr(fn, func(_ *ssa.BasicBlock, _ int, in ssa.Instruction) {
			st, isSt := in.(*ssa.Store)
			if !isSt || !fromG(st.Addr) {
				return
			}
			if fn.Name() != "init" || st.Addr != ssa.Value(g) {
				ok = false
				return
			}
			nInit++
			switch val := st.Val.(type) {
			case *ssa.Slice:
				if al, isAl := val.X.(*ssa.Alloc); isAl {
					filled(al)
				} else {
					ok = false
				}
			case *ssa.UnOp:
				if al, isAl := val.X.(*ssa.Alloc); isAl && val.Op == token.MUL {
					filled(al)
				} else {
					ok = false
				}
			default:
				ok = false
			}
		})
	}
	if !ok || nInit != 1 || len(vals) == 0 {
		return nil
	}
	constTableCache[g] = vals
	return vals
}

// mirrorPair is one two-operand comparison found in a comparator.
type mirrorPair struct {
	pos      token.Pos
	what     string
	ra, pa   string
	rb, pb   string
	okA, okB bool
}

// comparisonsOf lists the comparisons of fn whose two operands are pure access paths: BinOp
// comparisons and calls with exactly two value arguments (cmp.Compare, strings.Compare, x.Cmp(y),
// helper comparators, reflect.DeepEqual).
func comparisonsOf(fn *ssa.Function, roots map[ssa.Value]string) []mirrorPair {
	var out []mirrorPair
	forEachInstr(fn, func(_ *ssa.BasicBlock, _ int, in ssa.Instruction) {
		var x, y ssa.Value
		what := ""
		switch v := in.(type) {
		case *ssa.BinOp:
			switch v.Op {
			case token.LSS, token.GTR, token.LEQ, token.GEQ, token.EQL, token.NEQ:
				x, y, what = v.X, v.Y, v.Op.String()
			default:
				return
			}
		case *ssa.Call:
			c := v.Common()
			if c.IsInvoke() {
				if len(c.Args) != 1 {
					return
				}
				x, y, what = c.Value, c.Args[0], "."+c.Method.Name()
			} else {
				if len(c.Args) != 2 {
					return
				}
				if _, isB := c.Value.(*ssa.Builtin); isB {
					return
				}
				x, y, what = c.Args[0], c.Args[1], refOf(c).String()
			}
		default:
			return
		}
		mp := mirrorPair{pos: in.Pos(), what: what}
		mp.ra, mp.pa, mp.okA = accessPath(x, roots, 0)
		mp.rb, mp.pb, mp.okB = accessPath(y, roots, 0)
		if !mp.okA || !mp.okB || mp.ra == "" || mp.rb == "" {
			return
		}
		out = append(out, mp)
	})
	return out
}

// checkMirror: every comparison between a value rooted at A and one rooted at B uses the same
// access path on both sides; a comparison of two values rooted at the same operand is a violation.
// Returns the set of compared paths.
func checkMirror(p *Prog, r *Report, rule string, fn *ssa.Function, a, b ssa.Value) map[string]bool {
	roots := map[ssa.Value]string{a: "A", b: "B"}
	key := fnKey(fn)
	paths := map[string]bool{}
	n := 0
	for _, mp := range comparisonsOf(fn, roots) {
		n++
		site := fmt.Sprintf("%s:%s(%s)", key, mp.what, mp.pa)
		switch {
		case mp.ra == mp.rb:
			r.Fail(rule, site, p.Pos(mp.pos), fmt.Sprintf("compares %s%s with %s%s: both operands come from the same side, so the two inputs are never compared on this key", mp.ra, mp.pa, mp.rb, mp.pb))
		case mp.pa != mp.pb:
			r.Fail(rule, site, p.Pos(mp.pos), fmt.Sprintf("compares %s%s with %s%s: the two sides are compared on different keys, which breaks antisymmetry", mp.ra, mp.pa, mp.rb, mp.pb))
		default:
			paths[mp.pa] = true
			r.OK(rule, site, p.Pos(mp.pos), "same key on both sides")
		}
	}
	r.Count(rule+" comparisons in "+key, n)
	return paths
}
