package main

import (
	"fmt"
	"go/ast"
	"go/token"
	"go/types"
	"os"
	"regexp"
	"sort"
	"strings"

	"golang.org/x/tools/go/ssa"
)

var c03Packages = []string{
	"extractor/filesystem/os/dpkg", "extractor/filesystem/os/apk", "extractor/filesystem/language/python/requirements",
	"extractor/filesystem/language/golang/gomod", "extractor/filesystem/language/rust/cargolock",
	"extractor/filesystem/language/javascript/packagelockjson", "extractor/filesystem/language/php/composerlock",
	"extractor/filesystem/language/ruby/gemfilelock", "extractor/filesystem/language/java/gradlelockfile",
	"extractor/filesystem/language/python/poetrylock", "extractor/filesystem/language/python/pipfilelock",
	"extractor/filesystem/language/dotnet/packageslockjson",
}

func init() {
	register(&PropDef{
		ID: "C03",
		Explain: "Decided, for the twelve listed formats' extractor packages: D1 scanner error discipline — every bufio.Scanner loop is followed, on the path from Scan()==false to a nil-error return, by a call of Err() on the same scanner whose result reaches the returned error (a check inside the loop body is dead: Err() is nil while Scan() is true); " +
			"D2 end of input with a pending record — dpkg: after ReadMIMEHeader reported io.EOF the header it returned is still processed (the loop ends only after that iteration); apk: the record reader returns a record on a blank line only when the record is non-empty, and returns the pending record together with scanner.Err() at end of input; the record loop ends only on an empty record; " +
			"D3 only sanctioned omissions — in every loop that appends packages, the branch decisions after which the current element/record can no longer be appended are exactly the audited ones (frozen table c03Sanctioned, one row per decision, rendered by the definition of the tested value): a new decision of this kind (an added filter, de-duplication, early exit) and a removed one (e.g. the dpkg not-installed filter) are both reported. " +
			"Added in round 2: D3-predicates — boolean helpers deciding a branch of a package loop are frozen as truth tables over their atomic tests. NOT decided: that exactly the N (name, version) pairs come out for all layouts (CRLF, comments, ordering, de-duplication keys of JSON/TOML formats) — value-level, needs generators and an oracle.",
		Assume: []string{"the frozen omission table (c03_table.go) was confirmed by reading each row"},
		Run:    runC03,
		Controls: []Mutant{
			{Name: "gemfile-err-in-loop", File: "extractor/filesystem/language/ruby/gemfilelock/gemfilelock.go", Old: "	// Scan() stops on the first error (e.g. an overlong line), so this has to be checked after the loop.\n	if err := scanner.Err(); err != nil {\n		return nil, fmt.Errorf(\"error while scanning %s: %w\", input.Path, err)\n	}\n", New: "", Rule: "D1-scanner-err", Site: "gemfilelock"},
			{Name: "apk-blank-line-ends-record", File: "extractor/filesystem/os/apk/apk.go", Old: "		if line == \"\" && len(group) > 0 {", New: "		if line == \"\" {", Rule: "D2-pending-record", Site: "parseSingleApkRecord"},
			{Name: "dpkg-eof-drops-last", File: "extractor/filesystem/os/dpkg/dpkg.go", Old: "				// We might still have one more line of data\n				// so return only after it's been parsed.\n				eof = true", New: "				break", Rule: "D2-pending-record", Site: "dpkg"},
			{Name: "nuget-dedupe-by-name", File: "extractor/filesystem/language/dotnet/packageslockjson/packageslockjson.go", Old: "		for pkgName, info := range packages {\n", New: "		for pkgName, info := range packages {\n			if len(res) > 0 && res[len(res)-1].Name == pkgName {\n				continue\n			}\n", Rule: "D3-omissions", Site: "packageslockjson"},
			{Name: "dpkg-status-filter-removed", File: "extractor/filesystem/os/dpkg/dpkg.go", Old: "			if !installed {\n				continue\n			}\n", New: "			_ = installed\n", Rule: "D3-omissions", Site: "dpkg"},
			{Name: "gomod-117-boundary", File: "extractor/filesystem/language/golang/gomod/gomod.go", Old: "version.Compare(\"go\"+goVersion, \"go1.17\") >= 0", New: "version.Compare(\"go\"+goVersion, \"go1.17\") > 0", Rule: "D3-omissions", Site: "gomod.Extract:go.sum-merge"},
			{Name: "cargo-skip-empty-version", File: "extractor/filesystem/language/rust/cargolock/cargolock.go", Old: "	for _, lockPackage := range parsedLockfile.Packages {\n", New: "	for _, lockPackage := range parsedLockfile.Packages {\n		if lockPackage.Version == \"\" {\n			continue\n		}\n", Rule: "D3-omissions", Site: "cargolock"},
		},
	})
}

// renderValue renders a value by its definition (no local variable names).
// renderDepth bounds how far a value's definition is unfolded (3 for the frozen C03 table).
var renderDepth = 3

// renderAllocs: render a once-assigned local by its value (off for the frozen C03 table).
var renderAllocs = false

// renderEnv: while the body of a one-expression helper is rendered in place of a call to it, its
// parameters stand for the call's arguments (innermost frame last).
type renderFrame struct {
	fn   *ssa.Function
	args []ssa.Value
}

var renderEnv []renderFrame

// unfoldable: a first-party function whose whole body is "return <expression>" — one block, no
// stores or other effects of its own. A call to it is rendered as that expression, so that moving a
// condition into such a helper (or back) leaves the rendering unchanged.
func unfoldable(c *ssa.Call) *ssa.Function {
	cal := c.Call.StaticCallee()
	if cal == nil || len(cal.Blocks) != 1 || len(cal.FreeVars) > 0 || cal.Pkg == nil || c.Call.IsInvoke() {
		return nil
	}
	if !strings.HasPrefix(cal.Pkg.Pkg.Path(), "github.com/google/osv-scalibr") {
		return nil
	}
	if len(cal.Params) != len(c.Call.Args) || cal.Signature.Variadic() {
		return nil
	}
	for _, fr := range renderEnv {
		if fr.fn == cal {
			return nil
		}
	}
	if len(renderEnv) >= 3 {
		return nil
	}
	for _, in := range cal.Blocks[0].Instrs {
		switch x := in.(type) {
		case *ssa.Store:
			// spilling a parameter into its own local is the only store allowed
			if _, isParam := x.Val.(*ssa.Parameter); !isParam {
				return nil
			}
			if _, isAlloc := x.Addr.(*ssa.Alloc); !isAlloc {
				return nil
			}
		case *ssa.MapUpdate, *ssa.Send, *ssa.Go, *ssa.Defer, *ssa.Panic, *ssa.RunDefers:
			return nil
		case *ssa.Return:
			if len(x.Results) != 1 {
				return nil
			}
		}
	}
	return cal
}

func renderValue(v ssa.Value, d int) string { return renderValue1(v, d) }

// unfoldResult: result k of a call of a small first-party function (no loops, at most four returns,
// no effects of its own beyond calls) all of whose returns give a constant for that result except
// one: the call's result k is rendered as that one value — `fileSize(f)#0` is `f.Stat()#0.Size()`,
// `fileSize(f)#1` is `f.Stat()#1` — so that the (value, error) wrapper and its body written out at the
// call site render alike.
func unfoldResult(c *ssa.Call, k int) (*ssa.Function, ssa.Value) {
	cal := c.Call.StaticCallee()
	if cal == nil || len(cal.Blocks) == 0 || len(cal.Blocks) > 6 || len(cal.FreeVars) > 0 || cal.Pkg == nil || c.Call.IsInvoke() {
		return nil, nil
	}
	if !strings.HasPrefix(cal.Pkg.Pkg.Path(), "github.com/google/osv-scalibr") || cal.Signature.Variadic() || len(cal.Params) != len(c.Call.Args) {
		return nil, nil
	}
	for _, fr := range renderEnv {
		if fr.fn == cal {
			return nil, nil
		}
	}
	if len(renderEnv) >= 3 || k >= cal.Signature.Results().Len() {
		return nil, nil
	}
	var only ssa.Value
	nret := 0
	for _, b := range cal.Blocks {
		for _, pr := range b.Preds {
			if b.Dominates(pr) {
				return nil, nil // loop
			}
		}
		for _, in := range b.Instrs {
			switch x := in.(type) {
			case *ssa.Store:
				if _, isParam := x.Val.(*ssa.Parameter); !isParam {
					return nil, nil
				}
			case *ssa.MapUpdate, *ssa.Send, *ssa.Go, *ssa.Defer, *ssa.Panic, *ssa.RunDefers:
				return nil, nil
			case *ssa.Return:
				nret++
				if k >= len(x.Results) {
					return nil, nil
				}
				v := x.Results[k]
				if _, isC := v.(*ssa.Const); isC {
					continue
				}
				if only != nil && only != v {
					return nil, nil
				}
				only = v
			}
		}
	}
	if nret > 4 || only == nil {
		return nil, nil
	}
	if _, isPhi := only.(*ssa.Phi); isPhi {
		return nil, nil
	}
	return cal, only
}

// oneGroup: s is a single ‹…› group (so wrapping it again would add nothing).
func oneGroup(s string) bool {
	if !strings.HasPrefix(s, "‹") || !strings.HasSuffix(s, "›") {
		return false
	}
	depth := 0
	rs := []rune(s)
	for i, c := range rs {
		switch c {
		case '‹':
			depth++
		case '›':
			depth--
			if depth == 0 && i != len(rs)-1 {
				return false
			}
		}
	}
	return depth == 0
}

func renderValue1(v ssa.Value, d int) string {
	if d > renderDepth {
		return "…"
	}
	switch x := v.(type) {
	case *ssa.Const:
		if t := unaliasOwn(x.Type()); t != x.Type() {
			return ssa.NewConst(x.Value, t).String()
		}
		return x.String()
	case *ssa.Parameter:
		if n := len(renderEnv); n > 0 && renderEnv[n-1].fn == x.Parent() {
			fr := renderEnv[n-1]
			for i, p := range fr.fn.Params {
				if p == x {
					renderEnv = renderEnv[:n-1]
					out := renderValue1(fr.args[i], d)
					renderEnv = append(renderEnv, fr)
					return out
				}
			}
		}
		// parameters are numbered without those of an empty struct type (the `type Extractor struct{}`
		// receiver carries nothing; a method on it and the plain function it may become number alike)
		k := 0
		for _, p := range x.Parent().Params {
			if p == x {
				return fmt.Sprintf("param%d", k)
			}
			if st, isStruct := p.Type().Underlying().(*types.Struct); isStruct && st.NumFields() == 0 {
				continue
			}
			k++
		}
	case *ssa.FreeVar:
		return "freevar:" + x.Type().String()
	case *ssa.Global:
		return x.Name()
	case *ssa.UnOp:
		if x.Op == token.MUL {
			// a field of a struct literal that is read back before the literal is handed on
			// (pkg := &T{Name: n}; if pkg.Name == "") is the value it was built with
			if sv := literalFieldValue(x); sv != nil {
				return renderValue(sv, d)
			}
			return renderValue(x.X, d) // a load does not count as a level: spilled and unspilled values render alike
		}
		return x.Op.String() + renderValue(x.X, d+1)
	case *ssa.FieldAddr:
		st, _ := structOf(x.X.Type())
		if st != nil {
			return renderValue(x.X, d+1) + "." + st.Field(x.Field).Name()
		}
	case *ssa.Field:
		st, _ := structOf(x.X.Type())
		if st != nil {
			return renderValue(x.X, d+1) + "." + st.Field(x.Field).Name()
		}
	case *ssa.IndexAddr:
		if isLoopCursor(x.Index) {
			return renderValue(x.X, d+1) + "[ι]"
		}
		return renderValue(x.X, d+1) + "[" + renderValue(x.Index, d+1) + "]"
	case *ssa.Index:
		if isLoopCursor(x.Index) {
			return renderValue(x.X, d+1) + "[ι]"
		}
		return renderValue(x.X, d+1) + "[" + renderValue(x.Index, d+1) + "]"
	case *ssa.Lookup:
		if set, ok := constSetOfLookup(x, false); ok {
			return "in{" + set + "}(" + renderValue(x.Index, d+1) + ")"
		}
		return renderValue(x.X, d+1) + "[" + renderValue(x.Index, d+1) + "]"
	case *ssa.Extract:
		if ta, ok := x.Tuple.(*ssa.TypeAssert); ok && x.Index == 0 && types.IsInterface(ta.AssertedType) {
			return renderValue(ta.X, d)
		}
		if lk, ok := x.Tuple.(*ssa.Lookup); ok && x.Index == 1 {
			if set, ok := constSetOfLookup(lk, true); ok {
				return "in{" + set + "}(" + renderValue(lk.Index, d+1) + ")"
			}
		}
		if c, ok := x.Tuple.(*ssa.Call); ok && x.Index == 0 && len(c.Call.Args) == 2 {
			// the remainder strings.CutPrefix/CutSuffix hands back is a piece of its operand: s[:]
			// (slice bounds are not rendered)
			if rf := refOf(c.Common()); rf.is("strings", "", "CutPrefix") || rf.is("strings", "", "CutSuffix") {
				return renderValue(c.Call.Args[0], d+1) + "[:]"
			}
		}
		if c, ok := x.Tuple.(*ssa.Call); ok && x.Index == 1 && len(c.Call.Args) == 2 {
			// the "found" result of strings.CutPrefix/CutSuffix is strings.HasPrefix/HasSuffix
			rf := refOf(c.Common())
			for _, pr := range [][2]string{{"CutPrefix", "HasPrefix"}, {"CutSuffix", "HasSuffix"}} {
				if rf.is("strings", "", pr[0]) {
					return "strings." + pr[1] + "(" + renderValue(c.Call.Args[0], d+1) + "," + renderValue(c.Call.Args[1], d+1) + ")"
				}
			}
		}
		if c, ok := x.Tuple.(*ssa.Call); ok {
			if cal, v := unfoldResult(c, x.Index); v != nil {
				renderEnv = append(renderEnv, renderFrame{cal, c.Call.Args})
				out := renderValue1(v, d)
				renderEnv = renderEnv[:len(renderEnv)-1]
				return out
			}
		}
		return renderValue(x.Tuple, d+1) + fmt.Sprintf("#%d", x.Index)
	case *ssa.Call:
		if cal := unfoldable(x); cal != nil {
			ret := cal.Blocks[0].Instrs[len(cal.Blocks[0].Instrs)-1].(*ssa.Return)
			renderEnv = append(renderEnv, renderFrame{cal, x.Call.Args})
			out := renderValue1(ret.Results[0], d)
			renderEnv = renderEnv[:len(renderEnv)-1]
			return out
		}
		rf := refOf(x.Common())
		// membership in a fixed set of constants has one form, whether the set is written as a list
		// given to slices.Contains or as a package-level set-like map that is looked up
		if rf.is("slices", "", "Contains") && len(x.Call.Args) == 2 {
			if set, ok := constSetOfList(x.Call.Args[0]); ok {
				return "in{" + set + "}(" + renderValue(x.Call.Args[1], d+1) + ")"
			}
		}
		var as []string
		if x.Call.IsInvoke() {
			as = append(as, renderValue(x.Call.Value, d+1))
		}
		for _, a := range flattenVariadic(x.Call.Args) {
			// a value of an empty struct type carries nothing (the usual `type Extractor struct{}`
			// receiver): a method on it and a plain function render alike
			if st, isStruct := a.Type().Underlying().(*types.Struct); isStruct && st.NumFields() == 0 {
				continue
			}
			as = append(as, renderValue(a, d+1))
		}
		name := rf.String()
		if x.Call.IsInvoke() && strings.HasPrefix(rf.Pkg, "github.com/google/osv-scalibr") && rf.Recv != "" {
			// a first-party interface method: the same name as the static call of an implementation
			rf.Recv = ""
			name = rf.String()
		}
		if cal := x.Call.StaticCallee(); cal != nil && cal.Pkg != nil && strings.HasPrefix(cal.Pkg.Pkg.Path(), "github.com/google/osv-scalibr") && rf.Recv != "" {
			// first-party static callee: package and name (a method and the plain function it may
			// become, or the reverse, are the same callee; the receiver is the first argument)
			rf.Recv = ""
			name = rf.String()
		}
		return name + "(" + strings.Join(as, ",") + ")"
	case *ssa.Phi:
		return "φ:" + typeShort(x.Type())
	case *ssa.BinOp:
		return "(" + renderValue(x.X, d+1) + x.Op.String() + renderValue(x.Y, d+1) + ")"
	case *ssa.Convert:
		return renderValue(x.X, d+1)
	case *ssa.ChangeType:
		return renderValue(x.X, d+1)
	case *ssa.MakeInterface:
		return renderValue(x.X, d+1)
	case *ssa.Alloc:
		if renderAllocs {
			// a local assigned exactly once is rendered by the value it holds
			n := 0
			var sv ssa.Value
			for _, ref := range *x.Referrers() {
				if st, ok := ref.(*ssa.Store); ok && st.Addr == ssa.Value(x) {
					n++
					sv = st.Val
				}
			}
			if n == 1 {
				return renderValue(sv, d)
			}
		}
		return "local:" + typeShort(x.Type())
	case *ssa.MakeMap:
		return "make(map)"
	case *ssa.MakeSlice:
		return "make(slice)"
	case *ssa.Slice:
		return renderValue(x.X, d+1) + "[:]"
	case *ssa.Next:
		return "next(" + renderValue(x.Iter, d+1) + ")"
	case *ssa.Range:
		return "range(" + renderValue(x.X, d+1) + ")"
	case *ssa.TypeAssert:
		// an assertion to another interface type yields the same dynamic value: a method called on
		// it is the method called on the original
		if types.IsInterface(x.AssertedType) {
			return renderValue(x.X, d)
		}
		// asserting back the very type a value was boxed from is that value
		if mi, ok := x.X.(*ssa.MakeInterface); ok && types.Identical(mi.X.Type(), x.AssertedType) {
			return renderValue(mi.X, d)
		}
		if ld, ok := x.X.(*ssa.UnOp); ok && ld.Op == token.MUL {
			if sv := literalFieldValue(ld); sv != nil {
				if mi, ok := sv.(*ssa.MakeInterface); ok && types.Identical(mi.X.Type(), x.AssertedType) {
					return renderValue(mi.X, d)
				}
			}
		}
		return renderValue(x.X, d+1) + ".(" + typeShort(x.AssertedType) + ")"
	}
	return fmt.Sprintf("%T", v)
}

// constSetOfList: the sorted constants of a slice that is a literal of constants (written in place
// or held by a package-level variable nothing else writes).
func constSetOfList(v ssa.Value) (string, bool) {
	els := flattenVariadic([]ssa.Value{v})
	if len(els) == 0 || (len(els) == 1 && els[0] == v) {
		return "", false
	}
	var ks []string
	for _, e := range els {
		c, ok := e.(*ssa.Const)
		if !ok {
			return "", false
		}
		ks = append(ks, c.String())
	}
	sort.Strings(ks)
	return strings.Join(ks, ","), true
}

// constSetOfLookup: lk looks a key up in a package-level map literal with constant keys that nothing
// else writes, used as a set — its comma-ok result, or its plain result when every value is true.
var constSetCache = map[*ssa.Global][2]string{}

func constSetOfLookup(lk *ssa.Lookup, commaOk bool) (string, bool) {
	ld, ok := stripChangeType(lk.X).(*ssa.UnOp)
	if !ok || ld.Op != token.MUL || activeProg == nil {
		return "", false
	}
	g, ok := ld.X.(*ssa.Global)
	if !ok || g.Pkg == nil || g.Pkg.Prog != activeProg.SSA {
		return "", false
	}
	if _, isMap := lk.X.Type().Underlying().(*types.Map); !isMap {
		return "", false
	}
	c, seen := constSetCache[g]
	if !seen {
		rows, ok := mapRows(activeProg, nil, ld)
		if ok && len(rows) > 0 {
			var ks []string
			allTrue := true
			for _, r := range rows {
				k, isC := r.Key.(*ssa.Const)
				if !isC {
					ks = nil
					break
				}
				ks = append(ks, k.String())
				if b, isB := constBool(r.Val); !isB || !b {
					allTrue = false
				}
			}
			if ks != nil {
				sort.Strings(ks)
				c[1] = strings.Join(ks, ",")
				if allTrue {
					c[0] = c[1]
				}
			}
		}
		constSetCache[g] = c
	}
	i := 0
	if commaOk {
		i = 1
	}
	return c[i], c[i] != ""
}

// literalFieldValue: ld loads field f of a struct local (a composite literal) whose field f is
// stored exactly once, and nothing else that could write it (the literal being passed on, stored
// or captured, another address of the field) can execute before the load.
func literalFieldValue(ld *ssa.UnOp) ssa.Value {
	fa, ok := ld.X.(*ssa.FieldAddr)
	if !ok {
		return nil
	}
	al, ok := fa.X.(*ssa.Alloc)
	if !ok {
		return nil
	}
	var stores []*ssa.Store
	var escapes []ssa.Instruction
	for _, ref := range *al.Referrers() {
		switch x := ref.(type) {
		case *ssa.FieldAddr:
			if x.Field != fa.Field {
				continue
			}
			for _, r2 := range *x.Referrers() {
				switch y := r2.(type) {
				case *ssa.Store:
					if y.Addr == ssa.Value(x) {
						stores = append(stores, y)
						continue
					}
					escapes = append(escapes, y)
				case *ssa.UnOp:
					if y.Op != token.MUL {
						escapes = append(escapes, y)
					}
				case *ssa.DebugRef:
				default:
					escapes = append(escapes, r2)
				}
			}
		case *ssa.DebugRef:
		case *ssa.UnOp:
			if x.Op == token.MUL {
				continue // a copy of the whole struct reads it
			}
			escapes = append(escapes, x)
		case *ssa.Store:
			if x.Addr == ssa.Value(al) {
				return nil // the whole struct is overwritten
			}
			escapes = append(escapes, x)
		default:
			escapes = append(escapes, ref)
		}
	}
	isLd := func(in ssa.Instruction) bool { return in == ssa.Instruction(ld) }
	isAl := func(in ssa.Instruction) bool { return in == ssa.Instruction(al) }
	// can e execute before the load, for the same allocation?
	before := func(e ssa.Instruction) bool {
		if e.Block() == ld.Block() {
			for _, in := range e.Block().Instrs {
				if in == ssa.Instruction(ld) {
					break
				}
				if in == e {
					return true
				}
			}
		}
		return findPath(pointOf(e), isLd, isAl, nil) != nil
	}
	// the one store that can come before the load (it then comes before it on every path: it
	// must dominate the load), every other store of the field only after it
	var sv ssa.Value
	n := 0
	for _, st := range stores {
		if !before(st) {
			continue
		}
		n++
		if st.Block() == ld.Block() || st.Block().Dominates(ld.Block()) {
			sv = st.Val
		}
	}
	if n != 1 || sv == nil {
		return nil
	}
	for _, e := range escapes {
		if before(e) {
			return nil
		}
	}
	return sv
}

// unaliasOwn looks through the type aliases the normalisation (inline.go) introduces.
func unaliasOwn(t types.Type) types.Type {
	for {
		a, ok := t.(*types.Alias)
		if !ok || !strings.HasPrefix(a.Obj().Name(), "ſ") {
			return t
		}
		t = a.Rhs()
	}
}

func typeShort(t types.Type) string {
	t = unaliasOwn(t)
	return types.TypeString(t, func(p *types.Package) string { return p.Name() })
}

func renderCondV(cond ssa.Value, val bool) string {
	inner, flip := stripNot(cond)
	val = val != flip
	s := ""
	if b, ok := inner.(*ssa.BinOp); ok {
		op := b.Op
		l, r := renderValue(b.X, 0), renderValue(b.Y, 0)
		if op == token.GTR || op == token.GEQ {
			l, r, op = r, l, swapOp(op)
		}
		if !val {
			op = negOp(op)
			if op == token.GTR || op == token.GEQ {
				l, r, op = r, l, swapOp(op)
			}
		}
		if (op == token.EQL || op == token.NEQ) && l > r {
			l, r = r, l
		}
		// emptiness tests have one canonical form: len(x) > 0, 0 < len(x), len(x) != 0, len(x) >= 1
		// are "len(x) != 0"; len(x) == 0, len(x) < 1, len(x) <= 0 are "len(x) == 0"
		// s == "" is the same test as len(s) == 0
		if l == "\"\":string" && (op == token.EQL || op == token.NEQ) {
			l, r = "builtin.len("+r+")", "0:int"
		} else if r == "\"\":string" && (op == token.EQL || op == token.NEQ) {
			l, r = "builtin.len("+l+")", "0:int"
		}
		if n, e, ok := lenEmptiness(l, r, op); ok {
			if e {
				return n + " == 0"
			}
			return n + " != 0"
		}
		return l + " " + op.String() + " " + r
	}
	s = renderValue(inner, 0)
	if !val {
		return "!" + s
	}
	return s
}

// lenEmptiness recognises comparisons of a rendered len(...) with the constants 0 and 1 (after the
// normalisation above only ==, !=, <, <= remain) and says whether the comparison means "empty".
func lenEmptiness(l, r string, op token.Token) (name string, empty, ok bool) {
	isLen := func(s string) bool { return strings.HasPrefix(s, "builtin.len(") && strings.HasSuffix(s, ")") }
	konst := func(s string) (int, bool) {
		switch s {
		case "0:int":
			return 0, true
		case "1:int":
			return 1, true
		}
		return 0, false
	}
	switch {
	case isLen(l):
		k, isK := konst(r)
		if !isK {
			return "", false, false
		}
		switch {
		case op == token.EQL && k == 0, op == token.LSS && k == 1, op == token.LEQ && k == 0:
			return l, true, true
		case op == token.NEQ && k == 0:
			return l, false, true
		}
	case isLen(r):
		k, isK := konst(l)
		if !isK {
			return "", false, false
		}
		switch {
		case op == token.EQL && k == 0:
			return r, true, true
		case op == token.NEQ && k == 0, op == token.LSS && k == 0, op == token.LEQ && k == 1:
			return r, false, true
		}
	}
	return "", false, false
}

// loopSkips: for every loop of fn, the conditions under which an iteration ends (back to the head
// or out of the loop / function) without reaching a "progress" instruction.
func loopSkips(fn *ssa.Function, progress func(ssa.Instruction) bool) []string {
	var out []string
	seenHdr := map[*ssa.BasicBlock]bool{}
	for _, b := range fn.Blocks {
		for _, pr := range b.Preds {
			if b.Dominates(pr) {
				seenHdr[b] = true
			}
		}
	}
	for hdr := range seenHdr {
		body := naturalLoop(hdr)
		hasProgress := false
		for bb := range body {
			for _, in := range bb.Instrs {
				if progress(in) {
					hasProgress = true
				}
			}
		}
		if !hasProgress {
			continue
		}
		// a skip edge is a branch edge after which no progress instruction can be reached any more in
		// this iteration, while the other edge of the same branch still can reach one
		canProgress := func(b *ssa.BasicBlock) bool {
			w := findPath(Point{b, -1}, progress, func(in ssa.Instruction) bool { return len(hdr.Instrs) > 0 && in == hdr.Instrs[0] }, nil)
			return w != nil
		}
		for bb := range body {
			ifi := blockIf(bb)
			if ifi == nil {
				continue
			}
			c0, c1 := canProgress(bb.Succs[0]), canProgress(bb.Succs[1])
			if c0 == c1 {
				continue
			}
			k := 0
			if !c1 {
				k = 1
			}
			// a constant condition whose skipping edge is never taken decides nothing
			// (`for eof := false; !eof;` with eof never assigned is `for {`)
			if inner, flip := stripNot(ifi.Cond); true {
				if c, isC := constBool(inner); isC && ((k == 0) != (c != flip)) {
					continue
				}
			}
			out = append(out, rangeEnd(bb, renderSkipDecision(bb, k)))
		}
	}
	sort.Strings(out)
	return out
}

// isLoopCursor: idx is "the current position" of a loop that visits every position from the first —
// the range form (counter φ starts at -1, the body indexes with φ+1) or the index form (counter φ
// starts at 0, steps by one, the body indexes with φ). Both are rendered as [ι].
func isLoopCursor(idx ssa.Value) bool {
	stepOf := func(ph *ssa.Phi) (init int64, ok bool) {
		var nInit, nStep int
		for _, e := range ph.Edges {
			if k, isK := constInt(e); isK {
				if nInit > 0 && k != init {
					return 0, false
				}
				init = k
				nInit++
				continue
			}
			add, isAdd := e.(*ssa.BinOp)
			if !isAdd || add.Op != token.ADD || add.X != ssa.Value(ph) {
				return 0, false
			}
			if k, isK := constInt(add.Y); !isK || k != 1 {
				return 0, false
			}
			nStep++
		}
		return init, nInit == 1 && nStep >= 1
	}
	if ph, ok := idx.(*ssa.Phi); ok {
		init, ok := stepOf(ph)
		return ok && init == 0
	}
	if add, ok := idx.(*ssa.BinOp); ok && add.Op == token.ADD {
		if k, isK := constInt(add.Y); isK && k == 1 {
			if ph, ok := add.X.(*ssa.Phi); ok {
				init, ok := stepOf(ph)
				return ok && init == -1
			}
		}
	}
	return false
}

// loopScansAll: hdr is the head of a loop that visits every position of a collection from the first to
// the last — `for i, x := range xs` or `for i := 0; i < len(xs); i++` with no other change of i.
// Returns the collection (the operand of len) and the value that indexes it in the body.
func loopScansAll(hdr *ssa.BasicBlock) (coll, cursor ssa.Value, ok bool) {
	ifi := blockIf(hdr)
	if ifi == nil {
		return nil, nil, false
	}
	bo, isB := ifi.Cond.(*ssa.BinOp)
	if !isB || bo.Op != token.LSS || !isLoopCursor(bo.X) {
		return nil, nil, false
	}
	ctr := bo.X
	if add, isAdd := ctr.(*ssa.BinOp); isAdd {
		ctr = add.X
	}
	if ph, isPhi := ctr.(*ssa.Phi); !isPhi || ph.Block() != hdr {
		return nil, nil, false
	}
	lc, isC := bo.Y.(*ssa.Call)
	if !isC {
		return nil, nil, false
	}
	if bi, isBi := lc.Call.Value.(*ssa.Builtin); !isBi || bi.Name() != "len" {
		return nil, nil, false
	}
	return lc.Call.Args[0], bo.X, true
}

// fullScanElement: v is the current element of such a loop — xs[cursor], loaded or not — and xs is the
// very collection whose length bounds the loop. Returns the collection.
func fullScanElement(v ssa.Value) (ssa.Value, bool) {
	if u, ok := v.(*ssa.UnOp); ok && u.Op == token.MUL {
		v = u.X
	}
	var x, idx ssa.Value
	switch e := v.(type) {
	case *ssa.IndexAddr:
		x, idx = e.X, e.Index
	case *ssa.Index:
		x, idx = e.X, e.Index
	default:
		return nil, false
	}
	if !isLoopCursor(idx) {
		return nil, false
	}
	ctr := idx
	if add, isAdd := ctr.(*ssa.BinOp); isAdd {
		ctr = add.X
	}
	ph, isPhi := ctr.(*ssa.Phi)
	if !isPhi {
		return nil, false
	}
	coll, cursor, ok := loopScansAll(ph.Block())
	if !ok || cursor != idx {
		return nil, false
	}
	if coll != x && renderValueDeep(coll) != renderValueDeep(x) {
		return nil, false
	}
	return x, true
}

// rangeEnd: the loop head's own "collection exhausted" test — `for _, x := range xs`,
// `for i := range xs` and `for i := 0; i < len(xs); i++` all compare the loop counter (or counter+1)
// with len(xs) — is rendered in one canonical form, "range-end: <xs>".
func rangeEnd(b *ssa.BasicBlock, rendered string) string {
	ifi := blockIf(b)
	if ifi == nil {
		return rendered
	}
	bo, ok := ifi.Cond.(*ssa.BinOp)
	if !ok || bo.Op != token.LSS {
		return rendered
	}
	// left: a counter phi of this very block, or phi+1
	ctr := bo.X
	if add, ok := ctr.(*ssa.BinOp); ok && add.Op == token.ADD {
		if k, isK := constInt(add.Y); isK && k == 1 {
			ctr = add.X
		}
	}
	ph, isPhi := ctr.(*ssa.Phi)
	if !isPhi || ph.Block() != b {
		return rendered
	}
	lc, ok := bo.Y.(*ssa.Call)
	if !ok {
		return rendered
	}
	bi, ok := lc.Call.Value.(*ssa.Builtin)
	if !ok || bi.Name() != "len" {
		return rendered
	}
	if m := rangeEndRe.FindStringSubmatch(rendered); m != nil {
		return "range-end: " + m[1]
	}
	return rendered
}

var rangeEndRe = regexp.MustCompile(`^builtin\.len\((.*)\) <= (?:\(φ:int\+1:int\)|φ:int)$`)

// renderSkipDecision renders the decision taken on successor k of bb together with the conditions
// of the short-circuit / nested-if chain that leads to bb: a predecessor whose other successor is
// the same "not skipped" target as bb's other successor contributes a conjunct (so `a && b`,
// `b && a` and `if a { if b {…} }` are one decision). Conjuncts are sorted.
// skipSites: where each rendered skip decision was made (block and the successor index taken).
type skipSite struct {
	b *ssa.BasicBlock
	k int
}

var skipSites = map[string][]skipSite{}

func renderSkipDecision(bb *ssa.BasicBlock, k int) string {
	s := renderSkipDecision1(bb, k)
	skipSites[s] = append(skipSites[s], skipSite{bb, k})
	return s
}

func renderSkipDecision1(bb *ssa.BasicBlock, k int) string {
	type atom struct {
		v   ssa.Value
		val bool
	}
	ifi := blockIf(bb)
	atoms := []atom{{ifi.Cond, k == 0}}
	// a branch on the boolean phi of `a && b` / `a || b` (a `case a && b:` of a tagless switch, a
	// condition bound to a local first) is rendered by the tests it implies, as the branching form is
	if inner, _ := stripNot(ifi.Cond); inner != nil {
		if ph, isPhi := inner.(*ssa.Phi); isPhi {
			if facts := impliedFacts(ifi.Cond, k == 0, 0); len(facts) > 1 {
				atoms = atoms[:0]
				for _, f := range facts {
					if f.v == ssa.Value(ph) {
						continue
					}
					if _, isP := f.v.(*ssa.Phi); isP {
						continue
					}
					atoms = append(atoms, atom{f.v, f.val})
				}
			}
		}
	}
	other := bb.Succs[1-k]
	cur := bb
	for d := 0; d < 8; d++ {
		if len(cur.Preds) != 1 {
			break
		}
		p := cur.Preds[0]
		pif := blockIf(p)
		if pif == nil {
			break
		}
		idx := -1
		for i, sc := range p.Succs {
			if sc == cur {
				idx = i
			}
		}
		if idx < 0 || p.Succs[1-idx] != other || p == cur {
			break
		}
		atoms = append(atoms, atom{pif.Cond, idx == 0})
		cur = p
	}
	// `x != "a" && x != "b" && …` (a switch over literals, a chain of comparisons) is the same test
	// as a membership test of x in the constant list {"a","b",…}: one canonical form, "!in{…}(x)"
	if len(atoms) > 1 {
		var ks []string
		var subj ssa.Value
		subjS := ""
		ok := true
		for _, a := range atoms {
			inner, flip := stripNot(a.v)
			b, isB := inner.(*ssa.BinOp)
			if !isB || (b.Op != token.EQL && b.Op != token.NEQ) {
				ok = false
				break
			}
			if (b.Op == token.NEQ) != (a.val != flip) { // holds as an equality, not an inequality
				ok = false
				break
			}
			var c *ssa.Const
			var x ssa.Value
			if cc, isC := b.X.(*ssa.Const); isC {
				c, x = cc, b.Y
			} else if cc, isC := b.Y.(*ssa.Const); isC {
				c, x = cc, b.X
			}
			if c == nil || c.Value == nil {
				ok = false
				break
			}
			xs := renderValue(x, 1)
			if subj == nil {
				subj, subjS = x, xs
			} else if xs != subjS {
				ok = false
				break
			}
			ks = append(ks, c.String())
		}
		if ok && subj != nil {
			sort.Strings(ks)
			return "!in{" + strings.Join(ks, ",") + "}(" + subjS + ")"
		}
	}
	var parts []string
	for _, a := range atoms {
		if s, ok := cutRemainderEmpty(bb, a.v, a.val); ok {
			parts = append(parts, s)
			continue
		}
		parts = append(parts, renderCondV(a.v, a.val))
	}
	sort.Strings(parts)
	return strings.Join(parts, " && ")
}

// cutRemainderEmpty: `rest, found := strings.CutPrefix(s, "=="); … rest == ""` tested where found is
// known to hold is the test `len(s) < 3` made after `strings.HasPrefix(s, "==")` held: the remainder
// is empty exactly when s is no longer than the prefix. Rendered as that length test (one canonical
// form for both spellings); only under the found edge, where the two are the same test.
func cutRemainderEmpty(bb *ssa.BasicBlock, cond ssa.Value, val bool) (string, bool) {
	inner, flip := stripNot(cond)
	b, ok := inner.(*ssa.BinOp)
	if !ok || (b.Op != token.EQL && b.Op != token.NEQ) {
		return "", false
	}
	var rest ssa.Value
	switch {
	case isEmptyStringConst(b.Y):
		rest = b.X
	case isEmptyStringConst(b.X):
		rest = b.Y
	default:
		// len(rest) == 0
		for _, pr := range [][2]ssa.Value{{b.X, b.Y}, {b.Y, b.X}} {
			if lc, isC := pr[0].(*ssa.Call); isC && isCallTo(lc, "builtin", "", "len") {
				if k, isK := constInt(pr[1]); isK && k == 0 {
					rest = lc.Call.Args[0]
				}
			}
		}
	}
	ex, ok := rest.(*ssa.Extract)
	if !ok || ex.Index != 0 {
		return "", false
	}
	c, ok := ex.Tuple.(*ssa.Call)
	if !ok || len(c.Call.Args) != 2 {
		return "", false
	}
	rf := refOf(c.Common())
	if !rf.is("strings", "", "CutPrefix") && !rf.is("strings", "", "CutSuffix") {
		return "", false
	}
	p, isP := constString(c.Call.Args[1])
	if !isP {
		return "", false
	}
	found, _ := guardEdges(bb.Parent(), func(v ssa.Value) (bool, bool) {
		e2, isE := v.(*ssa.Extract)
		return isE && e2.Tuple == ssa.Value(c) && e2.Index == 1, true
	})
	if len(found) == 0 || !onlyVia(bb.Parent(), bb, found) {
		return "", false
	}
	empty := (b.Op == token.EQL) == (val != flip)
	ln := "builtin.len(" + renderValue(c.Call.Args[0], 1) + ")"
	k := fmt.Sprintf("%d:int", len(p)+1)
	if empty {
		return ln + " < " + k, true
	}
	return k + " <= " + ln, true
}

func isEmptyStringConst(v ssa.Value) bool {
	s, ok := constString(v)
	return ok && s == ""
}

func isPackageAppend(in ssa.Instruction) bool {
	switch x := in.(type) {
	case *ssa.Call:
		if isCallTo(x, "builtin", "", "append") {
			if st, ok := x.Type().Underlying().(*types.Slice); ok {
				if n := namedOf(st.Elem()); n != nil && n.Obj().Name() == "Package" {
					return true
				}
			}
		}
	case *ssa.MapUpdate:
		if n := namedOf(x.Value.Type()); n != nil && n.Obj().Name() == "Package" {
			return true
		}
	case *ssa.Store:
		return isAppendOf("Package")(in)
	}
	return false
}

// c03Predicates: audited truth tables of the boolean helpers that decide branches of the package
// loops (SCALINT_LEARN=1 prints candidates as LEARN-PRED lines).
var c03Predicates = map[string]string{
	// a dependency line is one that is neither a comment nor the "empty=" trailer
	"extractor/filesystem/language/java/gradlelockfile.isGradleLockFileDepLine": "atoms=[strings.HasPrefix(param0,\"#\":string) ; strings.HasPrefix(param0,\"empty=\":string)] table=1000",
	// a valid package name is one the name pattern matches
	"extractor/filesystem/language/python/requirements.isValidPackage": "atoms=[regexp.Regexp.MatchString(reValidPkg,param0)] table=01",
}

// c03GoSumDecisions: the decisions after which gomod.Extract no longer reads go.sum.
var c03GoSumDecisions = []string{
	// no go directive: treated like a recent go version (indirect requirements are listed in go.mod)
	"\"\":github.com/google/osv-scalibr/extractor/filesystem/language/golang/gomod.goVersion == extractor/filesystem/language/golang/gomod.extractGoMod(param1)#1",
	// go >= 1.17 lists indirect requirements in go.mod itself
	"0:int <= go/version.Compare((\"go\":github.com/google/osv-scalibr/extractor/filesystem/language/golang/gomod.goVersion+extractor/filesystem/language/golang/gomod.extractGoMod(param1)#1),\"go1.17\":string)",
	// go.mod itself could not be parsed
	"extractor/filesystem/language/golang/gomod.extractGoMod(param1)#2 != nil:error",
}

func runC03(p *Prog, r *Report) {
	r.Rule("D1-scanner-err", "Scan()==false is followed by Err() whose result reaches the returned error")
	r.Rule("D2-pending-record", "a record pending at end of input is still processed")
	r.Rule("D3-omissions", "records are omitted only under the audited conditions")
	fns := p.FuncsIn(c03Packages...)
	r.Instances("D3-omissions", "functions in the twelve format packages", len(fns), 80)
	c03Scanner(p, r, fns)
	c03Pending(p, r)
	learn := os.Getenv("SCALINT_LEARN") != ""
	c03Omissions(p, r, "D3-omissions", fns)
	// go.mod: the packages of go.sum are merged in exactly when the file's go directive is below 1.17
	if fn := p.Func("extractor/filesystem/language/golang/gomod", "Extractor.Extract"); fn != nil {
		frozenFnSkips(p, r, "D3-omissions", "gomod.Extract:go.sum-merge", fn, func(in ssa.Instruction) bool {
			c, ok := in.(*ssa.Call)
			return ok && refOf(c.Common()).Name == "extractFromSum"
		}, c03GoSumDecisions, "GOSUM", "go.sum is consulted (or left out) for other go versions than the audited ones: modules are invented for go.mod files that list their indirect requirements themselves, or dropped for those that do not")
	} else {
		r.Undecided("D3-omissions", "anchor:gomod.Extract", "-", "not found")
	}
	c03HelperErrorExits(p, r, "D3-omissions")
	r.Rule("D4-no-shared-line-state", "a record's scratch state is not shared with the next record")
	c03FreshLineBuffer(p, r, "D4-no-shared-line-state")
	scratchSlicesAreEmptied(p, r, "D4-no-shared-line-state", p.FuncsIn(c03Packages...))
	// requirements.txt: the decisions under which readLine gives a line up (answers "")
	if rl := p.Func("extractor/filesystem/language/python/requirements", "readLine"); rl != nil {
		frozenFnSkips(p, r, "D3-omissions", "requirements.readLine:ignored-lines", rl, func(in ssa.Instruction) bool {
			ret, ok := in.(*ssa.Return)
			if !ok || len(ret.Results) != 1 {
				return false
			}
			s, isC := constString(retVal(ret, 0))
			return !(isC && s == "")
		}, c03ReadLineSkips, "READLINE", "a requirements line is given up under another test than the audited one (an environment variable in the line *after its comment was removed*): e.g. a `${VAR}` that only occurs in a trailing comment makes the requirement in front of it disappear")
	} else {
		r.Undecided("D3-omissions", "anchor:requirements.readLine", "-", "not found")
	}
	r.Rule("D5-nested-records", "nested dependency blocks are descended into for every entry that has one")
	recursesIntoEveryChild(p, r, "D5-nested-records", "extractor/filesystem/language/javascript/packagelockjson", "parseNpmLockDependencies", "Dependencies", "an entry of a package-lock v1 `dependencies` block can be passed over (or the loop left) without its own nested `dependencies` having been parsed: every package installed beneath it is missing from the result")
	// helper predicates that decide those branches: frozen truth tables
	r.Rule("D3-predicates", "boolean helpers deciding a branch of a package loop compute the audited function of their atomic tests")
	npred := 0
	seenPred := map[string]bool{}
	for _, fn := range fns {
		skips := loopSkips(fn, isPackageAppend)
		if len(skips) == 0 {
			continue
		}
		for _, h := range conditionHelpers(p, fn) {
			key := fnKey(h)
			if seenPred[key] {
				continue
			}
			seenPred[key] = true
			sig, ok := predicateTable(h)
			if !ok {
				continue
			}
			if learn {
				fmt.Fprintf(os.Stderr, "LEARN-PRED\t%q: %q,\n", key, sig)
				continue
			}
			npred++
			want, listed := c03Predicates[key]
			switch {
			case !listed:
				// only a helper that decides an omission needs an audited table; one that decides
				// something else inside the loop (an annotation, a log line) does not
				decides := false
				for _, row := range skips {
					if strings.Contains(row, key+"(") {
						decides = true
					}
				}
				if !decides {
					npred--
					continue
				}
				r.Fail("D3-predicates", key, p.Pos(h.Pos()), "a boolean helper that decides whether a record is reported is not in the audited predicate table: "+sig)
			case want != sig:
				r.Fail("D3-predicates", key, p.Pos(h.Pos()), "the helper no longer computes the audited boolean function of its tests (e.g. a negation slipped over a disjunction makes a filter accept everything): got "+sig+", audited "+want)
			default:
				r.OK("D3-predicates", key, p.Pos(h.Pos()), sig)
			}
		}
	}
	if !learn {
		r.Instances("D3-predicates", "boolean helpers with an audited truth table", npred, 1)
	}
}

// c03Scanner: D1 for every bufio.Scanner loop in the scope.
func c03Scanner(p *Prog, r *Report, fns []*ssa.Function) {
	n := 0
	for _, fn := range fns {
		fa := newFA(p, r, fn)
		forEachInstr(fn, func(_ *ssa.BasicBlock, _ int, in ssa.Instruction) {
			c, ok := in.(*ssa.Call)
			if !ok || !refOf(c.Common()).is("bufio", "Scanner", "Scan") {
				return
			}
			if !inLoop(c.Block()) {
				return
			}
			n++
			sc := c.Call.Args[0]
			_, done := guardEdges(fn, condCall(func(x *ssa.Call) bool { return x == c }))
			site := "scan-loop@" + p.exprAt(fn, c.Pos(), func(n ast.Node) bool { _, ok := n.(*ast.CallExpr); return ok })
			// functions that do not return an error cannot surface it: skip those whose last result is not error
			res := fn.Signature.Results()
			if res.Len() == 0 || res.At(res.Len()-1).Type().String() != "error" {
				r.Trivial("D1-scanner-err", fa.key+":"+site, p.Pos(c.Pos()), "function returns no error")
				return
			}
			isErrOfScanner := func(v ssa.Value) bool {
				cc, _ := callValue(v)
				return cc != nil && refOf(cc.Common()).is("bufio", "Scanner", "Err") && sameLoad(cc.Call.Args[0], sc)
			}
			for _, ed := range done {
				fa.noPath("D1-scanner-err", site, edgeStart(ed), func(in ssa.Instruction) bool {
					ret, ok := in.(*ssa.Return)
					if !ok {
						return false
					}
					last := retVal(ret, len(ret.Results)-1)
					if !isNilConst(last) {
						// returns an error: fine if it is (derived from) scanner.Err() or any other error
						return false
					}
					return true
				}, func(in ssa.Instruction) bool {
					// passing a test of scanner.Err() (or returning it) discharges
					if cc, ok := in.(*ssa.Call); ok && isErrOfScanner(cc) {
						return true
					}
					return false
				}, nil, "after Scan() returned false, Err() of the same scanner is consulted before a nil error is returned", "after Scan() returned false the function can return a nil error without consulting scanner.Err(): a read error or an over-long line silently truncates the package list")
			}
			// and a consulted Err() must reach the error result: the call result is returned or tested
			forEachInstr(fn, func(_ *ssa.BasicBlock, _ int, in2 ssa.Instruction) {
				cc, ok := in2.(*ssa.Call)
				if !ok || !isErrOfScanner(cc) {
					return
				}
				if inLoop(cc.Block()) && loopHeaderOf(cc.Block()) == loopHeaderOf(c.Block()) && cc.Block() != c.Block() {
					// inside the body of the same loop: dead check, does not count — handled by the path rule above
					return
				}
				used := false
				for _, ret := range returnsOf(fn) {
					for _, l := range errLeaves(retVal(ret, len(ret.Results)-1)) {
						if l == ssa.Value(cc) {
							used = true
						}
					}
				}
				r.Check(used, "D1-scanner-err", fa.key+":err-returned", p.Pos(cc.Pos()), "scanner.Err() reaches the returned error", "scanner.Err() is consulted but its value never reaches the function's error result")
			})
		})
	}
	r.Instances("D1-scanner-err", "bufio.Scanner loops in the twelve format packages", n, 5)
}

func c03Pending(p *Prog, r *Report) {
	// apk record reader
	fn := p.Func("extractor/filesystem/os/apk", "parseSingleApkRecord")
	if fn == nil {
		r.Undecided("D2-pending-record", "anchor:apk.parseSingleApkRecord", "-", "not found")
	} else {
		fa := newFA(p, r, fn)
		var scan *ssa.Call
		var group ssa.Value
		forEachInstr(fn, func(_ *ssa.BasicBlock, _ int, in ssa.Instruction) {
			if c, ok := in.(*ssa.Call); ok && refOf(c.Common()).is("bufio", "Scanner", "Scan") {
				scan = c
			}
			if mm, ok := in.(*ssa.MakeMap); ok {
				group = mm
			}
		})
		if scan == nil || group == nil {
			r.Undecided("D2-pending-record", fa.key+":shape", p.Pos(fn.Pos()), "record reader no longer has the scanner-loop/record-map shape")
		} else {
			nonEmpty := condCmp(func(v ssa.Value) bool {
				c, ok := v.(*ssa.Call)
				return ok && isCallTo(c, "builtin", "", "len") && c.Call.Args[0] == group
			}, isConstInt(0), token.GTR)
			_, scanTrue := guardEdges(fn, condCall(func(x *ssa.Call) bool { return x == scan }))
			_ = scanTrue
			inBody, _ := guardEdges(fn, condCall(func(x *ssa.Call) bool { return x == scan }))
			for i, ret := range returnsOf(fn) {
				if len(inBody) == 0 || !onlyVia(fn, ret.Block(), inBody) || !isNilConst(retVal(ret, 1)) {
					continue
				}
				g, n := fa.guarded(ret, true, nonEmpty)
				r.Check(n > 0 && g, "D2-pending-record", fmt.Sprintf("%s:blank-line-return#%d", fa.key, i), p.Pos(ret.Pos()), "a blank line ends a record only when the record is non-empty", "a blank line ends the record even when nothing was read yet: the caller takes the empty record for the end of input, so every record after a double blank line (or a leading blank line) is dropped")
			}
			// end of input returns the pending group with scanner.Err()
			_, done := guardEdges(fn, condCall(func(x *ssa.Call) bool { return x == scan }))
			for _, ed := range done {
				fa.noPath("D2-pending-record", "eof-returns-pending", edgeStart(ed), func(in ssa.Instruction) bool {
					ret, ok := in.(*ssa.Return)
					return ok && retVal(ret, 0) != group
				}, nil, nil, "at end of input the pending record is returned", "at end of input the record read so far is not returned: a last record without trailing blank line is lost")
			}
		}
	}
	// apk record loop: break only on empty record
	// dpkg: after EOF the header is still processed
	fd := p.Func("extractor/filesystem/os/dpkg", "Extractor.extractFromInput")
	if fd == nil {
		r.Undecided("D2-pending-record", "anchor:dpkg.extractFromInput", "-", "not found")
		return
	}
	fa := newFA(p, r, fd)
	var rd *ssa.Call
	forEachInstr(fd, func(_ *ssa.BasicBlock, _ int, in ssa.Instruction) {
		if c, ok := in.(*ssa.Call); ok && refOf(c.Common()).is("net/textproto", "Reader", "ReadMIMEHeader") {
			rd = c
		}
	})
	if rd == nil {
		r.Undecided("D2-pending-record", fa.key+":reader", p.Pos(fd.Pos()), "dpkg no longer reads stanzas with ReadMIMEHeader")
		return
	}
	isErr := func(v ssa.Value) bool {
		ex, ok := v.(*ssa.Extract)
		return ok && ex.Tuple == ssa.Value(rd) && ex.Index == 1
	}
	eof, _ := guardEdges(fd, condCall(func(c *ssa.Call) bool {
		rf := refOf(c.Common())
		return rf.Pkg == "errors" && rf.Name == "Is" && isErr(c.Call.Args[0]) && loadsGlobal(c.Call.Args[1], "io", "EOF")
	}))
	if len(eof) == 0 {
		r.Fail("D2-pending-record", fa.key+":eof", p.Pos(rd.Pos()), "io.EOF from ReadMIMEHeader is not distinguished: the header returned together with EOF (last stanza without trailing newline) is lost or the loop never ends")
		return
	}
	// from the EOF edge every path to a loop exit / return passes a use of the header (h.Get / len(h))
	hdrv := func(v ssa.Value) bool {
		ex, ok := v.(*ssa.Extract)
		return ok && ex.Tuple == ssa.Value(rd) && ex.Index == 0
	}
	usesHeader := func(in ssa.Instruction) bool {
		c := callOf(in)
		if c == nil {
			return false
		}
		for _, a := range c.Args {
			if derivesFrom(a, hdrv, deriveOpts{}) {
				return true
			}
		}
		return false
	}
	lh := loopHeaderOf(rd.Block())
	body := naturalLoop(lh)
	for _, ed := range eof {
		fa.noPath("D2-pending-record", "dpkg-eof-header-processed", edgeStart(ed), func(in ssa.Instruction) bool {
			return isReturn(in) || !body[in.Block()]
		}, usesHeader, nil, "after EOF the returned header is still examined before the loop ends", "after ReadMIMEHeader reports io.EOF the loop can end without looking at the header it returned: the last stanza of a status file without trailing blank line is dropped")
	}
}

// c03Omissions: the frozen omission table over the package-producing loops of fns.
// c03ReadLineSkips: when requirements.readLine answers "" (regenerate with SCALINT_LEARN=1).
var c03ReadLineSkips = []string{
	"(regexp.Regexp.FindString(reEnvVar,regexp.Regexp.ReplaceAllString(reComment,bufio.Scanner.Text(param0),\"\":string))!=\"\":string)",
}

func c03Omissions(p *Prog, r *Report, rule string, fns []*ssa.Function) {
	learn := os.Getenv("SCALINT_LEARN") != ""
	nloops := 0
	for _, fn := range fns {
		sk := loopSkips(fn, isPackageAppend)
		key := fnKey(fn)
		if !learn {
			key = tableKey(c03Sanctioned, fn)
		}
		want := c03Sanctioned[key]
		if learn {
			for _, s := range sk {
				fmt.Fprintf(os.Stderr, "LEARN\t%q: %q,\n", key, s)
			}
			continue
		}
		if len(sk) == 0 && len(want) == 0 {
			continue
		}
		nloops++
		got := map[string]int{}
		for _, s := range sk {
			got[s]++
		}
		wantN := map[string]int{}
		for _, s := range want {
			wantN[s]++
		}
		for s, n := range got {
			if _, audited := wantN[s]; !audited && n > 0 && !subsumedDecision(s, wantN, got) {
				r.Fail(rule, key+":new:"+short(s, 120), p.Pos(fn.Pos()), "a decision that makes the current record/element impossible to report is not among the audited omissions of this format: "+s+" (an added filter, de-duplication or early exit drops or merges packages)")
			} else {
				r.OK(rule, key+":"+short(s, 120), p.Pos(fn.Pos()), "audited omission")
			}
		}
		for s, n := range wantN {
			if strings.HasPrefix(s, "range-end: ") {
				continue // see frozenCompare
			}
			if got[s] < n {
				r.Fail(rule, key+":missing:"+short(s, 120), p.Pos(fn.Pos()), "the audited omission/exit '"+s+"' is gone or was rewritten: records the format marks as not installed (or malformed/terminating records) are no longer handled the audited way")
			}
		}
	}
	r.Instances(rule, "package-producing functions with audited omissions", nloops, 12)
}
