package main

import (
	"fmt"
	"go/token"
	"os"
	"regexp"
	"sort"
	"strings"

	"golang.org/x/tools/go/ssa"
)

func init() {
	register(&PropDef{
		ID:       "C18",
		Patterns: []string{"./guidedremediation/internal/vulns", "./guidedremediation/internal/util", "./guidedremediation/internal/remediation", "./guidedremediation/internal/strategy/override"},
		Explain: "Decided (shape of vulns.IsAffected): D1 records for other packages or ecosystems never match — every positive verdict is reachable only through the edges where the affected entry's ecosystem equals the package's ecosystem and its name equals the package's name; range-based verdicts additionally only for ECOSYSTEM ranges (or SEMVER for npm); an unknown ecosystem answers false before any entry is looked at; " +
			"D2 a negative verdict for one range or entry never ends the evaluation: inside the loops over entries and ranges only the constant 'true' is returned, 'false' only before the loops or after both are exhausted; " +
			"D3 the events are sorted (on a private copy) with a comparator that puts the sentinel \"0\" before every version and the binary search uses a comparator with the same sentinel rule and the same ecosystem comparison, on the sorted slice; the search is for the package's own version; " +
			"D4 the decision after the search: an exact hit is affected iff the event is 'introduced' or 'last_affected'; between events iff there is a previous event and it is 'introduced'; D5 index discipline (events[idx] only when the search hit, events[idx-1] only when idx != 0; proved with the slices.BinarySearchFunc contract). " +
			"Added in round 2: D6 the explicit-versions test exists, leads straight to a positive verdict and is evaluated under exactly the audited guards. Added in round 3: D7 a range of a matching type is always sorted and searched (frozen skip table of the range loop). NOT decided: agreement of sort + binary search with the specification's linear evaluation on all event lists (value-level; needs enumeration).",
		Run: runC18,
		Controls: []Mutant{
			{Name: "name-check-dropped", File: "guidedremediation/internal/vulns/vulns.go", Old: "		if affected.Package.Ecosystem != pkg.Ecosystem() ||\n			affected.Package.Name != pkg.Name {\n			continue\n		}", New: "		if affected.Package.Ecosystem != pkg.Ecosystem() {\n			continue\n		}", Rule: "D1-same-package", Site: "IsAffected"},
			{Name: "early-false", File: "guidedremediation/internal/vulns/vulns.go", Old: "				if e.Introduced != \"\" || e.LastAffected != \"\" {\n					return true\n				}\n", New: "				return e.Introduced != \"\" || e.LastAffected != \"\"\n", Rule: "D2-no-early-negative", Site: "IsAffected"},
			{Name: "search-sentinel-dropped", File: "guidedremediation/internal/vulns/vulns.go", Old: "				eVer := eventVersion(e)\n				if eVer == \"0\" {\n					return -1\n				}\n				return sys.Compare(eVer, v)", New: "				eVer := eventVersion(e)\n				return sys.Compare(eVer, v)", Rule: "D3-sorted-search", Site: "search-sentinel"},
			{Name: "between-events-any-previous", File: "guidedremediation/internal/vulns/vulns.go", Old: "			} else if idx != 0 && events[idx-1].Introduced != \"\" {", New: "			} else if idx != 0 && events[idx-1].Fixed == \"\" {", Rule: "D4-decision", Site: "IsAffected"},
			{Name: "idx-guard-dropped", File: "guidedremediation/internal/vulns/vulns.go", Old: "			} else if idx != 0 && events[idx-1].Introduced != \"\" {", New: "			} else if events[idx-1].Introduced != \"\" {", Rule: "D5-bounds", Site: "IsAffected"},
			{Name: "sort-input-in-place", File: "guidedremediation/internal/vulns/vulns.go", Old: "			events := slices.Clone(r.Events)", New: "			events := r.Events", Rule: "D3-sorted-search", Site: "private-copy"},
			{Name: "versions-list-only-without-ranges", File: "guidedremediation/internal/vulns/vulns.go", Old: "		if slices.Contains(affected.Versions, pkg.Version) {\n			return true\n		}\n", New: "		if len(affected.Ranges) == 0 && slices.Contains(affected.Versions, pkg.Version) {\n			return true\n		}\n", Rule: "D6-listed", Site: "IsAffected"},
		},
		Neutral: c18Neutral,
	})
}

func runC18(p *Prog, r *Report) {
	r.Rule("D1-same-package", "positive verdicts only for the same ecosystem and name (and a matching range type)")
	r.Rule("D2-no-early-negative", "inside the loops only 'true' is returned")
	r.Rule("D3-sorted-search", "sort and search agree: same slice, same comparison, sentinel \"0\" first")
	r.Rule("D4-decision", "exact hit: introduced/last_affected; between: previous event is introduced")
	r.Rule("D5-bounds", "index discipline in IsAffected")
	r.Rule("D6-listed", "a version listed explicitly for the same package is affected, whatever the ranges say")
	fn := p.Func("guidedremediation/internal/vulns", "IsAffected")
	if fn == nil {
		r.Undecided("D1-same-package", "anchor:vulns.IsAffected", "-", "not found")
		return
	}
	fa := newFA(p, r, fn)
	pkg := fn.Params[1]
	c18Listed(p, r, fn)
	r.Rule("D8-history-free", "the decision depends on its arguments only: no process-wide mutable state")
	noSharedMutableState(p, r, "D8-history-free", "a memo keyed by the version string alone returns, for one ecosystem, a version parsed under another, and the comparison degenerates", append([]*ssa.Function{fn}, fn.AnonFuncs...), "guidedremediation/internal/vulns", "guidedremediation/internal/util")
	r.Rule("D7-every-range-evaluated", "a range of a matching type is always sorted and searched")
	frozenSkips(p, r, "D7-every-range-evaluated", "vulns.IsAffected", fn, func(in ssa.Instruction) bool {
		c, ok := in.(*ssa.Call)
		return ok && refOf(c.Common()).Pkg == "slices" && strings.HasPrefix(refOf(c.Common()).Name, "BinarySearchFunc")
	}, c18RangeSkips, "RANGES", "a range of a matching type can be passed over without being sorted and searched (e.g. a shortcut that looks at the first *listed* event): the verdict then depends on the order in which the record lists its events")
	// --- D1
	ecoEq := func(c ssa.Value) (bool, bool) {
		op, x, y, ok := cmpNorm(c)
		if !ok || (op != token.EQL && op != token.NEQ) {
			return false, false
		}
		isAffEco := func(v ssa.Value) bool {
			s, f, _, ok := fieldOf(loadAddr(v))
			return ok && s == "Package" && f == "Ecosystem"
		}
		isPkgEco := func(v ssa.Value) bool {
			c, _ := callValue(v)
			if c == nil {
				if cv, ok := v.(*ssa.Convert); ok {
					c, _ = callValue(cv.X)
				}
			}
			return c != nil && c.Call.StaticCallee() != nil && c.Call.StaticCallee().Name() == "Ecosystem" && c.Call.Args[0] == ssa.Value(pkg)
		}
		if (isAffEco(x) && isPkgEco(y)) || (isAffEco(y) && isPkgEco(x)) {
			return true, op == token.EQL
		}
		return false, false
	}
	nameEq := func(c ssa.Value) (bool, bool) {
		op, x, y, ok := cmpNorm(c)
		if !ok || (op != token.EQL && op != token.NEQ) {
			return false, false
		}
		isAffName := func(v ssa.Value) bool {
			s, f, base, ok := fieldOf(loadAddr(v))
			if !ok || f != "Name" || s != "Package" {
				return false
			}
			_, f2, _, ok2 := fieldOf(base)
			return ok2 && f2 == "Package"
		}
		isPkgName := func(v ssa.Value) bool {
			s, f, base, ok := fieldOf(loadAddr(v))
			return ok && s == "Package" && f == "Name" && base == ssa.Value(pkg)
		}
		if (isAffName(x) && isPkgName(y)) || (isAffName(y) && isPkgName(x)) {
			return true, op == token.EQL
		}
		return false, false
	}
	ntrue := 0
	var hdrOuter *ssa.BasicBlock
	for i, ret := range returnsOf(fn) {
		b, isB := constBool(retVal(ret, 0))
		if isB && b {
			ntrue++
			g1, n1 := fa.guarded(ret, true, ecoEq)
			g2, n2 := fa.guarded(ret, true, nameEq)
			r.Check(n1 > 0 && g1, "D1-same-package", fmt.Sprintf("%s:ecosystem#%d", fa.key, i), p.Pos(ret.Pos()), "affected only under equal ecosystems", "a record for another ecosystem can be judged affected (the positive verdict is reachable without the affected entry's ecosystem equalling the package's)")
			r.Check(n2 > 0 && g2, "D1-same-package", fmt.Sprintf("%s:name#%d", fa.key, i), p.Pos(ret.Pos()), "affected only under equal names", "a record for another package can be judged affected (the positive verdict is reachable without the affected entry's name equalling the package's)")
			if h := loopHeaderOf(ret.Block()); h != nil {
				hdrOuter = h
			}
		}
	}
	r.Instances("D1-same-package", "positive verdicts", ntrue, 1)
	// unknown ecosystem → false before the loop
	unk, _ := guardEdges(fn, func(c ssa.Value) (bool, bool) {
		op, x, y, ok := cmpNorm(c)
		if !ok || (op != token.EQL && op != token.NEQ) {
			return false, false
		}
		isSys := func(v ssa.Value) bool {
			cc, _ := callValue(v)
			return cc != nil && cc.Call.StaticCallee() != nil && cc.Call.StaticCallee().Name() == "OSVToDepsDevEcosystem"
		}
		isUnknown := func(v ssa.Value) bool { k, ok := constInt(v); return ok && k == 0 }
		if (isSys(x) && isUnknown(y)) || (isSys(y) && isUnknown(x)) {
			return true, op == token.EQL
		}
		return false, false
	})
	if len(unk) == 0 {
		r.Fail("D1-same-package", fa.key+":unknown-ecosystem", p.Pos(fn.Pos()), "an unknown ecosystem is not rejected up front")
	}
	for _, ed := range unk {
		fa.noPath("D1-same-package", "unknown-ecosystem-false", edgeStart(ed), func(in ssa.Instruction) bool {
			ret, ok := in.(*ssa.Return)
			if !ok {
				return false
			}
			b, isB := constBool(retVal(ret, 0))
			return !(isB && !b)
		}, nil, nil, "unknown ecosystem ⇒ false", "an unknown ecosystem does not answer false")
	}
	// range type: positive verdicts that depend on the search are under the range-type test
	var search, sortc, clone *ssa.Call
	forEachInstr(fn, func(_ *ssa.BasicBlock, _ int, in ssa.Instruction) {
		if c, ok := in.(*ssa.Call); ok {
			rf := refOf(c.Common())
			if rf.Pkg == "slices" {
				switch rf.Name {
				case "BinarySearchFunc":
					search = c
				case "SortFunc", "SortStableFunc":
					sortc = c
				case "Clone":
					clone = c
				}
			}
		}
	})
	if search == nil || sortc == nil {
		r.Undecided("D3-sorted-search", fa.key+":anchors", p.Pos(fn.Pos()), "IsAffected no longer sorts the events and binary-searches them (the rules for that shape are undecided)")
		return
	}
	typeOK := func(c ssa.Value) (bool, bool) {
		op, x, y, ok := cmpNorm(c)
		if !ok || (op != token.EQL && op != token.NEQ) {
			return false, false
		}
		isType := func(v ssa.Value) bool {
			if cv, ok := v.(*ssa.Convert); ok {
				v = cv.X
			}
			s, f, _, ok := fieldOf(loadAddr(v))
			return ok && s == "Range" && f == "Type"
		}
		str := func(v ssa.Value) string { s, _ := constString(v); return s }
		if isType(x) && str(y) == "ECOSYSTEM" || isType(y) && str(x) == "ECOSYSTEM" {
			return true, op == token.EQL
		}
		return false, false
	}
	semverNpm := func(c ssa.Value) (bool, bool) {
		op, x, y, ok := cmpNorm(c)
		if !ok || (op != token.EQL && op != token.NEQ) {
			return false, false
		}
		str := func(v ssa.Value) string { s, _ := constString(v); return s }
		if str(y) == "npm" || str(x) == "npm" {
			return true, op == token.EQL
		}
		return false, false
	}
	eh, _ := guardEdges(fn, typeOK)
	nh, _ := guardEdges(fn, semverNpm)
	r.Check(len(eh) > 0 && onlyVia(fn, search.Block(), append(append([]Edge{}, eh...), nh...)), "D1-same-package", fa.key+":range-type", p.Pos(search.Pos()), "ranges are evaluated only for ECOSYSTEM (or SEMVER for npm) types", "a range of another type (e.g. GIT) can be evaluated as a version range")

	// --- D2
	{
		var hdrs []*ssa.BasicBlock
		for _, b := range fn.Blocks {
			for _, pr := range b.Preds {
				if b.Dominates(pr) {
					hdrs = append(hdrs, b)
					break
				}
			}
		}
		hdrOuter = nil
		for _, h := range hdrs {
			outer := true
			for _, h2 := range hdrs {
				if h2 != h && naturalLoop(h2)[h] {
					outer = false
				}
			}
			if outer && naturalLoop(h)[search.Block()] {
				hdrOuter = h
			}
		}
		if hdrOuter == nil {
			r.Undecided("D2-no-early-negative", fa.key+":loops", p.Pos(fn.Pos()), "cannot find the loop over affected entries")
		} else {
			n := 0
			for i, ret := range returnsOf(fn) {
				if !(len(hdrOuter.Succs) == 2 && hdrOuter.Succs[0].Dominates(ret.Block())) {
					continue
				}
				n++
				b, isB := constBool(retVal(ret, 0))
				r.Check(isB && b, "D2-no-early-negative", fmt.Sprintf("%s:return-in-loop#%d", fa.key, i), p.Pos(ret.Pos()), "only 'true' is returned from inside the loops", "a verdict other than the constant 'true' is returned from inside the loops over affected entries and ranges: a negative result for one range ends the evaluation although a later range or entry may cover the version")
			}
			r.Instances("D2-no-early-negative", "returns inside the loops", n, 1)
		}
	}

	// --- D3
	events := search.Call.Args[0]
	r.Check(sortc.Call.Args[0] == events, "D3-sorted-search", fa.key+":same-slice", p.Pos(search.Pos()), "the slice searched is the slice sorted", "the binary search runs on a slice other than the one that was sorted")
	w := findPath(entryPoint(fn), instrIs(search), instrIs(sortc), nil)
	r.Check(w == nil, "D3-sorted-search", fa.key+":sort-first", p.Pos(search.Pos()), "sorted before searched on every path", "the events can be searched without having been sorted")
	r.Check(clone != nil && events == ssa.Value(clone), "D3-sorted-search", fa.key+":private-copy", p.Pos(sortc.Pos()), "sorting works on slices.Clone(r.Events)", "the events are sorted in place: evaluating one package reorders the shared vulnerability record")
	r.Check(loadsField(search.Call.Args[1], "Package", "Version"), "D3-sorted-search", fa.key+":target", p.Pos(search.Pos()), "searches for pkg.Version", "the search target is not the package's own version")
	// comparators
	scmp := funcValue(sortc.Call.Args[1])
	bcmp := funcValue(search.Call.Args[2])
	sentinel := func(f *ssa.Function) int {
		n := 0
		if f == nil {
			return 0
		}
		holds, _ := guardEdges(f, func(c ssa.Value) (bool, bool) {
			op, x, y, ok := cmpNorm(c)
			if !ok || (op != token.EQL && op != token.NEQ) {
				return false, false
			}
			if s, ok := constString(y); ok && s == "0" {
				_ = x
				return true, op == token.EQL
			}
			if s, ok := constString(x); ok && s == "0" {
				return true, op == token.EQL
			}
			return false, false
		})
		n = len(holds)
		return n
	}
	cmpCalls := func(f *ssa.Function) int {
		n := 0
		if f == nil {
			return 0
		}
		forEachInstr(f, func(_ *ssa.BasicBlock, _ int, in ssa.Instruction) {
			if c := callOf(in); c != nil {
				if (c.IsInvoke() && c.Method.Name() == "Compare") || (c.StaticCallee() != nil && c.StaticCallee().Name() == "Compare") {
					n++
				}
			}
		})
		return n
	}
	r.Check(sentinel(scmp) >= 2 && cmpCalls(scmp) == 1, "D3-sorted-search", fa.key+":sort-sentinel", p.Pos(sortc.Pos()), "sort comparator: \"0\" first on both sides, else the ecosystem comparison", "the sort comparator does not put the sentinel \"0\" before every version on both operands (or no longer uses the ecosystem's comparison)")
	if bcmp != nil {
		fb := newFA(p, r, bcmp)
		holds, _ := guardEdges(bcmp, func(c ssa.Value) (bool, bool) {
			op, x, y, ok := cmpNorm(c)
			if !ok || (op != token.EQL && op != token.NEQ) {
				return false, false
			}
			if s, ok := constString(y); ok && s == "0" {
				_ = x
				return true, op == token.EQL
			}
			return false, false
		})
		okS := len(holds) > 0
		for _, ed := range holds {
			if wp := findPath(edgeStart(ed), func(in ssa.Instruction) bool {
				ret, ok := in.(*ssa.Return)
				if !ok {
					return false
				}
				k, isK := constInt(retVal(ret, 0))
				return !(isK && k < 0)
			}, nil, nil); wp != nil {
				okS = false
			}
		}
		_ = fb
		r.Check(okS && cmpCalls(bcmp) == 1, "D3-sorted-search", fa.key+":search-sentinel", p.Pos(search.Pos()), "search comparator: event \"0\" is below every version, else the ecosystem comparison", "the search comparator no longer treats the sentinel \"0\" as preceding every version: versions that the ecosystem orders below the literal 0 (pre-releases of 0) fall outside a range opened with \"0\"")
	} else {
		r.Undecided("D3-sorted-search", fa.key+":search-comparator", p.Pos(search.Pos()), "search comparator is not a function literal")
	}

	// --- D4
	exact := func(c ssa.Value) (bool, bool) {
		ex, ok := c.(*ssa.Extract)
		return ok && ex.Tuple == ssa.Value(search) && ex.Index == 1, true
	}
	idxv := func(v ssa.Value) bool {
		ex, ok := v.(*ssa.Extract)
		return ok && ex.Tuple == ssa.Value(search) && ex.Index == 0
	}
	exH, exF := guardEdges(fn, exact)
	if len(exH) == 0 {
		r.Fail("D4-decision", fa.key+":exact-test", p.Pos(search.Pos()), "the 'exact hit' result of the search is not tested")
		return
	}
	evField := func(field string, prev bool) CondPred {
		return func(c ssa.Value) (bool, bool) {
			op, x, y, ok := cmpNorm(c)
			if !ok || (op != token.EQL && op != token.NEQ) {
				return false, false
			}
			if s, isS := constString(y); !isS || s != "" {
				return false, false
			}
			s, f, base, ok := fieldOf(loadAddr(x))
			if !ok || s != "Event" || f != field {
				return false, false
			}
			// base: events[idx] (possibly copied to a local) or events[idx-1]
			isPrev := derivesFrom(base, func(v ssa.Value) bool {
				ia, ok := v.(*ssa.IndexAddr)
				if !ok {
					return false
				}
				bo, ok := ia.Index.(*ssa.BinOp)
				return ok && bo.Op == token.SUB && idxv(bo.X)
			}, deriveOpts{followStores: true})
			isCur := derivesFrom(base, func(v ssa.Value) bool {
				ia, ok := v.(*ssa.IndexAddr)
				return ok && idxv(ia.Index)
			}, deriveOpts{followStores: true})
			if prev && isPrev || !prev && isCur && !isPrev {
				return true, op == token.NEQ
			}
			return false, false
		}
	}
	for i, ret := range returnsOf(fn) {
		b, isB := constBool(retVal(ret, 0))
		if !isB || !b {
			continue
		}
		if !onlyVia(fn, ret.Block(), append(append([]Edge{}, exH...), exF...)) {
			continue // the explicit-versions verdict
		}
		viaExact := onlyVia(fn, ret.Block(), exH)
		viaBetween := onlyVia(fn, ret.Block(), exF)
		introCur, _ := guardEdges(fn, evField("Introduced", false))
		lastCur, _ := guardEdges(fn, evField("LastAffected", false))
		introPrev, _ := guardEdges(fn, evField("Introduced", true))
		nz, _ := guardEdges(fn, condCmp(idxv, isConstInt(0), token.NEQ))
		site := fmt.Sprintf("%s:range-verdict#%d", fa.key, i)
		// a verdict reached both ways (the two tests jump to one `return true`) answers to both rules:
		// each rule looks at its own paths, the other kind cut away
		if !viaBetween {
			cut := append(append(append([]Edge{}, exF...), introCur...), lastCur...)
			ok := len(introCur) > 0 && len(lastCur) > 0 && onlyVia(fn, ret.Block(), cut)
			st := site
			if !viaExact {
				st += ":exact"
			}
			r.Check(ok, "D4-decision", st, p.Pos(ret.Pos()), "exact hit ⇒ affected iff the event is introduced or last_affected", "on an exact hit the version is judged affected without the event being 'introduced' or 'last_affected' (a version exactly on a 'fixed' event counts as affected)")
		}
		if !viaExact {
			ok := len(introPrev) > 0 && onlyVia(fn, ret.Block(), append(append([]Edge{}, exH...), introPrev...)) && len(nz) > 0 && onlyVia(fn, ret.Block(), append(append([]Edge{}, exH...), nz...))
			st := site
			if !viaBetween {
				st += ":between"
			}
			r.Check(ok, "D4-decision", st, p.Pos(ret.Pos()), "between events ⇒ affected iff a previous event exists and is 'introduced'", "between two events the version is judged affected without the previous event being an 'introduced' event")
		}
	}
	// --- D5
	checkBounds(p, r, "D5-bounds", fn, nil)
}

func idomOf(b *ssa.BasicBlock) *ssa.BasicBlock {
	if b == nil {
		return nil
	}
	return b.Idom()
}

// c18Listed: the explicit-versions test slices.Contains(affected.Versions, pkg.Version) exists, its
// true edge returns true, and it is evaluated under exactly the audited conditions (same package,
// known ecosystem, inside the loop over affected entries) — in particular not only when no range
// could be evaluated, and not after the ranges said "not affected".
var c18ListedGuards = []string{
	// inside the loop over the advisory's affected entries
	"in-range: param0.Affected",
	// the package's ecosystem is known
	"0:deps.dev/util/resolve.System != guidedremediation/internal/util.OSVToDepsDevEcosystem(extractor.Ecosystem(param1))",
	// same ecosystem, same name
	"extractor.Ecosystem(param1) == param0.Affected[ι].Package.Ecosystem",
	"param0.Affected[ι].Package.Name == param1.Name",
}

func c18Listed(p *Prog, r *Report, fn *ssa.Function) {
	var cc *ssa.Call
	forEachInstr(fn, func(_ *ssa.BasicBlock, _ int, in ssa.Instruction) {
		c, ok := in.(*ssa.Call)
		if !ok || refOf(c.Common()).Pkg != "slices" || !strings.HasPrefix(refOf(c.Common()).Name, "Contains") {
			return
		}
		_, f, _, ok := fieldOf(loadAddr(c.Call.Args[0]))
		if ok && f == "Versions" {
			cc = c
		}
	})
	site := "vulns.IsAffected"
	if cc == nil {
		r.Fail("D6-listed", site+":test", p.Pos(fn.Pos()), "IsAffected no longer tests the affected entry's explicit version list")
		return
	}
	_, f2, base, ok := fieldOf(loadAddr(cc.Call.Args[1]))
	r.Check(ok && f2 == "Version" && rootParam(base) == ssa.Value(fn.Params[1]), "D6-listed", site+":operand", p.Pos(cc.Pos()), "the package's own version is looked up", "the explicit version list is searched for something other than the package's version")
	// true edge returns true
	okRet := false
	if ifi := blockIf(cc.Block()); ifi != nil {
		inner, flip := stripNot(ifi.Cond)
		if inner == ssa.Value(cc) {
			k := 0
			if flip {
				k = 1
			}
			t := cc.Block().Succs[k]
			if ret, isR := t.Instrs[len(t.Instrs)-1].(*ssa.Return); isR {
				if b, isB := constBool(retVal(ret, 0)); isB && b {
					okRet = true
				}
			}
		}
	}
	r.Check(okRet, "D6-listed", site+":verdict", p.Pos(cc.Pos()), "listed ⇒ return true", "a version found in the explicit list does not lead straight to a positive verdict")
	defer func(d int, a bool) { renderDepth, renderAllocs = d, a }(renderDepth, renderAllocs)
	renderDepth, renderAllocs = 10, true
	got := controlGuards(cc.Block())
	sort.Strings(got)
	if os.Getenv("SCALINT_LEARN") != "" {
		for _, g := range got {
			fmt.Fprintf(os.Stderr, "LEARN-GUARD\t%q,\n", g)
		}
		return
	}
	want := append([]string{}, c18ListedGuards...)
	sort.Strings(want)
	r.Check(strings.Join(got, "\n") == strings.Join(want, "\n"), "D6-listed", site+":guards", p.Pos(cc.Pos()), "evaluated for every entry of the same package", fmt.Sprintf("the explicit-versions test is evaluated under other conditions than the audited ones (got %v): e.g. only when no range could be evaluated, so a listed version outside the ranges is judged not affected", got))
}

// controlGuards: the branch decisions (rendered with polarity) that every path to b has taken:
// for each dominator ending in an If, the successor through which b is reached when only one is.
var inRangeRe = regexp.MustCompile(`^(?:\(φ:int\+1:int\)|φ:int) < builtin\.len\((.*)\)$`)

// isCounterTest: block d ends in `counter(+1) < len(X)` on a counter phi of d itself.
func isCounterTest(d *ssa.BasicBlock) bool {
	return rangeEnd(d, "builtin.len(x) <= φ:int") == "range-end: x"
}

func controlGuards(b *ssa.BasicBlock) []string {
	var out []string
	for d := b.Idom(); d != nil; d = d.Idom() {
		ifi := blockIf(d)
		if ifi == nil {
			continue
		}
		// a successor that is a back edge (it dominates d) starts another iteration: b is not reached
		// "through" it in this one
		r0 := (d.Succs[0] == b || d.Succs[0].Dominates(b)) && !d.Succs[0].Dominates(d)
		r1 := (d.Succs[1] == b || d.Succs[1].Dominates(b)) && !d.Succs[1].Dominates(d)
		if r0 == r1 {
			continue
		}
		g := renderCondV(ifi.Cond, r0)
		if r0 {
			// the loop head's own "still inside the collection" test, in its canonical form
			if m := inRangeRe.FindStringSubmatch(g); m != nil && isCounterTest(d) {
				g = "in-range: " + m[1]
			}
		}
		out = append(out, g)
	}
	return out
}

// c18RangeSkips: audited decisions that keep a range (or an affected entry) from being evaluated.
var c18RangeSkips = []string{
	"\"SEMVER\":github.com/ossf/osv-schema/bindings/go/osvschema.RangeType != param0.Affected[ι].Ranges[ι].Type",
	"\"npm\":string != param0.Affected[ι].Package.Ecosystem",
	"0:int != slices.BinarySearchFunc(slices.Clone(param0.Affected[ι].Ranges[ι].Events),param1.Version,*ssa.MakeClosure)#0 && builtin.len(slices.Clone(param0.Affected[ι].Ranges[ι].Events)[(slices.BinarySearchFunc(slices.Clone(….Affected[ι].Ranges[ι].Events),param1.Version,*ssa.MakeClosure)#0-1:int)].Introduced) != 0",
	"builtin.len(slices.Clone(param0.Affected[ι].Ranges[ι].Events)[slices.BinarySearchFunc(slices.Clone(param0.Affected[ι].Ranges[ι].Events),param1.Version,*ssa.MakeClosure)#0].Introduced) != 0",
	"builtin.len(slices.Clone(param0.Affected[ι].Ranges[ι].Events)[slices.BinarySearchFunc(slices.Clone(param0.Affected[ι].Ranges[ι].Events),param1.Version,*ssa.MakeClosure)#0].LastAffected) != 0",
	"extractor.Ecosystem(param1) != param0.Affected[ι].Package.Ecosystem",
	"param0.Affected[ι].Package.Name != param1.Name",
	"range-end: param0.Affected",
	"range-end: param0.Affected[ι].Ranges",
	"range-end: param0.Affected[ι].Ranges",
	"slices.Contains(param0.Affected[ι].Versions,param1.Version)",
}
