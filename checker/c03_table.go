package main

// c03Sanctioned: audited omission / exit decisions of the package-producing loops (generated with
// SCALINT_LEARN=1, then confirmed by reading). Key: function; values: rendered decisions.
var c03Sanctioned = map[string][]string{
	"extractor/filesystem/language/dotnet/packageslockjson.Extractor.extractFromInput": {
		"!next(range(…#2))#0",
		"!next(range(…#2))#0",
		"!next(range(….Dependencies))#0",
	},
	"extractor/filesystem/language/golang/gomod.Extractor.Extract": {
		"!next(range(…#0))#0",
		"extractor/filesystem/language/golang/gomod.extractGoMod(…)#0[next(…)#1]#1",
	},
	"extractor/filesystem/language/golang/gomod.Extractor.extractGoMod": {
		"!next(range(make(map)))#0",
		"range-end: φ:[]gomod.pkgKey",
	},
	"extractor/filesystem/language/golang/gomod.extractFromSum": {
		"!bufio.Scanner.Scan(bufio.NewScanner(*ssa.ChangeInterface))",
		"3:int != builtin.len(strings.Fields(bufio.Scanner.Text(bufio.NewScanner(…))))",
		"builtin.len(bufio.Scanner.Text(bufio.NewScanner(*ssa.ChangeInterface))) == 0",
		"strings.Contains(strings.TrimPrefix(strings.Fields(…)[1:int],\"v\":string),\"/go.mod\":string)",
	},
	"extractor/filesystem/language/java/gradlelockfile.Extractor.Extract": {
		"!bufio.Scanner.Scan(bufio.NewScanner(param1.Reader))",
		"!extractor/filesystem/language/java/gradlelockfile.isGradleLockFileDepLine(strings.TrimSpace(bufio.Scanner.Text(bufio.NewScanner(…))))",
		"extractor/filesystem/language/java/gradlelockfile.parseToGradlePackageDetail(strings.TrimSpace(bufio.Scanner.Text(…)))#1 != nil:error",
	},
	"extractor/filesystem/language/javascript/packagelockjson.Extractor.extractPkgLock": {
		"range-end: golang.org/x/exp/maps.Values(extractor/filesystem/language/javascript/packagelockjson.parseNpmLock(local:**packagelockjson.LockFile))",
	},
	"extractor/filesystem/language/php/composerlock.Extractor.Extract": {
		"range-end: local:**composerlock.composerLock.PackagesDev",
	},
	"extractor/filesystem/language/python/pipfilelock.addPkgDetails": {
		"!next(range(param1))#0",
		"!strings.HasPrefix(local:*pipfilelock.pipenvPackage.Version,\"==\":string)",
		"builtin.len(local:*pipfilelock.pipenvPackage.Version) < 3:int",
		"builtin.len(local:*pipfilelock.pipenvPackage.Version) == 0",
		"param0[((…+…)+…[:])]#1",
	},
	"extractor/filesystem/language/python/poetrylock.Extractor.Extract": {
		"range-end: local:**poetrylock.poetryLockFile.Packages",
	},
	"extractor/filesystem/language/python/requirements.extractFromExtraPaths": {
		"builtin.len(φ:requirements.pathQueue) == 0",
		"extractor/filesystem/language/python/requirements.openAndExtractFromFile(φ:requirements.pathQueue[0:int],param2)#2 != nil:error",
		"make(map)[φ:requirements.pathQueue[0:int]]#1",
	},
	"extractor/filesystem/language/python/requirements.extractFromPath": {
		"!bufio.Scanner.Scan(bufio.NewScanner(param0))",
		"!regexp.Regexp.MatchString(reValidPkg,extractor/filesystem/language/python/requirements.getLowestVersion(regexp.Regexp.ReplaceAllString(…,…,…))#0)",
		"builtin.len(extractor/filesystem/language/python/requirements.getLowestVersion(regexp.Regexp.ReplaceAllString(reExtras,…[…],\"\":string))#0) == 0",
		"builtin.len(extractor/filesystem/language/python/requirements.getLowestVersion(regexp.Regexp.ReplaceAllString(reExtras,…[…],\"\":string))#1) == 0 && builtin.len(extractor/filesystem/language/python/requirements.getLowestVersion(regexp.Regexp.ReplaceAllString(reExtras,…[…],\"\":string))#2) != 0",
		"builtin.len(regexp.Regexp.ReplaceAllString(reExtras,strings.SplitN(…,…,…)[0:int],\"\":string)) == 0",
		"strings.HasPrefix(regexp.Regexp.ReplaceAllString(reExtras,strings.SplitN(…,…,…)[0:int],\"\":string),\"-\":string)",
	},
	"extractor/filesystem/language/ruby/gemfilelock.Extractor.Extract": {
		"!in{\"GEM\":string,\"GIT\":string,\"PATH\":string,\"PLUGIN SOURCE\":string}(…#0[ι].name)",
		"builtin.len(regexp.Regexp.FindStringSubmatch(nameVersionRegexp,….specs[ι])) < 3:int",
		"builtin.len(regexp.Regexp.FindStringSubmatch(nameVersionRegexp,….specs[ι])[1:int]) == 0",
		"builtin.len(regexp.Regexp.FindStringSubmatch(nameVersionRegexp,….specs[ι])[2:int]) == 0",
		"range-end: extractor/filesystem/language/ruby/gemfilelock.parseLockfileSections(param1)#0",
		"range-end: …#0[ι].specs",
		"range-end: …#0[ι].specs",
	},
	"extractor/filesystem/language/rust/cargolock.Extractor.Extract": {
		"range-end: local:**cargolock.cargoLockFile.Packages",
	},
	"extractor/filesystem/os/apk.Extractor.extractFromInput": {
		"builtin.len(extractor/filesystem/os/apk.parseSingleApkRecord(bufio.NewScanner(…))#0) == 0",
		"builtin.len(extractor/filesystem/os/apk.parseSingleApkRecord(bufio.NewScanner(…))#0[\"P\":string]) == 0",
		"builtin.len(extractor/filesystem/os/apk.parseSingleApkRecord(bufio.NewScanner(…))#0[\"V\":string]) == 0",
		"context.Context.Err(param1) != nil:error",
		"extractor/filesystem/os/apk.parseSingleApkRecord(bufio.NewScanner(….Reader))#1 != nil:error",
	},
	"extractor/filesystem/os/dpkg.Extractor.extractFromInput": {
		"!errors.Is(net/textproto.Reader.ReadMIMEHeader(net/textproto.NewReader(…))#1,EOF)",
		"!extractor/filesystem/os/dpkg.statusInstalled(net/textproto.MIMEHeader.Get(…#0,\"Status\":string))#0",
		"builtin.len(net/textproto.MIMEHeader.Get(net/textproto.Reader.ReadMIMEHeader(net/textproto.NewReader(…))#0,\"Package\":string)) == 0",
		"builtin.len(net/textproto.MIMEHeader.Get(net/textproto.Reader.ReadMIMEHeader(net/textproto.NewReader(…))#0,\"Status\":string)) == 0",
		"builtin.len(net/textproto.MIMEHeader.Get(net/textproto.Reader.ReadMIMEHeader(net/textproto.NewReader(…))#0,\"Version\":string)) == 0",
		"builtin.len(net/textproto.Reader.ReadMIMEHeader(net/textproto.NewReader(…))#0) == 0",
		"context.Context.Err(param1) != nil:error",
		"extractor/filesystem/os/dpkg.parseSourceNameVersion(net/textproto.MIMEHeader.Get(…#0,\"Source\":string))#2 != nil:error",
		"extractor/filesystem/os/dpkg.statusInstalled(net/textproto.MIMEHeader.Get(…#0,\"Status\":string))#1 != nil:error",
		"φ:bool",
	},
}
