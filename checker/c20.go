package main

import (
	"fmt"
	"go/token"
	"go/types"
	"strings"

	"golang.org/x/tools/go/ssa"
)

func init() {
	register(&PropDef{
		ID:       "C20",
		Patterns: []string{".", "./detector", "./packageindex", "./extractor/filesystem", "./extractor/filesystem/internal"},
		Explain: "Decided: D1 in Scan the package index is built from the result inventory's Packages after both the file-system inventory was stored and the standalone inventory appended, and that index is the one passed to detector.Run; " +
			"D2 detector.Run ranges over all detectors, invokes Scan once per iteration, tags every returned finding with that detector's Name(), appends all of them, and appends a status built from that call's error on every path; " +
			"D3 Run returns findings only when validateAdvisories returned nil and returns no findings with the error otherwise; validateAdvisories fails for a nil advisory, a nil ID, and for a DeepEqual-different advisory under an equal ID, with the ID map keyed by the ID *value*; Scan appends the findings it got; " +
			"D4 packageindex.New skips a package only when its extractor yields no package URL, stores the package under [url.Type][url.Name] of that URL; GetSpecific looks up [type][name] in that order. " +
			"Added in round 3: the decisions that keep a package out of the index are the audited ones (frozen table). Added in round 7: D4 additionally: packageindex.New stores the unfiltered parameter list (or a copy) in no field. NOT decided: index contents as a set for arbitrary inventories (values).",
		Run: runC20,
		Controls: []Mutant{
			{Name: "index-before-standalone", File: "scalibr.go", Old: "	sro.Inventory.Append(standaloneInv)\n	sro.ExtractorStatus = append(sro.ExtractorStatus, standaloneStatus...)\n\n	px, err := packageindex.New(sro.Inventory.Packages)\n	if err != nil {\n		sro.Err = err\n		sro.EndTime = time.Now()\n		return newScanResult(sro)\n	}\n", New: "	px, err := packageindex.New(sro.Inventory.Packages)\n	if err != nil {\n		sro.Err = err\n		sro.EndTime = time.Now()\n		return newScanResult(sro)\n	}\n	sro.Inventory.Append(standaloneInv)\n	sro.ExtractorStatus = append(sro.ExtractorStatus, standaloneStatus...)\n", Rule: "D1-index", Site: "after-standalone"},
			{Name: "index-keyed-by-pkg-name", File: "packageindex/package_index.go", Old: "pkgMap[p.Type][p.Name] = append(pkgMap[p.Type][p.Name], pkg)", New: "pkgMap[p.Type][pkg.Name] = append(pkgMap[p.Type][pkg.Name], pkg)", Rule: "D4-index-key", Site: "New"},
			{Name: "advisory-map-by-pointer", File: "detector/detector.go", Old: "\tids := make(map[AdvisoryID]Advisory)\n\tfor _, f := range findings {\n\t\tif f.Adv == nil {\n\t\t\treturn fmt.Errorf(\"finding has no advisory set: %v\", f)\n\t\t}\n\t\tif f.Adv.ID == nil {\n\t\t\treturn fmt.Errorf(\"finding has no advisory ID set: %v\", f)\n\t\t}\n\t\tif adv, ok := ids[*f.Adv.ID]; ok {\n\t\t\tif !reflect.DeepEqual(adv, *f.Adv) {\n\t\t\t\treturn fmt.Errorf(\"multiple non-identical advisories with ID %v\", f.Adv.ID)\n\t\t\t}\n\t\t}\n\t\tids[*f.Adv.ID] = *f.Adv\n\t}", New: "\tids := make(map[*AdvisoryID]*Advisory)\n\tfor _, f := range findings {\n\t\tif f.Adv == nil {\n\t\t\treturn fmt.Errorf(\"finding has no advisory set: %v\", f)\n\t\t}\n\t\tif f.Adv.ID == nil {\n\t\t\treturn fmt.Errorf(\"finding has no advisory ID set: %v\", f)\n\t\t}\n\t\tif adv, ok := ids[f.Adv.ID]; ok {\n\t\t\tif !reflect.DeepEqual(adv, f.Adv) {\n\t\t\t\treturn fmt.Errorf(\"multiple non-identical advisories with ID %v\", f.Adv.ID)\n\t\t\t}\n\t\t}\n\t\tids[f.Adv.ID] = f.Adv\n\t}", Rule: "D3-validate", Site: "key"},
			{Name: "findings-untagged", File: "detector/detector.go", Old: "			f.Detectors = []string{d.Name()}\n", New: "			if len(f.Detectors) == 0 {\n				f.Detectors = []string{d.Name()}\n			}\n", Rule: "D2-tag", Site: "Run"},
			{Name: "status-only-on-error", File: "detector/detector.go", Old: "		status = append(status, plugin.StatusFromErr(d, false, err))\n", New: "		if err != nil {\n			status = append(status, plugin.StatusFromErr(d, false, err))\n		}\n", Rule: "D2-status", Site: "Run"},
			{Name: "validate-ignored", File: "detector/detector.go", Old: "	if err := validateAdvisories(findings); err != nil {\n		return []*Finding{}, status, err\n	}", New: "	if err := validateAdvisories(findings); err != nil {\n		_ = err\n	}", Rule: "D3-validate", Site: "Run"},
			{Name: "getspecific-swapped", File: "packageindex/package_index.go", Old: "	m, ok := px.pkgMap[pkgType]\n	if !ok {\n		return result\n	}\n	p, ok := m[name]", New: "	m, ok := px.pkgMap[name]\n	if !ok {\n		return result\n	}\n	p, ok := m[pkgType]", Rule: "D4-index-key", Site: "GetSpecific"},
		},
		Neutral: c20Neutral,
	})
}

func runC20(p *Prog, r *Report) {
	defer func() {
		if fn := p.Func("packageindex", "New"); fn != nil {
			frozenSkips(p, r, "D4-index-key", "packageindex.New", fn, func(in ssa.Instruction) bool {
				mu, ok := in.(*ssa.MapUpdate)
				return ok && strings.Contains(typeShort(mu.Value.Type()), "Package")
			}, c20IndexSkips, "INDEX", "a package can be left out of the index handed to the detectors for a reason other than 'its extractor yields no package URL'")
		}
	}()
	r.Rule("D1-index", "index built from the complete inventory and handed to detector.Run")
	r.Rule("D2-once", "each detector scanned once; loop covers all detectors")
	r.Rule("D2-tag", "every finding tagged with its detector's name and appended")
	r.Rule("D2-status", "a status per detector from that call's error on every path")
	r.Rule("D3-validate", "inconsistent/missing advisories fail the run; ID map keyed by value")
	r.Rule("D4-index-key", "index keyed by the package URL's type and name; skip only without URL")
	c20Scan(p, r)
	c20Run(p, r)
	c20Validate(p, r)
	c20Index(p, r)
	r.Rule("D5-intact", "lists of findings and packages are never shortened while the result is assembled")
	resultListsNeverShrink(p, r, "D5-intact", ".", "detector", "inventory", "packageindex")
	// the index's getters hand out every package of the buckets they read: index expressions in
	// bounds, and no copy into a destination that may be too short (copy truncates silently)
	for _, fn := range p.FuncsIn("packageindex") {
		checkBounds(p, r, "D5-intact", fn, nil)
	}
	indexKeepsOnlyFiltered(p, r, "D4-index-key")
}

func c20Scan(p *Prog, r *Report) {
	scan := p.Func(".", "Scanner.Scan")
	if scan == nil {
		r.Undecided("D1-index", "anchor:Scanner.Scan", "-", "not found")
		return
	}
	fa := newFA(p, r, scan)
	var newC, detC, fsRun, saRun *ssa.Call
	var saApp, fsStore ssa.Instruction
	forEachInstr(scan, func(_ *ssa.BasicBlock, _ int, in ssa.Instruction) {
		if c, ok := in.(*ssa.Call); ok {
			rf := refOf(c.Common())
			switch {
			case rf.is(fp("packageindex"), "", "New"):
				newC = c
			case rf.is(fp("detector"), "", "Run"):
				detC = c
			case rf.is(fp(fsPkg), "", "Run"):
				fsRun = c
			case rf.is(fp("extractor/standalone"), "", "Run"):
				saRun = c
			case rf.is(fp("inventory"), "Inventory", "Append"):
				if s, f, _, ok := fieldOf(c.Call.Args[0]); ok && s == "newScanResultOptions" && f == "Inventory" {
					saApp = in
				}
			}
		}
		if st, ok := in.(*ssa.Store); ok {
			if s, f, _, ok := fieldOf(st.Addr); ok && s == "newScanResultOptions" && f == "Inventory" {
				fsStore = in
			}
		}
	})
	if newC == nil || detC == nil || fsRun == nil || saRun == nil {
		r.Fail("D1-index", fa.key+":calls", p.Pos(scan.Pos()), "Scan no longer calls filesystem.Run, standalone.Run, packageindex.New and detector.Run")
		return
	}
	// arg of New: load of sro.Inventory.Packages
	arg := newC.Call.Args[0]
	okArg := false
	if s, f, base, ok := fieldOf(loadAddr(arg)); ok && s == "Inventory" && f == "Packages" {
		if s2, f2, _, ok := fieldOf(base); ok && s2 == "newScanResultOptions" && f2 == "Inventory" {
			okArg = true
		}
	}
	r.Check(okArg, "D1-index", fa.key+":index-source", p.Pos(newC.Pos()), "packageindex.New(sro.Inventory.Packages)", "the package index is not built from the result inventory's packages")
	if fsStore == nil || saApp == nil {
		r.Fail("D1-index", fa.key+":after-standalone", p.Pos(newC.Pos()), "the file-system inventory store / standalone append was not found")
	} else {
		w1 := findPath(entryPoint(scan), instrIs(newC), instrIs(saApp), nil)
		w2 := findPath(entryPoint(scan), instrIs(newC), instrIs(fsStore), nil)
		// and the load of Packages happens after the append (same block order or dominated)
		w3 := findPath(pointOf(saApp), func(in ssa.Instruction) bool { return in == ssa.Instruction(arg.(ssa.Instruction)) }, nil, nil)
		r.Check(w1 == nil && w2 == nil && w3 != nil, "D1-index", fa.key+":after-standalone", p.Pos(newC.Pos()), "index built after file-system and standalone packages are in the inventory", "the index is built (or its package slice read) before the standalone extractors' packages were appended: detectors do not see them")
	}
	// detector.Run gets px
	okPx := false
	if ex, ok := detC.Call.Args[4].(*ssa.Extract); ok && ex.Tuple == ssa.Value(newC) && ex.Index == 0 {
		okPx = true
	}
	r.Check(okPx, "D1-index", fa.key+":index-passed", p.Pos(detC.Pos()), "detector.Run(..., px)", "the index handed to the detectors is not the one just built")
	r.Check(loadsField(detC.Call.Args[2], "ScanConfig", "Detectors"), "D1-index", fa.key+":detectors-passed", p.Pos(detC.Pos()), "config.Detectors", "detector.Run is not given the configured detectors")
	// findings appended
	okF := false
	forEachInstr(scan, func(_ *ssa.BasicBlock, _ int, in ssa.Instruction) {
		st, ok := in.(*ssa.Store)
		if !ok || !storesField("Inventory", "Findings")(in) {
			return
		}
		c, _ := callValue(st.Val)
		if c != nil && isCallTo(c, "builtin", "", "append") {
			if ex, ok := c.Call.Args[1].(*ssa.Extract); ok && ex.Tuple == ssa.Value(detC) && ex.Index == 0 {
				okF = true
			}
		}
	})
	r.Check(okF, "D1-index", fa.key+":findings-kept", p.Pos(detC.Pos()), "findings appended to the result inventory", "the findings returned by detector.Run are not appended to the result")
	okS := false
	forEachInstr(scan, func(_ *ssa.BasicBlock, _ int, in ssa.Instruction) {
		if st, ok := in.(*ssa.Store); ok && storesField("newScanResultOptions", "DetectorStatus")(in) {
			if ex, ok := st.Val.(*ssa.Extract); ok && ex.Tuple == ssa.Value(detC) && ex.Index == 1 {
				okS = true
			}
		}
	})
	r.Check(okS, "D1-index", fa.key+":status-kept", p.Pos(detC.Pos()), "detector statuses stored", "the detector statuses are dropped")
}

func c20Run(p *Prog, r *Report) {
	run := p.Func("detector", "Run")
	if run == nil {
		r.Undecided("D2-once", "anchor:detector.Run", "-", "not found")
		return
	}
	fa := newFA(p, r, run)
	var sc *ssa.Call
	nsc := 0
	forEachInstr(run, func(_ *ssa.BasicBlock, _ int, in ssa.Instruction) {
		if c, ok := in.(*ssa.Call); ok && c.Call.IsInvoke() && c.Call.Method.Name() == "Scan" {
			sc = c
			nsc++
		}
	})
	if sc == nil || nsc != 1 {
		r.Fail("D2-once", fa.key+":scan-call", p.Pos(run.Pos()), fmt.Sprintf("expected exactly one Detector.Scan call site, found %d", nsc))
		return
	}
	hdr := loopHeaderOf(sc.Block())
	if hdr == nil {
		r.Fail("D2-once", fa.key+":loop", p.Pos(sc.Pos()), "Detector.Scan is not called in a loop over the detectors")
		return
	}
	d := sc.Call.Value
	// d is element of detectors param (Params[2]) at range index
	okRange := false
	if coll, ok := fullScanElement(d); ok && coll == ssa.Value(run.Params[2]) {
		okRange = true
	}
	r.Check(okRange, "D2-once", fa.key+":range-all", p.Pos(sc.Pos()), "for _, d := range detectors", "the loop does not range over every enabled detector from the first")
	// inner loop check: Scan's innermost loop header is the detectors loop
	w := findPath(pointOf(sc), instrIs(sc), firstInstrOf(hdr), nil)
	r.Check(w == nil, "D2-once", fa.key+":once-per-iteration", p.Pos(sc.Pos()), "one Scan per iteration", "a detector can be scanned more than once per iteration")
	r.Check(sc.Call.Args[2] == ssa.Value(run.Params[4]) && sc.Call.Args[1] == ssa.Value(run.Params[3]), "D2-once", fa.key+":scan-args", p.Pos(sc.Pos()), "d.Scan(ctx, scanRoot, index)", "the detector is not given the scan root and index that Run received")
	after := findPath(pointOf(sc), firstInstrOf(hdr), nil, nil)
	r.Check(after != nil, "D2-once", fa.key+":continues", p.Pos(sc.Pos()), "loop continues after a detector", "after one detector the loop does not continue with the others")
	results := func(v ssa.Value) bool {
		ex, ok := v.(*ssa.Extract)
		return ok && ex.Tuple == ssa.Value(sc) && ex.Index == 0
	}
	errv := func(v ssa.Value) bool {
		ex, ok := v.(*ssa.Extract)
		return ok && ex.Tuple == ssa.Value(sc) && ex.Index == 1
	}
	// tag store
	var tag *ssa.Store
	forEachInstr(run, func(_ *ssa.BasicBlock, _ int, in ssa.Instruction) {
		if storesField("Finding", "Detectors")(in) {
			tag = in.(*ssa.Store)
		}
	})
	if tag == nil {
		r.Fail("D2-tag", fa.key+":tag", p.Pos(sc.Pos()), "findings are not tagged with the detector's name")
	} else {
		// value is slice of fresh array with one element d.Name()
		okVal := derivesFromSliceElem(tag.Val, func(v ssa.Value) bool {
			c, _ := callValue(v)
			return c != nil && c.Call.IsInvoke() && c.Call.Method.Name() == "Name" && sameLoad(c.Call.Value, d)
		})
		if sl, ok := tag.Val.(*ssa.Slice); ok {
			if al, ok := sl.X.(*ssa.Alloc); ok {
				if arr, ok := al.Type().Underlying().(*types.Pointer).Elem().Underlying().(*types.Array); ok && arr.Len() != 1 {
					okVal = false
				}
			}
		}
		_, _, base, _ := fieldOf(tag.Addr)
		okElem := derivesFrom(base, results, deriveOpts{})
		r.Check(okVal && okElem, "D2-tag", fa.key+":tag", p.Pos(tag.Pos()), "f.Detectors = []string{d.Name()} for f in results", "findings are tagged with something other than exactly the running detector's name, or not the findings of this call")
		th := loopHeaderOf(tag.Block())
		if th == nil || th == hdr {
			r.Fail("D2-tag", fa.key+":tag-loop", p.Pos(tag.Pos()), "the tagging is not in a loop over the call's results")
		} else {
			w := findPath(edgeStart(Edge{th, 0}), firstInstrOf(th), instrIs(tag), nil)
			r.Check(w == nil, "D2-tag", fa.key+":tag-every", p.Pos(tag.Pos()), "every finding tagged unconditionally", "a finding can pass the loop without being tagged (e.g. only when it carries no tag yet)")
		}
	}
	// findings = append(findings, results...)
	var app *ssa.Call
	forEachInstr(run, func(_ *ssa.BasicBlock, _ int, in ssa.Instruction) {
		if c, ok := in.(*ssa.Call); ok && isCallTo(c, "builtin", "", "append") && len(c.Call.Args) == 2 && results(c.Call.Args[1]) {
			app = c
		}
	})
	if app == nil {
		r.Fail("D2-tag", fa.key+":append", p.Pos(sc.Pos()), "the findings of a detector are not appended (all of them) to the returned list")
	} else {
		fa.noPath("D2-tag", "append-on-every-path", pointOf(sc), firstInstrOf(hdr), instrIs(app), nil, "appended on every path of the iteration", "an iteration can end without appending the detector's findings")
		if tag != nil {
			w := findPath(pointOf(sc), instrIs(app), firstInstrOf(loopHeaderOf(tag.Block())), nil)
			r.Check(w == nil, "D2-tag", fa.key+":tag-before-append", p.Pos(app.Pos()), "tagging loop precedes the append", "findings can be appended without passing the tagging loop")
		}
	}
	// status
	var stc *ssa.Call
	forEachInstr(run, func(_ *ssa.BasicBlock, _ int, in ssa.Instruction) {
		if c, ok := in.(*ssa.Call); ok && refOf(c.Common()).is(fp("plugin"), "", "StatusFromErr") {
			stc = c
		}
	})
	if stc == nil {
		r.Fail("D2-status", fa.key+":status", p.Pos(sc.Pos()), "no plugin.StatusFromErr call for detectors")
		return
	}
	r.Check(sameLoad(stripIface(stc.Call.Args[0]), d) && errv(stc.Call.Args[2]), "D2-status", fa.key+":status-args", p.Pos(stc.Pos()), "StatusFromErr(d, _, err of this Scan)", "the status is not built from the running detector and the error of its own Scan call")
	fa.noPath("D2-status", "status-on-every-path", pointOf(sc), firstInstrOf(hdr), func(in ssa.Instruction) bool {
		if st, ok := in.(*ssa.Store); ok {
			// status[i] = …: a pre-sized list filled at the loop's own position
			if ia, isIA := st.Addr.(*ssa.IndexAddr); isIA && st.Val == ssa.Value(stc) {
				_, full := fullScanElement(ia)
				return full || isLoopCursor(ia.Index)
			}
			return false
		}
		c, ok := in.(*ssa.Call)
		return ok && isCallTo(c, "builtin", "", "append") && derivesFromSliceElem(c.Call.Args[1], func(v ssa.Value) bool { return v == ssa.Value(stc) })
	}, nil, "a status entry is appended in every iteration", "a detector can finish an iteration without a status entry (e.g. only on error)")
}

func c20Validate(p *Prog, r *Report) {
	run := p.Func("detector", "Run")
	va := p.Func("detector", "validateAdvisories")
	if run == nil || va == nil {
		r.Undecided("D3-validate", "anchor:detector.Run/validateAdvisories", "-", "not found")
		return
	}
	fa := newFA(p, r, run)
	var vc *ssa.Call
	forEachInstr(run, func(_ *ssa.BasicBlock, _ int, in ssa.Instruction) {
		if c, ok := in.(*ssa.Call); ok && c.Call.StaticCallee() == va {
			vc = c
		}
	})
	if vc == nil {
		r.Fail("D3-validate", fa.key+":call", p.Pos(run.Pos()), "detector.Run does not validate advisories")
		return
	}
	bad, good := guardEdges(run, condNonNil(func(v ssa.Value) bool { return v == ssa.Value(vc) }))
	for i, ret := range returnsOf(run) {
		f := retVal(ret, 0)
		e := retVal(ret, 2)
		if isNilConst(e) && !isNilConst(f) {
			// success return with findings
			r.Check(onlyVia(run, ret.Block(), good), "D3-validate", fmt.Sprintf("%s:success-return#%d", fa.key, i), p.Pos(ret.Pos()), "findings returned only after validation passed", "findings can be returned although validateAdvisories did not return nil")
			r.Check(derivesFrom(f, func(v ssa.Value) bool { return v == vc.Call.Args[0] }, deriveOpts{}) || f == vc.Call.Args[0], "D3-validate", fmt.Sprintf("%s:validated-value#%d", fa.key, i), p.Pos(ret.Pos()), "the validated list is what is returned", "the findings returned are not the list that was validated")
		}
	}
	for _, ed := range bad {
		fa.noPath("D3-validate", "failure-returns-error", edgeStart(ed), func(in ssa.Instruction) bool {
			ret, ok := in.(*ssa.Return)
			if !ok {
				return false
			}
			if retVal(ret, 2) != ssa.Value(vc) {
				return true
			}
			// findings must be empty: a fresh empty slice or nil
			f := retVal(ret, 0)
			if isNilConst(f) {
				return false
			}
			if sl, ok := f.(*ssa.Slice); ok {
				if al, ok := sl.X.(*ssa.Alloc); ok {
					if arr, ok := al.Type().Underlying().(*types.Pointer).Elem().Underlying().(*types.Array); ok && arr.Len() == 0 {
						return false
					}
				}
			}
			return true
		}, nil, nil, "validation failure returns (no findings, _, that error)", "when advisories are inconsistent Run does not return the error with an empty finding list")
	}
	if len(bad) == 0 {
		r.Fail("D3-validate", fa.key+":test", p.Pos(vc.Pos()), "the result of validateAdvisories is not tested")
	}
	// validateAdvisories body
	fv := newFA(p, r, va)
	// nil Adv / nil ID → non-nil error return
	for _, f := range []struct{ st, fld, what string }{{"Finding", "Adv", "advisory"}, {"Advisory", "ID", "advisory ID"}} {
		_, isNil := guardEdges(va, condNonNil(isFieldLoad(f.st, f.fld)))
		if len(isNil) == 0 {
			r.Fail("D3-validate", fv.key+":nil-"+f.fld, p.Pos(va.Pos()), "a finding without "+f.what+" is not rejected")
			continue
		}
		for _, ed := range isNil {
			fv.noPath("D3-validate", "nil-"+f.fld+"-rejected", edgeStart(ed), func(in ssa.Instruction) bool {
				ret, ok := in.(*ssa.Return)
				return ok && isNilConst(retVal(ret, 0))
			}, nil, nil, "missing "+f.what+" returns an error", "a finding without "+f.what+" can pass validation")
		}
	}
	_, notEq := guardEdges(va, condCall(callIs("reflect", "", "DeepEqual")))
	if len(notEq) == 0 {
		r.Fail("D3-validate", fv.key+":deep-equal", p.Pos(va.Pos()), "advisories with the same ID are not compared with reflect.DeepEqual")
	}
	for _, ed := range notEq {
		fv.noPath("D3-validate", "different-advisory-rejected", edgeStart(ed), func(in ssa.Instruction) bool {
			ret, ok := in.(*ssa.Return)
			return ok && isNilConst(retVal(ret, 0))
		}, nil, nil, "unequal advisories with one ID return an error", "two different advisories with the same ID can pass validation")
	}
	// map keyed by value
	nmap := 0
	forEachInstr(va, func(_ *ssa.BasicBlock, _ int, in ssa.Instruction) {
		mm, ok := in.(*ssa.MakeMap)
		if !ok {
			return
		}
		nmap++
		mt := mm.Type().Underlying().(*types.Map)
		_, keyPtr := mt.Key().Underlying().(*types.Pointer)
		_, elemPtr := mt.Elem().Underlying().(*types.Pointer)
		n := namedOf(mt.Key())
		r.Check(!keyPtr && n != nil && n.Obj().Name() == "AdvisoryID", "D3-validate", fv.key+":key-by-value", p.Pos(mm.Pos()), "map[AdvisoryID]…: equal IDs collide", "the advisory map is keyed by "+mt.Key().String()+": two findings with equal IDs in separately allocated structs never collide, so inconsistent advisories pass")
		_ = elemPtr
	})
	r.Instances("D3-validate", "advisory maps", nmap, 1)
	// every finding is recorded: MapUpdate on every loop iteration path that does not return
	var mu ssa.Instruction
	forEachInstr(va, func(_ *ssa.BasicBlock, _ int, in ssa.Instruction) {
		if _, ok := in.(*ssa.MapUpdate); ok {
			mu = in
		}
	})
	if mu == nil {
		r.Fail("D3-validate", fv.key+":record", p.Pos(va.Pos()), "advisories are never recorded for comparison")
	} else if hdr := loopHeaderOf(mu.Block()); hdr != nil {
		fv.noPath("D3-validate", "every-finding-recorded", edgeStart(Edge{hdr, 0}), firstInstrOf(hdr), instrIs(mu), nil, "each finding's advisory is recorded", "a finding can be skipped without recording its advisory for the consistency check")
	}
}

// rootParamOrLoad: the value a field chain starts from (loads and field selections peeled).
func rootParamOrLoad(v ssa.Value) ssa.Value {
	for d := 0; d < 8; d++ {
		switch x := v.(type) {
		case *ssa.UnOp:
			if x.Op != token.MUL {
				return v
			}
			if _, isFA := x.X.(*ssa.FieldAddr); isFA {
				v = x.X
				continue
			}
			return v
		case *ssa.FieldAddr:
			v = x.X
		case *ssa.Field:
			v = x.X
		default:
			return v
		}
	}
	return v
}

func c20Index(p *Prog, r *Report) {
	nw := p.Func("packageindex", "New")
	if nw == nil {
		r.Undecided("D4-index-key", "anchor:packageindex.New", "-", "not found")
		return
	}
	fa := newFA(p, r, nw)
	// the URL: toPURL(pkg) — whose body is p.Extractor.ToPURL(p) — or that call written out in New itself
	ownExtractorURL := func(c *ssa.Call, pkg ssa.Value) bool {
		return c.Call.IsInvoke() && c.Call.Method.Name() == "ToPURL" && len(c.Call.Args) == 1 && loadsField(c.Call.Value, "Package", "Extractor") &&
			c.Call.Args[0] == pkg && rootParamOrLoad(c.Call.Value) == rootParamOrLoad(pkg)
	}
	var tp *ssa.Call
	direct := false
	forEachInstr(nw, func(_ *ssa.BasicBlock, _ int, in ssa.Instruction) {
		c, ok := in.(*ssa.Call)
		if !ok {
			return
		}
		if refOf(c.Common()).is(fp("packageindex"), "", "toPURL") {
			tp = c
		} else if tp == nil && c.Call.IsInvoke() && c.Call.Method.Name() == "ToPURL" && len(c.Call.Args) == 1 && ownExtractorURL(c, c.Call.Args[0]) {
			tp, direct = c, true
		}
	})
	if tp == nil {
		r.Fail("D4-index-key", fa.key+":purl", p.Pos(nw.Pos()), "the index is not built from each package's package URL")
		return
	}
	pkg := tp.Call.Args[0]
	if direct {
		r.OK("D4-index-key", "packageindex.toPURL:body", p.Pos(tp.Pos()), "p.Extractor.ToPURL(p), written out in New")
	} else {
		// toPURL body: p.Extractor.ToPURL(p)
		tf := p.Func("packageindex", "toPURL")
		okT := false
		if tf != nil {
			forEachInstr(tf, func(_ *ssa.BasicBlock, _ int, in ssa.Instruction) {
				if c, ok := in.(*ssa.Call); ok && c.Call.IsInvoke() && c.Call.Method.Name() == "ToPURL" && loadsField(c.Call.Value, "Package", "Extractor") && c.Call.Args[0] == ssa.Value(tf.Params[0]) {
					for _, ret := range returnsOf(tf) {
						if retVal(ret, 0) == ssa.Value(c) {
							okT = true
						}
					}
				}
			})
		}
		r.Check(okT, "D4-index-key", "packageindex.toPURL:body", p.Pos(tp.Pos()), "p.Extractor.ToPURL(p)", "toPURL no longer asks the package's own extractor for the URL of that package")
	}
	// skip only under purl == nil: the loop's continue edges
	hdr := loopHeaderOf(tp.Block())
	nonNil, _ := guardEdges(nw, condNonNil(func(v ssa.Value) bool { return v == ssa.Value(tp) }))
	// the final MapUpdate storing pkg
	var store *ssa.MapUpdate
	forEachInstr(nw, func(_ *ssa.BasicBlock, _ int, in ssa.Instruction) {
		mu, ok := in.(*ssa.MapUpdate)
		if !ok {
			return
		}
		c, _ := callValue(mu.Value)
		if c != nil && isCallTo(c, "builtin", "", "append") && derivesFromSliceElem(c.Call.Args[1], func(v ssa.Value) bool { return v == pkg }) {
			store = mu
		}
	})
	if store == nil || hdr == nil {
		r.Fail("D4-index-key", fa.key+":store", p.Pos(tp.Pos()), "the package is not appended to an index bucket")
		return
	}
	for _, ed := range nonNil {
		fa.noPath("D4-index-key", "every-url-package-indexed", edgeStart(ed), firstInstrOf(hdr), instrIs(store), nil, "every package with a URL is stored", "a package that has a package URL can be left out of the index")
	}
	// key checks: store.Key == p.Name ; store.Map == lookup pkgMap[p.Type]
	isPurlField := func(v ssa.Value, f string) bool {
		s, fn, base, ok := fieldOf(loadAddr(v))
		return ok && s == "PackageURL" && fn == f && base == ssa.Value(tp)
	}
	// innerMap: v is the map of the URL's type — pkgMap[url.Type], read directly or through a local that
	// holds it (and that, when the type is new, holds the fresh map stored under pkgMap[url.Type])
	var innerMap func(v ssa.Value, depth int) bool
	innerMap = func(v ssa.Value, depth int) bool {
		if depth > 4 {
			return false
		}
		switch x := v.(type) {
		case *ssa.Lookup:
			return isPurlField(x.Index, "Type")
		case *ssa.Extract:
			if lk, ok := x.Tuple.(*ssa.Lookup); ok && x.Index == 0 {
				return isPurlField(lk.Index, "Type")
			}
		case *ssa.Phi:
			for _, e := range x.Edges {
				if !innerMap(e, depth+1) {
					return false
				}
			}
			return len(x.Edges) > 0
		case *ssa.MakeMap:
			stored := false
			forEachInstr(nw, func(_ *ssa.BasicBlock, _ int, in ssa.Instruction) {
				if mu, ok := in.(*ssa.MapUpdate); ok && mu.Value == ssa.Value(x) && isPurlField(mu.Key, "Type") {
					stored = true
				}
			})
			return stored
		}
		return false
	}
	okKey := isPurlField(store.Key, "Name")
	okOuter := innerMap(store.Map, 0)
	// the appended-to slice is the same bucket
	okBucket := false
	if c, _ := callValue(store.Value); c != nil {
		if lk, ok := c.Call.Args[0].(*ssa.Lookup); ok && isPurlField(lk.Index, "Name") && innerMap(lk.X, 0) {
			okBucket = true
		}
	}
	r.Check(okKey && okOuter && okBucket, "D4-index-key", fa.key+":key", p.Pos(store.Pos()), "pkgMap[url.Type][url.Name] = append(pkgMap[url.Type][url.Name], pkg)", "the package is not stored under the type and name of its own package URL (e.g. the package's display name): GetSpecific(url.Name, url.Type) misses it")
	// GetSpecific
	gs := p.Func("packageindex", "PackageIndex.GetSpecific")
	if gs == nil {
		r.Undecided("D4-index-key", "anchor:GetSpecific", "-", "not found")
		return
	}
	var lks []*ssa.Lookup
	forEachInstr(gs, func(_ *ssa.BasicBlock, _ int, in ssa.Instruction) {
		if lk, ok := in.(*ssa.Lookup); ok {
			lks = append(lks, lk)
		}
	})
	okGS := len(lks) == 2 && loadsField(lks[0].X, "PackageIndex", "pkgMap") && lks[0].Index == ssa.Value(gs.Params[2]) && lks[1].Index == ssa.Value(gs.Params[1])
	if okGS {
		// the second lookup is in the map the first one returned (comma-ok form or chained indexing)
		if ex, ok := lks[1].X.(*ssa.Extract); ok {
			okGS = ex.Tuple == ssa.Value(lks[0])
		} else {
			okGS = lks[1].X == ssa.Value(lks[0])
		}
	}
	r.Check(okGS, "D4-index-key", fnKey(gs)+":lookup", p.Pos(gs.Pos()), "pkgMap[pkgType][name]", "GetSpecific does not look up [type][name] in the order New stores them")
}

// c20IndexSkips: audited decisions that keep a package out of the index.
var c20IndexSkips = []string{
	"range-end: param0",
	"extractor.ToPURL(param0[ι].Extractor,param0[ι]) == nil:*github.com/google/osv-scalibr/purl.PackageURL",
}
