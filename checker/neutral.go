package main

// Behaviour-preserving variants of the real code ("neutral" controls). The thorough tier analyses
// each variant in a sub-process and records quiet / FALSE-ALARM / skipped: a rule that fires on one
// of them demands more than the property states (a false alarm in waiting).

const fsGo = "extractor/filesystem/filesystem.go"

var handleFileNeutral = []Mutant{
	{Name: "neutral-fileapi-reset-in-helper", File: fsGo,
		Old:  "	wc.fileAPI.currentPath = path\n	wc.fileAPI.currentStatCalled = false\n",
		New:  "	wc.fileAPI.setPath(path)\n",
		Old2: "func (api *lazyFileAPI) Path() string {\n",
		New2: "func (api *lazyFileAPI) setPath(path string) {\n	api.currentPath = path\n	api.currentStatCalled = false\n}\n\nfunc (api *lazyFileAPI) Path() string {\n"},
	{Name: "neutral-filetype-filter-merged", File: fsGo,
		Old: "	if !d.Type().IsRegular() {\n		// Ignore the file because symlink reading is disabled.\n		if !wc.readSymlinks {\n			return nil\n		}\n		// Ignore non-symlinks.\n		if (d.Type() & fs.ModeType) != fs.ModeSymlink {\n			return nil\n		}\n	}\n",
		New: "	if !d.Type().IsRegular() && (!wc.readSymlinks || (d.Type()&fs.ModeType) != fs.ModeSymlink) {\n		return nil\n	}\n"},
	{Name: "neutral-gitignore-test-merged", File: fsGo,
		Old: "	if wc.useGitignore {\n		if internal.GitignoreMatch(wc.gitignores, strings.Split(path, \"/\"), false) {\n			return nil\n		}\n	}\n",
		New: "	if wc.useGitignore && internal.GitignoreMatch(wc.gitignores, strings.Split(path, \"/\"), false) {\n		return nil\n	}\n"},
	{Name: "neutral-filerequired-continue-form", File: fsGo,
		Old: "		if ex.FileRequired(wc.fileAPI) {\n			if wc.maxFileSize > 0 && fSize == -1 {",
		New: "		if !ex.FileRequired(wc.fileAPI) {\n			continue\n		}\n		{\n			if wc.maxFileSize > 0 && fSize == -1 {"},
	{Name: "neutral-skip-rules-merged", File: fsGo,
		Old: "	if wc.skipDirRegex != nil && wc.skipDirRegex.MatchString(path) {\n		return true\n	}\n	if wc.skipDirGlob != nil && wc.skipDirGlob.Match(path) {\n		return true\n	}\n",
		New: "	if (wc.skipDirRegex != nil && wc.skipDirRegex.MatchString(path)) || (wc.skipDirGlob != nil && wc.skipDirGlob.Match(path)) {\n		return true\n	}\n"},
	{Name: "neutral-ctx-err-bound-once", File: fsGo,
		Old: "	if wc.ctx.Err() != nil {\n		return wc.ctx.Err()\n	}\n	if fserr != nil {",
		New: "	if cerr := wc.ctx.Err(); cerr != nil {\n		return cerr\n	}\n	if fserr != nil {"},
	{Name: "neutral-fserr-branches-flattened", File: fsGo,
		Old: "	if fserr != nil {\n		if wc.errorOnFSErrors {\n			return fmt.Errorf(\"handleFile(%q) fserr: %w\", path, fserr)\n		}\n",
		New: "	if fserr != nil && wc.errorOnFSErrors {\n		return fmt.Errorf(\"handleFile(%q) fserr: %w\", path, fserr)\n	}\n	if fserr != nil {\n"},
	{Name: "neutral-size-limit-local", File: fsGo,
		Old: "				if fSize > int64(wc.maxFileSize) {",
		New: "				if limit := int64(wc.maxFileSize); fSize > limit {"},
	{Name: "neutral-pop-guard-reordered", File: fsGo,
		Old: "	if wc.useGitignore && d.Type().IsDir() && len(wc.gitignores) > 0 {",
		New: "	if len(wc.gitignores) > 0 && wc.useGitignore && d.Type().IsDir() {"},
}

var validTypeHoisted = Mutant{Name: "neutral-validtype-table-hoisted", File: "purl/purl.go",
	Old: "func validType(t string) bool {\n	types := map[string]bool{\n", New: "var validTypes = map[string]bool{\n",
	Old2: "		TypeWordpress:     true,\n	}\n\n	// purl type is case-insensitive, canonical form is lower-case\n	t = strings.ToLower(t)\n	_, ok := types[t]\n",
	New2: "		TypeWordpress:     true,\n}\n\nfunc validType(t string) bool {\n	// purl type is case-insensitive, canonical form is lower-case\n	t = strings.ToLower(t)\n	_, ok := validTypes[t]\n"}

const (
	overrideGo = "guidedremediation/internal/strategy/override/override.go"
	relaxerGo  = "guidedremediation/internal/strategy/relax/relaxer/npm.go"
	suggestGo  = "guidedremediation/internal/suggest/maven.go"
	remedGo    = "guidedremediation/internal/remediation/remediation.go"
	grGo       = "guidedremediation/guidedremediation.go"
	convGo     = "converter/converter.go"
)

var c11Neutral = []Mutant{
	{Name: "neutral-allows-if-chain", File: "guidedremediation/upgrade/upgrade.go",
		Old: "	switch level {\n	case Major:\n		return true\n	case Minor:\n		return diff != semver.DiffMajor\n	case Patch:\n		return (diff != semver.DiffMajor) && (diff != semver.DiffMinor)\n	case None:\n		return false\n	default: // Invalid level\n		return false\n	}\n",
		New: "	if level == Major {\n		return true\n	}\n	if level == Minor {\n		return diff != semver.DiffMajor\n	}\n	if level == Patch {\n		if diff == semver.DiffMajor || diff == semver.DiffMinor {\n			return false\n		}\n		return true\n	}\n	return false\n"},
	{Name: "neutral-override-level-bound-once", File: overrideGo,
		Old:  "			if opts.UpgradeConfig.Get(vk.Name) == upgrade.None {\n				continue\n			}\n",
		New:  "			level := opts.UpgradeConfig.Get(vk.Name)\n			if level == upgrade.None {\n				continue\n			}\n",
		Old2: "!opts.UpgradeConfig.Get(vk.Name).Allows(diff)", New2: "!level.Allows(diff)"},
	{Name: "neutral-override-diff-bound-first", File: overrideGo,
		Old: "				if _, diff, _ := vk.System.Semver().Difference(vk.Version, ver.Version); !opts.UpgradeConfig.Get(vk.Name).Allows(diff) {\n					break\n				}\n",
		New: "				_, diff, _ := vk.System.Semver().Difference(vk.Version, ver.Version)\n				allowed := opts.UpgradeConfig.Get(vk.Name).Allows(diff)\n				if !allowed {\n					break\n				}\n"},
	{Name: "neutral-relax-allowed-bound", File: relaxerGo,
		Old: "	if !configLevel.Allows(diff) {\n		return req, false\n	}\n	if diff == semver.DiffMajor {",
		New: "	if allowed := configLevel.Allows(diff); !allowed {\n		return req, false\n	}\n	if diff == semver.DiffMajor {"},
	{Name: "neutral-relax-checks-swapped", File: relaxerGo,
		Old: "	// Didn't find any higher versions of the package\n	if nextIdx == -1 {\n		return req, false\n	}\n\n	// No versions match the existing constraint, something is wrong\n	if lastIdx == -1 {\n		return req, false\n	}\n",
		New: "	// No versions match the existing constraint, or there is no higher version\n	if lastIdx == -1 || nextIdx == -1 {\n		return req, false\n	}\n"},
	{Name: "neutral-suggest-positive-form", File: suggestGo,
		Old: "		if _, diff := v.Difference(current); !level.Allows(diff) {\n			continue\n		}\n		newReq = v\n",
		New: "		if _, diff := v.Difference(current); level.Allows(diff) {\n			newReq = v\n		}\n"},
	{Name: "neutral-suggest-level-bound", File: suggestGo,
		Old: "		latest, err := suggestMavenVersion(ctx, opts.ResolveClient, req, opts.UpgradeConfig.Get(req.Name))",
		New: "		lvl := opts.UpgradeConfig.Get(req.Name)\n		latest, err := suggestMavenVersion(ctx, opts.ResolveClient, req, lvl)"},
}

var c12Neutral = []Mutant{
	{Name: "neutral-matchvuln-single-expression", File: "guidedremediation/internal/remediation/match.go",
		Old: "	if matchID(v, opts.IgnoreVulns) {\n		return false\n	}\n\n	if !opts.DevDeps && v.DevOnly {\n		return false\n	}\n\n	return matchSeverity(v, opts.MinSeverity) && matchDepth(v, opts.MaxDepth)\n",
		New: "	if matchID(v, opts.IgnoreVulns) || (v.DevOnly && !opts.DevDeps) {\n		return false\n	}\n	if !matchSeverity(v, opts.MinSeverity) {\n		return false\n	}\n	return matchDepth(v, opts.MaxDepth)\n"},
	{Name: "neutral-constructpatches-index-loop", File: remedGo,
		Old: "	for _, v := range oldRes.Vulns {\n		fixedVulns[v.OSV.ID] = &v\n	}\n",
		New: "	for i := range oldRes.Vulns {\n		v := oldRes.Vulns[i]\n		fixedVulns[v.OSV.ID] = &v\n	}\n"},
	{Name: "neutral-dostrategy-patches-local", File: grGo,
		Old: "	res.Patches = choosePatches(allPatches, opts.MaxUpgrades, opts.NoIntroduce)\n	err = writeManifestPatches(opts.Manifest, m, res.Patches, rw)\n",
		New: "	chosen := choosePatches(allPatches, opts.MaxUpgrades, opts.NoIntroduce)\n	res.Patches = chosen\n	err = writeManifestPatches(opts.Manifest, m, chosen, rw)\n"},
	{Name: "neutral-unchanged-test-flipped", File: remedGo,
		Old: "		if req.Version == oldReq.Version {\n			continue\n		}\n",
		New: "		if oldReq.Version == req.Version {\n			continue\n		}\n"},
	{Name: "neutral-nointroduce-nested", File: grGo,
		Old: "		if noIntroduce && len(patch.Introduced) > 0 {\n			continue\n		}\n",
		New: "		if noIntroduce {\n			if len(patch.Introduced) != 0 {\n				continue\n			}\n		}\n"},
	{Name: "neutral-unactionable-bound", File: grGo,
		Old: "		_, fixable := fixableVulns[v.OSV.ID]\n		vuln := result.Vuln{\n			ID:           v.OSV.ID,\n			Unactionable: !fixable,",
		New: "		_, fixable := fixableVulns[v.OSV.ID]\n		unactionable := !fixable\n		vuln := result.Vuln{\n			ID:           v.OSV.ID,\n			Unactionable: unactionable,"},
}

var c15Neutral = []Mutant{
	validTypeHoisted,
	{Name: "neutral-spdx-name-version-direct", File: convGo,
		Old:  "		pName := p.Name\n		pVersion := p.Version\n		if pName == \"\" || pVersion == \"\" {",
		New:  "		if p.Name == \"\" || p.Version == \"\" {",
		Old2: "		pID := SPDXRefPrefix + \"Package-\" + replaceSPDXIDInvalidChars(pName)", New2: "		pName, pVersion := p.Name, p.Version\n		pID := SPDXRefPrefix + \"Package-\" + replaceSPDXIDInvalidChars(pName)"},
	{Name: "neutral-cdx-format-if-chain", File: "binary/cdx/cdx.go",
		Old: "	switch format {\n	case \"cdx-json\":\n		cdxFormat = cyclonedx.BOMFileFormatJSON\n	case \"cdx-xml\":\n		cdxFormat = cyclonedx.BOMFileFormatXML\n	default:\n		return fmt.Errorf(\"%s has an invalid CDX format or not supported by SCALIBR\", path)\n	}\n",
		New: "	if format == \"cdx-json\" {\n		cdxFormat = cyclonedx.BOMFileFormatJSON\n	} else if format == \"cdx-xml\" {\n		cdxFormat = cyclonedx.BOMFileFormatXML\n	} else {\n		return fmt.Errorf(\"%s has an invalid CDX format or not supported by SCALIBR\", path)\n	}\n"},
	{Name: "neutral-spdx-importer-switch", File: "extractor/filesystem/sbom/spdx/spdx.go",
		Old: "		if m.PURL == nil && len(m.CPEs) == 0 {\n			log.Warnf(\"Neither CPE nor PURL found for package: %+v\", spdxPkg)",
		New: "		if len(m.CPEs) == 0 && m.PURL == nil {\n			log.Warnf(\"Neither CPE nor PURL found for package: %+v\", spdxPkg)"},
}

const (
	imageGo  = "artifact/image/layerscanning/image/image.go"
	vulnsGo  = "guidedremediation/internal/vulns/vulns.go"
	detGo    = "detector/detector.go"
	unpackGo = "artifact/image/unpack/unpack.go"
	pkgjsGo  = "guidedremediation/internal/manifest/npm/packagejson.go"
)

var c04Neutral = []Mutant{
	{Name: "neutral-fill-guards-merged", File: imageGo,
		Old: "		if node := chainLayer.fileNodeTree.Get(virtualPath); node != nil {\n			// A newer version of the file already exists on a later chainLayer.\n			// Since we do not want to overwrite a later layer with information\n			// written in an earlier layer, skip this file.\n			continue\n		}\n\n		// Check for a whited out parent directory.\n		if inWhiteoutDir(chainLayer, virtualPath) {\n			// The entire directory has been deleted, so no need to save this file.\n			continue\n		}\n",
		New: "		if chainLayer.fileNodeTree.Get(virtualPath) != nil || inWhiteoutDir(chainLayer, virtualPath) {\n			continue\n		}\n"},
	{Name: "neutral-ancestor-test-nested", File: imageGo,
		Old: "		if node != nil && (node.isWhiteout || !node.IsDir()) {\n			return true\n		}\n",
		New: "		if node != nil {\n			if node.isWhiteout || !node.IsDir() {\n				return true\n			}\n		}\n"},
	{Name: "neutral-ancestor-loop-condition", File: imageGo,
		Old: "	for {\n		if filePath == \"\" {\n			break\n		}\n		dirname := filepath.Dir(filePath)\n",
		New: "	for filePath != \"\" {\n		dirname := filepath.Dir(filePath)\n"},
}

var c18Neutral = []Mutant{
	{Name: "neutral-same-package-test-swapped", File: vulnsGo,
		Old: "		if affected.Package.Ecosystem != pkg.Ecosystem() ||\n			affected.Package.Name != pkg.Name {\n			continue\n		}\n",
		New: "		if affected.Package.Name != pkg.Name ||\n			affected.Package.Ecosystem != pkg.Ecosystem() {\n			continue\n		}\n"},
	{Name: "neutral-listed-bound-first", File: vulnsGo,
		Old: "		if slices.Contains(affected.Versions, pkg.Version) {\n			return true\n		}\n",
		New: "		listed := slices.Contains(affected.Versions, pkg.Version)\n		if listed {\n			return true\n		}\n"},
}

var c20Neutral = []Mutant{
	{Name: "neutral-detector-name-bound", File: detGo,
		Old: "		for _, f := range results {\n			f.Detectors = []string{d.Name()}\n		}\n",
		New: "		for i := range results {\n			results[i].Detectors = []string{d.Name()}\n		}\n"},
	{Name: "neutral-validate-bound", File: detGo,
		Old: "	if err := validateAdvisories(findings); err != nil {\n		return []*Finding{}, status, err\n	}\n	return findings, status, nil\n",
		New: "	verr := validateAdvisories(findings)\n	if verr != nil {\n		return []*Finding{}, status, verr\n	}\n	return findings, status, nil\n"},
	{Name: "neutral-advisory-checks-merged", File: detGo,
		Old: "		if adv, ok := ids[*f.Adv.ID]; ok {\n			if !reflect.DeepEqual(adv, *f.Adv) {\n				return fmt.Errorf(\"multiple non-identical advisories with ID %v\", f.Adv.ID)\n			}\n		}\n",
		New: "		if adv, ok := ids[*f.Adv.ID]; ok && !reflect.DeepEqual(adv, *f.Adv) {\n			return fmt.Errorf(\"multiple non-identical advisories with ID %v\", f.Adv.ID)\n		}\n"},
}

var c06Neutral = []Mutant{
	{Name: "neutral-zipslip-test-swapped", File: unpackGo,
		Old: "		if cleanPath == \"..\" || strings.HasPrefix(cleanPath, \"../\") {",
		New: "		if strings.HasPrefix(cleanPath, \"../\") || cleanPath == \"..\" {"},
	{Name: "neutral-rel-test-swapped", File: unpackGo,
		Old: "	return rel == \"..\" || strings.HasPrefix(rel, \"..\"+string(filepath.Separator))\n",
		New: "	escapes := strings.HasPrefix(rel, \"..\"+string(filepath.Separator)) || rel == \"..\"\n	return escapes\n"},
}

var c13Neutral = []Mutant{
	{Name: "neutral-dev-version-inline", File: pkgjsGo,
		Old: "			if res := gjson.GetBytes(manif, depStr); res.Exists() {\n				ver := res.String()\n				if ver != origVer {\n					return fmt.Errorf(\"original dependency version does not match patch: %s %q != %q\", name, ver, origVer)\n				}\n",
		New: "			if res := gjson.GetBytes(manif, depStr); res.Exists() {\n				if ver := res.String(); origVer != ver {\n					return fmt.Errorf(\"original dependency version does not match patch: %s %q != %q\", name, ver, origVer)\n				}\n"},
	{Name: "neutral-not-found-positive-form", File: pkgjsGo,
		Old: "			if !alreadyMatched {\n				return fmt.Errorf(\"dependency to patch not found in %s: %s\", original.FilePath(), req.Name)\n			}\n",
		New: "			if alreadyMatched {\n				continue\n			}\n			return fmt.Errorf(\"dependency to patch not found in %s: %s\", original.FilePath(), req.Name)\n"},
}

var c19Neutral = []Mutant{
	{Name: "neutral-validate-tests-rewritten", File: "plugin/plugin.go",
		Old:  "		if capabs.OS != OSLinux && capabs.OS != OSMac {",
		New:  "		if OSMac != capabs.OS && OSLinux != capabs.OS {",
		Old2: "	if p.Requirements().RunningSystem && !capabs.RunningSystem {\n		errs = append(errs, \"scanner isn't scanning the host it's run from directly\")\n	}\n",
		New2: "	if p.Requirements().RunningSystem {\n		if !capabs.RunningSystem {\n			errs = append(errs, \"scanner isn't scanning the host it's run from directly\")\n		}\n	}\n"},
	{Name: "neutral-validate-early-accept", File: "plugin/plugin.go",
		Old: "	if len(errs) == 0 {\n		return nil\n	}\n	return fmt.Errorf(",
		New: "	if len(errs) > 0 {\n		return fmt.Errorf(\"plugin %s can't be enabled: %s\", p.Name(), strings.Join(errs, \", \"))\n	}\n	return nil\n}\n\nfunc unusedValidateTail(p Plugin, errs []string) error {\n	return fmt.Errorf("},
	{Name: "neutral-filter-continue-form", File: "extractor/standalone/list/list.go",
		Old: "		if err := plugin.ValidateRequirements(ex, capabs); err == nil {\n			result = append(result, ex)\n		}\n",
		New: "		if err := plugin.ValidateRequirements(ex, capabs); err != nil {\n			continue\n		}\n		result = append(result, ex)\n"},
	{Name: "neutral-enable-errors-swapped", File: "scalibr.go",
		Old: "			if err != nil && sterr != nil {", New: "			if sterr != nil && err != nil {"},
}

var c14Neutral = []Mutant{
	validTypeHoisted,
	{Name: "neutral-cdx-purl-bound-first", File: convGo,
		Old: "		if p := ToPURL(pkg); p != nil {\n			comp.PackageURL = p.String()\n		}\n",
		New: "		p := ToPURL(pkg)\n		if p != nil {\n			comp.PackageURL = p.String()\n		}\n"},
}
