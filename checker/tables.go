package main

import (
	"fmt"
	"go/ast"
	"go/constant"
	"go/token"
	"go/types"
	"sort"

	"golang.org/x/tools/go/packages"
	"golang.org/x/tools/go/ssa"
)

// ---------- symbolic evaluation of the registry tables (InitMap literals, concat, vals) ----------

type initRow struct {
	Key   string
	Ctors []*types.Func
	Pos   token.Pos
}

type tableEval struct {
	pk      *packages.Package
	errs    []string
	concatF *types.Func
	valsF   *types.Func
}

func (te *tableEval) errf(pos token.Pos, f string, a ...any) {
	te.errs = append(te.errs, fmt.Sprintf("%s: %s", te.pk.Fset.Position(pos), fmt.Sprintf(f, a...)))
}

// varInit finds the initializer expression of a package-level var.
func (te *tableEval) varInit(v *types.Var) ast.Expr {
	for _, f := range te.pk.Syntax {
		for _, d := range f.Decls {
			gd, ok := d.(*ast.GenDecl)
			if !ok || gd.Tok != token.VAR {
				continue
			}
			for _, s := range gd.Specs {
				vs := s.(*ast.ValueSpec)
				for i, n := range vs.Names {
					if te.pk.TypesInfo.Defs[n] == v && i < len(vs.Values) {
						return vs.Values[i]
					}
				}
			}
		}
	}
	return nil
}

// evalMap evaluates an expression of type InitMap to its rows (key -> ctor list). Later rows
// override earlier ones with the same key (maps.Copy semantics).
func (te *tableEval) evalMap(e ast.Expr, depth int) map[string]*initRow {
	out := map[string]*initRow{}
	if depth > 20 {
		te.errf(e.Pos(), "evaluation too deep")
		return out
	}
	switch x := ast.Unparen(e).(type) {
	case *ast.Ident, *ast.SelectorExpr:
		var id *ast.Ident
		if s, ok := x.(*ast.SelectorExpr); ok {
			id = s.Sel
		} else {
			id = x.(*ast.Ident)
		}
		v, ok := te.pk.TypesInfo.Uses[id].(*types.Var)
		if !ok || v.Pkg() != te.pk.Types {
			te.errf(e.Pos(), "not a package-level table variable of this package: %s", id.Name)
			return out
		}
		init := te.varInit(v)
		if init == nil {
			te.errf(e.Pos(), "table variable %s has no initializer", id.Name)
			return out
		}
		return te.evalMap(init, depth+1)
	case *ast.CompositeLit:
		for _, el := range x.Elts {
			kv, ok := el.(*ast.KeyValueExpr)
			if !ok {
				te.errf(el.Pos(), "unkeyed element in table literal")
				continue
			}
			tv := te.pk.TypesInfo.Types[kv.Key]
			if tv.Value == nil || tv.Value.Kind() != constant.String {
				te.errf(kv.Key.Pos(), "table key is not a constant string")
				continue
			}
			key := constant.StringVal(tv.Value)
			row := &initRow{Key: key, Pos: kv.Pos()}
			row.Ctors = te.evalList(kv.Value, depth+1)
			if _, dup := out[key]; dup {
				te.errf(kv.Pos(), "duplicate key %q in one literal", key)
			}
			out[key] = row
		}
		return out
	case *ast.CallExpr:
		if f := te.calleeOf(x); f != nil && f == te.concatF {
			for _, a := range x.Args {
				for k, r := range te.evalMap(a, depth+1) {
					out[k] = r
				}
			}
			return out
		}
		te.errf(e.Pos(), "unrecognised call in table expression")
	default:
		te.errf(e.Pos(), "unrecognised table expression %T", e)
	}
	return out
}

// evalList evaluates an expression of type []InitFn.
func (te *tableEval) evalList(e ast.Expr, depth int) []*types.Func {
	switch x := ast.Unparen(e).(type) {
	case *ast.CompositeLit:
		var out []*types.Func
		for _, el := range x.Elts {
			var id *ast.Ident
			switch y := ast.Unparen(el).(type) {
			case *ast.Ident:
				id = y
			case *ast.SelectorExpr:
				id = y.Sel
			}
			if id == nil {
				te.errf(el.Pos(), "initialiser is not a named function")
				continue
			}
			f, ok := te.pk.TypesInfo.Uses[id].(*types.Func)
			if !ok {
				te.errf(el.Pos(), "initialiser %s is not a function", id.Name)
				continue
			}
			out = append(out, f)
		}
		return out
	case *ast.CallExpr:
		if f := te.calleeOf(x); f != nil && f == te.valsF && len(x.Args) == 1 {
			m := te.evalMap(x.Args[0], depth+1)
			keys := make([]string, 0, len(m))
			for k := range m {
				keys = append(keys, k)
			}
			sort.Strings(keys)
			var out []*types.Func
			for _, k := range keys {
				out = append(out, m[k].Ctors...)
			}
			return out
		}
		te.errf(e.Pos(), "unrecognised call in initialiser list")
	default:
		te.errf(e.Pos(), "unrecognised initialiser list %T", e)
	}
	return nil
}

func (te *tableEval) calleeOf(c *ast.CallExpr) *types.Func {
	var id *ast.Ident
	switch f := ast.Unparen(c.Fun).(type) {
	case *ast.Ident:
		id = f
	case *ast.SelectorExpr:
		id = f.Sel
	}
	if id == nil {
		return nil
	}
	f, _ := te.pk.TypesInfo.Uses[id].(*types.Func)
	return f
}

// ---------- SSA-level evaluation of tiny method bodies ----------

// ssaFuncOf maps a types.Func to its SSA function.
func (p *Prog) ssaFuncOf(f *types.Func) *ssa.Function {
	return p.SSA.FuncValue(f)
}

// constResults returns the set of constant values a function may return as result idx (following
// phis); ok=false if some return value is not a constant.
func constResults(fn *ssa.Function, idx int) (vals []constant.Value, ok bool) {
	if fn == nil || fn.Blocks == nil {
		return nil, false
	}
	ok = true
	seen := map[ssa.Value]bool{}
	var rec func(v ssa.Value)
	rec = func(v ssa.Value) {
		if seen[v] {
			return
		}
		seen[v] = true
		switch x := v.(type) {
		case *ssa.Const:
			vals = append(vals, x.Value)
		case *ssa.Phi:
			for _, e := range x.Edges {
				rec(e)
			}
		default:
			ok = false
		}
	}
	n := 0
	for _, r := range returnsOf(fn) {
		if idx < len(r.Results) {
			n++
			rec(retVal(r, idx))
		}
	}
	if n == 0 {
		ok = false
	}
	return
}

// concreteResults returns the dynamic types a constructor may return as its first result
// (MakeInterface operands, following static calls and phis).
func concreteResults(fn *ssa.Function, depth int) (ts []types.Type, ok bool) {
	if fn == nil || fn.Blocks == nil || depth > 5 {
		return nil, false
	}
	ok = true
	seen := map[ssa.Value]bool{}
	var rec func(v ssa.Value)
	rec = func(v ssa.Value) {
		if seen[v] {
			return
		}
		seen[v] = true
		switch x := v.(type) {
		case *ssa.MakeInterface:
			ts = append(ts, x.X.Type())
		case *ssa.Phi:
			for _, e := range x.Edges {
				rec(e)
			}
		case *ssa.ChangeInterface:
			rec(x.X)
		case *ssa.Call:
			if c := x.Common().StaticCallee(); c != nil {
				t2, ok2 := concreteResults(c, depth+1)
				if !ok2 {
					ok = false
				}
				ts = append(ts, t2...)
			} else {
				ok = false
			}
		case *ssa.Extract:
			rec(x.Tuple)
		default:
			if !types.IsInterface(v.Type()) {
				ts = append(ts, v.Type())
			} else {
				ok = false
			}
		}
	}
	for _, r := range returnsOf(fn) {
		if len(r.Results) > 0 {
			rec(r.Results[0])
		}
	}
	if len(ts) == 0 {
		ok = false
	}
	return
}

// methodOf finds the SSA function for method name on concrete type t (value or pointer).
func (p *Prog) methodOf(t types.Type, name string) *ssa.Function {
	for _, typ := range []types.Type{t, types.NewPointer(t)} {
		if _, isPtr := t.(*types.Pointer); isPtr && typ != t {
			continue
		}
		ms := p.SSA.MethodSets.MethodSet(typ)
		for i := 0; i < ms.Len(); i++ {
			if ms.At(i).Obj().Name() == name {
				fn := p.SSA.MethodValue(ms.At(i))
				if fn != nil && fn.Synthetic != "" {
					if u := unwrapSynthetic(fn); u != nil {
						return u
					}
				}
				return fn
			}
		}
	}
	return nil
}

type capsVal struct {
	OS, Network             []int64 // possible values
	DirectFS, RunningSystem []bool
}

func (c capsVal) String() string {
	return fmt.Sprintf("{OS:%v Network:%v DirectFS:%v RunningSystem:%v}", c.OS, c.Network, c.DirectFS, c.RunningSystem)
}

// constSet returns the constants a value may take (through phis); ok=false otherwise.
func constSet(v ssa.Value) (vals []constant.Value, ok bool) {
	ok = true
	seen := map[ssa.Value]bool{}
	var rec func(v ssa.Value)
	rec = func(v ssa.Value) {
		if seen[v] {
			return
		}
		seen[v] = true
		switch x := v.(type) {
		case *ssa.Const:
			vals = append(vals, x.Value)
		case *ssa.Phi:
			for _, e := range x.Edges {
				rec(e)
			}
		case *ssa.Convert:
			rec(x.X)
		case *ssa.ChangeType:
			rec(x.X)
		default:
			ok = false
		}
	}
	rec(v)
	return
}

// capsResults evaluates a Requirements() body: every returned value must be a freshly allocated
// Capabilities struct whose fields are stored only with constants (or phis of constants).
func capsResults(fn *ssa.Function) (out []capsVal, why string) {
	if fn == nil || fn.Blocks == nil {
		return nil, "no body"
	}
	rets := returnsOf(fn)
	if len(rets) == 0 {
		return nil, "no return"
	}
	for _, r := range rets {
		if len(r.Results) != 1 {
			return nil, "unexpected result count"
		}
		var allocs []*ssa.Alloc
		seen := map[ssa.Value]bool{}
		var rec func(v ssa.Value) bool
		rec = func(v ssa.Value) bool {
			if seen[v] {
				return true
			}
			seen[v] = true
			switch x := v.(type) {
			case *ssa.Alloc:
				allocs = append(allocs, x)
				return true
			case *ssa.Phi:
				for _, e := range x.Edges {
					if !rec(e) {
						return false
					}
				}
				return true
			}
			return false
		}
		if !rec(r.Results[0]) {
			return nil, "returned value is not a literal &plugin.Capabilities{...}"
		}
		for _, a := range allocs {
			cv := capsVal{}
			st, _ := structOf(a.Type())
			if st == nil {
				return nil, "returned value is not a struct pointer"
			}
			for _, ref := range *a.Referrers() {
				fa, ok := ref.(*ssa.FieldAddr)
				if !ok {
					switch ref.(type) {
					case *ssa.Return, *ssa.Phi, *ssa.DebugRef:
						continue
					}
					return nil, fmt.Sprintf("literal escapes through %T", ref)
				}
				for _, r2 := range *fa.Referrers() {
					s, ok := r2.(*ssa.Store)
					if !ok || s.Addr != fa {
						return nil, "field of the literal is read or aliased"
					}
					name := st.Field(fa.Field).Name()
					cs, ok := constSet(s.Val)
					if !ok {
						return nil, "field " + name + " is not a constant"
					}
					for _, c := range cs {
						switch name {
						case "OS", "Network":
							n, _ := constant.Int64Val(c)
							if name == "OS" {
								cv.OS = append(cv.OS, n)
							} else {
								cv.Network = append(cv.Network, n)
							}
						case "DirectFS", "RunningSystem":
							b := constant.BoolVal(c)
							if name == "DirectFS" {
								cv.DirectFS = append(cv.DirectFS, b)
							} else {
								cv.RunningSystem = append(cv.RunningSystem, b)
							}
						default:
							return nil, "unknown Capabilities field " + name
						}
					}
				}
			}
			if len(cv.OS) == 0 {
				cv.OS = []int64{0}
			}
			if len(cv.Network) == 0 {
				cv.Network = []int64{0}
			}
			if len(cv.DirectFS) == 0 {
				cv.DirectFS = []bool{false}
			}
			if len(cv.RunningSystem) == 0 {
				cv.RunningSystem = []bool{false}
			}
			out = append(out, cv)
		}
	}
	return out, ""
}

// stringSliceResults evaluates a body returning a literal []string of constants (or nil).
func stringSliceResults(fn *ssa.Function) (out []string, why string) {
	if fn == nil || fn.Blocks == nil {
		return nil, "no body"
	}
	for _, r := range returnsOf(fn) {
		if len(r.Results) != 1 {
			return nil, "unexpected result count"
		}
		v := r.Results[0]
		if isNilConst(v) {
			continue
		}
		sl, ok := v.(*ssa.Slice)
		if !ok {
			return nil, fmt.Sprintf("returned value is not a slice literal (%T)", v)
		}
		al, ok := sl.X.(*ssa.Alloc)
		if !ok {
			return nil, "slice literal is not backed by a fresh array"
		}
		for _, ref := range *al.Referrers() {
			switch x := ref.(type) {
			case *ssa.IndexAddr:
				for _, r2 := range *x.Referrers() {
					s, ok := r2.(*ssa.Store)
					if !ok {
						return nil, "array element is read"
					}
					str, ok := constString(s.Val)
					if !ok {
						return nil, "array element is not a constant string"
					}
					out = append(out, str)
				}
			case *ssa.Slice, *ssa.DebugRef:
			default:
				return nil, fmt.Sprintf("array escapes through %T", ref)
			}
		}
	}
	return out, ""
}

// constSetRefined is constSet with one refinement: when a phi receives value w from a predecessor
// whose branch established  w != k  on that edge, the constant k is not counted for w.
func constSetRefined(v ssa.Value) (vals []constant.Value, ok bool) {
	ok = true
	type key struct {
		v ssa.Value
		x string
	}
	seen := map[key]bool{}
	var rec func(v ssa.Value, excl []constant.Value)
	rec = func(v ssa.Value, excl []constant.Value) {
		k := key{v, fmt.Sprint(excl)}
		if seen[k] {
			return
		}
		seen[k] = true
		switch x := v.(type) {
		case *ssa.Const:
			for _, e := range excl {
				if e != nil && x.Value != nil && constant.Compare(e, token.EQL, x.Value) {
					return
				}
			}
			vals = append(vals, x.Value)
		case *ssa.Phi:
			for i, e := range x.Edges {
				ex := excl
				pred := x.Block().Preds[i]
				if ifi := blockIf(pred); ifi != nil {
					if b, isB := ifi.Cond.(*ssa.BinOp); isB && (b.Op == token.EQL || b.Op == token.NEQ) {
						var other ssa.Value
						if b.X == e {
							other = b.Y
						} else if b.Y == e {
							other = b.X
						}
						if c, isC := other.(*ssa.Const); isC && c.Value != nil {
							// which successor is the phi's block?
							for si, sb := range pred.Succs {
								if sb == x.Block() && pred.Succs[1-si] != x.Block() {
									neq := (b.Op == token.NEQ) == (si == 0)
									if neq {
										ex = append(append([]constant.Value{}, excl...), c.Value)
									}
								}
							}
						}
					}
				}
				rec(e, ex)
			}
		case *ssa.Convert:
			rec(x.X, excl)
		case *ssa.ChangeType:
			rec(x.X, excl)
		default:
			ok = false
		}
	}
	rec(v, nil)
	return
}

// ---------- map literals (function-local or package-level) ----------

type mapRow struct {
	Key, Val ssa.Value
	Pos      token.Pos
}

// mapRows lists the key/value pairs of the map literal m refers to: a MakeMap in fn with its
// MapUpdates, or a load of a package-level variable initialised (in the package initialiser) with a
// map literal and never stored to or updated anywhere else in first-party code.
func mapRows(p *Prog, fn *ssa.Function, m ssa.Value) ([]mapRow, bool) {
	m = stripChangeType(m)
	collect := func(in *ssa.Function, mk ssa.Value) []mapRow {
		var rows []mapRow
		forEachInstr(in, func(_ *ssa.BasicBlock, _ int, ins ssa.Instruction) {
			if mu, ok := ins.(*ssa.MapUpdate); ok && stripChangeType(mu.Map) == mk {
				rows = append(rows, mapRow{mu.Key, mu.Value, mu.Pos()})
			}
		})
		return rows
	}
	switch x := m.(type) {
	case *ssa.MakeMap:
		return collect(fn, x), true
	case *ssa.UnOp:
		g, ok := x.X.(*ssa.Global)
		if !ok || x.Op != token.MUL || g.Pkg == nil {
			return nil, false
		}
		init := g.Pkg.Func("init")
		if init == nil {
			return nil, false
		}
		var mk ssa.Value
		n := 0
		forEachInstr(init, func(_ *ssa.BasicBlock, _ int, ins ssa.Instruction) {
			if st, ok := ins.(*ssa.Store); ok && st.Addr == ssa.Value(g) {
				mk = stripChangeType(st.Val)
				n++
			}
		})
		if _, isMk := mk.(*ssa.MakeMap); !isMk || n != 1 {
			return nil, false
		}
		// no other writer of the variable or of the map it holds
		for _, f := range p.Funcs() {
			if f == init {
				continue
			}
			bad := false
			forEachInstr(f, func(_ *ssa.BasicBlock, _ int, ins ssa.Instruction) {
				switch y := ins.(type) {
				case *ssa.Store:
					if y.Addr == ssa.Value(g) {
						bad = true
					}
				case *ssa.MapUpdate:
					if u, ok := stripChangeType(y.Map).(*ssa.UnOp); ok && u.X == ssa.Value(g) {
						bad = true
					}
				}
			})
			if bad {
				return nil, false
			}
		}
		return collect(init, mk), true
	}
	return nil, false
}

// globalMapRows: rows of the package-level map variable relPath.name.
func globalMapRows(p *Prog, relPath, name string) ([]mapRow, *ssa.Global, bool) {
	pk := p.Pkg(relPath)
	if pk == nil {
		return nil, nil, false
	}
	g, ok := pk.Members[name].(*ssa.Global)
	if !ok {
		return nil, nil, false
	}
	rows, ok := mapRows(p, nil, &ssa.UnOp{Op: token.MUL, X: g})
	return rows, g, ok
}
