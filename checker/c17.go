package main

import (
	"fmt"
	"go/token"

	"golang.org/x/tools/go/ssa"
)

const imgPkg = "artifact/image/layerscanning/image"

func init() {
	register(&PropDef{
		ID:       "C17",
		Patterns: []string{"./artifact/image/layerscanning/image", "./artifact/image/symlink", "./artifact/image/unpack", "./artifact/image/pathtree"},
		Explain: "Decided: D1 termination by variant — in the symlink resolver every cycle of the control-flow graph passes the loop head, the hop budget only ever decreases by a positive constant around the loop, and the loop head returns an error when the budget is below zero, so the loop runs at most max+1 times for every symlink graph; " +
			"D2 Open, Stat and ReadDir all resolve through that resolver with the view's configured maximum depth on the node looked up for the requested name; the non-symlink exit returns the current node, a failed lookup returns the lookup's error, the cycle error is returned only under pointer equality with the slow pointer, the depth error only under budget < 0; " +
			"D3 symlink nodes are created only when symlink.TargetOutsideRoot(<virtual path>, <raw link name>) is false — the raw, un-normalised target is what is checked; D4 resolution is read-only: file nodes are shared between the views of all chain layers, and no field of an existing node except its lazily opened file handle is ever written after construction (so nothing a lookup does in one view can change another view's answer). " +
			"Added in round 2: D2 additionally: FS.Stat answers with resolvedNode.Stat(); D3 additionally: TargetOutsideRoot examines the joined, cleaned path on every return. Added in round 3: D5 relative link targets go into path.Join unchanged; no cutset trimming in the image packages. Added in round 7: D6 the pruning pass marks, in each of its symlinkDepth iterations, the node its own tree.Get returned — as many hops as the resolver follows. Added in round 8: D1 additionally: every chainLayer initializeChainLayers builds gets maxSymlinkDepth on every path to a non-nil return. NOT decided: 'first non-symlink target iff at most max hops' and the cycle-versus-depth classification as values (needs enumeration of small graphs, another technique).",
		Run: runC17,
		Controls: []Mutant{
			{Name: "depth-not-decremented", File: "artifact/image/layerscanning/image/layer.go", Old: "		advanceSlowNode = !advanceSlowNode\n		depth--\n", New: "		advanceSlowNode = !advanceSlowNode\n", Rule: "D1-variant", Site: "resolveSymlink"},
			{Name: "depth-test-dropped", File: "artifact/image/layerscanning/image/layer.go", Old: "		if depth < 0 {\n			return nil, ErrSymlinkDepthExceeded\n		}\n", New: "", Rule: "D1-variant", Site: "resolveSymlink"},
			{Name: "stat-skips-resolution", File: "artifact/image/layerscanning/image/layer.go", Old: "	resolvedNode, err := chainfs.resolveSymlink(node, chainfs.maxSymlinkDepth)\n	if err != nil {\n		return nil, fmt.Errorf(\"failed to resolve symlink for file node %s: %w\", node.virtualPath, err)\n	}\n	return resolvedNode.Stat()", New: "	return node.Stat()", Rule: "D2-resolve", Site: "Stat"},
			{Name: "check-after-normalisation", File: "artifact/image/layerscanning/image/image.go", Old: "	if symlink.TargetOutsideRoot(virtualPath, targetPath) {\n		log.Warnf(\"Found symlink that points outside the root, skipping: %q -> %q\", virtualPath, targetPath)\n		return nil, fmt.Errorf(\"%w: %q -> %q\", ErrSymlinkPointsOutsideRoot, virtualPath, targetPath)\n	}\n\n	// Resolve the relative symlink path to an absolute path.\n	if !path.IsAbs(targetPath) {\n		targetPath = path.Clean(path.Join(path.Dir(virtualPath), targetPath))\n	}\n", New: "	// Resolve the relative symlink path to an absolute path.\n	if !path.IsAbs(targetPath) {\n		targetPath = path.Clean(path.Join(path.Dir(virtualPath), targetPath))\n	}\n	if symlink.TargetOutsideRoot(virtualPath, targetPath) {\n		log.Warnf(\"Found symlink that points outside the root, skipping: %q -> %q\", virtualPath, targetPath)\n		return nil, fmt.Errorf(\"%w: %q -> %q\", ErrSymlinkPointsOutsideRoot, virtualPath, targetPath)\n	}\n", Rule: "D3-outside-root", Site: "handleSymlink"},
			{Name: "resolution-cached-on-node", File: "artifact/image/layerscanning/image/layer.go", Old: "		if !isSymlink {\n			return node, nil\n		}\n", New: "		if !isSymlink {\n			slowNode.targetPath = node.virtualPath\n			return node, nil\n		}\n", Rule: "D4-nodes-immutable", Site: "resolveSymlink"},
			{Name: "link-target-fast-path", File: "artifact/image/symlink/symlink.go", Old: "	markerDir := uuid.New().String()\n", New: "	if !strings.HasPrefix(filepath.ToSlash(target), \"../\") && !strings.HasPrefix(filepath.ToSlash(target), \"/../\") {\n		return false\n	}\n	markerDir := uuid.New().String()\n", Rule: "D3-outside-root", Site: "TargetOutsideRoot"},
			{Name: "stat-returns-the-node", File: "artifact/image/layerscanning/image/layer.go", Old: "	return resolvedNode.Stat()\n", New: "	return resolvedNode, nil\n", Rule: "D2-resolve", Site: "FS.Stat"},
			{Name: "relative-target-trimmed", File: "artifact/image/layerscanning/image/image.go", Old: "		targetPath = path.Clean(path.Join(path.Dir(virtualPath), targetPath))", New: "		targetPath = path.Join(path.Dir(virtualPath), strings.TrimLeft(targetPath, \"./\"))", Rule: "D5-target-normalisation", Site: "handleSymlink"},
		},
	})
}

func runC17(p *Prog, r *Report) {
	r.Rule("D1-variant", "the resolver's loop has a strictly decreasing hop budget tested at the loop head")
	r.Rule("D2-resolve", "Open/Stat/ReadDir resolve through the resolver; exits return the right node/error")
	r.Rule("D3-outside-root", "symlink nodes created only when the raw target stays inside the root")
	r.Rule("D4-nodes-immutable", "shared file nodes are never modified after construction")
	rs := p.Func(imgPkg, "FS.resolveSymlink")
	if rs == nil {
		r.Undecided("D1-variant", "anchor:FS.resolveSymlink", "-", "not found")
		return
	}
	c17Variant(p, r, rs)
	c17Resolve(p, r, rs)
	c17Outside(p, r)
	targetOutsideRootBody(p, r, "D3-outside-root")
	c17StatAnswers(p, r)
	readDirListsResolvedNode(p, r, "D2-resolve")
	c17DepthAsConfigured(p, r, "D1-variant")
	everyViewGetsTheDepth(p, r, "D1-variant")
	c17StatKeepsResolverError(p, r, "D2-resolve")
	r.Rule("D5-target-normalisation", "link targets are normalised with path.Clean/Join, never by trimming character sets")
	cutsetDiscipline(p, r, "D5-target-normalisation", imgPkg, "artifact/image/symlink", "artifact/image/unpack", "artifact/image/pathtree")
	c17Normalise(p, r)
	c17Immutable(p, r, "D4-nodes-immutable")
	r.Rule("D6-pruning-keeps-chain", "pruning by the requirer keeps as many hops of a required link's chain as the resolver follows")
	pruningKeepsWholeChain(p, r, "D6-pruning-keeps-chain")
}

func c17Variant(p *Prog, r *Report, rs *ssa.Function) {
	fa := newFA(p, r, rs)
	depth := rs.Params[2]
	// the depth phi
	var ph *ssa.Phi
	forEachInstr(rs, func(_ *ssa.BasicBlock, _ int, in ssa.Instruction) {
		if x, ok := in.(*ssa.Phi); ok {
			for _, e := range x.Edges {
				if e == ssa.Value(depth) {
					ph = x
				}
			}
		}
	})
	if ph == nil {
		r.Fail("D1-variant", fa.key+":budget", p.Pos(rs.Pos()), "the hop budget parameter is not a loop-carried variable of the resolver: nothing bounds the number of hops")
		return
	}
	okDec := true
	for _, e := range ph.Edges {
		if e == ssa.Value(depth) {
			continue
		}
		bo, ok := e.(*ssa.BinOp)
		k, isK := int64(0), false
		if ok {
			k, isK = constInt(bo.Y)
		}
		if !ok || bo.Op != token.SUB || bo.X != ssa.Value(ph) || !isK || k < 1 {
			okDec = false
		}
	}
	r.Check(okDec, "D1-variant", fa.key+":decreases", p.Pos(ph.Pos()), "budget = budget - c (c >= 1) on every back edge", "some path around the resolver's loop does not decrease the hop budget: a symlink cycle (or a long chain) loops forever")
	hdr := ph.Block()
	// every cycle passes the header: blocking the header leaves no cycle
	cyc := false
	for _, b := range rs.Blocks {
		if b == hdr {
			continue
		}
		seen := map[*ssa.BasicBlock]bool{}
		st := append([]*ssa.BasicBlock{}, b.Succs...)
		for len(st) > 0 {
			x := st[len(st)-1]
			st = st[:len(st)-1]
			if x == hdr || seen[x] {
				continue
			}
			if x == b {
				cyc = true
				break
			}
			seen[x] = true
			st = append(st, x.Succs...)
		}
	}
	r.Check(!cyc, "D1-variant", fa.key+":single-loop", p.Pos(rs.Pos()), "every cycle passes the budget test's loop head", "the resolver contains a cycle that does not pass the budget-tested loop head")
	// budget < 0 test at the head, true edge returns non-nil error, and the test is reached on every iteration before the lookup
	neg := condCmp(func(v ssa.Value) bool { return v == ssa.Value(ph) }, isConstInt(0), token.LSS)
	holds, _ := guardEdges(rs, neg)
	if len(holds) == 0 {
		r.Fail("D1-variant", fa.key+":budget-test", p.Pos(rs.Pos()), "the resolver never tests 'budget < 0': with the budget decreasing below zero the loop still continues")
		return
	}
	for _, ed := range holds {
		r.Check(ed.From == hdr || hdr.Dominates(ed.From), "D1-variant", fa.key+":test-in-loop", p.Pos(rs.Pos()), "test inside the loop", "the budget test is outside the loop")
		fa.noPath("D1-variant", "exhausted-returns-depth-error", edgeStart(ed), func(in ssa.Instruction) bool {
			ret, ok := in.(*ssa.Return)
			return ok && !(isNilConst(retVal(ret, 0)) && loadsGlobal(retVal(ret, 1), fp(imgPkg), "ErrSymlinkDepthExceeded"))
		}, nil, nil, "budget exhausted ⇒ (nil, ErrSymlinkDepthExceeded)", "an exhausted hop budget does not return ErrSymlinkDepthExceeded")
	}
	// the lookup of the next node happens only after the budget test passed in this iteration
	_, pass := guardEdges(rs, neg)
	forEachInstr(rs, func(b *ssa.BasicBlock, _ int, in ssa.Instruction) {
		if c, ok := in.(*ssa.Call); ok && c.Call.StaticCallee() != nil && c.Call.StaticCallee().Name() == "getFileNode" {
			if derivesFrom(c.Call.Args[1], func(v ssa.Value) bool { return loadsField(v, "fileNode", "targetPath") }, deriveOpts{}) {
				r.Check(onlyVia(rs, b, pass), "D1-variant", fmt.Sprintf("%s:hop-after-test@%s", fa.key, p.Pos(c.Pos())), p.Pos(c.Pos()), "hop taken only with budget >= 0", "a hop can be taken without the budget test having passed")
			}
		}
	})
}

func c17Resolve(p *Prog, r *Report, rs *ssa.Function) {
	fa := newFA(p, r, rs)
	// non-symlink exit returns the current node; success returns only under !isSymlink
	sym := func(c ssa.Value) (bool, bool) {
		// node.mode & ModeSymlink != 0
		op, x, y, ok := cmpNorm(c)
		if !ok || (op != token.NEQ && op != token.EQL) {
			return false, false
		}
		isMask := func(v ssa.Value) bool {
			b, ok := v.(*ssa.BinOp)
			if !ok || b.Op != token.AND {
				return false
			}
			k, ok := constInt(b.Y)
			return ok && uint32(k) == 0x8000000 && loadsField(b.X, "fileNode", "mode")
		}
		if (isMask(x) && isConstInt(0)(y)) || (isMask(y) && isConstInt(0)(x)) {
			return true, op == token.NEQ
		}
		return false, false
	}
	_, notSym := guardEdges(rs, sym)
	for i, ret := range returnsOf(rs) {
		if isNilConst(retVal(ret, 1)) {
			// success return: under !isSymlink, returns the node whose mode was tested
			r.Check(len(notSym) > 0 && onlyVia(rs, ret.Block(), notSym), "D2-resolve", fmt.Sprintf("%s:success#%d", fa.key, i), p.Pos(ret.Pos()), "a node is returned only when it is not a symlink", "the resolver can return a node that is still a symlink (or without having tested it)")
			ok := false
			if ph, isPhi := retVal(ret, 0).(*ssa.Phi); isPhi {
				for _, e := range ph.Edges {
					if e == ssa.Value(rs.Params[1]) {
						ok = true
					}
				}
			}
			r.Check(ok, "D2-resolve", fmt.Sprintf("%s:returns-current#%d", fa.key, i), p.Pos(ret.Pos()), "returns the current node", "the node returned is not the node the loop is currently at")
		}
	}
	// cycle error only under node == slowNode (pointer equality)
	for i, ret := range returnsOf(rs) {
		isCycle := false
		for _, l := range errLeaves(retVal(ret, 1)) {
			if loadsGlobal(l, fp(imgPkg), "ErrSymlinkCycle") {
				isCycle = true
			}
		}
		if !isCycle {
			continue
		}
		eq := func(c ssa.Value) (bool, bool) {
			op, x, y, ok := cmpNorm(c)
			if !ok || (op != token.EQL && op != token.NEQ) {
				return false, false
			}
			_, px := x.(*ssa.Phi)
			_, py := y.(*ssa.Phi)
			cx, _ := callValue(x)
			cy, _ := callValue(y)
			if isPtrToStruct(x.Type()) && isPtrToStruct(y.Type()) && (px || cx != nil) && (py || cy != nil) {
				return true, op == token.EQL
			}
			return false, false
		}
		g, n := fa.guarded(ret, true, eq)
		r.Check(n > 0 && g, "D2-resolve", fmt.Sprintf("%s:cycle-only-when-met#%d", fa.key, i), p.Pos(ret.Pos()), "cycle error only when the fast pointer met the slow one", "the cycle error is returned without the fast pointer having met the slow pointer: acyclic chains are misreported")
	}
	// failed lookup returns the lookup's error
	forEachInstr(rs, func(_ *ssa.BasicBlock, _ int, in ssa.Instruction) {
		c, ok := in.(*ssa.Call)
		if !ok || c.Call.StaticCallee() == nil || c.Call.StaticCallee().Name() != "getFileNode" {
			return
		}
		isErr := func(v ssa.Value) bool {
			ex, ok := v.(*ssa.Extract)
			return ok && ex.Tuple == ssa.Value(c) && ex.Index == 1
		}
		holds, _ := guardEdges(rs, condNonNil(isErr))
		for _, ed := range holds {
			fa.noPath("D2-resolve", "lookup-error-forwarded@"+p.Pos(c.Pos()), edgeStart(ed), func(in ssa.Instruction) bool {
				ret, ok := in.(*ssa.Return)
				if !ok {
					return false
				}
				for _, l := range errLeaves(retVal(ret, 1)) {
					if isErr(l) {
						return false
					}
				}
				return true
			}, nil, nil, "a failed lookup returns its error (not found)", "when the chain reaches a missing entry the resolver does not return the lookup's 'not found' error")
		}
	})
	// Open / Stat / ReadDir
	for _, m := range []string{"FS.Open", "FS.Stat", "FS.ReadDir"} {
		fn := p.Func(imgPkg, m)
		if fn == nil {
			r.Undecided("D2-resolve", "anchor:"+m, "-", "not found")
			continue
		}
		key := fnKey(fn)
		var gf, rc *ssa.Call
		forEachInstr(fn, func(_ *ssa.BasicBlock, _ int, in ssa.Instruction) {
			if c, ok := in.(*ssa.Call); ok && c.Call.StaticCallee() != nil {
				switch c.Call.StaticCallee().Name() {
				case "getFileNode":
					if gf == nil {
						gf = c
					}
				case "resolveSymlink":
					rc = c
				}
			}
		})
		if gf == nil || rc == nil {
			r.Fail("D2-resolve", key+":through-resolver", p.Pos(fn.Pos()), m+" does not look the name up and resolve it through the symlink resolver: a path whose last component is a symlink yields the link itself")
			continue
		}
		name := fn.Params[1]
		okArgs := gf.Call.Args[1] == ssa.Value(name)
		if ex, ok := rc.Call.Args[1].(*ssa.Extract); !ok || ex.Tuple != ssa.Value(gf) || ex.Index != 0 {
			okArgs = false
		}
		okDepth := loadsField(rc.Call.Args[2], "FS", "maxSymlinkDepth")
		r.Check(okArgs, "D2-resolve", key+":through-resolver", p.Pos(rc.Pos()), "resolveSymlink(getFileNode(name), …)", m+" resolves a node other than the one looked up for the requested name")
		r.Check(okDepth, "D2-resolve", key+":max-depth", p.Pos(rc.Pos()), "uses the view's maxSymlinkDepth", m+" does not pass the configured maximum symlink depth to the resolver")
		// the result used afterwards is the resolved node
		used := false
		forEachInstr(fn, func(_ *ssa.BasicBlock, _ int, in ssa.Instruction) {
			if ret, ok := in.(*ssa.Return); ok {
				if derivesFrom(retVal(ret, 0), func(v ssa.Value) bool {
					ex, ok := v.(*ssa.Extract)
					return ok && ex.Tuple == ssa.Value(rc) && ex.Index == 0
				}, deriveOpts{throughCall: func(*ssa.CallCommon) bool { return true }, followStores: true}) {
					used = true
				}
			}
		})
		r.Check(used, "D2-resolve", key+":uses-resolved", p.Pos(rc.Pos()), "answers from the resolved node", m+" does not answer from the resolved node")
		// errors forwarded
		for _, call := range []*ssa.Call{gf, rc} {
			isErr := func(v ssa.Value) bool {
				ex, ok := v.(*ssa.Extract)
				return ok && ex.Tuple == ssa.Value(call) && ex.Index == 1
			}
			holds, _ := guardEdges(fn, condNonNil(isErr))
			ffa := newFA(p, r, fn)
			for _, ed := range holds {
				ffa.noPath("D2-resolve", "error-forwarded:"+call.Call.StaticCallee().Name(), edgeStart(ed), func(in ssa.Instruction) bool {
					ret, ok := in.(*ssa.Return)
					if !ok {
						return false
					}
					for _, l := range errLeaves(retVal(ret, len(ret.Results)-1)) {
						if isErr(l) {
							return false
						}
					}
					return true
				}, nil, nil, "errors of lookup/resolution are returned (wrapped)", m+" can swallow a lookup/resolution error")
			}
			if len(holds) == 0 {
				r.Fail("D2-resolve", key+":error-tested:"+call.Call.StaticCallee().Name(), p.Pos(call.Pos()), "the error is not tested")
			}
		}
	}
}

func c17Outside(p *Prog, r *Report) {
	hs := p.Func(imgPkg, "Image.handleSymlink")
	if hs == nil {
		r.Undecided("D3-outside-root", "anchor:handleSymlink", "-", "not found")
		return
	}
	fa := newFA(p, r, hs)
	var tc *ssa.Call
	forEachInstr(hs, func(_ *ssa.BasicBlock, _ int, in ssa.Instruction) {
		if c, ok := in.(*ssa.Call); ok && refOf(c.Common()).is(fp("artifact/image/symlink"), "", "TargetOutsideRoot") {
			tc = c
		}
	})
	if tc == nil {
		r.Fail("D3-outside-root", fa.key+":check", p.Pos(hs.Pos()), "symlink nodes are created without symlink.TargetOutsideRoot being consulted")
		return
	}
	// raw target: filepath.ToSlash(header.Linkname) with nothing else in between
	raw := false
	if c, _ := callValue(tc.Call.Args[1]); c != nil && refOf(c.Common()).is("path/filepath", "", "ToSlash") && loadsField(c.Call.Args[0], "Header", "Linkname") {
		raw = true
	}
	if loadsField(tc.Call.Args[1], "Header", "Linkname") {
		raw = true
	}
	r.Check(raw && tc.Call.Args[0] == ssa.Value(hs.Params[1]), "D3-outside-root", fa.key+":raw-target", p.Pos(tc.Pos()), "TargetOutsideRoot(virtualPath, <raw link name>)", "the outside-root check is applied to a normalised target (path.Join/Clean clamp '..' at the root, so an escaping target looks inside) or to the wrong path")
	_, inside := guardEdges(hs, condCall(func(c *ssa.Call) bool { return c == tc }))
	n := 0
	forEachInstr(hs, func(b *ssa.BasicBlock, _ int, in ssa.Instruction) {
		al, ok := in.(*ssa.Alloc)
		if !ok {
			return
		}
		if st, nn := structOf(al.Type()); st == nil || nn == nil || nn.Obj().Name() != "fileNode" {
			return
		}
		n++
		r.Check(onlyVia(hs, b, inside), "D3-outside-root", fa.key+":node-only-if-inside", p.Pos(al.Pos()), "node created only after the check passed", "a symlink node is created on a path where TargetOutsideRoot did not return false: the link is followed out of the image root")
	})
	r.Instances("D3-outside-root", "symlink node constructions", n, 1)
	// the outside edge returns ErrSymlinkPointsOutsideRoot
	outside, _ := guardEdges(hs, condCall(func(c *ssa.Call) bool { return c == tc }))
	for _, ed := range outside {
		fa.noPath("D3-outside-root", "outside-returns-sentinel", edgeStart(ed), func(in ssa.Instruction) bool {
			ret, ok := in.(*ssa.Return)
			if !ok {
				return false
			}
			for _, l := range errLeaves(retVal(ret, 1)) {
				if loadsGlobal(l, fp(imgPkg), "ErrSymlinkPointsOutsideRoot") {
					return false
				}
			}
			return true
		}, nil, nil, "outside ⇒ ErrSymlinkPointsOutsideRoot", "an outside-root target does not yield ErrSymlinkPointsOutsideRoot (the caller skips the entry only for that error)")
	}
	// unpack: the same check with the raw Linkname
	up := p.Func("artifact/image/unpack", "unpack")
	if up != nil {
		var uc *ssa.Call
		forEachInstr(up, func(_ *ssa.BasicBlock, _ int, in ssa.Instruction) {
			if c, ok := in.(*ssa.Call); ok && refOf(c.Common()).is(fp("artifact/image/symlink"), "", "TargetOutsideRoot") {
				uc = c
			}
		})
		fu := newFA(p, r, up)
		if uc == nil {
			r.Fail("D3-outside-root", fu.key+":check", p.Pos(up.Pos()), "unpack creates links without consulting TargetOutsideRoot")
		} else {
			r.Check(loadsField(uc.Call.Args[1], "Header", "Linkname"), "D3-outside-root", fu.key+":raw-target", p.Pos(uc.Pos()), "raw link name checked", "unpack checks a transformed link target")
			_, ins := guardEdges(up, condCall(func(c *ssa.Call) bool { return c == uc }))
			forEachInstr(up, func(b *ssa.BasicBlock, _ int, in ssa.Instruction) {
				if c := callOf(in); c != nil && refOf(c).is("os", "", "Symlink") {
					r.Check(onlyVia(up, b, ins), "D3-outside-root", fu.key+":symlink-only-if-inside", p.Pos(in.Pos()), "os.Symlink only after the check passed", "a symlink is created on disk although its target leaves the root")
				}
			})
		}
	}
}

// c17Immutable: stores to fields of fileNode are allowed only on nodes freshly allocated in the same
// function (construction) and on the lazily opened file handle.
func c17Immutable(p *Prog, r *Report, rule string) {
	n := 0
	bad := 0
	for _, fn := range p.FuncsIn(imgPkg) {
		forEachInstr(fn, func(_ *ssa.BasicBlock, _ int, in ssa.Instruction) {
			st, ok := in.(*ssa.Store)
			if !ok {
				return
			}
			s, f, base, ok := fieldOf(st.Addr)
			if !ok || s != "fileNode" {
				return
			}
			n++
			if f == "file" {
				return
			}
			if al, isAl := base.(*ssa.Alloc); isAl && al.Heap || isAllocValue(base) {
				return
			}
			bad++
			r.Fail(rule, fnKey(fn)+":"+f, p.Pos(st.Pos()), "field "+f+" of an existing file node is overwritten: nodes are shared by the views of all chain layers, so what one view computes or caches changes the answers of the others")
		})
	}
	r.Instances(rule, "stores to file-node fields", n, 15)
	if bad == 0 {
		r.OK(rule, "all", "-", fmt.Sprintf("%d stores, all on freshly allocated nodes or the file handle", n))
	}
}

func isAllocValue(v ssa.Value) bool {
	_, ok := v.(*ssa.Alloc)
	return ok
}

// c17StatAnswers: FS.Stat answers, on success, with what fileNode.Stat() says about the node the
// resolver returned — the method that turns a deleted (whiteout) chain end into fs.ErrNotExist. A
// whiteout test made on the node found by name, or returning the resolved node itself as FileInfo,
// lets a chain that ends at a deleted entry succeed.
func c17StatAnswers(p *Prog, r *Report) {
	fn := p.Func(imgPkg, "FS.Stat")
	if fn == nil {
		r.Undecided("D2-resolve", "anchor:FS.Stat", "-", "not found")
		return
	}
	var rc *ssa.Call
	forEachInstr(fn, func(_ *ssa.BasicBlock, _ int, in ssa.Instruction) {
		if c, ok := in.(*ssa.Call); ok && c.Call.StaticCallee() != nil && c.Call.StaticCallee().Name() == "resolveSymlink" {
			rc = c
		}
	})
	if rc == nil {
		r.Fail("D2-resolve", "FS.Stat:resolves", p.Pos(fn.Pos()), "FS.Stat does not resolve the node through resolveSymlink")
		return
	}
	n := 0
	for i, ret := range returnsOf(fn) {
		if isNilConst(retVal(ret, 0)) {
			continue // failure return
		}
		n++
		ok := false
		v := retVal(ret, 0)
		if ex, isE := v.(*ssa.Extract); isE {
			if sc, isC := ex.Tuple.(*ssa.Call); isC && sc.Call.StaticCallee() != nil && sc.Call.StaticCallee().Name() == "Stat" && len(sc.Call.Args) == 1 {
				if rex, isR := sc.Call.Args[0].(*ssa.Extract); isR && rex.Tuple == ssa.Value(rc) && rex.Index == 0 {
					ok = true
				}
			}
		}
		r.Check(ok, "D2-resolve", fmt.Sprintf("FS.Stat:answer#%d", i), p.Pos(ret.Pos()), "returns resolvedNode.Stat()", "FS.Stat does not answer with fileNode.Stat() of the resolved node: a symlink chain that ends at an entry deleted by a later layer is reported as existing")
	}
	r.Check(n > 0, "D2-resolve", "FS.Stat:has-success-return", p.Pos(fn.Pos()), "has a success return", "FS.Stat never returns file information")
}

// c17Normalise: a relative link target becomes path.Clean(path.Join(dir of the link, raw target)):
// the raw Linkname goes into Join unchanged.
func c17Normalise(p *Prog, r *Report) {
	fn := p.Func(imgPkg, "Image.handleSymlink")
	if fn == nil {
		r.Undecided("D5-target-normalisation", "anchor:Image.handleSymlink", "-", "not found")
		return
	}
	n := 0
	forEachInstr(fn, func(_ *ssa.BasicBlock, _ int, in ssa.Instruction) {
		c, ok := in.(*ssa.Call)
		if !ok || !refOf(c.Common()).is("path", "", "Join") {
			return
		}
		args := flattenVariadic(c.Call.Args)
		if len(args) != 2 {
			return
		}
		n++
		// second element: the header's Linkname (possibly through a local), not a transformed copy
		v := args[1]
		// filepath.ToSlash only changes the separator spelling
		unslash := func(x ssa.Value) ssa.Value {
			if c2, ok := x.(*ssa.Call); ok && refOf(c2.Common()).is("path/filepath", "", "ToSlash") {
				return c2.Call.Args[0]
			}
			return x
		}
		v = unslash(v)
		okRaw := false
		_, f, _, isF := fieldOf(loadAddr(v))
		if isF && f == "Linkname" {
			okRaw = true
		}
		if ph, isPhi := v.(*ssa.Phi); isPhi {
			okRaw = true
			for _, e := range ph.Edges {
				if _, f2, _, ok := fieldOf(loadAddr(unslash(e))); !ok || f2 != "Linkname" {
					okRaw = false
				}
			}
		}
		r.Check(okRaw, "D5-target-normalisation", "Image.handleSymlink:join-raw-target", p.Pos(c.Pos()), "Join(dir of the link, header.Linkname)", "the relative link target is altered before it is joined with the link's directory: targets such as ../lib/x or .hidden resolve to another file")
	})
	r.Instances("D5-target-normalisation", "target joins in handleSymlink", n, 1)
}
