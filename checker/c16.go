package main

import (
	"fmt"
	"go/ast"
	"go/token"
	"go/types"
	"sort"
	"strings"

	"golang.org/x/tools/go/ssa"
)

func init() {
	register(&PropDef{
		ID: "C16",
		Patterns: []string{"./clients/datasource", "./clients/resolution", "./guidedremediation/internal/strategy/common", "./guidedremediation/internal/strategy/override", "./guidedremediation/internal/strategy/relax",
			"./guidedremediation/internal/remediation", "./guidedremediation/internal/resolution", "./guidedremediation/result", "./extractor/filesystem", "./extractor/filesystem/internal"},
		Explain: "Decided: D1 lockset — the frozen guarded-by table holds at every access: RequestCache.{cache,calls} and CombinedNativeClient.{maven,npm,pypi}RegistryClient are read and written only with the struct's mu held (must-hold dataflow over Lock/Unlock/defer Unlock; constructors exempt); the scan-progress fields of walkContext that the status goroutine reads are written only with statusMu held and read by that goroutine only with it held; " +
			"D2 single flight is atomic — in RequestCache.Get the cache-miss test, the pending-call test and the registration of the new call happen in one critical section (no Unlock on any path between), the fetch function is called with the lock released, every path after it signals the waiters (wg.Done), re-examines/removes the pending entry, and stores into the cache only when the fetch succeeded; " +
			"D3 spawn-site sharing — goroutines spawned in a loop for the same received result never receive a slice that append may have built on a shared backing array (the argument is a fresh literal or built on slices.Clone); " +
			"D4 fan-out bookkeeping and canonical output — every goroutine spawn is matched by exactly one increment of the pending counter and the worker sends exactly once; every return of the patch list passes SortFunc and then CompactFunc with the same comparator. " +
			"Added in round 2: D1 additionally: a map/slice reference loaded from a guarded field is used only while the mutex is still held. Added in round 3: the collector's decisions that drop a received result are the audited ones (shared with C12), so follow-up attempts do not depend on arrival order. Added in round 7: D3 additionally: ConstrainingSubgraph edits in place only edge lists the new nodes own (every store into such a field is a fresh slice). Added in round 8: D1 additionally: every walkContext field the status goroutine touches is in the guarded-by table or never written by the walk. NOT decided: linearizability of the cache, equality of results across schedules, races inside third-party clients.",
		Run: runC16,
		Controls: []Mutant{
			{Name: "getmap-unlocked", File: "clients/datasource/cache.go", Old: "func (rq *RequestCache[K, V]) GetMap() map[K]V {\n	rq.mu.Lock()\n	defer rq.mu.Unlock()\n", New: "func (rq *RequestCache[K, V]) GetMap() map[K]V {\n", Rule: "D1-lockset", Site: "GetMap"},
			{Name: "single-flight-window", File: "clients/datasource/cache.go", Old: "	// Cache miss - create the call.\n	c := new(requestCacheCall[V])", New: "	// Cache miss - create the call.\n	rq.mu.Unlock()\n	rq.mu.Lock()\n	c := new(requestCacheCall[V])", Rule: "D2-single-flight", Site: "atomic"},
			{Name: "fetch-under-lock", File: "clients/datasource/cache.go", Old: "	rq.calls[key] = c\n	rq.mu.Unlock()\n\n	c.val, c.err = fn()\n	rq.mu.Lock()\n	defer rq.mu.Unlock()\n", New: "	rq.calls[key] = c\n	defer rq.mu.Unlock()\n\n	c.val, c.err = fn()\n", Rule: "D2-single-flight", Site: "fetch-unlocked"},
			{Name: "failed-call-never-removed", File: "clients/datasource/cache.go", Old: "	// Store value in regular cache.\n	if c.err == nil {\n		rq.cache[key] = c.val\n	}\n", New: "	if c.err != nil {\n		return c.val, c.err\n	}\n	rq.cache[key] = c.val\n", Rule: "D2-single-flight", Site: "pending-removed"},
			{Name: "sibling-append-aliasing", File: "guidedremediation/internal/strategy/common/common.go", Old: "go doPatch(append(slices.Clone(r.VulnIDs), v))", New: "go doPatch(append(r.VulnIDs, v))", Rule: "D3-spawn-sharing", Site: "ComputePatches"},
			{Name: "counter-missed", File: "guidedremediation/internal/strategy/common/common.go", Old: "				go doPatch(append(r.VulnIDs, newlyAdded...)) // No need to clone r.VulnIDs here\n				toProcess++", New: "				go doPatch(append(r.VulnIDs, newlyAdded...)) // No need to clone r.VulnIDs here", Rule: "D4-fanout", Site: "ComputePatches"},
			{Name: "counter-missed-in-range-loop", File: "guidedremediation/internal/strategy/common/common.go", Old: "					go doPatch(append(slices.Clone(r.VulnIDs), v))\n					toProcess++", New: "					go doPatch(append(slices.Clone(r.VulnIDs), v))", Rule: "D4-fanout", Site: "ComputePatches"},
			{Name: "no-dedupe", File: "guidedremediation/internal/strategy/common/common.go", Old: "	allResults = slices.CompactFunc(allResults, func(a, b result.Patch) bool { return cmpFn(a, b) == 0 })\n", New: "", Rule: "D4-fanout", Site: "sorted-compacted"},
			{Name: "status-counter-unlocked", File: "extractor/filesystem/filesystem.go", Old: "	wc.statusMu.Lock()\n	wc.extractCalls++\n	wc.statusMu.Unlock()\n", New: "	wc.extractCalls++\n", Rule: "D1-lockset", Site: "extractCalls"},
			{Name: "cache-cloned-after-unlock", File: "clients/datasource/cache.go", Old: "	rq.mu.Lock()\n	defer rq.mu.Unlock()\n\n	return maps.Clone(rq.cache)\n", New: "	rq.mu.Lock()\n	m := rq.cache\n	rq.mu.Unlock()\n\n	return maps.Clone(m)\n", Rule: "D1-lockset", Site: "GetMap"},
		},
	})
}

type guardedField struct{ stype, field, mutex string }

var guardedBy = []guardedField{
	{"RequestCache", "cache", "mu"},
	{"RequestCache", "calls", "mu"},
	{"CombinedNativeClient", "mavenRegistryClient", "mu"},
	{"CombinedNativeClient", "npmRegistryClient", "mu"},
	{"CombinedNativeClient", "pypiRegistryClient", "mu"},
}

// writes must hold the mutex everywhere; reads must hold it in code run by the status goroutine
var writeGuarded = []guardedField{
	{"walkContext", "inodesVisited", "statusMu"},
	{"walkContext", "extractCalls", "statusMu"},
	{"walkContext", "currentPath", "statusMu"},
	// the baseline of the previous status line: written by the status goroutine (printStatus)
	{"walkContext", "lastStatus", "statusMu"},
	{"walkContext", "lastInodes", "statusMu"},
	{"walkContext", "lastExtracts", "statusMu"},
}

func runC16(p *Prog, r *Report) {
	r.Rule("D1-lockset", "guarded fields are accessed only with their mutex held")
	r.Rule("D2-single-flight", "RequestCache.Get: atomic miss+register, fetch unlocked, waiters signalled, pending entry removed")
	r.Rule("D3-spawn-sharing", "sibling goroutines never share an appended slice")
	r.Rule("D4-fanout", "spawn/counter pairing, one send per worker, sorted+compacted output")
	c16Lockset(p, r)
	statusGoroutineTouchesGuardedOnly(p, r, "D1-lockset")
	c16SingleFlight(p, r)
	c16Patches(p, r)
	c16ComparatorLoopReturnsDifferences(p, r, "D4-fanout")
	c16SortsOwnCopy(p, r, "D3-spawn-sharing")
	derivedGraphsOwnTheirEdges(p, r, "D3-spawn-sharing", "guidedremediation/internal/resolution", "DependencySubgraph.ConstrainingSubgraph")
	// schedule independence of the collector: which follow-up attempts are launched for a received
	// result must not depend on the results received before it — the decisions that end the handling
	// of a received result are the audited ones (table shared with C12)
	if cf := p.Func("guidedremediation/internal/strategy/common", "ComputePatches"); cf != nil {
		frozenSkipsDepth = 12
		frozenSkips(p, r, "D4-fanout", "common.ComputePatches:collector", cf, isAppendOf("Patch"), c12Sanctioned[fnKey(cf)], "COLLECTOR", "the collector can drop a received result (and the follow-up attempts it would launch) depending on what arrived earlier: the returned patch list then depends on the order in which the goroutines finish")
		frozenSkipsDepth = 10
	}
}

// ---- must-hold lockset ----

// lockKey: for a call (*sync.Mutex).Lock/Unlock(&x.mu) returns "x|mu".
func mutexOf(c *ssa.CallCommon) (string, string, bool) {
	rf := refOf(c)
	if rf.Pkg != "sync" || (rf.Recv != "Mutex" && rf.Recv != "RWMutex") {
		return "", "", false
	}
	switch rf.Name {
	case "Lock", "Unlock", "RLock", "RUnlock":
	default:
		return "", "", false
	}
	if len(c.Args) == 0 {
		return "", "", false
	}
	_, f, base, ok := fieldOf(c.Args[0])
	if !ok {
		return "", "", false
	}
	bc := &boundsCtx{keys: map[ssa.Value]string{}, symVal: map[string]ssa.Value{}}
	return bc.key(base) + "|" + f, rf.Name, true
}

// heldAt computes, for every instruction of fn, the set of mutexes certainly held before it.
func heldAt(fn *ssa.Function) map[ssa.Instruction]map[string]bool { return heldAtFrom(fn, nil) }

// heldOnEntry: the mutexes of fn's parameters (receiver included) that every caller holds when it
// calls fn — for an unexported function or method that is only ever called directly (never used as
// a value, never started with go/defer), so that all its call sites are in view. A helper documented
// "mu must be held by the caller" gets its lockset from those call sites.
type entryLocks struct {
	p       *Prog
	callers map[*ssa.Function][]ssa.CallInstruction
	escapes map[*ssa.Function]bool
	memo    map[*ssa.Function]map[string]bool
	busy    map[*ssa.Function]bool
	held    map[*ssa.Function]map[ssa.Instruction]map[string]bool
}

func originOf(fn *ssa.Function) *ssa.Function {
	if fn == nil {
		return nil
	}
	if o := fn.Origin(); o != nil {
		return o
	}
	return fn
}

func newEntryLocks(p *Prog) *entryLocks {
	el := &entryLocks{p: p, callers: map[*ssa.Function][]ssa.CallInstruction{}, escapes: map[*ssa.Function]bool{}, memo: map[*ssa.Function]map[string]bool{}, busy: map[*ssa.Function]bool{}, held: map[*ssa.Function]map[ssa.Instruction]map[string]bool{}}
	for _, fn := range p.Funcs() {
		forEachInstr(fn, func(_ *ssa.BasicBlock, _ int, in ssa.Instruction) {
			var callee ssa.Value
			if ci, ok := in.(ssa.CallInstruction); ok {
				callee = ci.Common().Value
				if sc := originOf(ci.Common().StaticCallee()); sc != nil {
					if _, plain := in.(*ssa.Call); plain {
						el.callers[sc] = append(el.callers[sc], ci)
					} else {
						el.escapes[sc] = true // go f(…), defer f(…): runs outside the caller's critical section
					}
				}
			}
			for _, op := range in.Operands(nil) {
				if op == nil || *op == nil {
					continue
				}
				f, isF := (*op).(*ssa.Function)
				if !isF {
					continue
				}
				if *op == callee {
					if _, isCall := in.(ssa.CallInstruction); isCall {
						continue
					}
				}
				// used as a value (closure of a bound method, argument, stored)
				el.escapes[originOf(f)] = true
				if f.Synthetic != "" {
					// bound-method / thunk wrappers stand for the method they wrap
					for _, b := range f.Blocks {
						for _, i2 := range b.Instrs {
							if ci, ok := i2.(ssa.CallInstruction); ok {
								if sc := originOf(ci.Common().StaticCallee()); sc != nil {
									el.escapes[sc] = true
								}
							}
						}
					}
				}
			}
		})
	}
	return el
}

func (el *entryLocks) heldIn(fn *ssa.Function) map[ssa.Instruction]map[string]bool {
	if h, ok := el.held[fn]; ok {
		return h
	}
	h := heldAtFrom(fn, el.entry(fn))
	el.held[fn] = h
	return h
}

func (el *entryLocks) entry(fn *ssa.Function) map[string]bool {
	fn = originOf(fn)
	if m, ok := el.memo[fn]; ok {
		return m
	}
	if el.busy[fn] {
		return nil
	}
	el.busy[fn] = true
	defer func() { el.busy[fn] = false }()
	out := map[string]bool{}
	sites := el.callers[fn]
	if len(sites) == 0 || el.escapes[fn] || ast.IsExported(fn.Name()) || fn.Parent() != nil {
		el.memo[fn] = out
		return out
	}
	mutexes := map[string]bool{}
	for _, g := range guardedBy {
		mutexes[g.mutex] = true
	}
	for _, g := range writeGuarded {
		mutexes[g.mutex] = true
	}
	key := func(v ssa.Value) string {
		bc := &boundsCtx{keys: map[ssa.Value]string{}, symVal: map[string]ssa.Value{}}
		return bc.key(v)
	}
	for i, prm := range fn.Params {
		for m := range mutexes {
			all := true
			for _, ci := range sites {
				args := ci.Common().Args
				caller := ci.Parent()
				if i >= len(args) || !el.heldIn(caller)[ci.(ssa.Instruction)][key(args[i])+"|"+m] {
					all = false
					break
				}
			}
			if all {
				out[key(prm)+"|"+m] = true
			}
		}
	}
	el.memo[fn] = out
	return out
}

// heldAtFrom: heldAt with the mutexes already held when fn is entered.
func heldAtFrom(fn *ssa.Function, entry map[string]bool) map[ssa.Instruction]map[string]bool {
	in := map[*ssa.BasicBlock]map[string]bool{}
	out := map[*ssa.BasicBlock]map[string]bool{}
	res := map[ssa.Instruction]map[string]bool{}
	universe := map[string]bool{}
	for k := range entry {
		universe[k] = true
	}
	forEachInstr(fn, func(_ *ssa.BasicBlock, _ int, i ssa.Instruction) {
		if c := callOf(i); c != nil {
			if k, _, ok := mutexOf(c); ok {
				universe[k] = true
			}
		}
	})
	clone := func(m map[string]bool) map[string]bool {
		o := map[string]bool{}
		for k, v := range m {
			if v {
				o[k] = true
			}
		}
		return o
	}
	for _, b := range fn.Blocks {
		out[b] = clone(universe) // top
	}
	changed := true
	for iter := 0; changed && iter < 50; iter++ {
		changed = false
		for _, b := range fn.Blocks {
			var cur map[string]bool
			if b == fn.Blocks[0] {
				cur = clone(entry)
			} else {
				first := true
				for _, p := range b.Preds {
					if first {
						cur = clone(out[p])
						first = false
					} else {
						for k := range cur {
							if !out[p][k] {
								delete(cur, k)
							}
						}
					}
				}
				if cur == nil {
					cur = map[string]bool{}
				}
			}
			in[b] = clone(cur)
			for _, i := range b.Instrs {
				res[i] = clone(cur)
				if _, isDefer := i.(*ssa.Defer); isDefer {
					continue // deferred Unlock runs at exit
				}
				if c := callOf(i); c != nil {
					if k, op, ok := mutexOf(c); ok {
						if op == "Lock" || op == "RLock" {
							cur[k] = true
						} else {
							delete(cur, k)
						}
					}
				}
			}
			if len(cur) != len(out[b]) {
				changed = true
			} else {
				for k := range cur {
					if !out[b][k] {
						changed = true
					}
				}
			}
			out[b] = cur
		}
	}
	return res
}

func c16Lockset(p *Prog, r *Report) {
	nacc := 0
	el := newEntryLocks(p)
	// functions run by the status goroutine: closure in RunFS + printStatus
	statusFns := map[*ssa.Function]bool{}
	if rf := p.Func(fsPkg, "RunFS"); rf != nil {
		for _, a := range rf.AnonFuncs {
			for _, f := range p.reachableFrom([]*ssa.Function{a}) {
				statusFns[f] = true
			}
			statusFns[a] = true
		}
	}
	for _, fn := range p.Funcs() {
		pkgRel := ""
		if pk := fnPkg(fn); pk != nil {
			pkgRel = rel(pk.Path())
		}
		if pkgRel != "clients/datasource" && pkgRel != "clients/resolution" && pkgRel != fsPkg {
			continue
		}
		var held map[ssa.Instruction]map[string]bool
		forEachInstr(fn, func(_ *ssa.BasicBlock, _ int, in ssa.Instruction) {
			fa, ok := in.(*ssa.FieldAddr)
			if !ok {
				return
			}
			s, f, base, ok := fieldOf(fa)
			if !ok {
				return
			}
			check := func(g guardedField, onlyWrites bool) {
				if s != g.stype || f != g.field {
					return
				}
				// constructor exemption: the struct is a fresh allocation in this function
				if _, isAlloc := base.(*ssa.Alloc); isAlloc {
					return
				}
				isWrite := false
				for _, ref := range *fa.Referrers() {
					switch x := ref.(type) {
					case *ssa.Store:
						if x.Addr == ssa.Value(fa) {
							isWrite = true
						}
					case *ssa.UnOp:
						// load of a map followed by MapUpdate/delete is a write of the map
						for _, r2 := range *x.Referrers() {
							if _, ok := r2.(*ssa.MapUpdate); ok {
								isWrite = true
							}
							if c := callOf2(r2); c != nil && isCallToC(c, "builtin", "delete") {
								isWrite = true
							}
						}
					}
				}
				if onlyWrites && !isWrite && !statusFns[fn] {
					return
				}
				nacc++
				if held == nil {
					held = el.heldIn(fn)
				}
				bc := &boundsCtx{keys: map[ssa.Value]string{}, symVal: map[string]ssa.Value{}}
				want := bc.key(base) + "|" + g.mutex
				site := fmt.Sprintf("%s:%s.%s@%s", fnKey(fn), g.stype, g.field, accessKind(isWrite))
				if held[in][want] {
					r.OK("D1-lockset", site, p.Pos(fa.Pos()), "accessed with "+g.mutex+" held")
					// a map / slice read from the guarded field is still the shared object: every use of
					// the loaded reference (lookup, update, range, passing it to a call such as maps.Clone)
					// must also happen with the mutex held
					for _, ref := range *fa.Referrers() {
						ld, isLd := ref.(*ssa.UnOp)
						if !isLd || ld.Op != token.MUL {
							continue
						}
						switch ld.Type().Underlying().(type) {
						case *types.Map, *types.Slice:
						default:
							continue
						}
						for _, use := range *ld.Referrers() {
							if _, isDbg := use.(*ssa.DebugRef); isDbg {
								continue
							}
							usite := fmt.Sprintf("%s:%s.%s:use-of-loaded-reference", fnKey(fn), g.stype, g.field)
							// … and inside the *same* critical section: once the lock was released, the field
							// may hold another map (SetMap), and the reference read before is a stale one
							stale := false
							forEachInstr(fn, func(_ *ssa.BasicBlock, _ int, u ssa.Instruction) {
								if _, isDefer := u.(*ssa.Defer); isDefer {
									return
								}
								uc := callOf(u)
								if uc == nil {
									return
								}
								k, op, isM := mutexOf(uc)
								if !isM || k != want || (op != "Unlock" && op != "RUnlock") {
									return
								}
								if findPath(pointOf(ld), instrIs(u), instrIs(use), nil) != nil && findPath(pointOf(u), instrIs(use), instrIs(ld), nil) != nil {
									stale = true
								}
							})
							if stale {
								r.Fail("D1-lockset", usite+":same-section", p.Pos(use.Pos()), fmt.Sprintf("the reference read from %s.%s is still used after %s was released and taken again: the field may have been replaced in between (SetMap), so the result is stored into a map nobody reads any more and the next lookup fetches again", g.stype, g.field, g.mutex))
								continue
							}
							if held[use][want] {
								r.OK("D1-lockset", usite, p.Pos(use.Pos()), "the shared "+g.field+" is used only inside the critical section")
							} else {
								r.Fail("D1-lockset", usite, p.Pos(use.Pos()), fmt.Sprintf("the reference read from %s.%s under %s is used after the lock was released (e.g. cloned or iterated outside the critical section): the map is read while another goroutine may be writing it", g.stype, g.field, g.mutex))
							}
						}
					}
				} else {
					r.Fail("D1-lockset", site, p.Pos(fa.Pos()), fmt.Sprintf("%s.%s is %s without %s held on some path: a data race with the other goroutines that use it", g.stype, g.field, accessKind(isWrite), g.mutex))
				}
			}
			for _, g := range guardedBy {
				check(g, false)
			}
			for _, g := range writeGuarded {
				check(g, true)
			}
		})
	}
	r.Instances("D1-lockset", "accesses to guarded fields", nacc, 20)
}

func accessKind(w bool) string {
	if w {
		return "written"
	}
	return "read"
}

func callOf2(in ssa.Instruction) *ssa.CallCommon { return callOf(in) }

func isCallToC(c *ssa.CallCommon, pkg, name string) bool {
	rf := refOf(c)
	return rf.Pkg == pkg && rf.Name == name
}

// ---- D2 ----

func c16SingleFlight(p *Prog, r *Report) {
	var gets []*ssa.Function
	for _, fn := range p.FuncsIn("clients/datasource") {
		if fn.Name() == "Get" && fn.Signature.Recv() != nil {
			if n := namedOf(fn.Signature.Recv().Type()); n != nil && n.Obj().Name() == "RequestCache" {
				gets = append(gets, fn)
			}
		}
	}
	if len(gets) == 0 {
		r.Undecided("D2-single-flight", "anchor:RequestCache.Get", "-", "not found")
		return
	}
	sort.Slice(gets, func(i, j int) bool { return len(gets[i].TypeArgs()) < len(gets[j].TypeArgs()) })
	fn := gets[0] // one body is enough: instances share the shape
	fa := newFA(p, r, fn)
	key := "clients/datasource.RequestCache.Get"
	held := heldAt(fn)
	var cacheLk, callsLk *ssa.Lookup
	var reg, store ssa.Instruction
	var fetch *ssa.Call
	var done ssa.Instruction
	var recheck *ssa.Lookup
	forEachInstr(fn, func(_ *ssa.BasicBlock, _ int, in ssa.Instruction) {
		switch x := in.(type) {
		case *ssa.Lookup:
			if loadsField(x.X, "RequestCache", "cache") && cacheLk == nil {
				cacheLk = x
			}
			if loadsField(x.X, "RequestCache", "calls") {
				if callsLk == nil {
					callsLk = x
				} else {
					recheck = x
				}
			}
		case *ssa.MapUpdate:
			if loadsField(x.Map, "RequestCache", "calls") {
				reg = in
			}
			if loadsField(x.Map, "RequestCache", "cache") {
				store = in
			}
		case *ssa.Call:
			if x.Call.Value == ssa.Value(fn.Params[len(fn.Params)-1]) {
				fetch = x
			}
			if rf := refOf(x.Common()); rf.Pkg == "sync" && rf.Recv == "WaitGroup" && rf.Name == "Done" {
				done = in
			}
		}
	})
	if cacheLk == nil || callsLk == nil || reg == nil || fetch == nil {
		r.Undecided("D2-single-flight", key+":shape", p.Pos(fn.Pos()), "RequestCache.Get no longer has the cache-test / pending-test / register / fetch shape")
		return
	}
	isUnlock := func(in ssa.Instruction) bool {
		if _, isDefer := in.(*ssa.Defer); isDefer {
			return false
		}
		c := callOf(in)
		if c == nil {
			return false
		}
		_, op, ok := mutexOf(c)
		return ok && op == "Unlock"
	}
	// atomicity: no path cacheLk -> Unlock -> reg
	atomic := true
	forEachInstr(fn, func(_ *ssa.BasicBlock, _ int, in ssa.Instruction) {
		if !isUnlock(in) {
			return
		}
		w1 := findPath(pointOf(cacheLk), instrIs(in), instrIs(reg), nil)
		w2 := findPath(pointOf(in), instrIs(reg), nil, nil)
		if w1 != nil && w2 != nil {
			atomic = false
		}
	})
	r.Check(atomic, "D2-single-flight", key+":atomic-miss-and-register", p.Pos(reg.Pos()), "cache test, pending test and registration in one critical section", "the lock is released between testing for a cached/pending value and registering the new call: two concurrent callers can both miss and both invoke the fetch function for one key")
	// order: cache test and pending test both precede the registration on every path
	w := findPath(entryPoint(fn), instrIs(reg), instrIs(callsLk), nil)
	w0 := findPath(entryPoint(fn), instrIs(reg), instrIs(cacheLk), nil)
	r.Check(w == nil && w0 == nil, "D2-single-flight", key+":tests-before-register", p.Pos(reg.Pos()), "both tests precede the registration", "a call can be registered without having tested for a cached value and a pending call")
	// fetch unlocked
	anyHeld := false
	for k := range held[fetch] {
		if strings.HasSuffix(k, "|mu") {
			anyHeld = true
		}
	}
	r.Check(!anyHeld, "D2-single-flight", key+":fetch-unlocked", p.Pos(fetch.Pos()), "the fetch function runs with the lock released", "the caller-supplied fetch function is invoked with the cache lock held: every other lookup (also of other keys) blocks behind it, and a fetch function that uses the cache deadlocks")
	// registration precedes fetch
	w2 := findPath(entryPoint(fn), instrIs(fetch), instrIs(reg), nil)
	r.Check(w2 == nil, "D2-single-flight", key+":register-before-fetch", p.Pos(fetch.Pos()), "the call is registered before fetching", "the fetch function can be invoked without the call having been registered as pending")
	// after fetch: Done on all paths, pending entry re-examined, cache store only when err == nil.
	// The completion may sit in a function literal of Get that is called on every path from the fetch
	// to a return (a helper with its own `defer mu.Unlock()` ends up there, §1.1): it is then judged
	// inside that literal, from its entry, with the literal's own lockset.
	postStart := pointOf(fetch)
	pfn := fn
	if done == nil && recheck == nil && store == nil {
		for _, g := range fn.AnonFuncs {
			var gcall ssa.Instruction
			forEachInstr(fn, func(_ *ssa.BasicBlock, _ int, in ssa.Instruction) {
				if c, ok := in.(*ssa.Call); ok {
					if mc, isMC := c.Call.Value.(*ssa.MakeClosure); isMC && mc.Fn == ssa.Value(g) {
						gcall = in
					} else if c.Call.Value == ssa.Value(g) {
						gcall = in
					}
				}
			})
			if gcall == nil || findPath(pointOf(fetch), isReturn, instrIs(gcall), nil) != nil {
				continue
			}
			var d2, s2 ssa.Instruction
			var r2 *ssa.Lookup
			forEachInstr(g, func(_ *ssa.BasicBlock, _ int, in ssa.Instruction) {
				switch x := in.(type) {
				case *ssa.Lookup:
					if loadsField(x.X, "RequestCache", "calls") {
						r2 = x
					}
				case *ssa.MapUpdate:
					if loadsField(x.Map, "RequestCache", "cache") {
						s2 = in
					}
				case *ssa.Call:
					if rf := refOf(x.Common()); rf.Pkg == "sync" && rf.Recv == "WaitGroup" && rf.Name == "Done" {
						d2 = in
					}
				}
			})
			if d2 != nil || r2 != nil || s2 != nil {
				done, recheck, store = d2, r2, s2
				pfn, postStart = g, entryPoint(g)
				fa = newFA(p, r, g)
				held = heldAt(g)
			}
		}
	}
	if done == nil {
		r.Fail("D2-single-flight", key+":waiters-signalled", p.Pos(fetch.Pos()), "waiters are never signalled (no WaitGroup.Done)")
	} else {
		fa.noPath("D2-single-flight", "waiters-signalled", postStart, isReturn, instrIs(done), nil, "wg.Done on every path after the fetch", "a path after the fetch returns without signalling the waiting callers: they block forever")
	}
	if recheck == nil {
		r.Fail("D2-single-flight", key+":pending-removed", p.Pos(fetch.Pos()), "the pending entry is never removed after the fetch")
	} else {
		fa.noPath("D2-single-flight", "pending-removed", postStart, isReturn, instrIs(recheck), nil, "the pending entry is re-examined (and removed) on every path after the fetch", "a path after the fetch (e.g. the failure path) returns without removing the finished call from the pending table: every later lookup of that key gets the stale result without fetching again")
		hasDel := false
		forEachInstr(pfn, func(_ *ssa.BasicBlock, _ int, in ssa.Instruction) {
			if c := callOf(in); c != nil && isCallToC(c, "builtin", "delete") && loadsField(c.Args[0], "RequestCache", "calls") {
				hasDel = true
			}
		})
		r.Check(hasDel, "D2-single-flight", key+":pending-deleted", p.Pos(recheck.Pos()), "delete(rq.calls, key)", "the finished call is never deleted from the pending table")
	}
	if store == nil {
		r.Fail("D2-single-flight", key+":cache-store", p.Pos(fetch.Pos()), "successful results are never stored in the cache")
	} else {
		errNil := func(c ssa.Value) (bool, bool) {
			op, x, y, ok := cmpNorm(c)
			if !ok || (op != token.EQL && op != token.NEQ) {
				return false, false
			}
			if isNilConst(y) && loadsField(x, "requestCacheCall", "err") {
				return true, op == token.EQL
			}
			return false, false
		}
		g, n := fa.guarded(store, true, errNil)
		r.Check(n > 0 && g, "D2-single-flight", key+":store-only-on-success", p.Pos(store.Pos()), "cache[key] = val only when err == nil", "a failed fetch can be stored in the cache: the error's zero value is served as a cached success")
		hs := held[store]
		okH := false
		for k := range hs {
			if strings.HasSuffix(k, "|mu") {
				okH = true
			}
		}
		r.Check(okH, "D2-single-flight", key+":store-locked", p.Pos(store.Pos()), "stored with the lock held", "the cache is written without the lock")
	}
	// pending waiters return the call's value and error
	_ = types.Typ
}

// ---- D3 / D4 ----

func c16Patches(p *Prog, r *Report) {
	fn := p.Func("guidedremediation/internal/strategy/common", "ComputePatches")
	if fn == nil {
		r.Undecided("D3-spawn-sharing", "anchor:ComputePatches", "-", "not found")
		return
	}
	fa := newFA(p, r, fn)
	var gos []*ssa.Go
	forEachInstr(fn, func(_ *ssa.BasicBlock, _ int, in ssa.Instruction) {
		if g, ok := in.(*ssa.Go); ok {
			gos = append(gos, g)
		}
	})
	r.Instances("D3-spawn-sharing", "goroutine spawns in ComputePatches", len(gos), 3)
	// the receive loop
	var recv ssa.Instruction
	forEachInstr(fn, func(_ *ssa.BasicBlock, _ int, in ssa.Instruction) {
		if u, ok := in.(*ssa.UnOp); ok && u.Op == token.ARROW {
			recv = in
		}
	})
	var recvHdr *ssa.BasicBlock
	if recv != nil {
		recvHdr = loopHeaderOf(recv.Block())
	}
	// the pending counter: the value the receive loop's `counter > 0` test reads, and everything that
	// flows into it through phis and constant additions (a range loop's own index increment is not it)
	feeds := map[ssa.Value]bool{}
	if recvHdr != nil && len(recvHdr.Instrs) > 0 {
		if iff, ok := recvHdr.Instrs[len(recvHdr.Instrs)-1].(*ssa.If); ok {
			if cmp, ok := iff.Cond.(*ssa.BinOp); ok {
				var walk func(v ssa.Value, d int)
				walk = func(v ssa.Value, d int) {
					if v == nil || feeds[v] || d > 12 {
						return
					}
					switch x := v.(type) {
					case *ssa.Phi:
						feeds[x] = true
						for _, e := range x.Edges {
							walk(e, d+1)
						}
					case *ssa.BinOp:
						if _, isK := constInt(x.Y); isK && (x.Op == token.ADD || x.Op == token.SUB) {
							feeds[x] = true
							walk(x.X, d+1)
						}
					}
				}
				walk(cmp.X, 0)
				walk(cmp.Y, 0)
			}
		}
	}
	// counter phi: incremented next to every go
	isInc := func(in ssa.Instruction) bool {
		bo, ok := in.(*ssa.BinOp)
		if !ok || bo.Op != token.ADD {
			return false
		}
		if len(feeds) > 0 && !feeds[bo] {
			return false
		}
		k, isK := constInt(bo.Y)
		if !isK || k != 1 || !isIntLike(bo.Type()) {
			return false
		}
		// the operand is the loop-carried counter, possibly after the decrement of this iteration
		x := bo.X
		for d := 0; d < 4; d++ {
			if _, isPhi := x.(*ssa.Phi); isPhi {
				return true
			}
			b2, ok := x.(*ssa.BinOp)
			if !ok {
				return false
			}
			if _, isK := constInt(b2.Y); !isK {
				return false
			}
			x = b2.X
		}
		return false
	}
	for i, g := range gos {
		site := fmt.Sprintf("%s:go#%d", fa.key, i)
		// D4: from the go, an increment is passed before the next go / loop head / return
		hdr := loopHeaderOf(g.Block())
		goal := func(in ssa.Instruction) bool {
			if isReturn(in) {
				return true
			}
			if _, ok := in.(*ssa.Go); ok {
				return true
			}
			if hdr != nil && len(hdr.Instrs) > 0 && in == hdr.Instrs[0] {
				return true
			}
			if recvHdr != nil && len(recvHdr.Instrs) > 0 && in == recvHdr.Instrs[0] {
				return true
			}
			return false
		}
		wp := findPath(pointOf(g), goal, isInc, nil)
		if wp != nil {
			// the other order: the counter is incremented just before the spawn (a spawn helper that
			// counts first): every path into this go — from the entry, from any spawn, from the head
			// of an enclosing loop — passes an increment
			starts := []Point{entryPoint(fn)}
			for _, g2 := range gos {
				starts = append(starts, pointOf(g2))
			}
			for _, h := range []*ssa.BasicBlock{hdr, recvHdr} {
				if h != nil {
					starts = append(starts, Point{h, -1})
				}
			}
			before := true
			for _, st := range starts {
				if findPath(st, instrIs(g), isInc, nil) != nil {
					before = false
				}
			}
			if before {
				wp = nil
			}
		}
		r.Check(wp == nil, "D4-fanout", site+":counted", p.Pos(g.Pos()), "every spawn is followed by an increment of the pending counter", "a goroutine is spawned without incrementing the pending counter: its result is never received (the worker blocks forever on the channel) or results are lost")
		// D3: argument freshness for spawns inside an inner loop of the receive loop
		inner := hdr != nil && recvHdr != nil && hdr != recvHdr && naturalLoop(recvHdr)[hdr]
		if len(g.Call.Args) == 0 {
			continue
		}
		arg := g.Call.Args[len(g.Call.Args)-1]
		fresh := func(v ssa.Value) bool {
			switch x := v.(type) {
			case *ssa.Slice:
				_, ok := x.X.(*ssa.Alloc)
				return ok
			case *ssa.Call:
				rf := refOf(x.Common())
				if rf.Pkg == "slices" && rf.Name == "Clone" {
					return true
				}
			}
			return false
		}
		ok := true
		why := "argument is not an append"
		if c, isCall := arg.(*ssa.Call); isCall && isCallTo(c, "builtin", "", "append") {
			base := c.Call.Args[0]
			if fresh(base) {
				why = "append on a fresh clone/literal"
			} else if inner {
				ok = false
			} else {
				why = "single spawn per received result"
			}
		} else if fresh(arg) {
			why = "fresh slice literal"
		}
		r.Check(ok, "D3-spawn-sharing", site+":argument", p.Pos(g.Pos()), why, "goroutines spawned in a loop for the same result receive append(<shared slice>, …): when the shared slice has spare capacity the siblings write the same backing array element (a data race, and all but one vulnerability set is overwritten)")
	}
	// round 9: whether a follow-up attempt is spawned does not depend on a table filled from results
	// received earlier (a memo of "already followed up"): which result arrives first is the
	// scheduler's choice, so such a test makes the set of attempts — and the patch list — depend on it.
	if recvHdr != nil {
		loop := naturalLoop(recvHdr)
		carried := map[ssa.Value]bool{}
		forEachInstr(fn, func(b *ssa.BasicBlock, _ int, in ssa.Instruction) {
			if mu, ok := in.(*ssa.MapUpdate); ok && loop[b] {
				carried[mu.Map] = true
			}
		})
		var dependsOnCarried func(v ssa.Value, d int) bool
		dependsOnCarried = func(v ssa.Value, d int) bool {
			if d > 5 || v == nil {
				return false
			}
			switch x := v.(type) {
			case *ssa.Lookup:
				return carried[x.X]
			case *ssa.Extract:
				return dependsOnCarried(x.Tuple, d+1)
			case *ssa.UnOp:
				return dependsOnCarried(x.X, d+1)
			case *ssa.BinOp:
				return dependsOnCarried(x.X, d+1) || dependsOnCarried(x.Y, d+1)
			case *ssa.Phi:
				for _, e := range x.Edges {
					if dependsOnCarried(e, d+1) {
						return true
					}
				}
			}
			return false
		}
		okMemo := true
		var at token.Pos
		for b := range loop {
			if len(b.Instrs) == 0 {
				continue
			}
			iff, ok := b.Instrs[len(b.Instrs)-1].(*ssa.If)
			if !ok || !dependsOnCarried(iff.Cond, 0) {
				continue
			}
			blocked := map[*ssa.BasicBlock]bool{recvHdr: true}
			if ih := loopHeaderOf(b); ih != nil {
				blocked[ih] = true // within one iteration of the innermost loop
			}
			r0, r1 := reachable(b.Succs[0], nil, blocked), reachable(b.Succs[1], nil, blocked)
			for _, g := range gos {
				if r0[g.Block()] != r1[g.Block()] {
					okMemo = false
					at = iff.Cond.Pos()
				}
			}
		}
		if at == token.NoPos {
			at = fn.Pos()
		}
		r.Check(okMemo, "D4-fanout", fa.key+":spawn-independent-of-arrival-order", p.Pos(at), "no spawn in the receive loop is decided by a table filled from earlier results", "a follow-up attempt is spawned or skipped depending on a table that earlier received results filled in: the first result to arrive takes the follow-up and its siblings are skipped, so which patches are computed — and the returned list — depends on the order in which the goroutines finish")
	}
	// every increment is next to a go: count increments in the function == number of gos
	ninc := 0
	forEachInstr(fn, func(_ *ssa.BasicBlock, _ int, in ssa.Instruction) {
		if isInc(in) {
			// only the pending counter: its phi feeds the `toProcess > 0` loop test
			ninc++
		}
	})
	// every spawned function sends exactly one result (usually one worker; textually separate copies of
	// it — the worker written out at each spawn — are each checked)
	workers := map[*ssa.Function]bool{}
	var wlist []*ssa.Function
	for _, g := range gos {
		w := funcValue(g.Call.Value)
		if w == nil {
			r.Undecided("D4-fanout", fa.key+":worker", p.Pos(g.Pos()), "cannot resolve the worker function")
			continue
		}
		if !workers[w] {
			workers[w] = true
			wlist = append(wlist, w)
		}
	}
	if len(gos) == 0 {
		r.Undecided("D4-fanout", fa.key+":worker", p.Pos(fn.Pos()), "cannot resolve the worker function")
	}
	for i, worker := range wlist {
		var sends []ssa.Instruction
		forEachInstr(worker, func(_ *ssa.BasicBlock, _ int, in ssa.Instruction) {
			if _, ok := in.(*ssa.Send); ok {
				sends = append(sends, in)
			}
		})
		okS := len(sends) == 1 && !inLoop(sends[0].Block())
		if okS {
			w := findPath(entryPoint(worker), isReturn, instrIs(sends[0]), nil)
			okS = w == nil
		}
		site := fnKey(fn) + ":worker:one-send"
		if i > 0 {
			site = fmt.Sprintf("%s#%d", site, i)
		}
		r.Check(okS, "D4-fanout", site, p.Pos(worker.Pos()), "the worker sends exactly one result", "a worker does not send exactly one result on every path: the collector's counter and the channel get out of step (deadlock or lost patches)")
	}
	// output: every return of a non-nil patch list passes SortFunc then CompactFunc with the same comparator
	var sortC, compC *ssa.Call
	forEachInstr(fn, func(_ *ssa.BasicBlock, _ int, in ssa.Instruction) {
		if c, ok := in.(*ssa.Call); ok {
			rf := refOf(c.Common())
			if rf.Pkg == "slices" && rf.Name == "SortFunc" {
				sortC = c
			}
			if rf.Pkg == "slices" && rf.Name == "CompactFunc" {
				compC = c
			}
		}
	})
	site := fa.key + ":sorted-compacted"
	if sortC == nil || compC == nil {
		r.Fail("D4-fanout", site, p.Pos(fn.Pos()), "the patch list is not sorted and de-duplicated before it is returned: the result depends on the order in which the goroutines finished")
		return
	}
	okOut := true
	for _, ret := range returnsOf(fn) {
		if isNilConst(retVal(ret, 0)) {
			continue
		}
		if !derivesFrom(retVal(ret, 0), func(v ssa.Value) bool { return v == ssa.Value(compC) }, deriveOpts{followStores: true}) {
			okOut = false
		}
	}
	if findPath(entryPoint(fn), instrIs(compC), instrIs(sortC), nil) != nil {
		okOut = false
	}
	// CompactFunc's equality closure uses the same comparator as SortFunc
	same := false
	if mc, ok := stripChangeType(compC.Call.Args[1]).(*ssa.MakeClosure); ok {
		eq := mc.Fn.(*ssa.Function)
		for bi, b := range mc.Bindings {
			// the captured variable is the comparator variable SortFunc was given
			if b != loadAddr(stripChangeType(sortC.Call.Args[1])) && b != stripChangeType(sortC.Call.Args[1]) {
				continue
			}
			fv := eq.FreeVars[bi]
			forEachInstr(eq, func(_ *ssa.BasicBlock, _ int, in ssa.Instruction) {
				if c, ok := in.(*ssa.Call); ok && (loadAddr(c.Call.Value) == ssa.Value(fv) || c.Call.Value == ssa.Value(fv)) {
					same = true
				}
			})
		}
	} else if funcValue(compC.Call.Args[1]) != nil && funcValue(compC.Call.Args[1]) == funcValue(sortC.Call.Args[1]) {
		same = true
	}
	r.Check(okOut && same, "D4-fanout", site, p.Pos(compC.Pos()), "return CompactFunc(SortFunc(all, cmp), cmp == 0)", "the returned patch list is not the sorted list compacted with the same comparator")
	_ = ninc
}
