package main

import "encoding/json"

func jsonUnmarshal(b []byte, v any) error { return json.Unmarshal(b, v) }
