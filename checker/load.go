package main

import (
	"fmt"
	"go/ast"
	"go/token"
	"go/types"
	"os"
	"sort"
	"strings"

	"golang.org/x/tools/go/packages"
	"golang.org/x/tools/go/ssa"
	"golang.org/x/tools/go/ssa/ssautil"
)

const modPath = "github.com/google/osv-scalibr"

// Prog is one loaded configuration (GOOS) of /repo: all first-party packages are parsed and
// type-checked from the current working tree, third-party and std packages come from export data
// (their bodies are never analysed).
type Prog struct {
	GOOS   string
	Pkgs   []*packages.Package
	ByPath map[string]*packages.Package
	SSA    *ssa.Program
	Fset   *token.FileSet
	nfuncs int
	allFns []*ssa.Function
	cidx   *callIndex
	imn    map[string]bool
	impls  map[string][]*ssa.Function
	// Inlined: log of the helper calls inlined by the normalisation (inline.go)
	Inlined []string
}

// noInline switches the normalisation off (-noinline; used to generate the inventory).
var noInline bool

var repoDir = "/repo"

// Load loads patterns (relative to /repo) for goos. overlay maps absolute file names to content.
func Load(goos string, overlay map[string][]byte, patterns ...string) (*Prog, error) {
	env := os.Environ()
	env = append(env, "GOOS="+goos, "GOARCH=amd64")
	if goos != "linux" {
		env = append(env, "CGO_ENABLED=0")
	}
	cfg := &packages.Config{
		Mode:    packages.LoadSyntax | packages.NeedModule,
		Dir:     repoDir,
		Env:     env,
		Overlay: overlay,
		Tests:   false,
	}
	pkgs, err := packages.Load(cfg, patterns...)
	if err != nil {
		return nil, fmt.Errorf("go/packages: %w", err)
	}
	if len(pkgs) == 0 {
		return nil, fmt.Errorf("no packages matched %v", patterns)
	}
	pkgErrs := func(pkgs []*packages.Package) []string {
		var errs []string
		for _, p := range pkgs {
			for _, e := range p.Errors {
				errs = append(errs, e.Error())
			}
		}
		return errs
	}
	errs := pkgErrs(pkgs)
	// normalisation: inline the calls of helpers that did not exist on the pinned tree (inline.go)
	var inlined []string
	if len(errs) == 0 && !noInline {
		ov := map[string][]byte{}
		for k, v := range overlay {
			ov[k] = v
		}
		seq := 0
		cur := pkgs
		for round := 0; round < 4; round++ {
			edits, log := inlineRound(cur, ov, &seq)
			if len(edits) == 0 {
				break
			}
			for k, v := range edits {
				ov[k] = v
			}
			cfg2 := *cfg
			cfg2.Overlay = ov
			next, err := packages.Load(&cfg2, patterns...)
			if err != nil || len(pkgErrs(next)) > 0 {
				// the rewrite does not type-check: analyse the program as written
				msg := "load error"
				if err == nil {
					msg = pkgErrs(next)[0]
				}
				inlined = []string{"normalisation dropped (rewritten source does not type-check: " + short(msg, 300) + ")"}
				if os.Getenv("SCALINT_INLINE_DEBUG") != "" {
					for k, v := range edits {
						os.WriteFile("/tmp/inline_debug_"+strings.ReplaceAll(rel(k), "/", "_"), v, 0o644)
					}
				}
				cur = nil
				break
			}
			inlined = append(inlined, log...)
			cur = next
			if d := os.Getenv("SCALINT_INLINE_DUMP"); d != "" {
				for k, v := range edits {
					os.WriteFile(d+"/"+strings.ReplaceAll(strings.TrimPrefix(k, "/"), "/", "_")+fmt.Sprintf(".r%d", round), v, 0o644)
				}
			}
		}
		if cur != nil {
			pkgs = cur
		}
	}
	if len(errs) > 0 {
		sort.Strings(errs)
		if len(errs) > 10 {
			errs = errs[:10]
		}
		return nil, fmt.Errorf("type-check errors in /repo (%s): %s", goos, strings.Join(errs, "; "))
	}
	prog, _ := ssautil.Packages(pkgs, ssa.InstantiateGenerics)
	prog.Build()
	p := &Prog{GOOS: goos, Pkgs: pkgs, ByPath: map[string]*packages.Package{}, SSA: prog, Inlined: inlined}
	for _, pk := range pkgs {
		p.ByPath[pk.PkgPath] = pk
		if p.Fset == nil {
			p.Fset = pk.Fset
		}
	}
	seenFn := map[*ssa.Function]bool{}
	var addFn func(fn *ssa.Function)
	addFn = func(fn *ssa.Function) {
		if fn == nil || seenFn[fn] {
			return
		}
		seenFn[fn] = true
		if fn.Blocks != nil && (fn.Synthetic == "" || strings.HasPrefix(fn.Synthetic, "range-over-func")) && p.firstParty(fn) {
			p.allFns = append(p.allFns, fn)
		}
		for _, a := range fn.AnonFuncs {
			addFn(a)
		}
	}
	for fn := range ssautil.AllFunctions(prog) {
		addFn(fn)
	}
	// methods of generic types are not reported by AllFunctions until instantiated: add their
	// generic bodies explicitly
	for _, pk := range pkgs {
		sp := prog.Package(pk.Types)
		if sp == nil {
			continue
		}
		for _, m := range sp.Members {
			t, ok := m.(*ssa.Type)
			if !ok {
				continue
			}
			n, ok := t.Type().(*types.Named)
			if !ok {
				continue
			}
			for i := 0; i < n.NumMethods(); i++ {
				addFn(prog.FuncValue(n.Method(i)))
			}
		}
	}
	// a new unexported helper whose every call was inlined is dead code: its logic is analysed where it
	// now sits, in its callers
	if len(inlined) > 0 {
		loadInventory()
		referenced := map[*ssa.Function]bool{}
		for _, fn := range p.allFns {
			for _, b := range fn.Blocks {
				for _, in := range b.Instrs {
					for _, op := range in.Operands(nil) {
						if op == nil || *op == nil {
							continue
						}
						if f, ok := (*op).(*ssa.Function); ok && f != fn {
							referenced[f] = true
						}
						if mc, ok := (*op).(*ssa.MakeClosure); ok {
							if f, ok := mc.Fn.(*ssa.Function); ok {
								referenced[f] = true
							}
						}
					}
				}
			}
		}
		isNewDead := func(fn *ssa.Function) bool {
			root := fn
			for root.Parent() != nil {
				root = root.Parent()
			}
			if root.Object() == nil || root.Object().Exported() || referenced[root] || root.Pkg == nil {
				return false
			}
			if root.Name() == "init" || root.Name() == "main" {
				return false
			}
			recv := ""
			if sig := root.Signature; sig.Recv() != nil {
				if n := namedOf(sig.Recv().Type()); n != nil {
					recv = n.Obj().Name()
				}
			}
			return !inventory[root.Pkg.Pkg.Path()+"."+recv+"."+root.Name()]
		}
		kept := p.allFns[:0]
		for _, fn := range p.allFns {
			if isNewDead(fn) {
				continue
			}
			kept = append(kept, fn)
		}
		p.allFns = kept
	}
	sort.Slice(p.allFns, func(i, j int) bool { return fnKey(p.allFns[i]) < fnKey(p.allFns[j]) })
	p.nfuncs = len(p.allFns)
	activeProg = p
	return p, nil
}

// activeProg: the program loaded last (what the rendering helpers that need a whole-package view use).
var activeProg *Prog

// allFnsWithInit: the source functions of one package plus its initialiser.
func (p *Prog) allFnsWithInit(pkg *ssa.Package) []*ssa.Function {
	var out []*ssa.Function
	for _, fn := range p.allFns {
		if fnPkg(fn) == pkg.Pkg {
			out = append(out, fn)
		}
	}
	if ini := pkg.Func("init"); ini != nil {
		out = append(out, withAnon(ini)...)
	}
	return out
}

func (p *Prog) firstParty(fn *ssa.Function) bool {
	pk := fnPkg(fn)
	return pk != nil && strings.HasPrefix(pk.Path(), modPath)
}

func fnPkg(fn *ssa.Function) *types.Package {
	for fn != nil {
		if fn.Pkg != nil {
			return fn.Pkg.Pkg
		}
		if fn.Parent() != nil {
			fn = fn.Parent()
			continue
		}
		if o := fn.Origin(); o != nil && o != fn {
			fn = o
			continue
		}
		if fn.Object() != nil {
			return fn.Object().Pkg()
		}
		return nil
	}
	return nil
}

// rel strips the module prefix from a package path.
func rel(path string) string {
	s := strings.TrimPrefix(path, modPath)
	s = strings.TrimPrefix(s, "/")
	if s == "" {
		return "."
	}
	return s
}

// fnKey is the stable, line-independent name of a function: <relpkg>.<Recv.>Name[$n]
func fnKey(fn *ssa.Function) string {
	if fn == nil {
		return "<nil>"
	}
	pk := fnPkg(fn)
	pp := "?"
	if pk != nil {
		pp = rel(pk.Path())
	}
	name := fn.Name()
	if fn.Parent() != nil {
		// anonymous: parentKey$n
		return fnKey(fn.Parent()) + "$" + strings.TrimPrefix(name, fn.Parent().Name()+"$")
	}
	if recv := fn.Signature.Recv(); recv != nil {
		t := recv.Type()
		if pt, ok := t.(*types.Pointer); ok {
			t = pt.Elem()
		}
		if n, ok := t.(*types.Named); ok {
			name = n.Obj().Name() + "." + name
		}
	}
	return pp + "." + name
}

// Pkg returns the SSA package for a module-relative path ("" or "." = root).
func (p *Prog) Pkg(relPath string) *ssa.Package {
	full := modPath
	if relPath != "" && relPath != "." {
		full = modPath + "/" + relPath
	}
	pk := p.ByPath[full]
	if pk == nil {
		return nil
	}
	return p.SSA.Package(pk.Types)
}

func (p *Prog) TPkg(relPath string) *packages.Package {
	full := modPath
	if relPath != "" && relPath != "." {
		full = modPath + "/" + relPath
	}
	return p.ByPath[full]
}

// Func finds a function by module-relative package path and name: "Name" for package-level
// functions, "Type.Name" for methods (pointer or value receiver). nil if absent.
func (p *Prog) Func(relPath, name string) *ssa.Function {
	if fn := p.funcExact(relPath, name); fn != nil {
		return fn
	}
	// a method that became a plain function taking the former receiver first, or the reverse: the
	// SSA parameter list is the same either way (the receiver is parameter 0)
	sp := p.Pkg(relPath)
	if sp == nil {
		return nil
	}
	if i := strings.Index(name, "."); i >= 0 {
		tn, mn := name[:i], name[i+1:]
		if f, ok := sp.Members[mn].(*ssa.Function); ok {
			if len(f.Params) > 0 {
				if n := namedOf(f.Params[0].Type()); n != nil && n.Obj().Name() == tn && n.Obj().Pkg() == sp.Pkg {
					return f
				}
			}
			// the receiver was an empty struct (it carried nothing) and was dropped altogether
			if t, ok := sp.Members[tn].(*ssa.Type); ok {
				if st, isStruct := t.Type().Underlying().(*types.Struct); isStruct && st.NumFields() == 0 {
					loadInventory()
					if !inventory[modPath+"/"+relPath+".."+mn] {
						return f
					}
				}
			}
		}
		return nil
	}
	var found *ssa.Function
	for _, m := range sp.Members {
		t, ok := m.(*ssa.Type)
		if !ok {
			continue
		}
		if fn := p.funcExact(relPath, t.Name()+"."+name); fn != nil {
			if found != nil {
				return nil // ambiguous
			}
			found = fn
		}
	}
	if found != nil {
		loadInventory()
		// only when the method is new (the plain function of that name is the one that was known)
		if inventory[modPath+"/"+relPath+"."+namedRecv(found)+"."+name] {
			return nil
		}
	}
	return found
}

// stripRecv: "pkg/path.Recv.name" → "pkg/path.name" (keys of plain functions are returned unchanged).
func stripRecv(key string) string {
	i := strings.LastIndex(key, "/")
	head, tail := key[:i+1], key[i+1:]
	parts := strings.Split(tail, ".")
	if len(parts) == 3 {
		return head + parts[0] + "." + parts[2]
	}
	return key
}

// tableKey: the key under which fn is listed in a table keyed by function — its own key, or, for a
// function that changed between method and plain function, the one listed key that differs only in
// the receiver.
func tableKey[T any](table map[string]T, fn *ssa.Function) string {
	k := fnKey(fn)
	if _, ok := table[k]; ok {
		return k
	}
	want := stripRecv(k)
	found := ""
	for tk := range table {
		if stripRecv(tk) == want {
			if found != "" {
				return k
			}
			found = tk
		}
	}
	if found != "" {
		return found
	}
	return k
}

func namedRecv(fn *ssa.Function) string {
	if fn.Signature.Recv() == nil {
		return ""
	}
	if n := namedOf(fn.Signature.Recv().Type()); n != nil {
		return n.Obj().Name()
	}
	return ""
}

func (p *Prog) funcExact(relPath, name string) *ssa.Function {
	sp := p.Pkg(relPath)
	if sp == nil {
		return nil
	}
	if i := strings.Index(name, "."); i >= 0 {
		tn, mn := name[:i], name[i+1:]
		m := sp.Members[tn]
		t, ok := m.(*ssa.Type)
		if !ok {
			return nil
		}
		for _, typ := range []types.Type{t.Type(), types.NewPointer(t.Type())} {
			ms := p.SSA.MethodSets.MethodSet(typ)
			for i := 0; i < ms.Len(); i++ {
				if ms.At(i).Obj().Name() == mn {
					fn := p.SSA.MethodValue(ms.At(i))
					if fn != nil && fn.Synthetic != "" && fn.Blocks != nil {
						// wrapper (pointer-receiver wrapper of value method): find real one
						continue
					}
					if fn != nil {
						return fn
					}
				}
			}
		}
		return nil
	}
	if f, ok := sp.Members[name].(*ssa.Function); ok {
		return f
	}
	return nil
}

func (p *Prog) Funcs() []*ssa.Function { return p.allFns }

// FuncsIn returns the source functions (including anonymous) of the given module-relative packages
// (prefix match when the entry ends in "/...").
func (p *Prog) FuncsIn(relPaths ...string) []*ssa.Function {
	var out []*ssa.Function
	for _, fn := range p.allFns {
		pk := fnPkg(fn)
		if pk == nil {
			continue
		}
		r := rel(pk.Path())
		for _, want := range relPaths {
			if strings.HasSuffix(want, "/...") {
				pre := strings.TrimSuffix(want, "/...")
				if r == pre || strings.HasPrefix(r, pre+"/") {
					out = append(out, fn)
					break
				}
			} else if r == want {
				out = append(out, fn)
				break
			}
		}
	}
	return out
}

func (p *Prog) Pos(pos token.Pos) string {
	if !pos.IsValid() {
		return "-"
	}
	ps := p.Fset.Position(pos)
	return fmt.Sprintf("%s:%d", strings.TrimPrefix(ps.Filename, repoDir+"/"), ps.Line)
}

// isGenerated reports whether the file holding pos carries a "Code generated ... DO NOT EDIT." header.
func (p *Prog) isGenerated(pk *packages.Package, pos token.Pos) bool {
	for _, f := range pk.Syntax {
		if f.Pos() <= pos && pos <= f.End() {
			return ast.IsGenerated(f)
		}
	}
	return false
}

func (p *Prog) pkgOfFn(fn *ssa.Function) *packages.Package {
	tp := fnPkg(fn)
	if tp == nil {
		return nil
	}
	return p.ByPath[tp.Path()]
}
