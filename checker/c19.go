package main

import (
	"fmt"
	"go/ast"
	"go/constant"
	"go/token"
	"go/types"
	"sort"
	"strings"

	"golang.org/x/tools/go/ssa"
)

func init() {
	register(&PropDef{
		ID: "C19",
		Explain: "Decided (static, exhaustive over the registry because it is static data): D1 every registry row `name: {ctor}` of the three list packages " +
			"(filesystem extractors, standalone extractors, detectors) names a constructor whose concrete result type has Name() == the row key; " +
			"D2 plugin names are pairwise distinct inside each registry and inside each category map, single-plugin keys have exactly one initialiser, group names never collide with plugin names and " +
			"every group lists only registered constructors, the names table is concat(All, groups); D3 FilterByCapabilities/FromCapabilities admit an element only under " +
			"plugin.ValidateRequirements(elem, capabs) == nil on the same element and capabilities, FromCapabilities instantiates every row of All, ValidatePluginRequirements applies the same validator to all three plugin kinds; " +
			"D4 every name in a detector's RequiredExtractors() literal resolves to a registered extractor whose Requirements() literal is implied by the detector's (so auto-enabling cannot make validation fail); " +
			"D5 ValidateRequirements consults all four Capabilities fields of both operands; D6 EnableRequiredExtractors fails only when both registries reject the name and appends only successfully resolved extractors. " +
			"Added in round 2: D3 additionally the converse (no other decision drops an element, no return before the loop); D6 additionally: the set of enabled names is updated with the very name looked up. Added in round 3: D5-decision-table: ValidateRequirements, as a boolean function of its tests, equals the documented requirement semantics (this checks the model D4 relies on); the filter's result is a fresh slice; every name resolution reads the names table. NOT decided: the truth table of ValidateRequirements itself (value-level; the lattice used for D4 is a trusted model of it), docs/supported_inventory_types.md.",
		Assume: []string{
			"symbolic reading of concat (maps.Copy union, later wins) and vals (concatenation of values); both helper bodies are checked to have that shape",
			"Requirements()/RequiredExtractors()/Name() bodies are literal; non-literal bodies make the row undecided (reported as failure)",
		},
		ThoroughGOOS: []string{"linux", "windows", "darwin"},
		Run:          runC19,
		Controls: []Mutant{
			{Name: "row-key-mismatch", File: "extractor/filesystem/list/list.go", Old: "CppSource = InitMap{conanlock.Name: {conanlock.New}}", New: "CppSource = InitMap{conanlock.Name: {pubspec.New}}", Rule: "D1-name", Site: "cpp/conanlock"},
			{Name: "group-shadows-plugin", File: "detector/list/list.go", Old: `"cis":         vals(CIS),`, New: `"cis":         vals(CIS), etcshadow.Name: vals(CIS),`, Rule: "D2-groups", Site: "weakcredentials/etcshadow"},
			{Name: "filter-inverted", File: "extractor/standalone/list/list.go", Old: "if err := plugin.ValidateRequirements(ex, capabs); err == nil {", New: "if err := plugin.ValidateRequirements(ex, capabs); err != nil {", Rule: "D3-filter", Site: "standalone/list.FilterByCapabilities"},
			{Name: "filter-wrong-elem", File: "detector/list/list.go", Old: "if err := plugin.ValidateRequirements(det, capabs); err == nil {", New: "if err := plugin.ValidateRequirements(dets[0], capabs); err == nil {", Rule: "D3-filter", Site: "detector/list.FilterByCapabilities"},
			{Name: "required-unknown", File: "detector/govulncheck/binary/binary.go", Old: "return []string{gobinary.Name}", New: `return []string{"go/binaries"}`, Rule: "D4-required", Site: "govulncheck/binary"},
			{Name: "required-stronger", File: "extractor/filesystem/language/python/wheelegg/wheelegg.go", Old: "func (e Extractor) Requirements() *plugin.Capabilities { return &plugin.Capabilities{} }", New: "func (e Extractor) Requirements() *plugin.Capabilities { return &plugin.Capabilities{OS: plugin.OSWindows} }", Rule: "D4-required", Site: "python/wheelegg"},
			{Name: "validate-skips-field", File: "plugin/plugin.go", Old: "if p.Requirements().DirectFS && !capabs.DirectFS {", New: "if p.Requirements().DirectFS && !capabs.RunningSystem {", Rule: "D5-fields", Site: "DirectFS"},
			{Name: "enum-ordered", File: "plugin/plugin.go", Old: "p.Requirements().Network != NetworkAny && p.Requirements().Network != capabs.Network", New: "p.Requirements().Network != NetworkAny && p.Requirements().Network > capabs.Network", Rule: "D5-enum", Site: "ValidateRequirements"},
			{Name: "validate-one-kind-dropped", File: "scalibr.go", Old: "	for _, p := range cfg.Detectors {\n		plugins = append(plugins, p)\n	}\n", New: "", Rule: "D3-validate-all", Site: "Detectors"},
			{Name: "dup-name-two-registries", File: "extractor/standalone/containers/containerd/containerd_linux.go", Old: `Name = "containers/containerd-runtime"`, New: `Name = "containers/containerd"`, Rule: "D2-unique", Site: "name:containers/containerd"},
			{Name: "concat-merges", File: "extractor/filesystem/list/list.go", Old: "maps.Copy(result, m)", New: "for k, v := range m {\n\t\t\tresult[k] = append(result[k], v...)\n\t\t}", Rule: "D2-groups", Site: "extractor/filesystem/list.concat"},
			{Name: "filter-early-return", File: "extractor/standalone/list/list.go", Old: "	result := []standalone.Extractor{}\n	for _, ex := range exs {", New: "	result := []standalone.Extractor{}\n	if !capabs.RunningSystem {\n		return result\n	}\n	for _, ex := range exs {", Rule: "D3-filter", Site: "standalone/list.FilterByCapabilities"},
			{Name: "enabled-set-records-detector-name", File: "scalibr.go", Old: "			enabledExtractors[e] = struct{}{}\n", New: "			enabledExtractors[d.Name()] = struct{}{}\n", Rule: "D6-enable", Site: "EnableRequiredExtractors"},
			{Name: "validate-directfs-inverted", File: "plugin/plugin.go", Old: "	if p.Requirements().DirectFS && !capabs.DirectFS {", New: "	if p.Requirements().DirectFS && capabs.DirectFS {", Rule: "D5-decision-table", Site: "ValidateRequirements"},
			{Name: "validate-unix-or", File: "plugin/plugin.go", Old: "		if capabs.OS != OSLinux && capabs.OS != OSMac {", New: "		if capabs.OS != OSLinux || capabs.OS != OSMac {", Rule: "D5-decision-table", Site: "ValidateRequirements"},
			{Name: "validate-network-any-dropped", File: "plugin/plugin.go", Old: "	if p.Requirements().Network != NetworkAny && p.Requirements().Network != capabs.Network {", New: "	if p.Requirements().Network != capabs.Network {", Rule: "D5-decision-table", Site: "ValidateRequirements"},
		},
		Neutral: c19Neutral,
	})
}

type registry struct {
	kind     string // filesystem | standalone | detector
	pkgRel   string
	all      map[string]*initRow // plugin rows (All)
	groups   map[string]*initRow // group rows
	namesVar string
}

func runC19(p *Prog, r *Report) {
	r.Rule("D1-name", "row key == Name() of the constructor's concrete result type")
	r.Rule("D2-unique", "plugin names distinct; one initialiser per plugin key; no silent override inside concat")
	r.Rule("D2-groups", "group keys disjoint from plugin keys; groups list only registered constructors; names table = concat(All, groups)")
	r.Rule("D3-filter", "filter admits elem only under ValidateRequirements(elem, capabs) == nil")
	r.Rule("D3-validate-all", "ValidatePluginRequirements ranges over all three plugin kinds and validates each")
	r.Rule("D4-required", "detector-required extractors resolve and their requirements are implied")
	r.Rule("D5-fields", "ValidateRequirements reads every Capabilities field of plugin and environment")
	r.Rule("D6-enable", "EnableRequiredExtractors: error only if both registries fail; append only on success")
	r.Rule("D5-decision-table", "ValidateRequirements accepts exactly under the audited combination of its atomic tests")
	c19DecisionTable(p, r)
	c19NameLookups(p, r)
	resolvedSetKeyedByPluginName(p, r, "D1-name")

	regs := []*registry{
		{kind: "filesystem", pkgRel: "extractor/filesystem/list", namesVar: "extractorNames"},
		{kind: "standalone", pkgRel: "extractor/standalone/list", namesVar: "extractorNames"},
		{kind: "detector", pkgRel: "detector/list", namesVar: "detectorNames"},
	}
	enum := pluginEnums(p, r)
	type plug struct {
		name string
		typ  types.Type
		caps []capsVal
		reg  *registry
		ctor *types.Func
	}
	byName := map[string][]*plug{}
	total := 0
	for _, rg := range regs {
		pk := p.TPkg(rg.pkgRel)
		if pk == nil {
			r.Undecided("D1-name", "anchor:"+rg.pkgRel, "-", "registry package not found")
			continue
		}
		te := &tableEval{pk: pk}
		if o, ok := pk.Types.Scope().Lookup("concat").(*types.Func); ok {
			te.concatF = o
		}
		if o, ok := pk.Types.Scope().Lookup("vals").(*types.Func); ok {
			te.valsF = o
		}
		if te.concatF == nil || te.valsF == nil {
			r.Undecided("D2-groups", "anchor:"+rg.pkgRel+".concat/vals", "-", "helper functions concat/vals not found")
			continue
		}
		checkConcatVals(p, r, rg.pkgRel)
		allVar, _ := pk.Types.Scope().Lookup("All").(*types.Var)
		namesVar, _ := pk.Types.Scope().Lookup(rg.namesVar).(*types.Var)
		if allVar == nil || namesVar == nil {
			r.Undecided("D2-groups", "anchor:"+rg.pkgRel+".All/"+rg.namesVar, "-", "table variables not found")
			continue
		}
		// D2: no silent override inside All: walk the concat tree collecting (key, ctor) from leaves.
		leafDup := map[string][]string{}
		var walk func(e ast.Expr, depth int)
		walk = func(e ast.Expr, depth int) {
			if depth > 20 {
				return
			}
			switch x := ast.Unparen(e).(type) {
			case *ast.Ident:
				if v, ok := pk.TypesInfo.Uses[x].(*types.Var); ok {
					if init := te.varInit(v); init != nil {
						if _, isLit := ast.Unparen(init).(*ast.CompositeLit); isLit {
							for k, row := range te.evalMap(init, 0) {
								leafDup[k] = append(leafDup[k], x.Name+"="+ctorNames(row))
							}
							return
						}
						walk(init, depth+1)
					}
				}
			case *ast.CallExpr:
				for _, a := range x.Args {
					walk(a, depth+1)
				}
			case *ast.CompositeLit:
				for k, row := range te.evalMap(x, 0) {
					leafDup[k] = append(leafDup[k], "<literal>="+ctorNames(row))
				}
			}
		}
		walk(te.varInit(allVar), 0)
		rg.all = te.evalMap(te.varInit(allVar), 0)
		// names table must be concat(All, InitMap{groups})
		ninit := te.varInit(namesVar)
		okShape := false
		if call, ok := ast.Unparen(ninit).(*ast.CallExpr); ok && te.calleeOf(call) == te.concatF && len(call.Args) == 2 {
			if id, ok := ast.Unparen(call.Args[0]).(*ast.Ident); ok && pk.TypesInfo.Uses[id] == allVar {
				if lit, ok := ast.Unparen(call.Args[1]).(*ast.CompositeLit); ok {
					rg.groups = te.evalMap(lit, 0)
					okShape = true
				}
			}
		}
		site := rg.pkgRel + "." + rg.namesVar
		if !okShape {
			r.Undecided("D2-groups", site, p.Pos(namesVar.Pos()), "names table is not of the form concat(All, InitMap{...groups...})")
			continue
		}
		r.OK("D2-groups", site, p.Pos(namesVar.Pos()), fmt.Sprintf("concat(All, %d groups)", len(rg.groups)))
		for _, e := range te.errs {
			r.Undecided("D2-groups", "eval:"+rg.pkgRel+":"+short(e, 60), "-", "cannot evaluate table: "+e)
		}
		// ctor set of All
		allCtors := map[*types.Func]string{}
		keys := sortedKeys(rg.all)
		for _, k := range keys {
			row := rg.all[k]
			total++
			rowSite := rg.kind + ":" + k
			if len(leafDup[k]) > 1 {
				srcs := append([]string{}, leafDup[k]...)
				sort.Strings(srcs)
				// the same key in two category maps is harmless when both rows list the same
				// constructors (javascript/packagejson is both a source and an artifact extractor)
				uniq := map[string]bool{}
				for _, s := range srcs {
					uniq[s[strings.Index(s, "=")+1:]] = true
				}
				if len(uniq) > 1 {
					r.Fail("D2-unique", rowSite+":override", p.Pos(row.Pos), fmt.Sprintf("key %q appears in several category maps with different constructors %v: concat silently keeps only one", k, srcs))
				}
			}
			if len(row.Ctors) != 1 {
				r.Fail("D2-unique", rowSite, p.Pos(row.Pos), fmt.Sprintf("plugin key %q has %d initialisers; ExtractorFromName requires exactly one", k, len(row.Ctors)))
				continue
			}
			ctor := row.Ctors[0]
			allCtors[ctor] = k
			fn := p.ssaFuncOf(ctor)
			ts, ok := concreteResults(fn, 0)
			if !ok || len(ts) == 0 {
				r.Undecided("D1-name", rowSite, p.Pos(row.Pos), "cannot determine the concrete type returned by "+ctor.FullName())
				continue
			}
			for _, t := range ts {
				nameFn := p.methodOf(t, "Name")
				vals, ok := constResults(nameFn, 0)
				if !ok {
					r.Undecided("D1-name", rowSite, p.Pos(row.Pos), fmt.Sprintf("Name() of %s is not a constant", t))
					continue
				}
				bad := false
				for _, v := range vals {
					if v == nil || v.Kind() != constant.String || constant.StringVal(v) != k {
						bad = true
						r.Fail("D1-name", rowSite, p.Pos(row.Pos), fmt.Sprintf("row key %q but %s.Name() returns %v: resolving the plugin's own name does not return it", k, t, v))
					}
				}
				if !bad {
					r.OK("D1-name", rowSite, p.Pos(row.Pos), fmt.Sprintf("%s.Name() == %q", t, k))
				}
				reqFn := p.methodOf(t, "Requirements")
				caps, why := capsResults(reqFn)
				pl := &plug{name: k, typ: t, caps: caps, reg: rg, ctor: ctor}
				if why != "" {
					r.Undecided("D4-required", "requirements:"+rowSite, p.Pos(row.Pos), fmt.Sprintf("Requirements() of %s is not a literal: %s", t, why))
				}
				byName[k] = append(byName[k], pl)
			}
		}
		// groups
		for _, g := range sortedKeys(rg.groups) {
			row := rg.groups[g]
			gs := rg.kind + ":group:" + g
			if _, clash := rg.all[g]; clash {
				r.Fail("D2-groups", gs, p.Pos(row.Pos), fmt.Sprintf("group name %q equals a plugin name (%s): concat lets the group shadow the plugin, so the plugin's own name no longer resolves to it", g, g))
				continue
			}
			bad := false
			for _, c := range row.Ctors {
				if _, ok := allCtors[c]; !ok {
					bad = true
					r.Fail("D2-groups", gs, p.Pos(row.Pos), fmt.Sprintf("group %q lists constructor %s which is not registered in All", g, c.FullName()))
				}
			}
			if !bad {
				r.OK("D2-groups", gs, p.Pos(row.Pos), fmt.Sprintf("%d registered constructors", len(row.Ctors)))
			}
		}
		checkFilters(p, r, rg)
	}
	// D2: uniqueness of names across everything (each registry separately and fs vs standalone,
	// which share the EnableRequiredExtractors name space).
	for _, name := range sortedKeys(byName) {
		pls := byName[name]
		types_ := map[string]bool{}
		kinds := map[string]bool{}
		for _, pl := range pls {
			types_[pl.typ.String()] = true
			kinds[pl.reg.kind] = true
		}
		if len(types_) > 1 {
			var ts []string
			for t := range types_ {
				ts = append(ts, t)
			}
			sort.Strings(ts)
			r.Fail("D2-unique", "name:"+name, "-", fmt.Sprintf("plugin name %q is used by several plugins: %v", name, ts))
		} else {
			r.Trivial("D2-unique", "name:"+name, "-", "unique")
		}
	}
	// D2: two different registry rows whose plugins report the same Name() are caught by D1 (key
	// mismatch) or above. Also catch two distinct keys mapping to types with equal Name(): covered by D1.

	r.Instances("D1-name", "registry rows (plugins)", total, 70)

	// D4 required extractors
	nreq := 0
	for _, rg := range regs {
		if rg.kind != "detector" {
			continue
		}
		for _, k := range sortedKeys(rg.all) {
			for _, pl := range byName[k] {
				if pl.reg != rg {
					continue
				}
				reFn := p.methodOf(pl.typ, "RequiredExtractors")
				names, why := stringSliceResults(reFn)
				site := "detector:" + k
				if why != "" {
					r.Undecided("D4-required", site, "-", "RequiredExtractors() is not a literal: "+why)
					continue
				}
				if len(names) == 0 {
					r.Trivial("D4-required", site, "-", "requires nothing")
				}
				for _, n := range names {
					nreq++
					var found []*plug
					for _, c := range byName[n] {
						if c.reg.kind != "detector" {
							found = append(found, c)
						}
					}
					s2 := site + "->" + n
					if len(found) == 0 {
						r.Fail("D4-required", s2, "-", fmt.Sprintf("detector %q requires extractor %q which no extractor registry resolves", k, n))
						continue
					}
					ok := true
					for _, e := range found {
						for _, dc := range pl.caps {
							for _, ec := range e.caps {
								if msg := implied(enum, dc, ec); msg != "" {
									ok = false
									r.Fail("D4-required", s2, "-", fmt.Sprintf("auto-enabled extractor %q has requirements %v not implied by detector %q's %v (%s): validation fails for an environment that admits the detector", n, ec, k, dc, msg))
								}
							}
						}
					}
					if ok {
						r.OK("D4-required", s2, "-", "resolves; requirements implied")
					}
				}
			}
		}
	}
	r.Instances("D4-required", "required-extractor edges", nreq, 5)

	checkValidate(p, r)
	checkEnable(p, r)
	checkEnumOrder(p, r)
}

// checkEnumOrder: plugin.OS and plugin.Network are unordered enumerations (Any/Linux/Windows/Mac/Unix,
// Any/Offline/Online); an ordering comparison on them anywhere in first-party code makes the
// "satisfies" relation depend on the declaration order of the constants.
func checkEnumOrder(p *Prog, r *Report) {
	r.Rule("D5-enum", "no <,>,<=,>= comparison on the unordered enums plugin.OS / plugin.Network")
	n, bad := 0, 0
	for _, fn := range p.Funcs() {
		forEachInstr(fn, func(_ *ssa.BasicBlock, _ int, in ssa.Instruction) {
			b, ok := in.(*ssa.BinOp)
			if !ok {
				return
			}
			isEnum := func(t types.Type) bool {
				nm := namedOf(t)
				return nm != nil && nm.Obj().Pkg() != nil && nm.Obj().Pkg().Path() == fp("plugin") && (nm.Obj().Name() == "OS" || nm.Obj().Name() == "Network")
			}
			if !isEnum(b.X.Type()) && !isEnum(b.Y.Type()) {
				return
			}
			switch b.Op {
			case token.EQL, token.NEQ:
				n++
			case token.LSS, token.GTR, token.LEQ, token.GEQ:
				bad++
				r.Fail("D5-enum", fnKey(fn)+":"+b.Op.String(), p.Pos(b.Pos()), "ordering comparison "+b.Op.String()+" on an unordered capability enum: whether a requirement is satisfied must not depend on the numeric order of the constants")
			}
		})
	}
	r.Instances("D5-enum", "equality comparisons on capability enums", n, 5)
	if bad == 0 {
		r.OK("D5-enum", "all", "-", fmt.Sprintf("%d comparisons, all ==/!=", n))
	}
}

func sortedKeys[V any](m map[string]V) []string {
	ks := make([]string, 0, len(m))
	for k := range m {
		ks = append(ks, k)
	}
	sort.Strings(ks)
	return ks
}

type pluginEnum struct{ OSAny, OSLinux, OSWindows, OSMac, OSUnix, NetAny, NetOffline, NetOnline int64 }

func pluginEnums(p *Prog, r *Report) pluginEnum {
	e := pluginEnum{}
	pk := p.TPkg("plugin")
	if pk == nil {
		r.Undecided("D4-required", "anchor:plugin", "-", "package plugin not found")
		return e
	}
	get := func(n string) int64 {
		c, ok := pk.Types.Scope().Lookup(n).(*types.Const)
		if !ok {
			r.Undecided("D4-required", "anchor:plugin."+n, "-", "constant not found")
			return -1
		}
		v, _ := constant.Int64Val(c.Val())
		return v
	}
	e.OSAny, e.OSLinux, e.OSWindows, e.OSMac, e.OSUnix = get("OSAny"), get("OSLinux"), get("OSWindows"), get("OSMac"), get("OSUnix")
	e.NetAny, e.NetOffline, e.NetOnline = get("NetworkAny"), get("NetworkOffline"), get("NetworkOnline")
	return e
}

// implied: for every environment that satisfies d, e is satisfied too. Returns "" or the reason.
func implied(en pluginEnum, d, e capsVal) string {
	for _, eos := range e.OS {
		for _, dos := range d.OS {
			ok := eos == en.OSAny || eos == dos || (eos == en.OSUnix && (dos == en.OSLinux || dos == en.OSMac))
			if !ok {
				return fmt.Sprintf("OS %d vs %d", eos, dos)
			}
		}
	}
	for _, en_ := range e.Network {
		for _, dn := range d.Network {
			if !(en_ == en.NetAny || en_ == dn) {
				return fmt.Sprintf("Network %d vs %d", en_, dn)
			}
		}
	}
	for _, eb := range e.DirectFS {
		for _, db := range d.DirectFS {
			if eb && !db {
				return "DirectFS"
			}
		}
	}
	for _, eb := range e.RunningSystem {
		for _, db := range d.RunningSystem {
			if eb && !db {
				return "RunningSystem"
			}
		}
	}
	return ""
}

// checkConcatVals: concat must be a loop of maps.Copy(result, m) returning result; vals must be
// slices.Concat(maps.Values(m)...).
func checkConcatVals(p *Prog, r *Report, pkgRel string) {
	cf := p.Func(pkgRel, "concat")
	vf := p.Func(pkgRel, "vals")
	site := pkgRel + ".concat"
	if cf == nil || vf == nil {
		r.Undecided("D2-groups", site, "-", "concat/vals not found")
		return
	}
	nCopy := 0
	other := 0
	forEachInstr(cf, func(_ *ssa.BasicBlock, _ int, in ssa.Instruction) {
		if c := callOf(in); c != nil {
			ref := refOf(c)
			if ref.Name == "Copy" && (ref.Pkg == "maps" || strings.HasSuffix(ref.Pkg, "/maps")) {
				nCopy++
			} else if ref.Pkg != "builtin" {
				other++
			}
		}
	})
	r.Check(nCopy == 1 && other == 0, "D2-groups", site, p.Pos(cf.Pos()), "maps.Copy union", fmt.Sprintf("concat is no longer a plain maps.Copy union (%d Copy calls, %d other calls): the symbolic reading of the tables is not justified", nCopy, other))
	nConcat, nValues, other2 := 0, 0, 0
	forEachInstr(vf, func(_ *ssa.BasicBlock, _ int, in ssa.Instruction) {
		if c := callOf(in); c != nil {
			ref := refOf(c)
			switch {
			case ref.Name == "Concat" && strings.HasSuffix(ref.Pkg, "slices"):
				nConcat++
			case ref.Name == "Values" && strings.HasSuffix(ref.Pkg, "maps"):
				nValues++
			case ref.Pkg != "builtin":
				other2++
			}
		}
	})
	r.Check(nConcat == 1 && nValues == 1 && other2 == 0, "D2-groups", pkgRel+".vals", p.Pos(vf.Pos()), "slices.Concat(maps.Values(m)...)", "vals is no longer slices.Concat(maps.Values(m)...): the symbolic reading of the tables is not justified")
}

// checkFilters: D3 for one list package.
func checkFilters(p *Prog, r *Report, rg *registry) {
	fb := p.Func(rg.pkgRel, "FilterByCapabilities")
	site := rg.pkgRel + ".FilterByCapabilities"
	if fb == nil {
		r.Undecided("D3-filter", site, "-", "function not found")
		return
	}
	// find ValidateRequirements calls
	calls := callsTo(fb, fp("plugin"), "", "ValidateRequirements")
	if len(calls) != 1 {
		r.Fail("D3-filter", site, p.Pos(fb.Pos()), fmt.Sprintf("expected exactly one call of plugin.ValidateRequirements, found %d: the filter is not the validator", len(calls)))
		return
	}
	vcall := calls[0].(*ssa.Call)
	// second argument must be the capabs parameter
	if len(fb.Params) != 2 || vcall.Call.Args[1] != fb.Params[1] {
		r.Fail("D3-filter", site, p.Pos(vcall.Pos()), "ValidateRequirements is not called with the caller's capabilities parameter")
		return
	}
	// elem value: Args[0] is MakeInterface/ChangeInterface of the ranged element
	elem := stripIface(vcall.Call.Args[0])
	// every append to the result of a value must append `elem`, dominated by err == nil.
	holds, _ := guardEdges(fb, func(c ssa.Value) (bool, bool) {
		b, ok := c.(*ssa.BinOp)
		if !ok || (b.Op != token.EQL && b.Op != token.NEQ) {
			return false, false
		}
		var other ssa.Value
		if b.X == ssa.Value(vcall) {
			other = b.Y
		} else if b.Y == ssa.Value(vcall) {
			other = b.X
		} else {
			return false, false
		}
		if !isNilConst(other) {
			return false, false
		}
		return true, b.Op == token.EQL
	})
	nApp := 0
	ok := true
	forEachInstr(fb, func(b *ssa.BasicBlock, _ int, in ssa.Instruction) {
		c, isCall := in.(*ssa.Call)
		if !isCall || !isCallTo(in, "builtin", "", "append") {
			return
		}
		nApp++
		if !onlyVia(fb, b, holds) {
			ok = false
			r.Fail("D3-filter", site, p.Pos(c.Pos()), "an element is appended to the result on a path where ValidateRequirements(...) == nil was not established")
			return
		}
		// appended element must be the validated one
		if !appendsValue(c, elem) {
			ok = false
			r.Fail("D3-filter", site, p.Pos(c.Pos()), "the element appended is not the element that was validated")
		}
	})
	// elem must be the range element of the first parameter
	if !derivesFrom(elem, func(v ssa.Value) bool { return v == fb.Params[0] }, deriveOpts{}) {
		ok = false
		r.Fail("D3-filter", site, p.Pos(vcall.Pos()), "the validated element does not come from the list being filtered")
	}
	if _, isIdx := elem.(*ssa.UnOp); isIdx {
		if ia, ok2 := elem.(*ssa.UnOp).X.(*ssa.IndexAddr); ok2 {
			if _, isConst := ia.Index.(*ssa.Const); isConst {
				ok = false
				r.Fail("D3-filter", site, p.Pos(vcall.Pos()), "the validated element is a fixed element of the list, not the current one")
			}
		}
	}
	if nApp == 0 {
		ok = false
		r.Fail("D3-filter", site, p.Pos(fb.Pos()), "no element is ever appended to the result")
	}
	if ok {
		r.OK("D3-filter", site, p.Pos(fb.Pos()), "append(elem) only under ValidateRequirements(elem, capabs) == nil")
	}
	// and the converse: every element that validates is kept — no other decision drops an element, and
	// the function cannot return before (or without) looking at the elements
	var extra []string
	for _, el := range []string{"Extractor", "Detector"} {
		for _, x := range loopSkips(fb, isAppendOf(el)) {
			if strings.Contains(x, "ValidateRequirements") || strings.HasPrefix(x, "range-end: param0") {
				continue
			}
			extra = append(extra, x)
		}
	}
	r.Check(len(extra) == 0, "D3-filter", site+":keeps-every-valid-element", p.Pos(fb.Pos()), "the only decision that drops an element is ValidateRequirements != nil", fmt.Sprintf("the filter drops elements for a reason other than ValidateRequirements (%v): a plugin whose requirements the environment satisfies is filtered out", extra))
	var hdr *ssa.BasicBlock
	for _, b := range fb.Blocks {
		if isLoopHeader(b) {
			hdr = b
		}
	}
	okRet := hdr != nil
	for _, ret := range returnsOf(fb) {
		if hdr == nil || !hdr.Dominates(ret.Block()) {
			okRet = false
		}
	}
	// the result is built in a fresh slice: filtering in place (result := xs[:0]) rewrites the
	// caller's list, so a second filtering of the same list under other capabilities starts from a
	// corrupted input
	aliased := false
	forEachInstr(fb, func(_ *ssa.BasicBlock, _ int, in ssa.Instruction) {
		if sl, ok := in.(*ssa.Slice); ok && sl.X == ssa.Value(fb.Params[0]) {
			for _, ref := range *sl.Referrers() {
				switch ref.(type) {
				case *ssa.Phi, *ssa.Call:
					aliased = true
				}
			}
		}
	})
	r.Check(!aliased, "D3-filter", site+":fresh-result", p.Pos(fb.Pos()), "the result does not share storage with the list being filtered", "the filter builds its result in the backing array of the list it was given (xs[:0]): the caller's list is overwritten, and filtering the same list again under other capabilities drops satisfied plugins and duplicates others")
	r.Check(okRet, "D3-filter", site+":no-early-return", p.Pos(fb.Pos()), "every return comes after the loop over the elements", "the filter can return without examining the elements (an early return for some capability value): valid plugins are dropped wholesale")
	// FromCapabilities: returns FilterByCapabilities(all, capabs), all built from ranging over All and calling every initer.
	fc := p.Func(rg.pkgRel, "FromCapabilities")
	s2 := rg.pkgRel + ".FromCapabilities"
	if fc == nil {
		r.Undecided("D3-filter", s2, "-", "function not found")
		return
	}
	fcalls := callsTo(fc, fp(rg.pkgRel), "", "FilterByCapabilities")
	good := len(fcalls) == 1
	if good {
		fcall := fcalls[0].(*ssa.Call)
		good = len(fc.Params) == 1 && fcall.Call.Args[1] == fc.Params[0]
		for _, ret := range returnsOf(fc) {
			if len(ret.Results) != 1 || ret.Results[0] != ssa.Value(fcall) {
				good = false
			}
		}
		// loads global All
		usesAll := false
		forEachInstr(fc, func(_ *ssa.BasicBlock, _ int, in ssa.Instruction) {
			if u, ok := in.(*ssa.UnOp); ok && u.Op == token.MUL {
				if g, ok := u.X.(*ssa.Global); ok && g.Name() == "All" {
					usesAll = true
				}
			}
		})
		if !usesAll {
			good = false
		}
	}
	r.Check(good, "D3-filter", s2, p.Pos(fc.Pos()), "returns FilterByCapabilities(instances of All, capabs)", "FromCapabilities no longer returns FilterByCapabilities(<every row of All>, capabs)")
}

func stripIface(v ssa.Value) ssa.Value {
	for {
		switch x := v.(type) {
		case *ssa.MakeInterface:
			v = x.X
		case *ssa.ChangeInterface:
			v = x.X
		default:
			return v
		}
	}
}

// appendsValue: append(slice, elems...) where elems is a fresh 1-array holding want.
func appendsValue(c *ssa.Call, want ssa.Value) bool {
	if len(c.Call.Args) != 2 {
		return false
	}
	sl, ok := c.Call.Args[1].(*ssa.Slice)
	if !ok {
		return false
	}
	al, ok := sl.X.(*ssa.Alloc)
	if !ok {
		return false
	}
	found := false
	for _, ref := range *al.Referrers() {
		if ia, ok := ref.(*ssa.IndexAddr); ok {
			for _, r2 := range *ia.Referrers() {
				if st, ok := r2.(*ssa.Store); ok && sameLoad(stripIface(st.Val), want) {
					found = true
				}
			}
		}
	}
	return found
}

// sameLoad: identical value, or two loads of the same address.
func sameLoad(a, b ssa.Value) bool {
	if a == b {
		return true
	}
	ua, ok1 := a.(*ssa.UnOp)
	ub, ok2 := b.(*ssa.UnOp)
	if ok1 && ok2 && ua.Op == token.MUL && ub.Op == token.MUL && ua.X == ub.X {
		return true
	}
	// structurally equal pure access paths (e.g. two loads of x.f computed separately)
	c := &boundsCtx{keys: map[ssa.Value]string{}, symVal: map[string]ssa.Value{}}
	ka, kb := c.key(a), c.key(b)
	return ka == kb && !strings.HasPrefix(ka, "v:") && strings.HasPrefix(ka, "*")
}

func checkValidate(p *Prog, r *Report) {
	fn := p.Func("plugin", "ValidateRequirements")
	if fn == nil {
		r.Undecided("D5-fields", "anchor:plugin.ValidateRequirements", "-", "not found")
		return
	}
	// fields read from p.Requirements() result and from capabs
	reqFields := map[string]bool{}
	capFields := map[string]bool{}
	forEachInstr(fn, func(_ *ssa.BasicBlock, _ int, in ssa.Instruction) {
		fa, ok := in.(*ssa.FieldAddr)
		if !ok {
			return
		}
		s, f, base, ok := fieldOf(fa)
		if !ok || s != "Capabilities" {
			return
		}
		if base == ssa.Value(fn.Params[1]) {
			capFields[f] = true
		} else if c, ok := base.(*ssa.Call); ok && c.Call.IsInvoke() && c.Call.Method.Name() == "Requirements" {
			reqFields[f] = true
		}
	})
	for _, f := range []string{"OS", "Network", "DirectFS", "RunningSystem"} {
		r.Check(reqFields[f] && capFields[f], "D5-fields", "plugin.ValidateRequirements:"+f, p.Pos(fn.Pos()),
			"read on both sides", fmt.Sprintf("Capabilities.%s is not consulted on both the plugin's requirements (%v) and the environment (%v)", f, reqFields[f], capFields[f]))
	}
	// nil is returned only when no error was recorded: return nil dominated by len(errs)==0
	// ValidatePluginRequirements ranges over all three kinds
	vp := p.Func(".", "ScanConfig.ValidatePluginRequirements")
	if vp == nil {
		r.Undecided("D3-validate-all", "anchor:ScanConfig.ValidatePluginRequirements", "-", "not found")
		return
	}
	kinds := map[string]bool{}
	forEachInstr(vp, func(_ *ssa.BasicBlock, _ int, in ssa.Instruction) {
		if fa, ok := in.(*ssa.FieldAddr); ok {
			if s, f, _, ok := fieldOf(fa); ok && s == "ScanConfig" {
				kinds[f] = true
			}
		}
	})
	for _, f := range []string{"FilesystemExtractors", "StandaloneExtractors", "Detectors"} {
		// the field must be ranged (not only len()'d): some load of it must feed a Range/IndexAddr
		ranged := false
		forEachInstr(vp, func(_ *ssa.BasicBlock, _ int, in ssa.Instruction) {
			fa, ok := in.(*ssa.FieldAddr)
			if !ok {
				return
			}
			if s, f2, _, ok := fieldOf(fa); !ok || s != "ScanConfig" || f2 != f {
				return
			}
			for _, ref := range *fa.Referrers() {
				if u, ok := ref.(*ssa.UnOp); ok {
					for _, r2 := range *u.Referrers() {
						switch r2.(type) {
						case *ssa.IndexAddr, *ssa.Range:
							ranged = true
						}
					}
				}
			}
		})
		r.Check(ranged, "D3-validate-all", "ValidatePluginRequirements:"+f, p.Pos(vp.Pos()), "iterated", "plugins of kind "+f+" are not iterated, so their requirements are never validated")
	}
	n := len(callsTo(vp, fp("plugin"), "", "ValidateRequirements"))
	r.Check(n >= 1, "D3-validate-all", "ValidatePluginRequirements:validator", p.Pos(vp.Pos()), "calls plugin.ValidateRequirements", "plugin.ValidateRequirements is not called")
	if n >= 1 {
		// capabilities passed must be cfg.Capabilities
		c := callsTo(vp, fp("plugin"), "", "ValidateRequirements")[0].Common()
		r.Check(loadsField(c.Args[1], "ScanConfig", "Capabilities"), "D3-validate-all", "ValidatePluginRequirements:capabs", p.Pos(vp.Pos()), "cfg.Capabilities", "validator is not given cfg.Capabilities")
	}
}

func checkEnable(p *Prog, r *Report) {
	fn := p.Func(".", "ScanConfig.EnableRequiredExtractors")
	site := "ScanConfig.EnableRequiredExtractors"
	if fn == nil {
		r.Undecided("D6-enable", "anchor:"+site, "-", "not found")
		return
	}
	c1 := callsTo(fn, fp("extractor/filesystem/list"), "", "ExtractorFromName")
	c2 := callsTo(fn, fp("extractor/standalone/list"), "", "ExtractorFromName")
	if len(c1) != 1 || len(c2) != 1 {
		r.Fail("D6-enable", site, p.Pos(fn.Pos()), fmt.Sprintf("expected one lookup in each extractor registry, found %d filesystem / %d standalone", len(c1), len(c2)))
		return
	}
	// the set of already enabled names is updated with the very name that was looked up
	if n := checkVisitedSets(p, r, "D6-enable", []*ssa.Function{fn}); n == 0 {
		r.Fail("D6-enable", site+":enabled-set", p.Pos(fn.Pos()), "no set of already enabled extractor names is consulted: a required extractor shared by several detectors is enabled once per detector")
	}
	// every detector is looked at: the loop over cfg.Detectors is left only when the list is exhausted
	// or with an error — a `return nil` (or a break) inside it leaves the required extractors of all
	// later detectors disabled
	var dhdr *ssa.BasicBlock
	for _, b := range fn.Blocks {
		if coll, _, ok := loopScansAll(b); ok && loadsField(coll, "ScanConfig", "Detectors") {
			dhdr = b
		}
	}
	if dhdr == nil || len(dhdr.Succs) != 2 {
		r.Undecided("D6-enable", site+":every-detector", p.Pos(fn.Pos()), "no loop over cfg.Detectors found")
	} else {
		body, exit := 0, 1
		if !naturalLoop(dhdr)[dhdr.Succs[0]] {
			body, exit = 1, 0
		}
		w := findPath(Point{dhdr.Succs[body], -1}, func(in ssa.Instruction) bool {
			ret, ok := in.(*ssa.Return)
			return ok && isNilConst(retVal(ret, 0))
		}, nil, edgeSet{Edge{dhdr, exit}: true})
		r.Check(w == nil, "D6-enable", site+":every-detector", p.Pos(dhdr.Instrs[0].Pos()), "success is reported only after the last detector", "EnableRequiredExtractors can report success from inside its loop over the detectors (an early return or a break): the required extractors of every detector after that one are never enabled; witness path (SSA blocks): "+strings.Join(w, "→"))
	}
	// both lookups use the same name value
	a1, a2 := c1[0].Common().Args[0], c2[0].Common().Args[0]
	r.Check(a1 == a2, "D6-enable", site+":same-name", p.Pos(c1[0].Pos()), "same name looked up in both registries", "the two registries are asked for different names")
	// each store to cfg.FilesystemExtractors / StandaloneExtractors of an append is dominated by that lookup's err == nil
	for _, spec := range []struct {
		field string
		call  ssa.CallInstruction
	}{{"FilesystemExtractors", c1[0]}, {"StandaloneExtractors", c2[0]}} {
		call := spec.call.(*ssa.Call)
		holds, _ := guardEdges(fn, func(c ssa.Value) (bool, bool) {
			b, ok := c.(*ssa.BinOp)
			if !ok || (b.Op != token.EQL && b.Op != token.NEQ) {
				return false, false
			}
			isErr := func(v ssa.Value) bool {
				e, ok := v.(*ssa.Extract)
				return ok && e.Tuple == ssa.Value(call) && e.Index == 1
			}
			if (isErr(b.X) && isNilConst(b.Y)) || (isErr(b.Y) && isNilConst(b.X)) {
				return true, b.Op == token.EQL
			}
			return false, false
		})
		n := 0
		forEachInstr(fn, func(b *ssa.BasicBlock, _ int, in ssa.Instruction) {
			st, ok := in.(*ssa.Store)
			if !ok {
				return
			}
			if s, f, _, ok := fieldOf(st.Addr); !ok || s != "ScanConfig" || f != spec.field {
				return
			}
			n++
			r.Check(onlyVia(fn, b, holds), "D6-enable", site+":append-"+spec.field, p.Pos(st.Pos()), "only under err == nil of its lookup", "extractor appended to "+spec.field+" on a path where its lookup did not succeed")
		})
		if n == 0 {
			r.Fail("D6-enable", site+":append-"+spec.field, p.Pos(fn.Pos()), "resolved extractor is never added to "+spec.field)
		}
	}
	// non-nil error return only under both errs != nil
	for _, ret := range returnsOf(fn) {
		if len(ret.Results) == 1 && !isNilConst(ret.Results[0]) {
			var edges []Edge
			for _, call := range []ssa.CallInstruction{c1[0], c2[0]} {
				cc := call.(*ssa.Call)
				_, fails := guardEdges(fn, func(c ssa.Value) (bool, bool) {
					b, ok := c.(*ssa.BinOp)
					if !ok || (b.Op != token.EQL && b.Op != token.NEQ) {
						return false, false
					}
					isErr := func(v ssa.Value) bool {
						e, ok := v.(*ssa.Extract)
						return ok && e.Tuple == ssa.Value(cc) && e.Index == 1
					}
					if (isErr(b.X) && isNilConst(b.Y)) || (isErr(b.Y) && isNilConst(b.X)) {
						return true, b.Op == token.EQL
					}
					return false, false
				})
				// "fails" = err != nil edge. The error return must be reachable only via the err != nil edges of BOTH lookups.
				r.Check(onlyVia(fn, ret.Block(), fails), "D6-enable", site+":error-needs-both:"+fmt.Sprint(len(edges)), p.Pos(ret.Pos()), "error only if this registry failed", "an error is returned although one registry resolved the name")
				edges = append(edges, fails...)
			}
		}
	}
}

func ctorNames(row *initRow) string {
	var ns []string
	for _, c := range row.Ctors {
		ns = append(ns, c.FullName())
	}
	return strings.Join(ns, ",")
}

// c19DecisionTable: the acceptance decision of plugin.ValidateRequirements, taken as a boolean
// function of its atomic tests (canonical form obtained from the branch structure, no values
// computed), equals the documented requirement semantics:
//
//	accept  ⇔  (req.OS == Unix ? env.OS ∈ {Linux, Mac} : req.OS == Any ∨ req.OS == env.OS)
//	         ∧ (req.Network == Any ∨ req.Network == env.Network)
//	         ∧ (req.DirectFS ⇒ env.DirectFS) ∧ (req.RunningSystem ⇒ env.RunningSystem)
//
// This is the model D4 uses to decide that auto-enabled extractors validate; here the model itself
// is checked against the code.
func c19DecisionTable(p *Prog, r *Report) {
	fn := p.Func("plugin", "ValidateRequirements")
	if fn == nil {
		r.Undecided("D5-decision-table", "anchor:plugin.ValidateRequirements", "-", "not found")
		return
	}
	atoms, table, ok := decisionTableRaw(fn, true)
	site := "plugin.ValidateRequirements"
	if !ok {
		r.Undecided("D5-decision-table", site, p.Pos(fn.Pos()), "the validator is no longer a loop-free combination of at most 12 atomic tests")
		return
	}
	pk := p.TPkg("plugin")
	cval := func(name string) string {
		c, ok := pk.Types.Scope().Lookup(name).(*types.Const)
		if !ok {
			return "?"
		}
		return c.Val().ExactString() + ":" + typeShortFull(c.Type())
	}
	eq := func(a, b string) string {
		if a > b {
			a, b = b, a
		}
		return a + " == " + b
	}
	const reqOS, envOS = "plugin.Requirements(param0).OS", "param1.OS"
	const reqNet, envNet = "plugin.Requirements(param0).Network", "param1.Network"
	names := map[string]string{
		eq(cval("OSUnix"), reqOS):                   "reqUnix",
		eq(cval("OSAny"), reqOS):                    "reqAnyOS",
		eq(cval("OSLinux"), envOS):                  "envLinux",
		eq(cval("OSMac"), envOS):                    "envMac",
		eq(reqOS, envOS):                            "sameOS",
		eq(cval("NetworkAny"), reqNet):              "reqAnyNet",
		eq(reqNet, envNet):                          "sameNet",
		eq(cval("NetworkOffline"), envNet):          "envOffline", // only selects the message
		eq(cval("NetworkOnline"), envNet):           "envOnline",
		"plugin.Requirements(param0).DirectFS":      "reqFS",
		"param1.DirectFS":                           "envFS",
		"plugin.Requirements(param0).RunningSystem": "reqRun",
		"param1.RunningSystem":                      "envRun",
	}
	var vars []string
	for _, a := range atoms {
		v, known := names[a]
		if !known {
			r.Undecided("D5-decision-table", site+":atom", p.Pos(fn.Pos()), "ValidateRequirements tests something the audited requirement semantics does not mention: "+a)
			return
		}
		vars = append(vars, v)
	}
	need := []string{"reqUnix", "reqAnyOS", "envLinux", "envMac", "sameOS", "reqAnyNet", "sameNet", "reqFS", "envFS", "reqRun", "envRun"}
	have := map[string]bool{}
	for _, v := range vars {
		have[v] = true
	}
	for _, n := range need {
		if !have[n] {
			r.Fail("D5-decision-table", site+":"+n, p.Pos(fn.Pos()), "ValidateRequirements no longer makes the test '"+n+"' of the requirement semantics: that requirement is not enforced (or enforced differently)")
			return
		}
	}
	bad := -1
	for row := 0; row < len(table); row++ {
		val := map[string]bool{}
		for k, v := range vars {
			val[v] = row&(1<<k) != 0
		}
		// combinations no pair of values can produce are not compared: two different constants for
		// one field, or "equal to the other side" together with different constants on the two sides
		// (an if/else-if chain and a switch over the same field differ only on such rows)
		if (val["reqUnix"] && val["reqAnyOS"]) || (val["envLinux"] && val["envMac"]) || (val["envOffline"] && val["envOnline"]) ||
			(val["sameOS"] && (val["reqUnix"] || val["reqAnyOS"]) && (val["envLinux"] || val["envMac"])) ||
			(val["sameNet"] && val["reqAnyNet"] && (val["envOffline"] || val["envOnline"])) {
			continue
		}
		var osOK bool
		if val["reqUnix"] {
			osOK = val["envLinux"] || val["envMac"]
		} else {
			osOK = val["reqAnyOS"] || val["sameOS"]
		}
		model := osOK && (val["reqAnyNet"] || val["sameNet"]) && (!val["reqFS"] || val["envFS"]) && (!val["reqRun"] || val["envRun"])
		if model != (table[row] == '1') {
			bad = row
			break
		}
	}
	if bad < 0 {
		r.OK("D5-decision-table", site, p.Pos(fn.Pos()), fmt.Sprintf("acceptance equals the requirement semantics on all %d combinations of its %d tests", len(table), len(atoms)))
		return
	}
	var desc []string
	for k, v := range vars {
		desc = append(desc, fmt.Sprintf("%s=%v", v, bad&(1<<k) != 0))
	}
	r.Fail("D5-decision-table", site, p.Pos(fn.Pos()), fmt.Sprintf("ValidateRequirements decides differently from the requirement semantics when %s: it %s", strings.Join(desc, " "), map[bool]string{true: "accepts a plugin whose requirements are not met", false: "rejects a plugin whose requirements are met"}[table[bad] == '1']))
}

func typeShortFull(t types.Type) string { return types.TypeString(t, nil) }

// c19NameLookups: every resolution of a plugin name (ExtractorFromName, ExtractorsFromNames,
// DetectorsFromNames, …) looks the name up in the package's names table — the table D2 proves to be
// concat(All, groups) — and in no narrower map (such as Default).
func c19NameLookups(p *Prog, r *Report) {
	n := 0
	for _, pkgRel := range []string{"extractor/filesystem/list", "extractor/standalone/list", "detector/list"} {
		pk := p.Pkg(pkgRel)
		if pk == nil {
			continue
		}
		for _, name := range []string{"ExtractorFromName", "ExtractorsFromNames", "DetectorFromName", "DetectorsFromNames", "ExtractorExists", "DetectorExists"} {
			fn := p.Func(pkgRel, name)
			if fn == nil {
				continue
			}
			forEachInstr(fn, func(_ *ssa.BasicBlock, _ int, in ssa.Instruction) {
				lk, ok := in.(*ssa.Lookup)
				if !ok {
					return
				}
				mt, isMap := lk.X.Type().Underlying().(*types.Map)
				if !isMap {
					return
				}
				// only registry-shaped maps: name -> list of constructors
				if sl, ok := mt.Elem().Underlying().(*types.Slice); !ok {
					return
				} else if _, isFn := sl.Elem().Underlying().(*types.Signature); !isFn {
					return
				}
				n++
				okT := false
				if u, ok := lk.X.(*ssa.UnOp); ok {
					if g, ok := u.X.(*ssa.Global); ok && strings.HasSuffix(g.Name(), "Names") {
						okT = true
					}
				}
				r.Check(okT, "D1-name", pkgRel+"."+name+":table", p.Pos(lk.Pos()), "looks the name up in the names table", "a plugin name is resolved in a map other than the package's names table (e.g. only the default set): registered plugins outside that map do not resolve by their own name, so a detector requiring one of them cannot be auto-enabled")
			})
		}
	}
	r.Instances("D1-name", "name lookups in the list packages", n, 5)
}
