package main

import (
	"fmt"
	"go/constant"
	"go/token"
	"go/types"
	"os"
	"sort"
	"strings"

	"golang.org/x/tools/go/ssa"
)

// Character classes (C07 D7). The version comparators decide how a character sorts by comparing its
// code with constants: `c < 65 || (c > 90 && c < 97) || c > 122` is "not an ASCII letter". Which
// characters take which branch is a function of one small integer, so it can be computed exactly by
// abstract interpretation with sets of intervals as the domain — no execution: the blocks of the
// function are visited in reverse post-order, every branch on a comparison of the subject with a
// constant (or on a call of another such predicate, or on the boolean phi of `a && b`) splits the
// set of codes that reach it, every other branch passes the set on to both sides. The result is,
// per kind of returned value (true / false, the code itself, the code plus a constant, a constant),
// the set of codes that can produce it. The sets of the pinned tree are frozen below; a boundary
// that moves by one (`>= 'Z'` for `> 'Z'`) changes a set however the condition is spelled.

type ivl struct{ lo, hi int64 }
type iset []ivl

func isetRange(lo, hi int64) iset {
	if lo > hi {
		return nil
	}
	return iset{{lo, hi}}
}

func (s iset) norm() iset {
	if len(s) == 0 {
		return nil
	}
	t := append(iset{}, s...)
	sort.Slice(t, func(i, j int) bool { return t[i].lo < t[j].lo })
	out := iset{t[0]}
	for _, x := range t[1:] {
		l := &out[len(out)-1]
		if x.lo <= l.hi+1 {
			if x.hi > l.hi {
				l.hi = x.hi
			}
		} else {
			out = append(out, x)
		}
	}
	return out
}

func (s iset) or(t iset) iset { return append(append(iset{}, s...), t...).norm() }

func (s iset) and(t iset) iset {
	var out iset
	for _, a := range s {
		for _, b := range t {
			lo, hi := a.lo, a.hi
			if b.lo > lo {
				lo = b.lo
			}
			if b.hi < hi {
				hi = b.hi
			}
			if lo <= hi {
				out = append(out, ivl{lo, hi})
			}
		}
	}
	return out.norm()
}

func (s iset) minus(t iset) iset {
	cur := append(iset{}, s...)
	for _, b := range t {
		var nxt iset
		for _, a := range cur {
			if b.hi < a.lo || b.lo > a.hi {
				nxt = append(nxt, a)
				continue
			}
			if a.lo < b.lo {
				nxt = append(nxt, ivl{a.lo, b.lo - 1})
			}
			if b.hi < a.hi {
				nxt = append(nxt, ivl{b.hi + 1, a.hi})
			}
		}
		cur = nxt
	}
	return cur.norm()
}

func (s iset) String() string {
	if len(s) == 0 {
		return "-"
	}
	var ps []string
	for _, x := range s {
		if x.lo == x.hi {
			ps = append(ps, fmt.Sprint(x.lo))
		} else {
			ps = append(ps, fmt.Sprintf("%d..%d", x.lo, x.hi))
		}
	}
	return strings.Join(ps, ",")
}

type charClassifier struct {
	p    *Prog
	memo map[*ssa.Function]map[string]iset
	busy map[*ssa.Function]bool
}

// subjectOf: the character a function classifies — its only integer parameter (rune, byte, int), or
// the first byte of its only string parameter — and the codes it can have.
func (cc *charClassifier) subjectOf(fn *ssa.Function) (ssa.Value, int64, int64, bool) {
	if len(fn.Params) != 1 {
		return nil, 0, 0, false
	}
	prm := fn.Params[0]
	if b, ok := prm.Type().Underlying().(*types.Basic); ok {
		switch {
		case b.Kind() == types.Uint8:
			return prm, 0, 255, true
		case b.Info()&types.IsInteger != 0:
			return prm, 0, 0x10FFFF, true
		case b.Kind() == types.String:
			var subj ssa.Value
			forEachInstr(fn, func(_ *ssa.BasicBlock, _ int, in ssa.Instruction) {
				if ix, isIx := in.(*ssa.Index); isIx && ix.X == ssa.Value(prm) && subj == nil {
					if k, isK := constInt(ix.Index); isK && k == 0 {
						subj = ix
					}
				}
			})
			if subj != nil {
				return subj, 0, 255, true
			}
		}
	}
	return nil, 0, 0, false
}

func cmpSetOf(op token.Token, k, lo, hi int64) iset {
	all := isetRange(lo, hi)
	switch op {
	case token.LSS:
		return all.and(isetRange(lo, k-1))
	case token.LEQ:
		return all.and(isetRange(lo, k))
	case token.GTR:
		return all.and(isetRange(k+1, hi))
	case token.GEQ:
		return all.and(isetRange(k, hi))
	case token.EQL:
		return all.and(isetRange(k, k))
	case token.NEQ:
		return all.minus(isetRange(k, k))
	}
	return nil
}

// classes computes, for fn, result kind -> codes. ok=false when fn is not a classifier this analysis
// can follow (no subject, a loop, no comparison of the subject with a constant).
func (cc *charClassifier) classes(fn *ssa.Function) (map[string]iset, bool) {
	if m, done := cc.memo[fn]; done {
		return m, m != nil
	}
	if cc.busy[fn] || len(fn.Blocks) == 0 {
		return nil, false
	}
	cc.busy[fn] = true
	defer func() { cc.busy[fn] = false }()
	cc.memo[fn] = nil
	subj, lo, hi, ok := cc.subjectOf(fn)
	if !ok {
		return nil, false
	}
	var isSubj func(v ssa.Value) bool
	isSubj = func(v ssa.Value) bool {
		if v == subj {
			return true
		}
		switch x := v.(type) {
		case *ssa.Convert:
			if b, isB := x.Type().Underlying().(*types.Basic); isB && b.Info()&types.IsInteger != 0 {
				return isSubj(x.X)
			}
		case *ssa.ChangeType:
			return isSubj(x.X)
		}
		return false
	}
	constOf := func(v ssa.Value) (int64, bool) {
		c, isC := v.(*ssa.Const)
		if !isC || c.Value == nil || c.Value.Kind() != constant.Int {
			return 0, false
		}
		return c.Int64(), true
	}
	// reverse post-order; a back edge means a loop: not a classifier
	order := []*ssa.BasicBlock{}
	state := map[*ssa.BasicBlock]int{}
	loop := false
	var dfs func(b *ssa.BasicBlock)
	dfs = func(b *ssa.BasicBlock) {
		state[b] = 1
		for _, s := range b.Succs {
			switch state[s] {
			case 0:
				dfs(s)
			case 1:
				loop = true
			}
		}
		state[b] = 2
		order = append(order, b)
	}
	dfs(fn.Blocks[0])
	if loop {
		return nil, false
	}
	edge := map[Edge]iset{}
	in := map[*ssa.BasicBlock]iset{fn.Blocks[0]: isetRange(lo, hi)}
	atoms := 0
	var trueSet func(v ssa.Value, ctx iset, at *ssa.BasicBlock) (iset, bool)
	trueSet = func(v ssa.Value, ctx iset, at *ssa.BasicBlock) (iset, bool) {
		switch x := v.(type) {
		case *ssa.Const:
			if x.Value != nil && x.Value.Kind() == constant.Bool {
				if constant.BoolVal(x.Value) {
					return ctx, true
				}
				return nil, true
			}
		case *ssa.UnOp:
			if x.Op == token.NOT {
				if t, known := trueSet(x.X, ctx, at); known {
					return ctx.minus(t), true
				}
			}
		case *ssa.BinOp:
			op := x.Op
			var k int64
			var isK bool
			switch {
			case isSubj(x.X):
				k, isK = constOf(x.Y)
			case isSubj(x.Y):
				k, isK = constOf(x.X)
				op = swapOp(op)
			}
			if isK {
				if s := cmpSetOf(op, k, lo, hi); s != nil || op == token.LSS || op == token.GTR || op == token.EQL || op == token.LEQ || op == token.GEQ || op == token.NEQ {
					atoms++
					return ctx.and(s), true
				}
			}
		case *ssa.Call:
			if g := x.Call.StaticCallee(); g != nil && len(x.Call.Args) == 1 && isSubj(x.Call.Args[0]) && cc.p.firstParty(g) {
				if m, gok := cc.classes(g); gok {
					if t, has := m["true"]; has {
						atoms++
						return ctx.and(t), true
					}
				}
			}
		case *ssa.Phi:
			var out iset
			for i, e := range x.Edges {
				pred := x.Block().Preds[i]
				si := -1
				for k, s := range pred.Succs {
					if s == x.Block() {
						si = k
					}
				}
				es, has := edge[Edge{pred, si}]
				if !has {
					return nil, false
				}
				t, known := trueSet(e, es, pred)
				if !known {
					return nil, false
				}
				out = out.or(t)
			}
			return out.and(ctx), true
		}
		return nil, false
	}
	for i := len(order) - 1; i >= 0; i-- {
		b := order[i]
		if b != fn.Blocks[0] {
			var s iset
			for _, pr := range b.Preds {
				for k, sc := range pr.Succs {
					if sc == b {
						s = s.or(edge[Edge{pr, k}])
					}
				}
			}
			in[b] = s
		}
		if ifi := blockIf(b); ifi != nil {
			if t, known := trueSet(ifi.Cond, in[b], b); known {
				edge[Edge{b, 0}] = t
				edge[Edge{b, 1}] = in[b].minus(t)
			} else {
				edge[Edge{b, 0}] = in[b]
				edge[Edge{b, 1}] = in[b]
			}
		} else {
			for k := range b.Succs {
				edge[Edge{b, k}] = in[b]
			}
		}
	}
	if atoms == 0 {
		return nil, false
	}
	out := map[string]iset{}
	add := func(kind string, s iset) { out[kind] = out[kind].or(s) }
	kindOf := func(v ssa.Value) string {
		if k, isK := constOf(v); isK {
			return fmt.Sprintf("=%d", k)
		}
		if isSubj(v) {
			return "c"
		}
		if bo, isB := v.(*ssa.BinOp); isB && (bo.Op == token.ADD || bo.Op == token.SUB) {
			if k, isK := constOf(bo.Y); isK && isSubj(bo.X) {
				if bo.Op == token.SUB {
					k = -k
				}
				return fmt.Sprintf("c%+d", k)
			}
			if k, isK := constOf(bo.X); isK && isSubj(bo.Y) && bo.Op == token.ADD {
				return fmt.Sprintf("c%+d", k)
			}
		}
		return "other"
	}
	for _, ret := range returnsOf(fn) {
		if len(ret.Results) != 1 {
			return nil, false
		}
		b := ret.Block()
		v := ret.Results[0]
		if bt, isB := v.Type().Underlying().(*types.Basic); isB && bt.Kind() == types.Bool {
			if t, known := trueSet(v, in[b], b); known {
				add("true", t)
				add("false", in[b].minus(t))
			} else {
				add("true", in[b])
				add("false", in[b])
			}
			continue
		}
		if ph, isPhi := v.(*ssa.Phi); isPhi && ph.Block() == b {
			for i, e := range ph.Edges {
				pred := b.Preds[i]
				for k, s := range pred.Succs {
					if s == b {
						add(kindOf(e), edge[Edge{pred, k}])
					}
				}
			}
			continue
		}
		add(kindOf(v), in[b])
	}
	cc.memo[fn] = out
	return out, true
}

func renderClasses(m map[string]iset) string {
	var ks []string
	for k := range m {
		ks = append(ks, k)
	}
	sort.Strings(ks)
	var ps []string
	for _, k := range ks {
		ps = append(ps, k+": "+m[k].String())
	}
	return strings.Join(ps, "; ")
}

// c07CharClassTable: the classes on the pinned tree (printed by SCALINT_LEARN=1, confirmed against
// deb-version(7), rpmvercmp and the ASCII table).
var c07CharClassTable = map[string]string{
	"semantic.isASCIIDigit":             "false: 0..47,58..1114111; true: 48..57",
	"semantic.isASCIILetter":            "false: 0..64,91..96,123..1114111; true: 65..90,97..122",
	"semantic.shouldBeTrimmed":          "false: 48..57,65..90,94,97..122,126; true: 0..47,58..64,91..93,95..96,123..125,127..1114111",
	"semantic.splitDebianDigitPrefix$1": "false: 48..57; true: 0..47,58..1114111",
	"semantic.weighDebianChar":          "=1: 0..255; =2: 0..255; c: 65..90,97..122; c+122: 0..64,91..96,123..255",
}

func c07CharClasses(p *Prog, r *Report, rule string) {
	cc := &charClassifier{p: p, memo: map[*ssa.Function]map[string]iset{}, busy: map[*ssa.Function]bool{}}
	n := 0
	seen := map[string]bool{}
	for _, fn := range p.FuncsIn("semantic") {
		m, ok := cc.classes(fn)
		if !ok {
			continue
		}
		key := fnKey(fn)
		got := renderClasses(m)
		if os.Getenv("SCALINT_LEARN") != "" {
			fmt.Fprintf(os.Stderr, "LEARN-CHARCLASS\t%q: %q,\n", key, got)
		}
		want, audited := c07CharClassTable[key]
		if !audited {
			continue
		}
		seen[key] = true
		n++
		r.Check(got == want, rule, key+":classes", p.Pos(fn.Pos()), "classifies the character codes as on the audited tree ("+want+")", "the characters are classified differently from the audited tree: want ["+want+"], got ["+got+"] — a boundary of a character class moved, so some character (a capital Z, say) sorts on the wrong side of the letters/non-letters divide and versions containing it compare differently from the ecosystem's published ordering")
	}
	r.Instances(rule, "character classifiers of package semantic", n, len(c07CharClassTable)/2)
}

// c07ParseDispatch (round 8): which parser an ecosystem name selects. semantic.Parse compares the
// ecosystem string with constants; the parser called on the true side of each comparison is frozen
// (SemVer for Pub, not NuGet's case-insensitive four-component order). Grouping the arms of the
// switch does not change the mapping; moving a name into another group does.
var c07ParseTable = map[string]string{
	"Alpine":      "parseAlpineVersion",
	"CRAN":        "parseCRANVersion",
	"ConanCenter": "parseSemverVersion",
	"Debian":      "parseDebianVersion",
	"Go":          "parseSemverVersion",
	"Hex":         "parseSemverVersion",
	"Maven":       "parseMavenVersion",
	"NuGet":       "parseNuGetVersion",
	"Packagist":   "parsePackagistVersion",
	"Pub":         "parseSemverVersion",
	"PyPI":        "parsePyPIVersion",
	"Red Hat":     "parseRedHatVersion",
	"RubyGems":    "parseRubyGemsVersion",
	"Ubuntu":      "parseDebianVersion",
	"crates.io":   "parseSemverVersion",
	"npm":         "parseSemverVersion",
}

func c07ParseDispatch(p *Prog, r *Report, rule string) {
	fn := p.Func("semantic", "Parse")
	if fn == nil || len(fn.Params) < 2 {
		r.Undecided(rule, "anchor:semantic.Parse", "-", "not found")
		return
	}
	eco := fn.Params[1]
	got := map[string]string{}
	for _, b := range fn.Blocks {
		ifi := blockIf(b)
		if ifi == nil {
			continue
		}
		bo, ok := ifi.Cond.(*ssa.BinOp)
		if !ok || bo.Op != token.EQL {
			continue
		}
		var name string
		if s, isS := constString(bo.Y); isS && bo.X == ssa.Value(eco) {
			name = s
		} else if s, isS := constString(bo.X); isS && bo.Y == ssa.Value(eco) {
			name = s
		} else {
			continue
		}
		// the parser reached on the true side, before any other comparison of the ecosystem
		seen := map[*ssa.BasicBlock]bool{}
		work := []*ssa.BasicBlock{b.Succs[0]}
		callee := ""
		for len(work) > 0 && callee == "" {
			x := work[0]
			work = work[1:]
			if seen[x] {
				continue
			}
			seen[x] = true
			for _, in := range x.Instrs {
				if c, isC := in.(*ssa.Call); isC {
					if sc := c.Call.StaticCallee(); sc != nil && p.firstParty(sc) && strings.HasPrefix(sc.Name(), "parse") {
						callee = sc.Name()
						break
					}
				}
			}
			if callee == "" && blockIf(x) == nil {
				work = append(work, x.Succs...)
			}
		}
		if callee == "" {
			callee = "-"
		}
		if old, dup := got[name]; dup && old != callee {
			callee = old + "|" + callee
		}
		got[name] = callee
	}
	var names []string
	for n := range got {
		names = append(names, n)
	}
	sort.Strings(names)
	if len(names) == 0 {
		r.Note("semantic.Parse does not dispatch by comparing the ecosystem with constants (a table?): the dispatch table is not checked")
		return
	}
	if os.Getenv("SCALINT_LEARN") != "" {
		for _, n := range names {
			fmt.Fprintf(os.Stderr, "LEARN-PARSEDISPATCH\t%q: %q,\n", n, got[n])
		}
	}
	n := 0
	for _, name := range names {
		want, audited := c07ParseTable[name]
		if !audited {
			r.Fail(rule, "semantic.Parse:"+name, p.Pos(fn.Pos()), "an ecosystem name that is not in the audited dispatch table is accepted: "+name+" → "+got[name])
			continue
		}
		n++
		r.Check(got[name] == want, rule, "semantic.Parse:"+name, p.Pos(fn.Pos()), name+" → "+want, fmt.Sprintf("versions of ecosystem %q are parsed by %s instead of %s: they are compared by another ecosystem's rules (NuGet's case-insensitive, four-component order for Pub's SemVer, say), so the ordering disagrees with the ecosystem's published one and with the other members of its family", name, got[name], want))
	}
	for name, want := range c07ParseTable {
		if _, has := got[name]; !has {
			r.Fail(rule, "semantic.Parse:"+name, p.Pos(fn.Pos()), fmt.Sprintf("ecosystem %q (→ %s on the audited tree) is no longer dispatched by a comparison with the constant", name, want))
		}
	}
	r.Instances(rule, "ecosystem names dispatched by semantic.Parse", n, len(c07ParseTable))
}
