package main

import (
	"fmt"
	"go/ast"
	"go/token"
	"go/types"
	"os"
	"regexp"
	"regexp/syntax"
	"sort"
	"strings"

	"golang.org/x/tools/go/ast/astutil"
	"golang.org/x/tools/go/ssa"
)

// ---------------------------------------------------------------------------------------------
// F6 BOUNDS: a small prover for index / slice / nil-after-decode / type-assertion sites.
//
// Integer expressions are linear terms  sym + off. Facts come only from (a) conditions of
// dominating branches, (b) definitions (API contracts of strings/regexp/builtins, loop counters).
// All facts are difference constraints  x - y <= c  over the symbols of one function, decided
// by shortest paths. Unproved sites are reported; nothing is assumed about data invariants.
// ---------------------------------------------------------------------------------------------

type term struct {
	sym string
	off int64
}

const zeroSym = "0"

type boundsCtx struct {
	p            *Prog
	fn           *ssa.Function
	keys         map[ssa.Value]string
	indexResults []indexRes
	regexResults []regexRes
	symVal       map[string]ssa.Value
	noParamFacts bool
}

func newBoundsCtx(p *Prog, fn *ssa.Function) *boundsCtx {
	return &boundsCtx{p: p, fn: fn, keys: map[ssa.Value]string{}, symVal: map[string]ssa.Value{}}
}

// key renders a canonical name for a pure expression; distinct impure values get unique names.
func (c *boundsCtx) key(v ssa.Value) string {
	if k, ok := c.keys[v]; ok {
		return k
	}
	k := c.key1(v, 0)
	c.keys[v] = k
	if _, ok := c.symVal[k]; !ok {
		c.symVal[k] = v
	}
	return k
}

func (c *boundsCtx) key1(v ssa.Value, d int) string {
	if d > 10 {
		return "v:" + v.Name()
	}
	switch x := v.(type) {
	case *ssa.Const:
		return "c:" + x.String()
	case *ssa.Parameter:
		return "p:" + x.Name()
	case *ssa.FreeVar:
		return "fv:" + x.Name()
	case *ssa.Global:
		return "g:" + x.String()
	case *ssa.Alloc:
		return "a:" + x.Name()
	case *ssa.UnOp:
		if x.Op == token.MUL {
			return "*" + c.key1(x.X, d+1)
		}
		return x.Op.String() + c.key1(x.X, d+1)
	case *ssa.FieldAddr:
		st, _ := structOf(x.X.Type())
		if st != nil {
			return c.key1(x.X, d+1) + "." + st.Field(x.Field).Name()
		}
	case *ssa.Field:
		st, _ := structOf(x.X.Type())
		if st != nil {
			return c.key1(x.X, d+1) + "." + st.Field(x.Field).Name()
		}
	case *ssa.IndexAddr:
		return c.key1(x.X, d+1) + "[" + c.key1(x.Index, d+1) + "]"
	case *ssa.Index:
		return c.key1(x.X, d+1) + "[" + c.key1(x.Index, d+1) + "]"
	case *ssa.Convert:
		if isIntLike(x.Type()) && isIntLike(x.X.Type()) {
			return c.key1(x.X, d+1)
		}
		if bs, ok := x.Type().Underlying().(*types.Basic); ok && bs.Kind() == types.String {
			return "string(" + c.key1(x.X, d+1) + ")"
		}
	case *ssa.ChangeType:
		return c.key1(x.X, d+1)
	case *ssa.Extract:
		return c.key1(x.Tuple, d+1) + "#" + fmt.Sprint(x.Index)
	case *ssa.Call:
		if b, ok := x.Call.Value.(*ssa.Builtin); ok && (b.Name() == "len" || b.Name() == "cap") && len(x.Call.Args) == 1 {
			return b.Name() + "(" + c.key1(x.Call.Args[0], d+1) + ")"
		}
	case *ssa.BinOp:
		if x.Op == token.ADD && isIntLike(x.Type()) {
			if _, isC := constInt(x.Y); !isC {
				if _, isC2 := constInt(x.X); !isC2 {
					a, b := c.key1(x.X, d+1), c.key1(x.Y, d+1)
					if a > b {
						a, b = b, a
					}
					return "(" + a + "+" + b + ")"
				}
			}
		}
	}
	return "v:" + v.Name()
}

func isIntLike(t types.Type) bool {
	b, ok := t.Underlying().(*types.Basic)
	return ok && b.Info()&types.IsInteger != 0
}

// termOf peels +c / -c.
func (c *boundsCtx) termOf(v ssa.Value) term {
	switch x := v.(type) {
	case *ssa.Const:
		if k, ok := constInt(x); ok {
			return term{zeroSym, k}
		}
	case *ssa.Convert:
		if isIntLike(x.Type()) && isIntLike(x.X.Type()) {
			return c.termOf(x.X)
		}
	case *ssa.Call:
		rf := refOf(x.Common())
		if rf.Pkg == "regexp" && rf.Recv == "Regexp" && rf.Name == "SubexpIndex" {
			if name, ok := constString(x.Call.Args[1]); ok {
				if pat, ok := c.regexPattern(x.Call.Args[0]); ok {
					if re, err := regexp.Compile(pat); err == nil {
						return term{zeroSym, int64(re.SubexpIndex(name))}
					}
				}
			}
		}
	case *ssa.BinOp:
		if x.Op == token.ADD || x.Op == token.SUB {
			if k, ok := constInt(x.Y); ok {
				t := c.termOf(x.X)
				if x.Op == token.ADD {
					t.off += k
				} else {
					t.off -= k
				}
				return t
			}
			if k, ok := constInt(x.X); ok && x.Op == token.ADD {
				t := c.termOf(x.Y)
				t.off += k
				return t
			}
		}
	}
	return term{c.key(v), 0}
}

// ---- constraint graph ----

type dgraph struct {
	idx  map[string]int
	name []string
	w    [][]int64 // w[y][x] = c  means  x - y <= c
	ne   map[string]map[int64]bool
	nn   map[string]bool // non-nil keys
	has  map[string]bool // "contains(s,sep)" facts: key(s)+"\x00"+sep
}

const inf = int64(1) << 50

func newGraph() *dgraph {
	g := &dgraph{idx: map[string]int{}, ne: map[string]map[int64]bool{}, nn: map[string]bool{}, has: map[string]bool{}}
	g.node(zeroSym)
	return g
}

func (g *dgraph) node(s string) int {
	if i, ok := g.idx[s]; ok {
		return i
	}
	i := len(g.name)
	g.idx[s] = i
	g.name = append(g.name, s)
	for j := range g.w {
		g.w[j] = append(g.w[j], inf)
	}
	row := make([]int64, i+1)
	for j := range row {
		row[j] = inf
	}
	row[i] = 0
	g.w = append(g.w, row)
	return i
}

// addLE records a <= b.
func (g *dgraph) addLE(a, b term) {
	// a.sym + a.off <= b.sym + b.off  =>  a.sym - b.sym <= b.off - a.off
	x, y := g.node(a.sym), g.node(b.sym)
	c := b.off - a.off
	if c < g.w[y][x] {
		g.w[y][x] = c
	}
}

func (g *dgraph) close() {
	n := len(g.name)
	for iter := 0; iter < 3; iter++ {
		for k := 0; k < n; k++ {
			for i := 0; i < n; i++ {
				if g.w[i][k] >= inf {
					continue
				}
				for j := 0; j < n; j++ {
					if g.w[k][j] >= inf {
						continue
					}
					if d := g.w[i][k] + g.w[k][j]; d < g.w[i][j] {
						g.w[i][j] = d
					}
				}
			}
		}
		// disequalities tighten bounds: lb(x) == k and x != k => lb(x) >= k+1 ; same for ub
		changed := false
		z := g.idx[zeroSym]
		for s, ks := range g.ne {
			x, ok := g.idx[s]
			if !ok {
				continue
			}
			for k := range ks {
				// lower bound of x: 0 - x <= w[x][z]  => x >= -w[x][z]
				if g.w[x][z] < inf && -g.w[x][z] == k {
					g.w[x][z] = -(k + 1)
					changed = true
				}
				if g.w[z][x] < inf && g.w[z][x] == k {
					g.w[z][x] = k - 1
					changed = true
				}
			}
		}
		if !changed {
			break
		}
	}
}

// le decides a <= b from the closed graph.
func (g *dgraph) le(a, b term) bool {
	if a.sym == b.sym {
		return a.off <= b.off
	}
	x, okx := g.idx[a.sym]
	y, oky := g.idx[b.sym]
	if !okx || !oky {
		return false
	}
	return g.w[y][x] < inf && g.w[y][x] <= b.off-a.off
}

// ---- gathering facts ----

// dominatingConds lists (cond, truth) for every If whose one edge dominates block b.
func dominatingConds(b *ssa.BasicBlock) []struct {
	cond ssa.Value
	val  bool
} {
	var out []struct {
		cond ssa.Value
		val  bool
	}
	for I := b.Idom(); I != nil; I = I.Idom() {
		ifi := blockIf(I)
		if ifi == nil {
			continue
		}
		for k, s := range I.Succs {
			if len(s.Preds) == 1 && s.Dominates(b) {
				// (with what the outcome says about the operands of an `a || b` / `a && b` that
				// was compiled to a boolean phi, as in `case a || b:`)
				for _, f := range impliedFacts(ifi.Cond, k == 0, 0) {
					out = append(out, struct {
						cond ssa.Value
						val  bool
					}{f.v, f.val})
				}
			}
		}
	}
	return out
}

func (c *boundsCtx) addCondFacts(g *dgraph, cond ssa.Value, val bool) {
	switch x := cond.(type) {
	case *ssa.BinOp:
		op := x.Op
		if !val {
			op = negOp(op)
		}
		// nil comparisons
		if isNilConst(x.Y) || isNilConst(x.X) {
			v := x.X
			if isNilConst(x.X) {
				v = x.Y
			}
			if op == token.NEQ {
				g.nn[c.key(v)] = true
				if isSliceOrString(v.Type()) {
					// non-nil slice says nothing about length, except for regexp results (handled at definition)
				}
			}
			return
		}
		// string comparisons with constants
		if s, ok := constString(x.Y); ok && isString(x.X.Type()) {
			c.strConstFact(g, x.X, s, op)
			return
		}
		if s, ok := constString(x.X); ok && isString(x.Y.Type()) {
			c.strConstFact(g, x.Y, s, swapOp(op))
			return
		}
		if !isIntLike(x.X.Type()) {
			return
		}
		a, b := c.termOf(x.X), c.termOf(x.Y)
		switch op {
		case token.LSS:
			g.addLE(term{a.sym, a.off + 1}, b)
		case token.LEQ:
			g.addLE(a, b)
		case token.GTR:
			g.addLE(term{b.sym, b.off + 1}, a)
		case token.GEQ:
			g.addLE(b, a)
		case token.EQL:
			g.addLE(a, b)
			g.addLE(b, a)
		case token.NEQ:
			if b.sym == zeroSym {
				g.node(a.sym)
				if g.ne[a.sym] == nil {
					g.ne[a.sym] = map[int64]bool{}
				}
				g.ne[a.sym][b.off-a.off] = true
			} else if a.sym == zeroSym {
				g.node(b.sym)
				if g.ne[b.sym] == nil {
					g.ne[b.sym] = map[int64]bool{}
				}
				g.ne[b.sym][a.off-b.off] = true
			}
		}
	case *ssa.Call:
		if !val {
			return
		}
		rf := refOf(x.Common())
		if (rf.Pkg == "strings" || rf.Pkg == "bytes") && len(x.Call.Args) == 2 {
			if _, isC := constString(x.Call.Args[1]); !isC {
				switch rf.Name {
				case "HasPrefix", "HasSuffix", "Contains":
					g.addLE(term{"len(" + c.key(x.Call.Args[1]) + ")", 0}, term{"len(" + c.key(x.Call.Args[0]) + ")", 0})
					c.defFacts(g, x.Call.Args[1], map[ssa.Value]bool{}, 0)
				}
			}
			if s, ok := constString(x.Call.Args[1]); ok {
				switch rf.Name {
				case "HasPrefix", "HasSuffix", "Contains":
					g.addLE(term{zeroSym, int64(len(s))}, term{"len(" + c.key(x.Call.Args[0]) + ")", 0})
					if rf.Name == "Contains" {
						g.has[c.key(x.Call.Args[0])+"\x00"+s] = true
					}
				}
			}
		}
		if rf.Pkg == "regexp" && rf.Recv == "Regexp" && (rf.Name == "MatchString" || rf.Name == "Match") {
			if pat, ok := c.regexPattern(x.Call.Args[0]); ok {
				if n := regexMinLen(pat); n > 0 {
					g.addLE(term{zeroSym, n}, term{"len(" + c.key(x.Call.Args[1]) + ")", 0})
				}
			}
		}
	case *ssa.Extract:
		// comma-ok results
		if x.Index == 1 && val {
			if cl, ok := x.Tuple.(*ssa.Call); ok {
				rf := refOf(cl.Common())
				if rf.Pkg == "slices" && (rf.Name == "BinarySearchFunc" || rf.Name == "BinarySearch") {
					// found ⇒ pos < len(s)
					for _, ref := range *cl.Referrers() {
						if e0, ok := ref.(*ssa.Extract); ok && e0.Index == 0 {
							g.addLE(term{c.key(e0), 1}, term{"len(" + c.key(cl.Call.Args[0]) + ")", 0})
						}
					}
				}
			}
			switch t := x.Tuple.(type) {
			case *ssa.TypeAssert:
				g.nn["assert:"+c.key(t.X)+":"+t.AssertedType.String()] = true
			case *ssa.Call:
				rf := refOf(t.Common())
				if rf.Pkg == "strings" && (rf.Name == "CutPrefix" || rf.Name == "CutSuffix" || rf.Name == "Cut") {
					if s, ok := constString(t.Call.Args[1]); ok {
						g.addLE(term{zeroSym, int64(len(s))}, term{"len(" + c.key(t.Call.Args[0]) + ")", 0})
					}
				}
			}
		}
	}
}

func isString(t types.Type) bool {
	b, ok := t.Underlying().(*types.Basic)
	return ok && b.Info()&types.IsString != 0
}

func isSliceOrString(t types.Type) bool {
	if isString(t) {
		return true
	}
	_, ok := t.Underlying().(*types.Slice)
	return ok
}

func (c *boundsCtx) strConstFact(g *dgraph, v ssa.Value, s string, op token.Token) {
	l := term{"len(" + c.key(v) + ")", 0}
	switch op {
	case token.EQL:
		g.addLE(term{zeroSym, int64(len(s))}, l)
		g.addLE(l, term{zeroSym, int64(len(s))})
	case token.NEQ:
		if s == "" {
			g.addLE(term{zeroSym, 1}, l)
		}
	}
}

// soleStoreBeforeEscape: the one value ever stored into the local al, provided every other use of al
// (anything but loads and that store) cannot execute before the load ld.
func soleStoreBeforeEscape(al *ssa.Alloc, ld *ssa.UnOp) ssa.Value {
	var sv ssa.Value
	n := 0
	var escapes []ssa.Instruction
	for _, ref := range *al.Referrers() {
		switch x := ref.(type) {
		case *ssa.Store:
			if x.Addr == ssa.Value(al) {
				n++
				sv = x.Val
				continue
			}
			escapes = append(escapes, x)
		case *ssa.UnOp:
			if x.Op == token.MUL {
				continue
			}
			escapes = append(escapes, x)
		case *ssa.DebugRef:
		case *ssa.IndexAddr, *ssa.FieldAddr:
			// element / field addresses of a slice or struct local are ordinary accesses
			continue
		default:
			escapes = append(escapes, ref)
		}
	}
	if n != 1 || sv == nil {
		return nil
	}
	for _, e := range escapes {
		if e.Block() == ld.Block() {
			// same block: the escape must come after the load
			for _, in := range e.Block().Instrs {
				if in == ssa.Instruction(ld) {
					break
				}
				if in == e {
					return nil
				}
			}
			// a loop back to this block would still reach the load
		}
		// (a path that executes the allocation again reaches a fresh variable)
		if w := findPath(pointOf(e), func(in ssa.Instruction) bool { return in == ssa.Instruction(ld) }, func(in ssa.Instruction) bool { return in == ssa.Instruction(al) }, nil); w != nil {
			return nil
		}
	}
	return sv
}

// ---- definitional knowledge ----

// defFacts adds what the definition of v says, recursively over the values a term mentions.
func (c *boundsCtx) defFacts(g *dgraph, v ssa.Value, seen map[ssa.Value]bool, depth int) {
	if v == nil || seen[v] || depth > 8 {
		return
	}
	seen[v] = true
	k := c.key(v)
	if isIntLike(v.Type()) {
		c.intDefFacts(g, v, k, seen, depth)
		return
	}
	if isSliceOrString(v.Type()) {
		ln := term{"len(" + k + ")", 0}
		g.addLE(term{zeroSym, 0}, ln)
		if ms, ok := v.(*ssa.MakeSlice); ok {
			lt := c.termOf(ms.Len)
			g.addLE(ln, lt)
			g.addLE(lt, ln)
			c.defFacts(g, ms.Len, seen, depth+1)
		}
		// a load of a local that is stored exactly once (`s := make(…)` whose address is taken later):
		// the loaded slice is the stored one, as long as nothing that lets the address escape can run
		// before the load
		if ld, ok := v.(*ssa.UnOp); ok && ld.Op == token.MUL {
			if al, ok := ld.X.(*ssa.Alloc); ok {
				if sv := soleStoreBeforeEscape(al, ld); sv != nil {
					sl := term{"len(" + c.key(sv) + ")", 0}
					g.addLE(ln, sl)
					g.addLE(sl, ln)
					c.defFacts(g, sv, seen, depth+1)
				}
			}
		}
		if cl, ok := v.(*ssa.Call); ok {
			rf := refOf(cl.Common())
			if rf.Pkg == "regexp" && rf.Recv == "Regexp" && rf.Name == "SubexpNames" {
				if n := c.numSubexp(cl.Call.Args[0]); n >= 0 {
					g.addLE(ln, term{zeroSym, int64(n + 1)})
					g.addLE(term{zeroSym, int64(n + 1)}, ln)
				}
			}
		}
		if ph, ok := v.(*ssa.Phi); ok {
			// phi of regexp (sub)match results: non-nil/non-empty implies the smallest full length
			mn := inf
			for _, e := range ph.Edges {
				n := int64(-1)
				if cl, ok := e.(*ssa.Call); ok {
					rf := refOf(cl.Common())
					if rf.Pkg == "regexp" && rf.Recv == "Regexp" && (rf.Name == "FindStringSubmatch" || rf.Name == "FindSubmatch") {
						if ns := c.numSubexp(cl.Call.Args[0]); ns >= 0 {
							n = int64(ns + 1)
						}
					}
				}
				if isNilConst(e) {
					continue
				}
				if n < 0 {
					mn = -1
					break
				}
				if n < mn {
					mn = n
				}
			}
			if mn > 0 && mn < inf {
				c.regexResults = append(c.regexResults, regexRes{k, mn})
			}
		}
		if n := c.minLen(g, v, map[ssa.Value]bool{}, 0); n > 0 {
			g.addLE(term{zeroSym, n}, ln)
		}
		// an element of a regexp match is a piece of the text that was matched: len(m[i]) <= len(s)
		if ld, ok := v.(*ssa.UnOp); ok && ld.Op == token.MUL {
			if ia, ok := ld.X.(*ssa.IndexAddr); ok {
				if cl, ok := ia.X.(*ssa.Call); ok && len(cl.Call.Args) == 2 {
					rf := refOf(cl.Common())
					if rf.Pkg == "regexp" && rf.Recv == "Regexp" && (rf.Name == "FindStringSubmatch" || rf.Name == "FindSubmatch") {
						g.addLE(ln, term{"len(" + c.key(cl.Call.Args[1]) + ")", 0})
					}
				}
			}
		}
		// exact relations for slices of known shape
		if sl, ok := v.(*ssa.Slice); ok {
			c.defFacts(g, sl.X, seen, depth+1)
			lo := term{zeroSym, 0}
			if sl.Low != nil {
				lo = c.termOf(sl.Low)
				c.defFacts(g, sl.Low, seen, depth+1)
			}
			var hi term
			if sl.High != nil {
				hi = c.termOf(sl.High)
				c.defFacts(g, sl.High, seen, depth+1)
			} else {
				hi = term{"len(" + c.key(sl.X) + ")", 0}
				if _, isArr := sl.X.Type().Underlying().(*types.Pointer); isArr {
					if arr, ok := sl.X.Type().Underlying().(*types.Pointer).Elem().Underlying().(*types.Array); ok {
						hi = term{zeroSym, arr.Len()}
					}
				}
			}
			if lo.sym == zeroSym {
				// len(v) = hi - lo.off
				g.addLE(ln, term{hi.sym, hi.off - lo.off})
				g.addLE(term{hi.sym, hi.off - lo.off}, ln)
			} else if hi.sym == zeroSym {
				// len(v) = c - lo  : len(v) + lo = c ; only upper/lower via lo's bounds — skip
			}
		}
		if ph, ok := v.(*ssa.Phi); ok {
			for _, e := range ph.Edges {
				c.defFacts(g, e, seen, depth+1)
			}
		}
		if u, ok := v.(*ssa.UnOp); ok && u.Op == token.MUL {
			// load of a field of a struct allocated in this function: if the field is stored
			// exactly once, the load yields that value's length
			if fa, ok := u.X.(*ssa.FieldAddr); ok {
				if al, ok := fa.X.(*ssa.Alloc); ok {
					var stored []ssa.Value
					forEachInstr(c.fn, func(_ *ssa.BasicBlock, _ int, in ssa.Instruction) {
						st, ok := in.(*ssa.Store)
						if !ok {
							return
						}
						if fa2, ok := st.Addr.(*ssa.FieldAddr); ok && fa2.X == ssa.Value(al) && fa2.Field == fa.Field {
							stored = append(stored, st.Val)
						}
					})
					if len(stored) == 1 && isSliceOrString(stored[0].Type()) {
						sl := term{"len(" + c.key(stored[0]) + ")", 0}
						g.addLE(ln, sl)
						g.addLE(sl, ln)
						c.defFacts(g, stored[0], seen, depth+1)
					}
				}
			}
		}
	}
}

func (c *boundsCtx) intDefFacts(g *dgraph, v ssa.Value, k string, seen map[ssa.Value]bool, depth int) {
	switch x := v.(type) {
	case *ssa.Convert:
		c.defFacts(g, x.X, seen, depth+1)
	case *ssa.BinOp:
		c.defFacts(g, x.X, seen, depth+1)
		c.defFacts(g, x.Y, seen, depth+1)
		if x.Op == token.REM {
			if m, ok := constInt(x.Y); ok && m > 0 {
				g.addLE(term{k, 0}, term{zeroSym, m - 1})
			}
		}
		if x.Op == token.SUB {
			if _, isC := constInt(x.Y); !isC {
				if cl, ok := x.Y.(*ssa.Call); ok && isCallTo(cl, "builtin", "", "len") {
					g.addLE(term{k, 0}, c.termOf(x.X)) // X - len(..) <= X
				}
			}
		}
	case *ssa.Call:
		if b, ok := x.Call.Value.(*ssa.Builtin); ok {
			switch b.Name() {
			case "len", "cap":
				c.defFacts(g, x.Call.Args[0], seen, depth+1)
				g.addLE(term{zeroSym, 0}, term{k, 0})
			case "min":
				for _, a := range x.Call.Args {
					g.addLE(term{k, 0}, c.termOf(a))
					c.defFacts(g, a, seen, depth+1)
				}
			case "max":
				for _, a := range x.Call.Args {
					g.addLE(c.termOf(a), term{k, 0})
					c.defFacts(g, a, seen, depth+1)
				}
			}
			return
		}
		rf := refOf(x.Common())
		if rf.Pkg == "strings" || rf.Pkg == "bytes" {
			switch rf.Name {
			case "Index", "LastIndex", "IndexByte", "LastIndexByte", "IndexRune", "IndexAny", "LastIndexAny", "IndexFunc", "LastIndexFunc":
				g.addLE(term{zeroSym, -1}, term{k, 0})
				sepLen := int64(1)
				if rf.Name == "Index" || rf.Name == "LastIndex" {
					sepLen = 0
					if s, ok := constString(x.Call.Args[1]); ok {
						sepLen = int64(len(s))
					} else {
						sepLen = max64(c.paramMinLen(x.Call.Args[1]), c.minLen(nil, x.Call.Args[1], map[ssa.Value]bool{}, 0))
					}
				}
				// r + sepLen <= len(S) holds when r >= 0; when r == -1 it needs sepLen <= len(S)+1.
				// Encode the weaker, always-true  r <= len(S) - min(sepLen,1)... : r <= len(S)-1 is
				// false only for r=0,len=0,sep="". Use r + sepLen <= len(S) only under r >= 0 (added
				// lazily in prove via condIdx); here the always-true r <= len(S).
				S := "len(" + c.key(x.Call.Args[0]) + ")"
				g.addLE(term{k, 0}, term{S, 0})
				g.addLE(term{zeroSym, 0}, term{S, 0})
				if sepLen >= 1 {
					// a match of a non-empty separator starts at most at len(S)-1, and "not found" is -1:
					// r+1 <= len(S) holds unconditionally (so S[r+1:] is always in range)
					g.addLE(term{k, 1}, term{S, 0})
				}
				if g.ne[k] == nil {
					g.ne[k] = map[int64]bool{}
				}
				// remember for conditional strengthening
				c.indexResults = append(c.indexResults, indexRes{k, S, sepLen})
			case "Count":
				g.addLE(term{zeroSym, 0}, term{k, 0})
			}
		}
		if rf.Pkg == "slices" && (rf.Name == "Index" || rf.Name == "IndexFunc") {
			S := "len(" + c.key(x.Call.Args[0]) + ")"
			g.addLE(term{zeroSym, -1}, term{k, 0})
			g.addLE(term{k, 1}, term{S, 0})
			c.defFacts(g, x.Call.Args[0], seen, depth+1)
		}
		if rf.Pkg == "strings" && rf.Name == "Compare" {
			g.addLE(term{zeroSym, -1}, term{k, 0})
			g.addLE(term{k, 0}, term{zeroSym, 1})
		}
	case *ssa.Phi:
		// monotone webs: a phi all of whose leaves (through phis and +positive-constant steps) are
		// constants can never be below the smallest leaf; dually for -constant steps.
		if lo, hi, ok := phiWebBounds(x); ok {
			if lo > -inf {
				g.addLE(term{zeroSym, lo}, term{k, 0})
			}
			if hi < inf {
				g.addLE(term{k, 0}, term{zeroSym, hi})
			}
		}
		// loop counters: edges {E..., phi + c}
		var bases []ssa.Value
		inc, dec := false, false
		for _, e := range x.Edges {
			t := c.termOf(e)
			if t.sym == k {
				if t.off > 0 {
					inc = true
				} else if t.off < 0 {
					dec = true
				}
				continue
			}
			// go/ssa range loops: idx = phi[-1, idx'] with idx' = idx+1
			if bo, ok := e.(*ssa.BinOp); ok && bo.Op == token.ADD {
				if bo.X == ssa.Value(x) {
					if kk, ok := constInt(bo.Y); ok && kk > 0 {
						inc = true
						continue
					}
				}
			}
			if bo, ok := e.(*ssa.BinOp); ok && bo.Op == token.SUB && bo.X == ssa.Value(x) {
				if kk, ok := constInt(bo.Y); ok && kk > 0 {
					dec = true
					continue
				}
			}
			bases = append(bases, e)
		}
		if len(bases) > 0 && !(inc && dec) {
			for _, b := range bases {
				c.defFacts(g, b, seen, depth+1)
			}
			if len(bases) == 1 {
				bt := c.termOf(bases[0])
				if !dec {
					g.addLE(bt, term{k, 0}) // phi >= base
				}
				if !inc {
					g.addLE(term{k, 0}, bt) // phi <= base
				}
			} else if !dec {
				// several initial values: numeric lower bound = min of constant bases
				lo := inf
				all := true
				for _, b := range bases {
					bt := c.termOf(b)
					if bt.sym != zeroSym {
						all = false
						break
					}
					if bt.off < lo {
						lo = bt.off
					}
				}
				if all {
					g.addLE(term{zeroSym, lo}, term{k, 0})
				}
			}
		}
	case *ssa.Extract:
		// slices.BinarySearch*: 0 <= pos <= len(s)
		if cl, ok := x.Tuple.(*ssa.Call); ok && x.Index == 0 {
			rf := refOf(cl.Common())
			if rf.Pkg == "slices" && (rf.Name == "BinarySearchFunc" || rf.Name == "BinarySearch") {
				g.addLE(term{zeroSym, 0}, term{k, 0})
				g.addLE(term{k, 0}, term{"len(" + c.key(cl.Call.Args[0]) + ")", 0})
			}
		}
		// index of a range-over-string / range-over-int Next: k >= 0
		if nx, ok := x.Tuple.(*ssa.Next); ok && x.Index == 1 {
			g.addLE(term{zeroSym, 0}, term{k, 0})
			if rg, ok := nx.Iter.(*ssa.Range); ok && nx.IsString {
				g.addLE(term{k, 1}, term{"len(" + c.key(rg.X) + ")", 0})
			}
		}
	case *ssa.UnOp:
	}
}

type regexRes struct {
	key string
	n   int64
}

type indexRes struct {
	k, S   string
	sepLen int64
}

// minLen computes a numeric lower bound for the length of a slice/string from its definition.
func (c *boundsCtx) minLen(g *dgraph, v ssa.Value, seen map[ssa.Value]bool, d int) int64 {
	if v == nil || seen[v] || d > 8 {
		return 0
	}
	seen[v] = true
	switch x := v.(type) {
	case *ssa.Const:
		if s, ok := constString(x); ok {
			return int64(len(s))
		}
	case *ssa.Phi:
		m := inf
		for _, e := range x.Edges {
			if e == v {
				continue
			}
			if n := c.minLen(g, e, seen, d+1); n < m {
				m = n
			}
		}
		if m == inf {
			return 0
		}
		return m
	case *ssa.MakeSlice:
		if k, ok := constInt(x.Len); ok {
			return k
		}
	case *ssa.Slice:
		base := int64(0)
		if pt, ok := x.X.Type().Underlying().(*types.Pointer); ok {
			if arr, ok := pt.Elem().Underlying().(*types.Array); ok {
				base = arr.Len()
			}
		} else {
			base = c.minLen(g, x.X, seen, d+1)
		}
		lo := int64(0)
		if x.Low != nil {
			k, ok := constInt(x.Low)
			if !ok {
				return 0
			}
			lo = k
		}
		if x.High != nil {
			k, ok := constInt(x.High)
			if !ok {
				return 0
			}
			return max64(0, k-lo)
		}
		return max64(0, base-lo)
	case *ssa.BinOp:
		if x.Op == token.ADD && isString(x.Type()) {
			return c.minLen(g, x.X, seen, d+1) + c.minLen(g, x.Y, seen, d+1)
		}
	case *ssa.Convert:
		return 0
	case *ssa.Call:
		if b, ok := x.Call.Value.(*ssa.Builtin); ok && b.Name() == "append" {
			n := c.minLen(g, x.Call.Args[0], seen, d+1)
			if len(x.Call.Args) == 2 {
				n += c.minLen(g, x.Call.Args[1], seen, d+1)
			}
			return n
		}
		rf := refOf(x.Common())
		switch {
		case (rf.Pkg == "strings" || rf.Pkg == "bytes") && (rf.Name == "Split" || rf.Name == "SplitN" || rf.Name == "SplitAfter" || rf.Name == "SplitAfterN"):
			if rf.Name == "SplitN" || rf.Name == "SplitAfterN" {
				if n, ok := constInt(x.Call.Args[2]); ok && n == 0 {
					return 0
				}
			}
			if s, ok := constString(x.Call.Args[1]); ok && s != "" && g != nil && g.hasSuper(c.key(x.Call.Args[0]), s) {
				if rf.Name == "SplitN" || rf.Name == "SplitAfterN" {
					if n, ok := constInt(x.Call.Args[2]); !ok || (n >= 0 && n < 2) {
						return 1
					}
				}
				return 2
			}
			return 1
		case rf.Pkg == "regexp" && rf.Recv == "Regexp":
			n := c.numSubexp(x.Call.Args[0])
			if n >= 0 {
				switch rf.Name {
				case "FindStringSubmatch", "FindSubmatch":
					c.regexResults = append(c.regexResults, regexRes{c.key(v), int64(n + 1)})
				case "FindStringSubmatchIndex", "FindSubmatchIndex":
					c.regexResults = append(c.regexResults, regexRes{c.key(v), int64(2 * (n + 1))})
				case "FindStringIndex", "FindIndex":
					c.regexResults = append(c.regexResults, regexRes{c.key(v), 2})
				}
			}
			switch rf.Name {
			case "FindStringSubmatch", "FindSubmatch":
				if n >= 0 && g != nil && (g.nn[c.key(v)] || c.lenKnownPositive(g, v)) {
					return int64(n + 1)
				}
			case "FindStringSubmatchIndex", "FindSubmatchIndex":
				if n >= 0 && g != nil && (g.nn[c.key(v)] || c.lenKnownPositive(g, v)) {
					return int64(2 * (n + 1))
				}
			case "FindStringIndex", "FindIndex":
				if g != nil && (g.nn[c.key(v)] || c.lenKnownPositive(g, v)) {
					return 2
				}
			}
		}
	case *ssa.UnOp:
		if x.Op == token.MUL {
			// element of a slice literal of constant strings
			if ia, ok := x.X.(*ssa.IndexAddr); ok {
				if sl, ok := ia.X.(*ssa.Slice); ok {
					if al, ok := sl.X.(*ssa.Alloc); ok {
						mn := inf
						for _, ref := range *al.Referrers() {
							if ia2, ok := ref.(*ssa.IndexAddr); ok {
								for _, r2 := range *ia2.Referrers() {
									if st, ok := r2.(*ssa.Store); ok {
										if s, ok := constString(st.Val); ok {
											if int64(len(s)) < mn {
												mn = int64(len(s))
											}
										} else {
											mn = 0
										}
									}
								}
							}
						}
						if mn < inf {
							return mn
						}
					}
				}
			}
			// element of FindAll(String)Submatch(Index): never nil, fixed length
			if ia, ok := x.X.(*ssa.IndexAddr); ok {
				if cl, ok := ia.X.(*ssa.Call); ok {
					rf := refOf(cl.Common())
					if rf.Pkg == "regexp" && rf.Recv == "Regexp" {
						n := c.numSubexp(cl.Call.Args[0])
						if n >= 0 {
							switch rf.Name {
							case "FindAllStringSubmatch", "FindAllSubmatch":
								return int64(n + 1)
							case "FindAllStringSubmatchIndex", "FindAllSubmatchIndex":
								return int64(2 * (n + 1))
							case "FindAllStringIndex", "FindAllIndex":
								return 2
							}
						}
					}
				}
			}
		}
	}
	return 0
}

func (c *boundsCtx) lenKnownPositive(g *dgraph, v ssa.Value) bool {
	// has a condition fact already said len(v) >= 1 ?
	x, ok := g.idx["len("+c.key(v)+")"]
	if !ok {
		return false
	}
	z := g.idx[zeroSym]
	return g.w[x][z] < inf && -g.w[x][z] >= 1
}

// hasSuper: a dominating strings.Contains(s, c) with sep a substring of c.
func (g *dgraph) hasSuper(skey, sep string) bool {
	pre := skey + "\x00"
	for k := range g.has {
		if strings.HasPrefix(k, pre) && strings.Contains(k[len(pre):], sep) {
			return true
		}
	}
	return false
}

func max64(a, b int64) int64 {
	if a > b {
		return a
	}
	return b
}

// regexPattern: v is a *regexp.Regexp value; resolve it to the constant pattern of a
// regexp.MustCompile call, directly or through a package-level variable that is assigned exactly
// once (in the package initialiser).
func (c *boundsCtx) regexPattern(v ssa.Value) (string, bool) {
	pat := func(val ssa.Value) (string, bool) {
		cl, ok := val.(*ssa.Call)
		if !ok {
			return "", false
		}
		rf := refOf(cl.Common())
		if rf.Pkg == "regexp" && (rf.Name == "MustCompile" || rf.Name == "MustCompilePOSIX") {
			return constString(cl.Call.Args[0])
		}
		return "", false
	}
	u, ok := v.(*ssa.UnOp)
	if !ok || u.Op != token.MUL {
		return pat(v)
	}
	gl, ok := u.X.(*ssa.Global)
	if !ok || gl.Pkg == nil {
		return "", false
	}
	if r, ok := regexCache[gl]; ok {
		return r.pat, r.ok
	}
	res := struct {
		pat string
		ok  bool
	}{}
	cnt := 0
	for _, m := range gl.Pkg.Members {
		f, ok := m.(*ssa.Function)
		if !ok {
			continue
		}
		for _, fn := range withAnon(f) {
			forEachInstr(fn, func(_ *ssa.BasicBlock, _ int, in ssa.Instruction) {
				st, ok := in.(*ssa.Store)
				if !ok || st.Addr != ssa.Value(gl) {
					return
				}
				cnt++
				if f.Name() == "init" {
					res.pat, res.ok = pat(st.Val)
				} else {
					cnt += 100
				}
			})
		}
	}
	if cnt != 1 {
		res.ok = false
	}
	regexCache[gl] = res
	return res.pat, res.ok
}

var regexCache = map[*ssa.Global]struct {
	pat string
	ok  bool
}{}

func (c *boundsCtx) numSubexp(v ssa.Value) int {
	pat, ok := c.regexPattern(v)
	if !ok {
		return -1
	}
	re, err := regexp.Compile(pat)
	if err != nil {
		return -1
	}
	return re.NumSubexp()
}

// regexMinLen: minimal number of bytes any match of the pattern has.
func regexMinLen(pat string) int64 {
	re, err := syntax.Parse(pat, syntax.Perl)
	if err != nil {
		return 0
	}
	var rec func(r *syntax.Regexp) int64
	rec = func(r *syntax.Regexp) int64 {
		switch r.Op {
		case syntax.OpLiteral:
			return int64(len(r.Rune))
		case syntax.OpCharClass, syntax.OpAnyChar, syntax.OpAnyCharNotNL:
			return 1
		case syntax.OpCapture, syntax.OpPlus:
			return rec(r.Sub[0])
		case syntax.OpRepeat:
			return int64(r.Min) * rec(r.Sub[0])
		case syntax.OpConcat:
			n := int64(0)
			for _, s := range r.Sub {
				n += rec(s)
			}
			return n
		case syntax.OpAlternate:
			m := inf
			for _, s := range r.Sub {
				if k := rec(s); k < m {
					m = k
				}
			}
			if m == inf {
				return 0
			}
			return m
		}
		return 0
	}
	return rec(re)
}

// ---- sites ----

type boundSite struct {
	kind string // index | slice | assert | deref | divide
	in   ssa.Instruction
	expr string
}

// graphFor builds the closed constraint graph valid at instruction `at`, seeded with the
// definitions of the given values.
func (c *boundsCtx) graphFor(at ssa.Instruction, vals ...ssa.Value) *dgraph {
	return c.graphAt(at.Block(), nil, false, vals, map[*ssa.BasicBlock]bool{})
}

type condFact struct {
	cond ssa.Value
	val  bool
}

// graphAt: facts valid at the end of block b (conditions whose edge dominates b, plus an optional
// extra edge condition), definitions of vals, facts about phis of dominating join blocks
// (intersection over their incoming edges) and call-site facts about parameters.
func (c *boundsCtx) graphAt(b *ssa.BasicBlock, extra *condFact, _ bool, vals []ssa.Value, visiting map[*ssa.BasicBlock]bool) *dgraph {
	g := newGraph()
	saved, savedR := c.indexResults, c.regexResults
	c.indexResults, c.regexResults = nil, nil
	defer func() { c.indexResults, c.regexResults = saved, savedR }()
	var conds []condFact
	for _, cd := range dominatingConds(b) {
		conds = append(conds, condFact{cd.cond, cd.val})
	}
	if extra != nil {
		inner, flip := stripNot(extra.cond)
		conds = append(conds, condFact{inner, extra.val != flip})
	}
	for _, cd := range conds {
		c.addCondFacts(g, cd.cond, cd.val)
	}
	seen := map[ssa.Value]bool{}
	for _, cd := range conds {
		c.condOperands(g, cd.cond, seen)
	}
	for _, v := range vals {
		c.defFacts(g, v, seen, 0)
		if isIntLike(v.Type()) {
			g.node(c.termOf(v).sym)
		} else if isSliceOrString(v.Type()) {
			g.node("len(" + c.key(v) + ")")
		}
	}
	if !c.noParamFacts {
		c.paramFacts(g)
	}
	// phi facts of join blocks on the dominator chain
	if len(visiting) < 4 {
		for D := b; D != nil; D = D.Idom() {
			if len(D.Preds) < 2 || visiting[D] {
				continue
			}
			c.phiFacts(g, D, visiting)
		}
	}
	g.close()
	c.strengthenIndex(g)
	// a regexp (sub)match result that is known non-nil / non-empty has its full length
	z := g.idx[zeroSym]
	changed := false
	for _, rr := range c.regexResults {
		ls := "len(" + rr.key + ")"
		x, ok := g.idx[ls]
		if g.nn[rr.key] || (ok && g.w[x][z] < inf && -g.w[x][z] >= 1) {
			g.addLE(term{zeroSym, rr.n}, term{ls, 0})
			changed = true
		}
	}
	if changed {
		g.close()
	}
	return g
}

// strengthenIndex: r >= 0  =>  r + sepLen <= len(S) for results of strings.Index & friends.
func (c *boundsCtx) strengthenIndex(g *dgraph) {
	z := g.idx[zeroSym]
	changed := false
	for _, ir := range c.indexResults {
		x, ok := g.idx[ir.k]
		if !ok {
			continue
		}
		if g.w[x][z] < inf && -g.w[x][z] >= 0 {
			g.addLE(term{ir.k, ir.sepLen}, term{ir.S, 0})
			g.addLE(term{zeroSym, ir.sepLen}, term{ir.S, 0})
			changed = true
		}
	}
	if changed {
		g.close()
	}
}

// invariantAt: is the value available unchanged when block D is entered (defined strictly above D,
// or a pure path over such values)?
func (c *boundsCtx) invariantAt(v ssa.Value, D *ssa.BasicBlock, d int) bool {
	if d > 8 {
		return false
	}
	switch x := v.(type) {
	case *ssa.Const, *ssa.Parameter, *ssa.Global, *ssa.FreeVar:
		return true
	case *ssa.Alloc:
		return true
	case ssa.Instruction:
		if x.Block() != D && x.Block().Dominates(D) {
			return true
		}
		switch y := v.(type) {
		case *ssa.FieldAddr:
			return c.invariantAt(y.X, D, d+1)
		case *ssa.Field:
			return c.invariantAt(y.X, D, d+1)
		case *ssa.UnOp:
			return c.invariantAt(y.X, D, d+1)
		case *ssa.Convert:
			return c.invariantAt(y.X, D, d+1)
		case *ssa.ChangeType:
			return c.invariantAt(y.X, D, d+1)
		case *ssa.Call:
			if b, ok := y.Call.Value.(*ssa.Builtin); ok && (b.Name() == "len" || b.Name() == "cap") {
				return c.invariantAt(y.Call.Args[0], D, d+1)
			}
		}
	}
	return false
}

func (c *boundsCtx) symInvariantAt(sym string, D *ssa.BasicBlock) bool {
	if sym == zeroSym {
		return true
	}
	inner := sym
	if strings.HasPrefix(sym, "len(") && strings.HasSuffix(sym, ")") {
		inner = sym[4 : len(sym)-1]
	}
	v, ok := c.symVal[inner]
	if !ok {
		v, ok = c.symVal[sym]
		if !ok {
			return false
		}
	}
	return c.invariantAt(v, D, 0)
}

// phiFacts adds, for every integer / slice / string phi of join block D that the graph already
// mentions, the constraints that hold for its incoming value on every incoming edge.
func (c *boundsCtx) phiFacts(g *dgraph, D *ssa.BasicBlock, visiting map[*ssa.BasicBlock]bool) {
	type rel struct{ ub, lb int64 } // phi - X <= ub ; X - phi <= lb
	for _, in := range D.Instrs {
		ph, ok := in.(*ssa.Phi)
		if !ok {
			break
		}
		var qsym string
		isInt := isIntLike(ph.Type())
		switch {
		case isInt:
			qsym = c.key(ph)
		case isSliceOrString(ph.Type()):
			qsym = "len(" + c.key(ph) + ")"
		default:
			continue
		}
		if _, mentioned := g.idx[qsym]; !mentioned {
			continue
		}
		vis2 := map[*ssa.BasicBlock]bool{D: true}
		for k := range visiting {
			vis2[k] = true
		}
		var acc map[string]*rel
		okAll := true
		allIndexS := ""
		minSep := inf
		for i, inc := range ph.Edges {
			pred := D.Preds[i]
			var extra *condFact
			if ifi := blockIf(pred); ifi != nil {
				for k, s := range pred.Succs {
					if s == D && pred.Succs[1-k] != D {
						extra = &condFact{ifi.Cond, k == 0}
					}
				}
			}
			gi := c.graphAt(pred, extra, false, []ssa.Value{inc}, vis2)
			var ti term
			if isInt {
				ti = c.termOf(inc)
			} else {
				ti = term{"len(" + c.key(inc) + ")", 0}
			}
			// is the incoming value an Index* result? (for conditional strengthening of the phi)
			if isInt {
				found := false
				for _, ir := range c.lastIndexResults(inc) {
					if allIndexS == "" || allIndexS == ir.S {
						allIndexS = ir.S
						if ir.sepLen < minSep {
							minSep = ir.sepLen
						}
						found = true
					}
				}
				if !found {
					allIndexS = "-"
				}
			}
			si, okNode := gi.idx[ti.sym]
			cur := map[string]*rel{}
			if okNode {
				for name, xi := range gi.idx {
					if !c.symInvariantAt(name, D) {
						continue
					}
					r := &rel{inf, inf}
					if name == ti.sym { // phi == sym + off on this edge
						r.ub, r.lb = ti.off, -ti.off
					} else {
						if gi.w[xi][si] < inf {
							r.ub = gi.w[xi][si] + ti.off
						}
						if gi.w[si][xi] < inf {
							r.lb = gi.w[si][xi] - ti.off
						}
					}
					if r.ub < inf || r.lb < inf {
						cur[name] = r
					}
				}
			}
			if acc == nil {
				acc = cur
			} else {
				for name, r := range acc {
					r2, ok := cur[name]
					if !ok {
						delete(acc, name)
						continue
					}
					if r2.ub > r.ub {
						r.ub = r2.ub
					}
					if r2.lb > r.lb {
						r.lb = r2.lb
					}
				}
			}
			if len(acc) == 0 {
				okAll = false
				break
			}
		}
		if !okAll {
			continue
		}
		for name, r := range acc {
			if name == qsym {
				continue
			}
			if r.ub < inf {
				g.addLE(term{qsym, 0}, term{name, r.ub})
			}
			if r.lb < inf {
				g.addLE(term{name, 0}, term{qsym, r.lb})
			}
		}
		if isInt && allIndexS != "" && allIndexS != "-" && minSep < inf {
			c.indexResults = append(c.indexResults, indexRes{qsym, allIndexS, minSep})
		}
	}
}

// lastIndexResults: if v is the result of strings.Index & friends, describe it.
func (c *boundsCtx) lastIndexResults(v ssa.Value) []indexRes {
	cl, ok := v.(*ssa.Call)
	if !ok {
		return nil
	}
	rf := refOf(cl.Common())
	if rf.Pkg != "strings" && rf.Pkg != "bytes" {
		return nil
	}
	switch rf.Name {
	case "Index", "LastIndex":
		sep := int64(0)
		if s, ok := constString(cl.Call.Args[1]); ok {
			sep = int64(len(s))
		} else {
			sep = max64(c.paramMinLen(cl.Call.Args[1]), c.minLen(nil, cl.Call.Args[1], map[ssa.Value]bool{}, 0))
		}
		return []indexRes{{c.key(v), "len(" + c.key(cl.Call.Args[0]) + ")", sep}}
	case "IndexByte", "LastIndexByte", "IndexRune", "IndexAny", "LastIndexAny", "IndexFunc", "LastIndexFunc":
		return []indexRes{{c.key(v), "len(" + c.key(cl.Call.Args[0]) + ")", 1}}
	}
	return nil
}

// condOperands adds definitional facts for the operands of a dominating condition.
func (c *boundsCtx) condOperands(g *dgraph, cond ssa.Value, seen map[ssa.Value]bool) {
	switch x := cond.(type) {
	case *ssa.BinOp:
		c.defFacts(g, x.X, seen, 0)
		c.defFacts(g, x.Y, seen, 0)
	}
}

func (c *boundsCtx) lenTerm(x ssa.Value) term {
	if pt, ok := x.Type().Underlying().(*types.Pointer); ok {
		if arr, ok := pt.Elem().Underlying().(*types.Array); ok {
			return term{zeroSym, arr.Len()}
		}
	}
	if arr, ok := x.Type().Underlying().(*types.Array); ok {
		return term{zeroSym, arr.Len()}
	}
	return term{"len(" + c.key(x) + ")", 0}
}

// proveIndex: 0 <= idx < len(x)
func (c *boundsCtx) proveIndex(at ssa.Instruction, x, idx ssa.Value) (bool, string) {
	g := c.graphFor(at, x, idx)
	it := c.termOf(idx)
	ln := c.lenTerm(x)
	lo := g.le(term{zeroSym, 0}, it)
	hi := g.le(term{it.sym, it.off + 1}, ln)
	if lo && hi {
		return true, "0 <= " + showTerm(it) + " < " + showTerm(ln)
	}
	why := ""
	if !lo {
		why += "cannot show " + showTerm(it) + " >= 0; "
	}
	if !hi {
		why += "cannot show " + showTerm(it) + " < " + showTerm(ln)
	}
	return false, why
}

// proveSlice: 0 <= lo <= hi <= len(x)  (cap is not modelled; len is the conservative bound)
func (c *boundsCtx) proveSlice(at ssa.Instruction, s *ssa.Slice) (bool, string) {
	vals := []ssa.Value{s.X}
	if s.Low != nil {
		vals = append(vals, s.Low)
	}
	if s.High != nil {
		vals = append(vals, s.High)
	}
	g := c.graphFor(at, vals...)
	ln := c.lenTerm(s.X)
	lo := term{zeroSym, 0}
	if s.Low != nil {
		lo = c.termOf(s.Low)
	}
	hi := ln
	if s.High != nil {
		hi = c.termOf(s.High)
	}
	var why []string
	if s.Low != nil && !g.le(term{zeroSym, 0}, lo) {
		why = append(why, "cannot show "+showTerm(lo)+" >= 0")
	}
	loLEhi := g.le(lo, hi)
	if !loLEhi && s.High != nil {
		// hi = A - B with non-constant B:  lo <= A - B  <=>  lo + B <= A  (the sum has a canonical key)
		if bo, ok := s.High.(*ssa.BinOp); ok && bo.Op == token.SUB && lo.off == 0 && lo.sym != zeroSym {
			if _, isC := constInt(bo.Y); !isC {
				a, b := lo.sym, c.key(bo.Y)
				if a > b {
					a, b = b, a
				}
				sum := term{"(" + a + "+" + b + ")", 0}
				if g.le(sum, c.termOf(bo.X)) {
					loLEhi = true
				}
			}
		}
	}
	if !loLEhi {
		why = append(why, "cannot show "+showTerm(lo)+" <= "+showTerm(hi))
	}
	if s.High != nil && !g.le(hi, ln) && !(hi.off == 0 && c.webLELen(s.High, s.X)) {
		// slices may be re-sliced up to cap: accept hi <= cap when the operand is a fresh make with that cap
		why = append(why, "cannot show "+showTerm(hi)+" <= "+showTerm(ln))
	}
	if len(why) == 0 {
		return true, "0 <= " + showTerm(lo) + " <= " + showTerm(hi) + " <= " + showTerm(ln)
	}
	return false, strings.Join(why, "; ")
}

// webLELen: v <= len(x) by induction over the web of phis v belongs to. The phis of the web only copy
// values, so every value v can take is one of the web's leaves (the non-phi operands); x is defined
// above every phi of the web (its length is the same whenever a leaf is computed), and each leaf is
// at most len(x) where it is computed: a constant <= 0, or a value the dominating conditions bound
// (`e + 1` under `e < len(x)`).
func (c *boundsCtx) webLELen(v, x ssa.Value) bool {
	ph, ok := v.(*ssa.Phi)
	if !ok {
		return false
	}
	if _, isPhi := x.(*ssa.Phi); isPhi {
		return false
	}
	var xb *ssa.BasicBlock
	if in, isIn := x.(ssa.Instruction); isIn {
		xb = in.Block()
	}
	ln := c.lenTerm(x)
	seen := map[ssa.Value]bool{}
	var leaves []ssa.Value
	good := true
	var rec func(p *ssa.Phi)
	rec = func(p *ssa.Phi) {
		if seen[p] || !good {
			return
		}
		seen[p] = true
		if xb != nil && !(xb != p.Block() && xb.Dominates(p.Block())) {
			good = false
			return
		}
		for _, e := range p.Edges {
			if q, isQ := e.(*ssa.Phi); isQ {
				rec(q)
			} else if !seen[e] {
				seen[e] = true
				leaves = append(leaves, e)
			}
		}
	}
	rec(ph)
	if !good || len(leaves) == 0 || len(seen) > 64 {
		return false
	}
	for _, lf := range leaves {
		if k, isC := constInt(lf); isC {
			if k > 0 {
				return false
			}
			continue
		}
		in, isIn := lf.(ssa.Instruction)
		if !isIn || in.Block() == nil {
			return false
		}
		g := c.graphFor(in, x, lf)
		if !g.le(c.termOf(lf), ln) {
			return false
		}
	}
	return true
}

func showTerm(t term) string {
	s := t.sym
	if s == zeroSym {
		return fmt.Sprint(t.off)
	}
	s = strings.NewReplacer("p:", "", "v:", "", "a:", "", "c:", "", "*", "").Replace(s)
	switch {
	case t.off > 0:
		return fmt.Sprintf("%s+%d", s, t.off)
	case t.off < 0:
		return fmt.Sprintf("%s%d", s, t.off)
	}
	return s
}

// ---- enumerating sites of a function ----

// exprAt renders the source expression at pos (IndexExpr / SliceExpr / TypeAssertExpr / ...).
func (p *Prog) exprAt(fn *ssa.Function, pos token.Pos, want func(ast.Node) bool) string {
	pk := p.pkgOfFn(fn)
	if pk == nil || !pos.IsValid() {
		return ""
	}
	for _, f := range pk.Syntax {
		if f.Pos() <= pos && pos <= f.End() {
			path, _ := astutil.PathEnclosingInterval(f, pos, pos)
			for _, n := range path {
				if want(n) {
					if e, ok := n.(ast.Expr); ok {
						return types.ExprString(e)
					}
				}
			}
		}
	}
	return ""
}

// boundSitesOf lists the index and slice sites of fn that are not discharged by construction
// (constant index into a fixed-size array, compiler-generated range accesses).
func (c *boundsCtx) boundSitesOf() []boundSite {
	var out []boundSite
	fn := c.fn
	forEachInstr(fn, func(_ *ssa.BasicBlock, _ int, in ssa.Instruction) {
		switch x := in.(type) {
		case *ssa.IndexAddr:
			if c.arrayConstIndex(x.X, x.Index) || c.varargsArray(x.X) {
				return
			}
			e := c.p.exprAt(fn, x.Pos(), func(n ast.Node) bool { _, ok := n.(*ast.IndexExpr); return ok })
			if e == "" {
				e = "range/implicit:" + showTerm(c.termOf(x.Index))
			}
			out = append(out, boundSite{"index", in, e})
		case *ssa.Index:
			if c.arrayConstIndex(x.X, x.Index) {
				return
			}
			e := c.p.exprAt(fn, x.Pos(), func(n ast.Node) bool { _, ok := n.(*ast.IndexExpr); return ok })
			if e == "" {
				e = "implicit:" + showTerm(c.termOf(x.Index))
			}
			out = append(out, boundSite{"index", in, e})
		case *ssa.Slice:
			if x.Low == nil && x.High == nil {
				return
			}
			e := c.p.exprAt(fn, x.Pos(), func(n ast.Node) bool { _, ok := n.(*ast.SliceExpr); return ok })
			if e == "" {
				e = "implicit-slice"
			}
			out = append(out, boundSite{"slice", in, e})
		case *ssa.Call:
			// strings.Repeat / bytes.Repeat panic on a negative count
			rf := refOf(x.Common())
			// copy(dst, src) silently stops at len(dst): a destination not known to be long enough
			// truncates the data
			if b, isB := x.Call.Value.(*ssa.Builtin); isB && b.Name() == "copy" && len(x.Call.Args) == 2 {
				if x.Call.Args[0] == x.Call.Args[1] {
					return
				}
				e := c.p.exprAt(fn, x.Pos(), func(n ast.Node) bool { _, ok := n.(*ast.CallExpr); return ok })
				if e == "" {
					e = "copy"
				}
				out = append(out, boundSite{"copy", in, e})
				return
			}
			if (rf.is("strings", "", "Repeat") || rf.is("bytes", "", "Repeat")) && len(x.Call.Args) == 2 {
				if k, isK := constInt(x.Call.Args[1]); isK && k >= 0 {
					return
				}
				e := c.p.exprAt(fn, x.Pos(), func(n ast.Node) bool { _, ok := n.(*ast.CallExpr); return ok })
				if e == "" {
					e = "Repeat:" + showTerm(c.termOf(x.Call.Args[1]))
				}
				out = append(out, boundSite{"count", in, e})
			}
		case *ssa.MakeSlice:
			// make panics on a negative length
			if k, isK := constInt(x.Len); isK && k >= 0 {
				return
			}
			e := c.p.exprAt(fn, x.Pos(), func(n ast.Node) bool { _, ok := n.(*ast.CallExpr); return ok })
			if e == "" {
				e = "make:" + showTerm(c.termOf(x.Len))
			}
			out = append(out, boundSite{"count", in, e})
		}
	})
	return out
}

// proveNonNeg: 0 <= v at the instruction.
func (c *boundsCtx) proveNonNeg(at ssa.Instruction, v ssa.Value) (bool, string) {
	g := c.graphFor(at, v)
	t := c.termOf(v)
	if g.le(term{zeroSym, 0}, t) {
		return true, "0 <= " + showTerm(t)
	}
	return false, "cannot show " + showTerm(t) + " >= 0"
}

func (c *boundsCtx) arrayConstIndex(x, idx ssa.Value) bool {
	var arr *types.Array
	if pt, ok := x.Type().Underlying().(*types.Pointer); ok {
		arr, _ = pt.Elem().Underlying().(*types.Array)
	} else {
		arr, _ = x.Type().Underlying().(*types.Array)
	}
	if arr == nil {
		return false
	}
	k, ok := constInt(idx)
	return ok && k >= 0 && k < arr.Len()
}

func (c *boundsCtx) varargsArray(x ssa.Value) bool {
	al, ok := x.(*ssa.Alloc)
	return ok && (al.Comment == "varargs" || al.Comment == "slicelit" || al.Comment == "complit")
}

// canonSite: a bounds site named by the definitions of its operands (no variable names).
func canonSite(fnkey string, s boundSite) string {
	defer func(d int, a bool) { renderDepth, renderAllocs = d, a }(renderDepth, renderAllocs)
	renderDepth, renderAllocs = 6, true
	var parts []string
	switch x := s.in.(type) {
	case *ssa.IndexAddr:
		parts = []string{renderValue(x.X, 0), renderValue(x.Index, 0)}
	case *ssa.Index:
		parts = []string{renderValue(x.X, 0), renderValue(x.Index, 0)}
	case *ssa.Slice:
		lo, hi := "", ""
		if x.Low != nil {
			lo = renderValue(x.Low, 0)
		}
		if x.High != nil {
			hi = renderValue(x.High, 0)
		}
		parts = []string{renderValue(x.X, 0), lo, hi}
	default:
		return ""
	}
	// a phi renders as "φ:type" only; add the shape of its definition so that two different loop
	// variables of one function are told apart
	var shapes []string
	for _, v := range s.in.Operands(nil) {
		if v == nil || *v == nil {
			continue
		}
		val := *v
		if bo, ok := val.(*ssa.BinOp); ok {
			val = bo.X
		}
		if c, ok := val.(*ssa.Call); ok && len(c.Call.Args) > 0 {
			val = c.Call.Args[0]
		}
		if ph, ok := val.(*ssa.Phi); ok {
			shapes = append(shapes, phiShape(ph))
		}
	}
	return fnkey + ":" + s.kind + ":" + strings.Join(parts, "|") + "#" + strings.Join(shapes, ";")
}

// phiShape: how a phi is defined, one level deep: constants, self±constant, self±len, another phi, other.
func phiShape(ph *ssa.Phi) string {
	set := map[string]bool{}
	for _, e := range ph.Edges {
		switch x := e.(type) {
		case *ssa.Const:
			set[x.String()] = true
		case *ssa.Phi:
			if x == ph {
				continue
			}
			set["φ"] = true
		case *ssa.BinOp:
			side := "other"
			if x.X == ssa.Value(ph) {
				side = "self"
			} else if _, isPhi := x.X.(*ssa.Phi); isPhi {
				side = "φ"
			}
			if k, isK := constInt(x.Y); isK {
				set[fmt.Sprintf("%s%s%d", side, x.Op, k)] = true
			} else if c, isC := x.Y.(*ssa.Call); isC && isCallTo(c, "builtin", "", "len") {
				set[side+x.Op.String()+"len"] = true
			} else {
				set[side+x.Op.String()+"v"] = true
			}
		default:
			set[fmt.Sprintf("%T", e)] = true
		}
	}
	var ks []string
	for k := range set {
		ks = append(ks, k)
	}
	sort.Strings(ks)
	return "{" + strings.Join(ks, ",") + "}"
}

// checkBounds runs the prover over fn and reports one obligation per site.
func checkBounds(p *Prog, r *Report, rule string, fn *ssa.Function, audited map[string]string) (proved, unproved int) {
	c := newBoundsCtx(p, fn)
	key := fnKey(fn)
	sites := c.boundSitesOf()
	sort.SliceStable(sites, func(i, j int) bool { return sites[i].in.Pos() < sites[j].in.Pos() })
	for _, s := range sites {
		site := key + ":" + s.expr
		var ok bool
		var why string
		switch x := s.in.(type) {
		case *ssa.IndexAddr:
			ok, why = c.proveIndex(s.in, x.X, x.Index)
		case *ssa.Index:
			ok, why = c.proveIndex(s.in, x.X, x.Index)
		case *ssa.Slice:
			ok, why = c.proveSlice(s.in, x)
		case *ssa.Call:
			if s.kind == "copy" {
				g := c.graphFor(s.in, x.Call.Args[0], x.Call.Args[1])
				src, dst := c.lenTerm(x.Call.Args[1]), c.lenTerm(x.Call.Args[0])
				if g.le(src, dst) {
					ok, why = true, showTerm(src)+" <= "+showTerm(dst)
				} else {
					ok, why = false, "cannot show "+showTerm(src)+" <= "+showTerm(dst)+": copy stops at the end of the destination and the rest of the source is silently dropped"
				}
				break
			}
			ok, why = c.proveNonNeg(s.in, x.Call.Args[1])
		case *ssa.MakeSlice:
			ok, why = c.proveNonNeg(s.in, x.Len)
		}
		pos := p.Pos(s.in.Pos())
		if ok {
			proved++
			r.OK(rule, site, pos, why)
			continue
		}
		if reason, isAud := audited[site]; isAud {
			if os.Getenv("SCALINT_LEARN") != "" {
				fmt.Fprintf(os.Stderr, "LEARN-AUDITCANON\t%q: %q,\n", canonSite(key, s), site)
			}
			r.Audit(rule, site, pos, reason)
			continue
		}
		// the audited entry is named by the source expression; the same site written with other
		// variable names (or through a named local) is recognised by its rendering by definition
		if src, ok := auditCanon[canonSite(key, s)]; ok {
			if reason, isAud := audited[src]; isAud {
				r.Audit(rule, site, pos, reason+" (audited as "+src[strings.LastIndex(src, ":")+1:]+")")
				continue
			}
		}
		unproved++
		r.Fail(rule, site, pos, s.kind+" expression "+s.expr+" is not guarded: "+why+" (no dominating length/index check and no API contract establishes it; a crafted input can make it panic)")
	}
	return
}

// ---- call-site facts about parameters (unexported functions only) ----

type callIndex struct {
	callers   map[*ssa.Function][]*ssa.Call
	addrTaken map[*ssa.Function]bool
}

func (p *Prog) calls() *callIndex {
	if p.cidx != nil {
		return p.cidx
	}
	ci := &callIndex{callers: map[*ssa.Function][]*ssa.Call{}, addrTaken: map[*ssa.Function]bool{}}
	for _, fn := range p.allFns {
		if fn.Synthetic != "" {
			continue // wrappers / thunks are only reachable through interfaces or method values
		}
		forEachInstr(fn, func(_ *ssa.BasicBlock, _ int, in ssa.Instruction) {
			var ops [16]*ssa.Value
			for _, op := range in.Operands(ops[:0]) {
				if op == nil || *op == nil {
					continue
				}
				if f, ok := (*op).(*ssa.Function); ok {
					if c, isCall := in.(ssa.CallInstruction); isCall && c.Common().Value == ssa.Value(f) {
						if cc, ok := in.(*ssa.Call); ok {
							ci.callers[f] = append(ci.callers[f], cc)
						} else {
							ci.addrTaken[f] = true // go / defer: treat conservatively
						}
						continue
					}
					ci.addrTaken[f] = true
				}
			}
		})
	}
	p.cidx = ci
	return ci
}

// closedWorld: every call of fn is visible (unexported function, or method of an unexported type,
// never used as a value, not a method that could satisfy an interface call).
func (p *Prog) closedWorld(fn *ssa.Function) bool {
	if fn.Parent() != nil || fn.Object() == nil {
		return false
	}
	ci := p.calls()
	if ci.addrTaken[fn] || len(ci.callers[fn]) == 0 {
		return false
	}
	if recv := fn.Signature.Recv(); recv != nil {
		// a method may also be reached through an interface: accept only methods of unexported
		// types whose name is in no interface of the analysed program or of the usual std ones
		n := namedOf(recv.Type())
		if n == nil || n.Obj().Exported() || p.ifaceMethodNames()[fn.Name()] {
			return false
		}
		return true
	}
	return !fn.Object().Exported()
}

type paramFact struct {
	lb     int64 // numeric lower bound for int params (inf = unknown)
	minLen int64 // for string/slice params
}

var paramFactCache = map[*ssa.Function][]paramFact{}
var paramFactBusy = map[*ssa.Function]bool{}

func (p *Prog) paramFactsOf(fn *ssa.Function) []paramFact {
	if pf, ok := paramFactCache[fn]; ok {
		return pf
	}
	out := make([]paramFact, len(fn.Params))
	for i := range out {
		out[i] = paramFact{lb: -inf, minLen: 0}
	}
	if paramFactBusy[fn] || !p.closedWorld(fn) {
		return out
	}
	paramFactBusy[fn] = true
	defer delete(paramFactBusy, fn)
	for i, prm := range fn.Params {
		isInt := isIntLike(prm.Type())
		isSS := isSliceOrString(prm.Type())
		if !isInt && !isSS {
			continue
		}
		best := inf
		for _, call := range p.calls().callers[fn] {
			if i >= len(call.Call.Args) {
				best = -inf
				break
			}
			arg := call.Call.Args[i]
			cc := newBoundsCtx(p, call.Parent())
			g := cc.graphFor(call, arg)
			var q string
			if isInt {
				t := cc.termOf(arg)
				if t.sym == zeroSym {
					if t.off < best {
						best = t.off
					}
					continue
				}
				q = t.sym
				x, ok := g.idx[q]
				z := g.idx[zeroSym]
				if !ok || g.w[x][z] >= inf {
					best = -inf
					break
				}
				if lb := -g.w[x][z] + t.off; lb < best {
					best = lb
				}
			} else {
				q = "len(" + cc.key(arg) + ")"
				x, ok := g.idx[q]
				z := g.idx[zeroSym]
				if !ok || g.w[x][z] >= inf {
					best = 0
					break
				}
				if lb := -g.w[x][z]; lb < best {
					best = lb
				}
			}
		}
		if best == inf {
			continue
		}
		if isInt {
			out[i].lb = best
		} else if best > 0 {
			out[i].minLen = best
		}
	}
	paramFactCache[fn] = out
	return out
}

func (c *boundsCtx) paramFacts(g *dgraph) {
	pf := c.p.paramFactsOf(c.fn)
	for i, prm := range c.fn.Params {
		if i >= len(pf) {
			break
		}
		if isIntLike(prm.Type()) && pf[i].lb > -inf {
			g.addLE(term{zeroSym, pf[i].lb}, term{c.key(prm), 0})
		}
		if isSliceOrString(prm.Type()) && pf[i].minLen > 0 {
			g.addLE(term{zeroSym, pf[i].minLen}, term{"len(" + c.key(prm) + ")", 0})
		}
	}
}

func (c *boundsCtx) paramMinLen(v ssa.Value) int64 {
	prm, ok := v.(*ssa.Parameter)
	if !ok {
		return 0
	}
	pf := c.p.paramFactsOf(c.fn)
	for i, q := range c.fn.Params {
		if q == prm && i < len(pf) {
			return pf[i].minLen
		}
	}
	return 0
}

func (p *Prog) ifaceMethodNames() map[string]bool {
	if p.imn != nil {
		return p.imn
	}
	m := map[string]bool{}
	for _, n := range []string{"String", "Error", "Len", "Less", "Swap", "Read", "Write", "Close", "Seek", "ReadAt", "WriteTo", "ReadFrom", "Unwrap", "Is", "As", "MarshalJSON", "UnmarshalJSON", "MarshalText", "UnmarshalText", "UnmarshalYAML", "MarshalYAML", "UnmarshalXML", "MarshalXML", "UnmarshalTOML", "Format", "GoString", "Scan", "Value", "Name", "Size", "Mode", "ModTime", "IsDir", "Sys", "Type", "Info", "Stat", "Open", "ReadDir", "Push", "Pop"} {
		m[n] = true
	}
	for _, pk := range p.Pkgs {
		sc := pk.Types.Scope()
		for _, name := range sc.Names() {
			tn, ok := sc.Lookup(name).(*types.TypeName)
			if !ok {
				continue
			}
			if it, ok := tn.Type().Underlying().(*types.Interface); ok {
				for i := 0; i < it.NumMethods(); i++ {
					m[it.Method(i).Name()] = true
				}
			}
		}
	}
	p.imn = m
	return m
}

// phiWebBounds explores the web of phis and +/- constant steps reachable from ph. If every leaf is
// an integer constant: with only non-negative steps the web is bounded below by the smallest
// leaf, with only non-positive steps above by the largest.
func phiWebBounds(ph *ssa.Phi) (lo, hi int64, ok bool) {
	seen := map[ssa.Value]bool{}
	minLeaf, maxLeaf := inf, -inf
	pos, neg := false, false
	good := true
	var rec func(v ssa.Value)
	rec = func(v ssa.Value) {
		if seen[v] || !good {
			return
		}
		seen[v] = true
		switch x := v.(type) {
		case *ssa.Phi:
			for _, e := range x.Edges {
				rec(e)
			}
		case *ssa.Const:
			k, isInt := constInt(x)
			if !isInt {
				good = false
				return
			}
			if k < minLeaf {
				minLeaf = k
			}
			if k > maxLeaf {
				maxLeaf = k
			}
		case *ssa.BinOp:
			k, isC := constInt(x.Y)
			if cl, isL := x.Y.(*ssa.Call); isL && !isC && (x.Op == token.ADD || x.Op == token.SUB) && (isCallTo(cl, "builtin", "", "len") || isCallTo(cl, "builtin", "", "cap")) {
				// a step by a length: of unknown size but never negative
				if x.Op == token.ADD {
					pos = true
				} else {
					neg = true
				}
				rec(x.X)
				return
			}
			if !isC || (x.Op != token.ADD && x.Op != token.SUB) {
				good = false
				return
			}
			if x.Op == token.SUB {
				k = -k
			}
			if k > 0 {
				pos = true
			} else if k < 0 {
				neg = true
			}
			rec(x.X)
		case *ssa.Convert:
			rec(x.X)
		default:
			good = false
		}
	}
	rec(ph)
	if !good || minLeaf == inf {
		return 0, 0, false
	}
	lo, hi = -inf, inf
	if !neg {
		lo = minLeaf
	}
	if !pos {
		hi = maxLeaf
	}
	return lo, hi, lo > -inf || hi < inf
}
