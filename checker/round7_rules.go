package main

import (
	"fmt"
	"go/token"
	"go/types"
	"os"
	"sort"
	"strings"

	"golang.org/x/tools/go/ssa"
)

var _ = types.Typ
var _ = sort.Strings
var _ = token.ADD

// seenSetIsKeptCurrent (test-and-set): a loop that asks a local map "did I take this one already?"
// and, when the answer is no, adds something to a result list, records the key in that same map on
// every way back to the loop head — otherwise the second element with the same key is taken again
// (an extractor required by two detectors is enabled, run and reported twice). The rule is armed
// for the maps that are written somewhere in the function (a set that is being built, not a
// parameter consulted read-only).
func seenSetIsKeptCurrent(p *Prog, r *Report, rule string, fns []*ssa.Function, floor int, msg string) {
	n := 0
	for _, fn := range fns {
		forEachInstr(fn, func(b *ssa.BasicBlock, _ int, in ssa.Instruction) {
			lk, ok := in.(*ssa.Lookup)
			if !ok {
				return
			}
			mm, isMake := lk.X.(*ssa.MakeMap)
			if !isMake || mm.Parent() != fn {
				return
			}
			hdr := loopHeaderOf(b)
			if hdr == nil {
				return
			}
			body := naturalLoop(hdr)
			// the "present" test
			var okv ssa.Value = lk
			if lk.CommaOk {
				okv = nil
				for _, ref := range *lk.Referrers() {
					if ex, isEx := ref.(*ssa.Extract); isEx && ex.Index == 1 {
						okv = ex
					}
				}
			} else if bt, isB := lk.Type().Underlying().(*types.Basic); !isB || bt.Kind() != types.Bool {
				return
			}
			if okv == nil {
				return
			}
			_, absent := guardEdges(fn, func(c ssa.Value) (bool, bool) { return c == okv, true })
			if len(absent) == 0 {
				return
			}
			isUpdate := func(i ssa.Instruction) bool {
				mu, isMU := i.(*ssa.MapUpdate)
				return isMU && mu.Map == ssa.Value(mm) && sameKeyValue(mu.Key, lk.Index)
			}
			// the map is updated with this key somewhere in the loop or was meant to be: armed when
			// the function writes the map at all
			writes := false
			forEachInstr(fn, func(_ *ssa.BasicBlock, _ int, i ssa.Instruction) {
				if mu, isMU := i.(*ssa.MapUpdate); isMU && mu.Map == ssa.Value(mm) {
					writes = true
				}
			})
			if !writes {
				return
			}
			// appends inside the loop
			var apps []*ssa.Call
			forEachInstr(fn, func(ab *ssa.BasicBlock, _ int, i ssa.Instruction) {
				if c, isC := i.(*ssa.Call); isC && body[ab] && isCallTo(c, "builtin", "", "append") {
					apps = append(apps, c)
				}
			})
			if len(apps) == 0 {
				return
			}
			n++
			site := fnKey(fn) + ":seen-set:" + renderValue(lk.Index, 1)
			bad := ""
			for _, ed := range absent {
				if !body[ed.From] {
					continue
				}
				for _, a := range apps {
					w1 := searchPath(Point{ed.From, len(ed.From.Instrs) - 1}, ed.Succ, func(i ssa.Instruction) bool { return i == ssa.Instruction(a) }, func(i ssa.Instruction) bool {
						return isUpdate(i) || (i.Block() == hdr && i == hdr.Instrs[0])
					}, nil)
					if w1 == nil {
						continue
					}
					w2 := findPath(pointOf(a), func(i ssa.Instruction) bool { return i.Block() == hdr && i == hdr.Instrs[0] }, isUpdate, nil)
					if w2 != nil {
						bad = strings.Join(w1, "→") + " … " + strings.Join(w2, "→")
					}
				}
			}
			r.Check(bad == "", rule, site, p.Pos(lk.Pos()), "an element taken because its key was not in the set is recorded in the set before the next element is looked at", msg+"; witness path (SSA blocks): "+bad)
		})
	}
	r.Instances(rule, "seen-sets consulted and extended in a loop", n, floor)
	if os.Getenv("SCALINT_LEARN") != "" {
		fmt.Fprintf(os.Stderr, "LEARN-SEENSET %s %d\n", rule, n)
	}
}

// firstMatchWins: fn searches the collection it is given (parameter pi) front to back and answers
// with the first element that qualifies: whatever it returns after the loop does not come out of
// the loop (a value defined in the loop body that survives to a return below the loop is the *last*
// element that qualified — for a requirement declared twice, the declaration the writer then edits
// is not the one the resolver reads).
func firstMatchWins(p *Prog, r *Report, rule string, fn *ssa.Function, pi int, why string) {
	if fn == nil || pi >= len(fn.Params) {
		r.Undecided(rule, "anchor:first-match", "-", "function not found")
		return
	}
	var hdr *ssa.BasicBlock
	for _, b := range fn.Blocks {
		if coll, _, ok := loopScansAll(b); ok && coll == ssa.Value(fn.Params[pi]) {
			hdr = b
		}
	}
	site := fnKey(fn) + ":first-match"
	if hdr == nil {
		r.Undecided(rule, site, p.Pos(fn.Pos()), "no front-to-back loop over the parameter found")
		return
	}
	body := naturalLoop(hdr)
	var entry *ssa.BasicBlock
	for _, s := range hdr.Succs {
		if body[s] {
			entry = s
		}
	}
	inLoop, bad := 0, ""
	for _, ret := range returnsOf(fn) {
		if len(ret.Results) == 0 {
			continue
		}
		if entry != nil && entry.Dominates(ret.Block()) {
			inLoop++
			continue
		}
		for _, l := range phiLeaves(retVal(ret, 0), ret.Block()) {
			in, isIn := l.val.(ssa.Instruction)
			if isIn && in.Block() != nil && body[in.Block()] && in.Block() != hdr {
				bad = p.Pos(ret.Pos())
			}
		}
	}
	r.Check(inLoop > 0 && bad == "", rule, site, p.Pos(fn.Pos()), "the answer is returned from inside the loop, on the first element that qualifies", why)
}

// pruningKeepsWholeChain: when the final view is pruned to the required files, a required symlink
// keeps alive every node the view will pass through when the link is opened — as many hops as the
// resolver allows. Each of the symlinkDepth iterations of the marking loop therefore first takes
// one hop (tree.Get of the current node's target) and then marks the node it arrived at: an
// iteration that marks the node it started from spends the first of its hops on the link itself,
// and the end of a chain of exactly the maximum length is pruned away although nothing on it is
// missing.
func pruningKeepsWholeChain(p *Prog, r *Report, rule string) {
	fn := p.Func(imgPkg, "removeUnnecessaryFileNodes")
	if fn == nil {
		r.Undecided(rule, "anchor:removeUnnecessaryFileNodes", "-", "not found")
		return
	}
	n := 0
	for _, f := range withAnon(fn) {
		forEachInstr(f, func(b *ssa.BasicBlock, _ int, in ssa.Instruction) {
			mu, ok := in.(*ssa.MapUpdate)
			if !ok {
				return
			}
			if v, isB := constBool(mu.Value); !isB || !v {
				return
			}
			hdr := loopHeaderOf(b)
			if hdr == nil {
				return
			}
			n++
			site := fnKey(fn) + ":marks-the-node-reached"
			// the key: <node>.virtualPath — whose node?
			var node ssa.Value
			if ld, isLd := mu.Key.(*ssa.UnOp); isLd && ld.Op == token.MUL {
				if fa, isFA := ld.X.(*ssa.FieldAddr); isFA {
					node = fa.X
				}
			}
			okNode := false
			if c, _ := callValue(node); c != nil && treeCall("Get")(c) && naturalLoop(hdr)[c.Block()] {
				okNode = true
			}
			r.Check(okNode, rule, site, p.Pos(mu.Pos()), "each iteration marks the node its own tree.Get returned", "the loop that keeps a required symlink's chain alive marks a node carried over from the previous iteration (or the link itself) instead of the node reached by this iteration's hop: it preserves one hop fewer than the resolver will follow, so Stat/Open of a required link whose chain has exactly the maximum number of hops fails with 'file does not exist' although nothing on the chain is missing")
		})
	}
	r.Instances(rule, "chain-marking stores in the pruning pass", n, 1)
}

// deferredStoreKeepsError: a deferred function literal that assigns to its function's error result
// (`defer func() { err = f.Close() }()`) runs after the body has decided what to return. The
// assignment keeps a failure the body reported when (a) it is made only if the result is still nil,
// or (b) only if the new value is not nil (a failure is still reported), or (c) the new value is
// built from the old one (errors.Join, %w). An unconditional assignment of a value that may be nil
// turns "the copy failed" into success whenever the deferred call itself succeeds.
func deferredStoreKeepsError(p *Prog, r *Report, rule string, fns []*ssa.Function, why string) {
	n := 0
	for _, fn := range fns {
		forEachInstr(fn, func(_ *ssa.BasicBlock, _ int, in ssa.Instruction) {
			d, ok := in.(*ssa.Defer)
			if !ok {
				return
			}
			mc, ok := d.Call.Value.(*ssa.MakeClosure)
			if !ok {
				return
			}
			lit, _ := mc.Fn.(*ssa.Function)
			if lit == nil {
				return
			}
			for i, bnd := range mc.Bindings {
				al, isAl := bnd.(*ssa.Alloc)
				if !isAl || i >= len(lit.FreeVars) {
					continue
				}
				pt, isP := al.Type().Underlying().(*types.Pointer)
				if !isP || !isErrorT(pt.Elem()) {
					continue
				}
				// the function's result: loaded for a return
				isResult := false
				for _, ret := range returnsOf(fn) {
					for _, rv := range ret.Results {
						if ld, isLd := rv.(*ssa.UnOp); isLd && ld.Op == token.MUL && ld.X == ssa.Value(al) {
							isResult = true
						}
					}
				}
				if !isResult {
					continue
				}
				fv := lit.FreeVars[i]
				isOld := func(v ssa.Value) bool {
					ld, isLd := v.(*ssa.UnOp)
					return isLd && ld.Op == token.MUL && ld.X == ssa.Value(fv)
				}
				forEachInstr(lit, func(sb *ssa.BasicBlock, _ int, si ssa.Instruction) {
					st, isSt := si.(*ssa.Store)
					if !isSt || st.Addr != ssa.Value(fv) {
						return
					}
					n++
					site := fmt.Sprintf("%s:deferred-assignment#%d", fnKey(fn), n)
					good := false
					if nn, known := nilStateOf(st.Val, nil); known && nn {
						good = true
					}
					if derivesFrom(st.Val, isOld, deriveOpts{throughCall: func(*ssa.CallCommon) bool { return true }}) {
						good = true
					}
					_, oldNil := guardEdges(lit, condNonNil(isOld))
					if len(oldNil) > 0 && onlyVia(lit, sb, oldNil) {
						good = true
					}
					newNonNil, _ := guardEdges(lit, condNonNil(func(v ssa.Value) bool { return v == st.Val }))
					if len(newNonNil) > 0 && onlyVia(lit, sb, newNonNil) {
						good = true
					}
					r.Check(good, rule, site, p.Pos(st.Pos()), "the deferred assignment keeps an error the body reported", why)
				})
			}
		})
	}
	r.Count("assignments to an error result in deferred literals", n)
}

func isErrorT(t types.Type) bool {
	n, ok := t.(*types.Named)
	return ok && n.Obj().Pkg() == nil && n.Obj().Name() == "error"
}

// guardedInsertSameCell: `if _, ok := m[a][k]; !ok { m[b][k] = v }` — an insertion into a map of
// maps made because the cell was found empty tests the very cell it fills: the outer keys of the
// test and of the insertion are the same value. With different outer keys the test looks at another
// (usually absent) inner map, always answers "empty", and a value set earlier is overwritten.
func guardedInsertSameCell(p *Prog, r *Report, rule string, fn *ssa.Function, floor int, why string) {
	if fn == nil {
		r.Undecided(rule, "anchor:guarded-insert", "-", "function not found")
		return
	}
	inner := func(v ssa.Value) (outer, key ssa.Value, ok bool) {
		lk, isLk := v.(*ssa.Lookup)
		if !isLk || lk.CommaOk {
			return nil, nil, false
		}
		if _, isMap := lk.X.Type().Underlying().(*types.Map); !isMap {
			return nil, nil, false
		}
		return lk.X, lk.Index, true
	}
	isInnerMap := func(v ssa.Value) bool {
		mt, isMap := v.Type().Underlying().(*types.Map)
		if !isMap {
			return false
		}
		_, valIsMap := mt.Elem().Underlying().(*types.Map)
		return !valIsMap
	}
	n := 0
	top := fn
	for _, fn := range withAnon(top) {
		forEachInstr(fn, func(b *ssa.BasicBlock, _ int, in ssa.Instruction) {
			mu, ok := in.(*ssa.MapUpdate)
			if !ok || !isInnerMap(mu.Map) {
				return
			}
			forEachInstr(fn, func(_ *ssa.BasicBlock, _ int, in2 ssa.Instruction) {
				lk, ok := in2.(*ssa.Lookup)
				if !ok || !lk.CommaOk || !sameKeyValue(lk.Index, mu.Key) || !types.Identical(lk.X.Type(), mu.Map.Type()) {
					return
				}
				// the two inner maps: one value (a local the inner map was bound to), or two
				// look-ups in the same outer map — then the outer keys decide
				same, related := false, false
				if lk.X == mu.Map {
					same, related = true, true
				} else if o1, k1, ok1 := inner(mu.Map); ok1 {
					if o2, k2, ok2 := inner(lk.X); ok2 && sameValue(o1, o2) {
						related = true
						same = sameKeyValue(k1, k2)
					}
				}
				if !related {
					return
				}
				var okv ssa.Value
				for _, ref := range *lk.Referrers() {
					if ex, isEx := ref.(*ssa.Extract); isEx && ex.Index == 1 {
						okv = ex
					}
				}
				if okv == nil {
					return
				}
				_, absent := guardEdges(fn, func(c ssa.Value) (bool, bool) { return c == okv, true })
				if len(absent) == 0 || !onlyVia(fn, b, absent) {
					return
				}
				n++
				r.Check(same, rule, fmt.Sprintf("%s:guarded-insert#%d", fnKey(top), n), p.Pos(mu.Pos()), "the cell found empty is the cell filled", why)
			})
		})
	}
	r.Instances(rule, "insertions into a map of maps guarded by an emptiness test", n, floor)
}

// sameKeyValue: the same SSA value, or two values that are not merges and are computed the same way
// (two loads of one field, two equal constants). Two different phis are different variables.
func sameKeyValue(a, b ssa.Value) bool {
	if a == b {
		return true
	}
	_, pa := a.(*ssa.Phi)
	_, pb := b.(*ssa.Phi)
	if pa || pb {
		return false
	}
	return renderValue(a, 0) == renderValue(b, 0)
}

// indexKeepsOnlyFiltered: packageindex.New looks at every extracted package and indexes those that
// have a package URL. Whatever the index stores comes out of that loop, element by element: the
// parameter slice as a whole (or a copy of it) is stored in no field — a second, unfiltered list
// kept "for a stable order" answers GetAll with packages the other queries do not know.
func indexKeepsOnlyFiltered(p *Prog, r *Report, rule string) {
	fn := p.Func("packageindex", "New")
	if fn == nil || len(fn.Params) == 0 {
		r.Undecided(rule, "anchor:packageindex.New", "-", "not found")
		return
	}
	prm := fn.Params[0]
	var whole func(v ssa.Value, d int) bool
	whole = func(v ssa.Value, d int) bool {
		if d > 6 {
			return false
		}
		switch x := v.(type) {
		case *ssa.Parameter:
			return x == prm
		case *ssa.Slice:
			return whole(x.X, d+1)
		case *ssa.Phi:
			for _, e := range x.Edges {
				if whole(e, d+1) {
					return true
				}
			}
		case *ssa.ChangeType:
			return whole(x.X, d+1)
		case *ssa.Call:
			rf := refOf(x.Common())
			if rf.is("slices", "", "Clone") || rf.is("slices", "", "Clip") || rf.is("slices", "", "Concat") || isCallTo(x, "builtin", "", "append") {
				for _, a := range x.Call.Args {
					if whole(a, d+1) {
						return true
					}
				}
			}
		}
		return false
	}
	bad := ""
	n := 0
	forEachInstr(fn, func(_ *ssa.BasicBlock, _ int, in ssa.Instruction) {
		st, ok := in.(*ssa.Store)
		if !ok {
			return
		}
		if s, _, _, isF := fieldOf(st.Addr); !isF || s != "PackageIndex" {
			return
		}
		n++
		if whole(st.Val, 0) {
			bad = p.Pos(st.Pos())
		}
	})
	r.Check(n > 0 && bad == "", rule, fnKey(fn)+":stores-only-indexed", p.Pos(fn.Pos()), "the index stores nothing but what the filtering loop built", "packageindex.New keeps the list it was given (or a copy of it) in the index beside the filtered map: packages without a package URL, which the loop leaves out, are then handed to every detector that enumerates the index with GetAll, and GetAll disagrees with GetAllOfType/GetSpecific")
}

// nullableResultDerefs (a contradiction rule): a first-party function with one pointer result that
// returns the constant nil on some path and something else on another is believed to answer nil
// sometimes (ToPURL of an SBOM package that only has a CPE). Where its result — from a static call,
// or from a call through an interface of a method with the name of such a function — is
// dereferenced directly (a field selected, the pointer loaded), a `!= nil` test of that result
// dominates the dereference.
func nullableResultDerefs(p *Prog, r *Report, rule string, fns []*ssa.Function, why string) {
	believed := map[*ssa.Function]bool{}
	names := map[string]bool{}
	nullFields := map[string]bool{}
	for _, fn := range p.allFns {
		forEachInstr(fn, func(_ *ssa.BasicBlock, _ int, in ssa.Instruction) {
			if v, _, ok := nilFact(valueOfInstr(in), true); ok {
				if k, isF := nullablePtrField(v); isF {
					nullFields[k] = true
				}
			}
		})
	}
	for _, fn := range p.allFns {
		if fn.Signature.Results().Len() != 1 {
			continue
		}
		if _, isPtr := fn.Signature.Results().At(0).Type().Underlying().(*types.Pointer); !isPtr {
			continue
		}
		nilRet, other := false, false
		for _, ret := range returnsOf(fn) {
			if len(ret.Results) != 1 {
				continue
			}
			if isNilConst(ret.Results[0]) {
				nilRet = true
			} else {
				other = true
				// a field that is compared with nil somewhere, handed out as it is
				if k, ok := nullablePtrField(ret.Results[0]); ok && nullFields[k] {
					nilRet = true
				}
			}
		}
		if nilRet && other {
			believed[fn] = true
			if fn.Signature.Recv() != nil {
				names[fn.Name()+"|"+types.TypeString(fn.Signature.Results().At(0).Type(), nil)] = true
			}
		}
	}
	n := 0
	for _, fn := range fns {
		forEachInstr(fn, func(b *ssa.BasicBlock, _ int, in ssa.Instruction) {
			var ptr ssa.Value
			switch x := in.(type) {
			case *ssa.UnOp:
				if x.Op == token.MUL {
					ptr = x.X
				}
			case *ssa.FieldAddr:
				ptr = x.X
			}
			c, isC := ptr.(*ssa.Call)
			if !isC {
				return
			}
			what := ""
			if sc := c.Call.StaticCallee(); sc != nil {
				if believed[sc] || believed[sc.Origin()] {
					what = fnKey(sc)
				}
			} else if c.Call.IsInvoke() {
				if names[c.Call.Method.Name()+"|"+types.TypeString(c.Type(), nil)] {
					what = c.Call.Method.Name()
				}
			}
			if what == "" {
				return
			}
			n++
			nonNil, _ := guardEdges(fn, condNonNil(func(v ssa.Value) bool { return v == ssa.Value(c) }))
			r.Check(len(nonNil) > 0 && onlyVia(fn, b, nonNil), rule, fmt.Sprintf("%s:result-of-%s", fnKey(fn), what[strings.LastIndex(what, "/")+1:]), p.Pos(in.Pos()), "dereferenced only under a `!= nil` test of the result", fmt.Sprintf(why, what[strings.LastIndex(what, "/")+1:]))
		})
	}
	r.Count("dereferences of results believed to be nil sometimes", n)
}

func valueOfInstr(in ssa.Instruction) ssa.Value {
	v, _ := in.(ssa.Value)
	return v
}

// nullablePtrField: v loads a pointer-typed field of a first-party struct; the key names the field.
func nullablePtrField(v ssa.Value) (string, bool) {
	ld, ok := v.(*ssa.UnOp)
	if !ok || ld.Op != token.MUL {
		return "", false
	}
	fa, ok := ld.X.(*ssa.FieldAddr)
	if !ok {
		return "", false
	}
	if _, isPtr := ld.Type().Underlying().(*types.Pointer); !isPtr {
		return "", false
	}
	s, f, _, ok := fieldOf(fa)
	if !ok {
		return "", false
	}
	n := namedOf(fa.X.Type())
	if n == nil || n.Obj().Pkg() == nil || !strings.HasPrefix(n.Obj().Pkg().Path(), modPath) {
		return "", false
	}
	return n.Obj().Pkg().Path() + "." + s + "." + f, true
}

// derivedGraphsOwnTheirEdges: the relax strategy's concurrent patch attempts all start from the same
// resolved manifest and read the same *DependencySubgraph values. A method that derives a new
// subgraph from its receiver and then edits the new nodes' edge lists in place (slices.DeleteFunc
// shifts and zeroes the backing array) may therefore only edit lists the new nodes own: every value
// stored into an edge-list field that the function also edits in place is fresh — slices.Clone, make,
// nil, append onto one of those, or an in-place helper applied to one of those.
func derivedGraphsOwnTheirEdges(p *Prog, r *Report, rule, relPkg, fnName string) {
	fn := p.Func(relPkg, fnName)
	if fn == nil {
		r.Undecided(rule, "anchor:"+fnName, "-", "not found")
		return
	}
	inPlace := func(c *ssa.Call) bool {
		rf := refOf(c.Common())
		if rf.Pkg != "slices" && rf.Pkg != "golang.org/x/exp/slices" && rf.Pkg != "sort" {
			return false
		}
		switch {
		case strings.HasPrefix(rf.Name, "Delete"), strings.HasPrefix(rf.Name, "Compact"), strings.HasPrefix(rf.Name, "Sort"), rf.Name == "Reverse", rf.Name == "Slice", rf.Name == "SliceStable", rf.Name == "Insert", rf.Name == "Replace":
			return true
		}
		return false
	}
	fieldOfLoad := func(v ssa.Value) (string, string, bool) {
		switch x := v.(type) {
		case *ssa.UnOp:
			if x.Op == token.MUL {
				if s, f, _, ok := fieldOf(x.X); ok {
					return s, f, true
				}
			}
		case *ssa.Field:
			if st, n := structOf(x.X.Type()); st != nil && n != nil {
				return n.Obj().Name(), st.Field(x.Field).Name(), true
			}
		}
		return "", "", false
	}
	fns := withAnon(fn)
	edited := map[string]bool{}
	for _, f := range fns {
		forEachInstr(f, func(_ *ssa.BasicBlock, _ int, in ssa.Instruction) {
			c, ok := in.(*ssa.Call)
			if !ok || !inPlace(c) || len(c.Call.Args) == 0 {
				return
			}
			if s, fld, ok := fieldOfLoad(stripIface(c.Call.Args[0])); ok {
				edited[s+"."+fld] = true
			}
		})
	}
	var fresh func(v ssa.Value, d int) bool
	fresh = func(v ssa.Value, d int) bool {
		if d > 8 {
			return false
		}
		if isNilConst(v) {
			return true
		}
		// an edited list read back from a node that does not come from the receiver: a new node's
		// list, which only the stores checked here can have filled
		if s, fld, ok := fieldOfLoad(v); ok && edited[s+"."+fld] {
			var base ssa.Value
			switch x := v.(type) {
			case *ssa.UnOp:
				if fa, isFA := x.X.(*ssa.FieldAddr); isFA {
					base = fa.X
				}
			case *ssa.Field:
				base = x.X
			}
			if base != nil && len(fn.Params) > 0 && !rootedAt(base, fn.Params[0], 0) {
				return true
			}
			return false
		}
		switch x := v.(type) {
		case *ssa.MakeSlice:
			return true
		case *ssa.Slice:
			if _, isAl := x.X.(*ssa.Alloc); isAl {
				return true // a literal's backing array
			}
			return fresh(x.X, d+1)
		case *ssa.Phi:
			for _, e := range x.Edges {
				if !fresh(e, d+1) {
					return false
				}
			}
			return len(x.Edges) > 0
		case *ssa.Call:
			rf := refOf(x.Common())
			if rf.is("slices", "", "Clone") || rf.is("slices", "", "Collect") || rf.is("slices", "", "Sorted") {
				return true
			}
			if (isCallTo(x, "builtin", "", "append") || inPlace(x)) && len(x.Call.Args) > 0 {
				return fresh(x.Call.Args[0], d+1)
			}
		}
		return false
	}
	n := 0
	keys := []string{}
	for k := range edited {
		keys = append(keys, k)
	}
	sort.Strings(keys)
	for _, f := range fns {
		forEachInstr(f, func(_ *ssa.BasicBlock, _ int, in ssa.Instruction) {
			st, ok := in.(*ssa.Store)
			if !ok {
				return
			}
			s, fld, _, ok := fieldOf(st.Addr)
			if !ok || !edited[s+"."+fld] {
				return
			}
			n++
			r.Check(fresh(st.Val, 0), rule, fmt.Sprintf("%s:%s.%s-is-own-copy#%d", fnKey(fn), s, fld, n), p.Pos(st.Pos()), "an edge list that is edited in place below is the new node's own copy", fmt.Sprintf("%s stores an edge list taken from the graph it was given into %s.%s of a new node and edits such lists in place further down (%s): slices.DeleteFunc then shifts and zeroes the backing array of the shared input subgraph while the other patch attempts, which start from the same resolved manifest, read it — a data race, and a patch list that depends on which attempt runs first", fnName, s, fld, strings.Join(keys, ", ")))
		})
	}
	r.Instances(rule, "stores into edge lists that "+fnName+" edits in place", n, 1)
}

// rootedAt: v is (part of) the data reached from parameter prm by selecting fields, indexing,
// looking up, ranging or loading — also through a local that was assigned such a value as a whole.
// Values built by calls or allocated locally are not.
func rootedAt(v ssa.Value, prm *ssa.Parameter, d int) bool {
	if d > 16 {
		return false
	}
	switch x := v.(type) {
	case *ssa.Parameter:
		return x == prm
	case *ssa.FreeVar:
		return freeVarBindsParam(x.Parent(), x, prm)
	case *ssa.UnOp:
		return rootedAt(x.X, prm, d+1)
	case *ssa.FieldAddr:
		return rootedAt(x.X, prm, d+1)
	case *ssa.Field:
		return rootedAt(x.X, prm, d+1)
	case *ssa.Lookup:
		return rootedAt(x.X, prm, d+1)
	case *ssa.Index:
		return rootedAt(x.X, prm, d+1)
	case *ssa.IndexAddr:
		return rootedAt(x.X, prm, d+1)
	case *ssa.Slice:
		return rootedAt(x.X, prm, d+1)
	case *ssa.Extract:
		return rootedAt(x.Tuple, prm, d+1)
	case *ssa.Next:
		return rootedAt(x.Iter, prm, d+1)
	case *ssa.Range:
		return rootedAt(x.X, prm, d+1)
	case *ssa.Phi:
		for _, e := range x.Edges {
			if rootedAt(e, prm, d+1) {
				return true
			}
		}
	case *ssa.Alloc:
		// a local assigned such a value as a whole (field-wise stores build a new value)
		for _, ref := range *x.Referrers() {
			if st, ok := ref.(*ssa.Store); ok && st.Addr == ssa.Value(x) && rootedAt(st.Val, prm, d+1) {
				return true
			}
		}
	}
	return false
}
