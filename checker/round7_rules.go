package main

import (
	"fmt"
	"go/token"
	"go/types"
	"os"
	"sort"
	"strings"

	"golang.org/x/tools/go/ssa"
)

var _ = types.Typ
var _ = sort.Strings
var _ = token.ADD

// seenSetIsKeptCurrent (test-and-set): a loop that asks a local map "did I take this one already?"
// and, when the answer is no, adds something to a result list, records the key in that same map on
// every way back to the loop head — otherwise the second element with the same key is taken again
// (an extractor required by two detectors is enabled, run and reported twice). The rule is armed
// for the maps that are written somewhere in the function (a set that is being built, not a
// parameter consulted read-only).
func seenSetIsKeptCurrent(p *Prog, r *Report, rule string, fns []*ssa.Function, floor int, msg string) {
	n := 0
	for _, fn := range fns {
		forEachInstr(fn, func(b *ssa.BasicBlock, _ int, in ssa.Instruction) {
			lk, ok := in.(*ssa.Lookup)
			if !ok {
				return
			}
			mm, isMake := lk.X.(*ssa.MakeMap)
			if !isMake || mm.Parent() != fn {
				return
			}
			hdr := loopHeaderOf(b)
			if hdr == nil {
				return
			}
			body := naturalLoop(hdr)
			// the "present" test
			var okv ssa.Value = lk
			if lk.CommaOk {
				okv = nil
				for _, ref := range *lk.Referrers() {
					if ex, isEx := ref.(*ssa.Extract); isEx && ex.Index == 1 {
						okv = ex
					}
				}
			} else if bt, isB := lk.Type().Underlying().(*types.Basic); !isB || bt.Kind() != types.Bool {
				return
			}
			if okv == nil {
				return
			}
			_, absent := guardEdges(fn, func(c ssa.Value) (bool, bool) { return c == okv, true })
			if len(absent) == 0 {
				return
			}
			isUpdate := func(i ssa.Instruction) bool {
				mu, isMU := i.(*ssa.MapUpdate)
				return isMU && mu.Map == ssa.Value(mm) && sameKeyValue(mu.Key, lk.Index)
			}
			// the map is updated with this key somewhere in the loop or was meant to be: armed when
			// the function writes the map at all
			writes := false
			forEachInstr(fn, func(_ *ssa.BasicBlock, _ int, i ssa.Instruction) {
				if mu, isMU := i.(*ssa.MapUpdate); isMU && mu.Map == ssa.Value(mm) {
					writes = true
				}
			})
			if !writes {
				return
			}
			// appends inside the loop
			var apps []*ssa.Call
			forEachInstr(fn, func(ab *ssa.BasicBlock, _ int, i ssa.Instruction) {
				if c, isC := i.(*ssa.Call); isC && body[ab] && isCallTo(c, "builtin", "", "append") {
					apps = append(apps, c)
				}
			})
			if len(apps) == 0 {
				return
			}
			n++
			site := fnKey(fn) + ":seen-set:" + renderValue(lk.Index, 1)
			bad := ""
			for _, ed := range absent {
				if !body[ed.From] {
					continue
				}
				for _, a := range apps {
					w1 := searchPath(Point{ed.From, len(ed.From.Instrs) - 1}, ed.Succ, func(i ssa.Instruction) bool { return i == ssa.Instruction(a) }, func(i ssa.Instruction) bool {
						return isUpdate(i) || (i.Block() == hdr && i == hdr.Instrs[0])
					}, nil)
					if w1 == nil {
						continue
					}
					w2 := findPath(pointOf(a), func(i ssa.Instruction) bool { return i.Block() == hdr && i == hdr.Instrs[0] }, isUpdate, nil)
					if w2 != nil {
						bad = strings.Join(w1, "→") + " … " + strings.Join(w2, "→")
					}
				}
			}
			r.Check(bad == "", rule, site, p.Pos(lk.Pos()), "an element taken because its key was not in the set is recorded in the set before the next element is looked at", msg+"; witness path (SSA blocks): "+bad)
		})
	}
	r.Instances(rule, "seen-sets consulted and extended in a loop", n, floor)
	if os.Getenv("SCALINT_LEARN") != "" {
		fmt.Fprintf(os.Stderr, "LEARN-SEENSET %s %d\n", rule, n)
	}
}

// firstMatchWins: fn searches the collection it is given (parameter pi) front to back and answers
// with the first element that qualifies: whatever it returns after the loop does not come out of
// the loop (a value defined in the loop body that survives to a return below the loop is the *last*
// element that qualified — for a requirement declared twice, the declaration the writer then edits
// is not the one the resolver reads).
func firstMatchWins(p *Prog, r *Report, rule string, fn *ssa.Function, pi int, why string) {
	if fn == nil || pi >= len(fn.Params) {
		r.Undecided(rule, "anchor:first-match", "-", "function not found")
		return
	}
	var hdr *ssa.BasicBlock
	for _, b := range fn.Blocks {
		if coll, _, ok := loopScansAll(b); ok && coll == ssa.Value(fn.Params[pi]) {
			hdr = b
		}
	}
	site := fnKey(fn) + ":first-match"
	if hdr == nil {
		r.Undecided(rule, site, p.Pos(fn.Pos()), "no front-to-back loop over the parameter found")
		return
	}
	body := naturalLoop(hdr)
	var entry *ssa.BasicBlock
	for _, s := range hdr.Succs {
		if body[s] {
			entry = s
		}
	}
	inLoop, bad := 0, ""
	for _, ret := range returnsOf(fn) {
		if len(ret.Results) == 0 {
			continue
		}
		if entry != nil && entry.Dominates(ret.Block()) {
			inLoop++
			continue
		}
		for _, l := range phiLeaves(retVal(ret, 0), ret.Block()) {
			in, isIn := l.val.(ssa.Instruction)
			if isIn && in.Block() != nil && body[in.Block()] && in.Block() != hdr {
				bad = p.Pos(ret.Pos())
			}
		}
	}
	r.Check(inLoop > 0 && bad == "", rule, site, p.Pos(fn.Pos()), "the answer is returned from inside the loop, on the first element that qualifies", why)
}

// pruningKeepsWholeChain: when the final view is pruned to the required files, a required symlink
// keeps alive every node the view will pass through when the link is opened — as many hops as the
// resolver allows. Each of the symlinkDepth iterations of the marking loop therefore first takes
// one hop (tree.Get of the current node's target) and then marks the node it arrived at: an
// iteration that marks the node it started from spends the first of its hops on the link itself,
// and the end of a chain of exactly the maximum length is pruned away although nothing on it is
// missing.
func pruningKeepsWholeChain(p *Prog, r *Report, rule string) {
	fn := p.Func(imgPkg, "removeUnnecessaryFileNodes")
	if fn == nil {
		r.Undecided(rule, "anchor:removeUnnecessaryFileNodes", "-", "not found")
		return
	}
	n := 0
	for _, f := range withAnon(fn) {
		forEachInstr(f, func(b *ssa.BasicBlock, _ int, in ssa.Instruction) {
			mu, ok := in.(*ssa.MapUpdate)
			if !ok {
				return
			}
			if v, isB := constBool(mu.Value); !isB || !v {
				return
			}
			hdr := loopHeaderOf(b)
			if hdr == nil {
				return
			}
			n++
			site := fnKey(fn) + ":marks-the-node-reached"
			// the key: <node>.virtualPath — whose node?
			var node ssa.Value
			if ld, isLd := mu.Key.(*ssa.UnOp); isLd && ld.Op == token.MUL {
				if fa, isFA := ld.X.(*ssa.FieldAddr); isFA {
					node = fa.X
				}
			}
			okNode := false
			if c, _ := callValue(node); c != nil && treeCall("Get")(c) && naturalLoop(hdr)[c.Block()] {
				okNode = true
			}
			r.Check(okNode, rule, site, p.Pos(mu.Pos()), "each iteration marks the node its own tree.Get returned", "the loop that keeps a required symlink's chain alive marks a node carried over from the previous iteration (or the link itself) instead of the node reached by this iteration's hop: it preserves one hop fewer than the resolver will follow, so Stat/Open of a required link whose chain has exactly the maximum number of hops fails with 'file does not exist' although nothing on the chain is missing")
		})
	}
	r.Instances(rule, "chain-marking stores in the pruning pass", n, 1)
}

// deferredStoreKeepsError: a deferred function literal that assigns to its function's error result
// (`defer func() { err = f.Close() }()`) runs after the body has decided what to return. The
// assignment keeps a failure the body reported when (a) it is made only if the result is still nil,
// or (b) only if the new value is not nil (a failure is still reported), or (c) the new value is
// built from the old one (errors.Join, %w). An unconditional assignment of a value that may be nil
// turns "the copy failed" into success whenever the deferred call itself succeeds.
func deferredStoreKeepsError(p *Prog, r *Report, rule string, fns []*ssa.Function, why string) {
	n := 0
	for _, fn := range fns {
		forEachInstr(fn, func(_ *ssa.BasicBlock, _ int, in ssa.Instruction) {
			d, ok := in.(*ssa.Defer)
			if !ok {
				return
			}
			mc, ok := d.Call.Value.(*ssa.MakeClosure)
			if !ok {
				return
			}
			lit, _ := mc.Fn.(*ssa.Function)
			if lit == nil {
				return
			}
			for i, bnd := range mc.Bindings {
				al, isAl := bnd.(*ssa.Alloc)
				if !isAl || i >= len(lit.FreeVars) {
					continue
				}
				pt, isP := al.Type().Underlying().(*types.Pointer)
				if !isP || !isErrorT(pt.Elem()) {
					continue
				}
				// the function's result: loaded for a return
				isResult := false
				for _, ret := range returnsOf(fn) {
					for _, rv := range ret.Results {
						if ld, isLd := rv.(*ssa.UnOp); isLd && ld.Op == token.MUL && ld.X == ssa.Value(al) {
							isResult = true
						}
					}
				}
				if !isResult {
					continue
				}
				fv := lit.FreeVars[i]
				isOld := func(v ssa.Value) bool {
					ld, isLd := v.(*ssa.UnOp)
					return isLd && ld.Op == token.MUL && ld.X == ssa.Value(fv)
				}
				forEachInstr(lit, func(sb *ssa.BasicBlock, _ int, si ssa.Instruction) {
					st, isSt := si.(*ssa.Store)
					if !isSt || st.Addr != ssa.Value(fv) {
						return
					}
					n++
					site := fmt.Sprintf("%s:deferred-assignment#%d", fnKey(fn), n)
					good := false
					if nn, known := nilStateOf(st.Val, nil); known && nn {
						good = true
					}
					if derivesFrom(st.Val, isOld, deriveOpts{throughCall: func(*ssa.CallCommon) bool { return true }}) {
						good = true
					}
					_, oldNil := guardEdges(lit, condNonNil(isOld))
					if len(oldNil) > 0 && onlyVia(lit, sb, oldNil) {
						good = true
					}
					newNonNil, _ := guardEdges(lit, condNonNil(func(v ssa.Value) bool { return v == st.Val }))
					if len(newNonNil) > 0 && onlyVia(lit, sb, newNonNil) {
						good = true
					}
					r.Check(good, rule, site, p.Pos(st.Pos()), "the deferred assignment keeps an error the body reported", why)
				})
			}
		})
	}
	r.Count("assignments to an error result in deferred literals", n)
}

func isErrorT(t types.Type) bool {
	n, ok := t.(*types.Named)
	return ok && n.Obj().Pkg() == nil && n.Obj().Name() == "error"
}

// guardedInsertSameCell: `if _, ok := m[a][k]; !ok { m[b][k] = v }` — an insertion into a map of
// maps made because the cell was found empty tests the very cell it fills: the outer keys of the
// test and of the insertion are the same value. With different outer keys the test looks at another
// (usually absent) inner map, always answers "empty", and a value set earlier is overwritten.
func guardedInsertSameCell(p *Prog, r *Report, rule string, fn *ssa.Function, floor int, why string) {
	if fn == nil {
		r.Undecided(rule, "anchor:guarded-insert", "-", "function not found")
		return
	}
	inner := func(v ssa.Value) (outer, key ssa.Value, ok bool) {
		lk, isLk := v.(*ssa.Lookup)
		if !isLk || lk.CommaOk {
			return nil, nil, false
		}
		if _, isMap := lk.X.Type().Underlying().(*types.Map); !isMap {
			return nil, nil, false
		}
		return lk.X, lk.Index, true
	}
	isInnerMap := func(v ssa.Value) bool {
		mt, isMap := v.Type().Underlying().(*types.Map)
		if !isMap {
			return false
		}
		_, valIsMap := mt.Elem().Underlying().(*types.Map)
		return !valIsMap
	}
	n := 0
	top := fn
	for _, fn := range withAnon(top) {
		forEachInstr(fn, func(b *ssa.BasicBlock, _ int, in ssa.Instruction) {
			mu, ok := in.(*ssa.MapUpdate)
			if !ok || !isInnerMap(mu.Map) {
				return
			}
			forEachInstr(fn, func(_ *ssa.BasicBlock, _ int, in2 ssa.Instruction) {
				lk, ok := in2.(*ssa.Lookup)
				if !ok || !lk.CommaOk || !sameKeyValue(lk.Index, mu.Key) || !types.Identical(lk.X.Type(), mu.Map.Type()) {
					return
				}
				// the two inner maps: one value (a local the inner map was bound to), or two
				// look-ups in the same outer map — then the outer keys decide
				same, related := false, false
				if lk.X == mu.Map {
					same, related = true, true
				} else if o1, k1, ok1 := inner(mu.Map); ok1 {
					if o2, k2, ok2 := inner(lk.X); ok2 && sameValue(o1, o2) {
						related = true
						same = sameKeyValue(k1, k2)
					}
				}
				if !related {
					return
				}
				var okv ssa.Value
				for _, ref := range *lk.Referrers() {
					if ex, isEx := ref.(*ssa.Extract); isEx && ex.Index == 1 {
						okv = ex
					}
				}
				if okv == nil {
					return
				}
				_, absent := guardEdges(fn, func(c ssa.Value) (bool, bool) { return c == okv, true })
				if len(absent) == 0 || !onlyVia(fn, b, absent) {
					return
				}
				n++
				r.Check(same, rule, fmt.Sprintf("%s:guarded-insert#%d", fnKey(top), n), p.Pos(mu.Pos()), "the cell found empty is the cell filled", why)
			})
		})
	}
	r.Instances(rule, "insertions into a map of maps guarded by an emptiness test", n, floor)
}

// sameKeyValue: the same SSA value, or two values that are not merges and are computed the same way
// (two loads of one field, two equal constants). Two different phis are different variables.
func sameKeyValue(a, b ssa.Value) bool {
	if a == b {
		return true
	}
	_, pa := a.(*ssa.Phi)
	_, pb := b.(*ssa.Phi)
	if pa || pb {
		return false
	}
	return renderValue(a, 0) == renderValue(b, 0)
}

// indexKeepsOnlyFiltered: packageindex.New looks at every extracted package and indexes those that
// have a package URL. Whatever the index stores comes out of that loop, element by element: the
// parameter slice as a whole (or a copy of it) is stored in no field — a second, unfiltered list
// kept "for a stable order" answers GetAll with packages the other queries do not know.
func indexKeepsOnlyFiltered(p *Prog, r *Report, rule string) {
	fn := p.Func("packageindex", "New")
	if fn == nil || len(fn.Params) == 0 {
		r.Undecided(rule, "anchor:packageindex.New", "-", "not found")
		return
	}
	prm := fn.Params[0]
	var whole func(v ssa.Value, d int) bool
	whole = func(v ssa.Value, d int) bool {
		if d > 6 {
			return false
		}
		switch x := v.(type) {
		case *ssa.Parameter:
			return x == prm
		case *ssa.Slice:
			return whole(x.X, d+1)
		case *ssa.Phi:
			for _, e := range x.Edges {
				if whole(e, d+1) {
					return true
				}
			}
		case *ssa.ChangeType:
			return whole(x.X, d+1)
		case *ssa.Call:
			rf := refOf(x.Common())
			if rf.is("slices", "", "Clone") || rf.is("slices", "", "Clip") || rf.is("slices", "", "Concat") || isCallTo(x, "builtin", "", "append") {
				for _, a := range x.Call.Args {
					if whole(a, d+1) {
						return true
					}
				}
			}
		}
		return false
	}
	bad := ""
	n := 0
	forEachInstr(fn, func(_ *ssa.BasicBlock, _ int, in ssa.Instruction) {
		st, ok := in.(*ssa.Store)
		if !ok {
			return
		}
		if s, _, _, isF := fieldOf(st.Addr); !isF || s != "PackageIndex" {
			return
		}
		n++
		if whole(st.Val, 0) {
			bad = p.Pos(st.Pos())
		}
	})
	r.Check(n > 0 && bad == "", rule, fnKey(fn)+":stores-only-indexed", p.Pos(fn.Pos()), "the index stores nothing but what the filtering loop built", "packageindex.New keeps the list it was given (or a copy of it) in the index beside the filtered map: packages without a package URL, which the loop leaves out, are then handed to every detector that enumerates the index with GetAll, and GetAll disagrees with GetAllOfType/GetSpecific")
}

// nullableResultDerefs (a contradiction rule): a first-party function with one pointer result that
// returns the constant nil on some path and something else on another is believed to answer nil
// sometimes (ToPURL of an SBOM package that only has a CPE). Where its result — from a static call,
// or from a call through an interface of a method with the name of such a function — is
// dereferenced directly (a field selected, the pointer loaded), a `!= nil` test of that result
// dominates the dereference.
func nullableResultDerefs(p *Prog, r *Report, rule string, fns []*ssa.Function, why string) {
	believed := map[*ssa.Function]bool{}
	names := map[string]bool{}
	nullFields := map[string]bool{}
	for _, fn := range p.allFns {
		forEachInstr(fn, func(_ *ssa.BasicBlock, _ int, in ssa.Instruction) {
			if v, _, ok := nilFact(valueOfInstr(in), true); ok {
				if k, isF := nullablePtrField(v); isF {
					nullFields[k] = true
				}
			}
		})
	}
	for _, fn := range p.allFns {
		if fn.Signature.Results().Len() != 1 {
			continue
		}
		if _, isPtr := fn.Signature.Results().At(0).Type().Underlying().(*types.Pointer); !isPtr {
			continue
		}
		nilRet, other := false, false
		for _, ret := range returnsOf(fn) {
			if len(ret.Results) != 1 {
				continue
			}
			if isNilConst(ret.Results[0]) {
				nilRet = true
			} else {
				other = true
				// a field that is compared with nil somewhere, handed out as it is
				if k, ok := nullablePtrField(ret.Results[0]); ok && nullFields[k] {
					nilRet = true
				}
			}
		}
		if nilRet && other {
			believed[fn] = true
			if fn.Signature.Recv() != nil {
				names[fn.Name()+"|"+types.TypeString(fn.Signature.Results().At(0).Type(), nil)] = true
			}
		}
	}
	n := 0
	for _, fn := range fns {
		forEachInstr(fn, func(b *ssa.BasicBlock, _ int, in ssa.Instruction) {
			var ptr ssa.Value
			switch x := in.(type) {
			case *ssa.UnOp:
				if x.Op == token.MUL {
					ptr = x.X
				}
			case *ssa.FieldAddr:
				ptr = x.X
			}
			c, isC := ptr.(*ssa.Call)
			if !isC {
				return
			}
			what := ""
			if sc := c.Call.StaticCallee(); sc != nil {
				if believed[sc] || believed[sc.Origin()] {
					what = fnKey(sc)
				}
			} else if c.Call.IsInvoke() {
				if names[c.Call.Method.Name()+"|"+types.TypeString(c.Type(), nil)] {
					what = c.Call.Method.Name()
				}
			}
			if what == "" {
				return
			}
			n++
			nonNil, _ := guardEdges(fn, condNonNil(func(v ssa.Value) bool { return v == ssa.Value(c) }))
			r.Check(len(nonNil) > 0 && onlyVia(fn, b, nonNil), rule, fmt.Sprintf("%s:result-of-%s", fnKey(fn), what[strings.LastIndex(what, "/")+1:]), p.Pos(in.Pos()), "dereferenced only under a `!= nil` test of the result", fmt.Sprintf(why, what[strings.LastIndex(what, "/")+1:]))
		})
	}
	r.Count("dereferences of results believed to be nil sometimes", n)
}

func valueOfInstr(in ssa.Instruction) ssa.Value {
	v, _ := in.(ssa.Value)
	return v
}

// nullablePtrField: v loads a pointer-typed field of a first-party struct; the key names the field.
func nullablePtrField(v ssa.Value) (string, bool) {
	ld, ok := v.(*ssa.UnOp)
	if !ok || ld.Op != token.MUL {
		return "", false
	}
	fa, ok := ld.X.(*ssa.FieldAddr)
	if !ok {
		return "", false
	}
	if _, isPtr := ld.Type().Underlying().(*types.Pointer); !isPtr {
		return "", false
	}
	s, f, _, ok := fieldOf(fa)
	if !ok {
		return "", false
	}
	n := namedOf(fa.X.Type())
	if n == nil || n.Obj().Pkg() == nil || !strings.HasPrefix(n.Obj().Pkg().Path(), modPath) {
		return "", false
	}
	return n.Obj().Pkg().Path() + "." + s + "." + f, true
}

// derivedGraphsOwnTheirEdges: the relax strategy's concurrent patch attempts all start from the same
// resolved manifest and read the same *DependencySubgraph values. A method that derives a new
// subgraph from its receiver and then edits the new nodes' edge lists in place (slices.DeleteFunc
// shifts and zeroes the backing array) may therefore only edit lists the new nodes own: every value
// stored into an edge-list field that the function also edits in place is fresh — slices.Clone, make,
// nil, append onto one of those, or an in-place helper applied to one of those.
func derivedGraphsOwnTheirEdges(p *Prog, r *Report, rule, relPkg, fnName string) {
	fn := p.Func(relPkg, fnName)
	if fn == nil {
		r.Undecided(rule, "anchor:"+fnName, "-", "not found")
		return
	}
	inPlace := func(c *ssa.Call) bool {
		rf := refOf(c.Common())
		if rf.Pkg != "slices" && rf.Pkg != "golang.org/x/exp/slices" && rf.Pkg != "sort" {
			return false
		}
		switch {
		case strings.HasPrefix(rf.Name, "Delete"), strings.HasPrefix(rf.Name, "Compact"), strings.HasPrefix(rf.Name, "Sort"), rf.Name == "Reverse", rf.Name == "Slice", rf.Name == "SliceStable", rf.Name == "Insert", rf.Name == "Replace":
			return true
		}
		return false
	}
	fieldOfLoad := func(v ssa.Value) (string, string, bool) {
		switch x := v.(type) {
		case *ssa.UnOp:
			if x.Op == token.MUL {
				if s, f, _, ok := fieldOf(x.X); ok {
					return s, f, true
				}
			}
		case *ssa.Field:
			if st, n := structOf(x.X.Type()); st != nil && n != nil {
				return n.Obj().Name(), st.Field(x.Field).Name(), true
			}
		}
		return "", "", false
	}
	fns := withAnon(fn)
	edited := map[string]bool{}
	for _, f := range fns {
		forEachInstr(f, func(_ *ssa.BasicBlock, _ int, in ssa.Instruction) {
			c, ok := in.(*ssa.Call)
			if !ok || !inPlace(c) || len(c.Call.Args) == 0 {
				return
			}
			if s, fld, ok := fieldOfLoad(stripIface(c.Call.Args[0])); ok {
				edited[s+"."+fld] = true
			}
		})
	}
	var fresh func(v ssa.Value, d int) bool
	fresh = func(v ssa.Value, d int) bool {
		if d > 8 {
			return false
		}
		if isNilConst(v) {
			return true
		}
		// an edited list read back from a node that does not come from the receiver: a new node's
		// list, which only the stores checked here can have filled
		if s, fld, ok := fieldOfLoad(v); ok && edited[s+"."+fld] {
			var base ssa.Value
			switch x := v.(type) {
			case *ssa.UnOp:
				if fa, isFA := x.X.(*ssa.FieldAddr); isFA {
					base = fa.X
				}
			case *ssa.Field:
				base = x.X
			}
			if base != nil && len(fn.Params) > 0 && !rootedAt(base, fn.Params[0], 0) {
				return true
			}
			return false
		}
		switch x := v.(type) {
		case *ssa.MakeSlice:
			return true
		case *ssa.Slice:
			if _, isAl := x.X.(*ssa.Alloc); isAl {
				return true // a literal's backing array
			}
			return fresh(x.X, d+1)
		case *ssa.Phi:
			for _, e := range x.Edges {
				if !fresh(e, d+1) {
					return false
				}
			}
			return len(x.Edges) > 0
		case *ssa.Call:
			rf := refOf(x.Common())
			if rf.is("slices", "", "Clone") || rf.is("slices", "", "Collect") || rf.is("slices", "", "Sorted") {
				return true
			}
			if (isCallTo(x, "builtin", "", "append") || inPlace(x)) && len(x.Call.Args) > 0 {
				return fresh(x.Call.Args[0], d+1)
			}
		}
		return false
	}
	n := 0
	keys := []string{}
	for k := range edited {
		keys = append(keys, k)
	}
	sort.Strings(keys)
	for _, f := range fns {
		forEachInstr(f, func(_ *ssa.BasicBlock, _ int, in ssa.Instruction) {
			st, ok := in.(*ssa.Store)
			if !ok {
				return
			}
			s, fld, _, ok := fieldOf(st.Addr)
			if !ok || !edited[s+"."+fld] {
				return
			}
			n++
			r.Check(fresh(st.Val, 0), rule, fmt.Sprintf("%s:%s.%s-is-own-copy#%d", fnKey(fn), s, fld, n), p.Pos(st.Pos()), "an edge list that is edited in place below is the new node's own copy", fmt.Sprintf("%s stores an edge list taken from the graph it was given into %s.%s of a new node and edits such lists in place further down (%s): slices.DeleteFunc then shifts and zeroes the backing array of the shared input subgraph while the other patch attempts, which start from the same resolved manifest, read it — a data race, and a patch list that depends on which attempt runs first", fnName, s, fld, strings.Join(keys, ", ")))
		})
	}
	r.Instances(rule, "stores into edge lists that "+fnName+" edits in place", n, 1)
}

// rootedAt: v is (part of) the data reached from parameter prm by selecting fields, indexing,
// looking up, ranging or loading — also through a local that was assigned such a value as a whole.
// Values built by calls or allocated locally are not.
func rootedAt(v ssa.Value, prm *ssa.Parameter, d int) bool {
	if d > 16 {
		return false
	}
	switch x := v.(type) {
	case *ssa.Parameter:
		return x == prm
	case *ssa.FreeVar:
		return freeVarBindsParam(x.Parent(), x, prm)
	case *ssa.UnOp:
		return rootedAt(x.X, prm, d+1)
	case *ssa.FieldAddr:
		return rootedAt(x.X, prm, d+1)
	case *ssa.Field:
		return rootedAt(x.X, prm, d+1)
	case *ssa.Lookup:
		return rootedAt(x.X, prm, d+1)
	case *ssa.Index:
		return rootedAt(x.X, prm, d+1)
	case *ssa.IndexAddr:
		return rootedAt(x.X, prm, d+1)
	case *ssa.Slice:
		return rootedAt(x.X, prm, d+1)
	case *ssa.Extract:
		return rootedAt(x.Tuple, prm, d+1)
	case *ssa.Next:
		return rootedAt(x.Iter, prm, d+1)
	case *ssa.Range:
		return rootedAt(x.X, prm, d+1)
	case *ssa.Phi:
		for _, e := range x.Edges {
			if rootedAt(e, prm, d+1) {
				return true
			}
		}
	case *ssa.Alloc:
		// a local assigned such a value as a whole (field-wise stores build a new value)
		for _, ref := range *x.Referrers() {
			if st, ok := ref.(*ssa.Store); ok && st.Addr == ssa.Value(x) && rootedAt(st.Val, prm, d+1) {
				return true
			}
		}
	}
	return false
}

// ancestorChainAccumulates (round 8): ParseParentGitignores reads the .gitignore of every ancestor of
// the requested directory, top down. The directory read in an iteration is all components so far
// joined — the path handed to ParseDirForGitignore comes out of a variable the loop carries (a phi
// at the loop head, fed by this iteration's component): a path built from the component alone (the
// accumulator shadowed by `:=`) reads b/.gitignore at the scan root instead of a/b/.gitignore.
func ancestorChainAccumulates(p *Prog, r *Report, rule string) {
	fn := p.Func(fsInt, "ParseParentGitignores")
	if fn == nil {
		r.Undecided(rule, "anchor:ParseParentGitignores", "-", "not found")
		return
	}
	n := 0
	forEachInstr(fn, func(b *ssa.BasicBlock, _ int, in ssa.Instruction) {
		c, ok := in.(*ssa.Call)
		if !ok || c.Call.StaticCallee() == nil || c.Call.StaticCallee().Name() != "ParseDirForGitignore" || len(c.Call.Args) < 2 {
			return
		}
		hdr := loopHeaderOf(b)
		if hdr == nil {
			return
		}
		n++
		body := naturalLoop(hdr)
		carried := derivesFrom(c.Call.Args[1], func(v ssa.Value) bool {
			ph, isPhi := v.(*ssa.Phi)
			if !isPhi || ph.Block() != hdr || !isString(ph.Type()) {
				return false
			}
			// fed from inside the loop
			for i, pr := range hdr.Preds {
				if body[pr] && i < len(ph.Edges) {
					if _, isC := ph.Edges[i].(*ssa.Const); !isC {
						return true
					}
				}
			}
			return false
		}, deriveOpts{throughCall: func(*ssa.CallCommon) bool { return true }})
		r.Check(carried, rule, fnKey(fn)+":ancestor-path-accumulates", p.Pos(c.Pos()), "the directory read is built from a string the loop carries from component to component", "the path whose .gitignore is read for an ancestor is not built from an accumulator the loop carries (the accumulator is shadowed or reset each iteration): only the first-level ancestor's .gitignore is found, every deeper ancestor's patterns are silently lost, and a requested sub-directory extracts files the whole-tree scan ignores")
	})
	r.Instances(rule, "ancestor .gitignore reads", n, 1)
}

// layerEmptinessIsTheCallersFlag (round 8): FromV1Image pairs history entries with v1 layers by
// skipping the entries flagged empty; the unpack loop later skips chain layers whose layer says
// IsEmpty() *without consuming a tar*. The two agree only while a Layer's isEmpty is exactly the flag
// convertV1Layer was given: a layer declared empty for another reason (its diff ID is the empty
// tar's) is skipped without its tar being consumed, and every layer below is filled from its
// neighbour's tar — contents and layer metadata shift against each other.
func layerEmptinessIsTheCallersFlag(p *Prog, r *Report, rule string) {
	fn := p.Func(imgPkg, "convertV1Layer")
	if fn == nil || len(fn.Params) < 3 {
		r.Undecided(rule, "anchor:convertV1Layer", "-", "not found")
		return
	}
	n := 0
	forEachInstr(fn, func(_ *ssa.BasicBlock, _ int, in ssa.Instruction) {
		st, ok := in.(*ssa.Store)
		if !ok {
			return
		}
		if s, f, _, isF := fieldOf(st.Addr); !isF || s != "Layer" || f != "isEmpty" {
			return
		}
		n++
		r.Check(st.Val == ssa.Value(fn.Params[2]), rule, fnKey(fn)+":isEmpty", p.Pos(st.Pos()), "Layer.isEmpty is the caller's flag", "a layer's isEmpty is computed from something other than the flag the caller derived from the image history: the unpack loop skips a layer that says it is empty without consuming its tar, so a layer declared empty for another reason (the empty tar's diff ID) makes every layer below it be filled from the neighbouring tar — packages are attributed to the layer one below the one that introduced them")
	})
	r.Instances(rule, "stores to Layer.isEmpty in convertV1Layer", n, 1)
}

// configMapsAreReadOnly (round 8): a map-typed field of the walk context that is stored only where
// the context is built (it comes from the configuration: the directories to skip) is shared by all
// scan roots of a run. The walk only reads it: no map update and no delete on a map loaded from
// such a field — an entry "consumed" by the first root that matches it is gone for the next root,
// and the result of a multi-root scan stops being the union of the single-root scans.
func configMapsAreReadOnly(p *Prog, r *Report, rule, relPkg, structName string) {
	fns := p.FuncsIn(relPkg)
	// fields stored only into a freshly allocated struct
	atConstruction := map[string]bool{}
	elsewhere := map[string]bool{}
	for _, fn := range fns {
		forEachInstr(fn, func(_ *ssa.BasicBlock, _ int, in ssa.Instruction) {
			st, ok := in.(*ssa.Store)
			if !ok {
				return
			}
			s, f, base, ok := fieldOf(st.Addr)
			if !ok || s != structName {
				return
			}
			if _, isMap := st.Val.Type().Underlying().(*types.Map); !isMap {
				return
			}
			if _, fresh := base.(*ssa.Alloc); fresh {
				atConstruction[f] = true
			} else {
				elsewhere[f] = true
			}
		})
	}
	n := 0
	fieldOfMap := func(m ssa.Value) (string, bool) {
		ld, ok := m.(*ssa.UnOp)
		if !ok || ld.Op != token.MUL {
			return "", false
		}
		s, f, _, ok := fieldOf(ld.X)
		if !ok || s != structName || !atConstruction[f] || elsewhere[f] {
			return "", false
		}
		return f, true
	}
	for _, fn := range fns {
		forEachInstr(fn, func(_ *ssa.BasicBlock, _ int, in ssa.Instruction) {
			var m ssa.Value
			what := ""
			switch x := in.(type) {
			case *ssa.MapUpdate:
				m, what = x.Map, "an entry is written"
			case *ssa.Call:
				if isCallTo(x, "builtin", "", "delete") && len(x.Call.Args) == 2 {
					m, what = x.Call.Args[0], "an entry is deleted"
				}
				if isCallTo(x, "builtin", "", "clear") && len(x.Call.Args) == 1 {
					m, what = x.Call.Args[0], "the map is cleared"
				}
			}
			if m == nil {
				return
			}
			if f, ok := fieldOfMap(m); ok {
				n++
				r.Fail(rule, fmt.Sprintf("%s:%s.%s-read-only", fnKey(fn), structName, f), p.Pos(in.Pos()), fmt.Sprintf("%s.%s is built once from the configuration and shared by every scan root of the run, but %s during the walk: what the first root consumes is missing for the roots after it, so scanning several roots no longer yields the union of scanning each root alone (and the result depends on the order of the roots)", structName, f, what))
			}
		})
	}
	var fs []string
	for f := range atConstruction {
		if !elsewhere[f] {
			fs = append(fs, f)
		}
	}
	sort.Strings(fs)
	if n == 0 {
		r.OK(rule, structName+":config-maps-read-only", "-", "no update of "+strings.Join(fs, ", ")+" after construction")
	}
	r.Instances(rule, "map fields of "+structName+" set only at construction", len(fs), 1)
}

// everyViewGetsTheDepth (round 8): every chain layer initializeChainLayers builds carries the
// configured hop budget on every path to a return: the literal sets maxSymlinkDepth to the
// parameter, or every path from the allocation to a return passes the head of a loop that stores
// the parameter into the field (a shared epilogue that an early return skips leaves the views of
// that path with depth 0: every symlink ends in a depth error).
func everyViewGetsTheDepth(p *Prog, r *Report, rule string) {
	fn := p.Func(imgPkg, "initializeChainLayers")
	if fn == nil || len(fn.Params) < 3 {
		r.Undecided(rule, "anchor:initializeChainLayers", "-", "not found")
		return
	}
	depth := fn.Params[2]
	// epilogue stores: chainLayer.maxSymlinkDepth = depth on a value that is not a fresh literal
	var epilogueHeads []*ssa.BasicBlock
	forEachInstr(fn, func(b *ssa.BasicBlock, _ int, in ssa.Instruction) {
		st, ok := in.(*ssa.Store)
		if !ok || st.Val != ssa.Value(depth) {
			return
		}
		s, f, base, ok := fieldOf(st.Addr)
		if !ok || s != "chainLayer" || f != "maxSymlinkDepth" {
			return
		}
		if _, fresh := base.(*ssa.Alloc); fresh {
			return
		}
		if hdr := loopHeaderOf(b); hdr != nil {
			epilogueHeads = append(epilogueHeads, hdr)
		}
	})
	n := 0
	// a constructor helper that did not exist on the pinned tree (and is not inlined, e.g. because it
	// lives in another file with other imports): the literal sets the field from one of the helper's
	// parameters, and every call from initializeChainLayers passes the depth there
	for _, h := range withAnon(fn) {
		if h == fn || h.Parent() != nil {
			continue
		}
		forEachInstr(h, func(_ *ssa.BasicBlock, _ int, in ssa.Instruction) {
			al, ok := in.(*ssa.Alloc)
			if !ok {
				return
			}
			if st, nm := structOf(al.Type()); st == nil || nm == nil || nm.Obj().Name() != "chainLayer" {
				return
			}
			n++
			pi := -1
			for _, ref := range *al.Referrers() {
				if fa, isFA := ref.(*ssa.FieldAddr); isFA {
					if _, f, _, okF := fieldOf(fa); okF && f == "maxSymlinkDepth" {
						for _, r2 := range *fa.Referrers() {
							if st, isSt := r2.(*ssa.Store); isSt {
								for i, prm := range h.Params {
									if st.Val == ssa.Value(prm) {
										pi = i
									}
								}
							}
						}
					}
				}
			}
			okCalls := pi >= 0
			forEachInstr(fn, func(_ *ssa.BasicBlock, _ int, ci ssa.Instruction) {
				if c, isC := ci.(*ssa.Call); isC && c.Call.StaticCallee() == h && pi >= 0 && pi < len(c.Call.Args) && c.Call.Args[pi] != ssa.Value(depth) {
					okCalls = false
				}
			})
			r.Check(okCalls, rule, fmt.Sprintf("%s:view-built-by-%s-gets-the-depth", fnKey(fn), h.Name()), p.Pos(al.Pos()), "the constructor sets maxSymlinkDepth from a parameter that every call gives the configured depth", "a chain layer built by "+h.Name()+" does not get the configured maximum symlink depth: every symlink in such a view fails with a depth error although its chain is within the configured number of hops")
		})
	}
	forEachInstr(fn, func(_ *ssa.BasicBlock, _ int, in ssa.Instruction) {
		al, ok := in.(*ssa.Alloc)
		if !ok {
			return
		}
		if st, nm := structOf(al.Type()); st == nil || nm == nil || nm.Obj().Name() != "chainLayer" {
			return
		}
		n++
		site := fmt.Sprintf("%s:view#%d-gets-the-depth", fnKey(fn), n)
		set := false
		for _, ref := range *al.Referrers() {
			if fa, isFA := ref.(*ssa.FieldAddr); isFA {
				if _, f, _, okF := fieldOf(fa); okF && f == "maxSymlinkDepth" {
					for _, r2 := range *fa.Referrers() {
						if st, isSt := r2.(*ssa.Store); isSt && st.Val == ssa.Value(depth) {
							set = true
						}
					}
				}
			}
		}
		if !set && len(epilogueHeads) > 0 {
			w := findPath(pointOf(al), func(i ssa.Instruction) bool {
				ret, isRet := i.(*ssa.Return)
				return isRet && len(ret.Results) > 0 && !isNilConst(ret.Results[0])
			}, func(i ssa.Instruction) bool {
				for _, h := range epilogueHeads {
					if i.Block() == h && i == h.Instrs[0] {
						return true
					}
				}
				return false
			}, nil)
			set = w == nil
		}
		r.Check(set, rule, site, p.Pos(al.Pos()), "the view is given the configured MaxSymlinkDepth on every path to a return", "a chain layer is returned without the configured maximum symlink depth (it keeps 0): on images whose history does not line up with their layers every symlink in every view fails with a depth error although its chain is well within the configured number of hops")
	})
	r.Instances(rule, "chain layers built by initializeChainLayers", n, 1)
}

// nestedElementsReachTheNestedWriter (round 8): the pom.xml writer hands every <profile> (and
// <plugin>) element it decodes to a nested call of itself, which applies dependency *and* property
// patches filed under that element's origin. Between the successful decode and the next token no
// path avoids the nested call (other than returning an error): a shortcut that copies an
// "untouched" element through decides that by looking at some of the patch tables only, and an
// update that lives in another table (a property defined in the profile) is reported as written
// while the file stays as it was.
func nestedElementsReachTheNestedWriter(p *Prog, r *Report, rule string) {
	fn := p.Func("guidedremediation/internal/manifest/maven", "writeProject")
	if fn == nil {
		r.Undecided(rule, "anchor:writeProject", "-", "not found")
		return
	}
	var decodes []*ssa.Call
	forEachInstr(fn, func(_ *ssa.BasicBlock, _ int, in ssa.Instruction) {
		if c, ok := in.(*ssa.Call); ok && !c.Call.IsInvoke() {
			if rf := refOf(c.Common()); rf.Name == "DecodeElement" {
				decodes = append(decodes, c)
			}
		}
	})
	n := 0
	forEachInstr(fn, func(b *ssa.BasicBlock, _ int, in ssa.Instruction) {
		c, ok := in.(*ssa.Call)
		if !ok || c.Call.StaticCallee() != fn {
			return
		}
		hdr := loopHeaderOf(b)
		if hdr == nil {
			return
		}
		// the decode this nested call works on: the closest dominating one
		var dec *ssa.Call
		for _, d := range decodes {
			if d.Block().Dominates(b) && (dec == nil || dec.Block().Dominates(d.Block())) {
				dec = d
			}
		}
		if dec == nil {
			return
		}
		n++
		w := findPath(pointOf(dec), func(i ssa.Instruction) bool { return i.Block() == hdr && i == hdr.Instrs[0] }, func(i ssa.Instruction) bool {
			return i == ssa.Instruction(c) || isReturn(i)
		}, nil)
		r.Check(w == nil, rule, fmt.Sprintf("%s:nested-element#%d", fnKey(fn), n), p.Pos(c.Pos()), "every decoded nested element is handed to the nested writer", "a decoded <profile>/<plugin> element can be written through without the nested writer seeing it: the shortcut decides 'nothing to patch here' from some of the patch tables only, so an update filed elsewhere under that element's origin (a property defined in the profile) is not applied while Write reports success; witness path (SSA blocks): "+strings.Join(w, "→"))
	})
	r.Instances(rule, "nested writer calls in writeProject", n, 1)
}

// copiesDependOnlyOnTheirOwnField (round 8): a field-by-field converter may make the copy of a field
// conditional ("only if it is set"), but only on that field: between the allocation of the result
// and the store into dst.F, every branch that decides whether the store happens and that looks at
// the source looks at the source field the stored value comes from. A copy of Subpath placed behind
// `len(p.Qualifiers) == 0 → return` is dropped for every value that has the one without the other.
func copiesDependOnlyOnTheirOwnField(p *Prog, r *Report, rule, relPkg string, fnNames ...string) {
	n := 0
	for _, name := range fnNames {
		fn := p.Func(relPkg, name)
		if fn == nil || len(fn.Params) == 0 {
			continue
		}
		src := fn.Params[0]
		srcField := func(v ssa.Value) string {
			out := ""
			derivesFrom(v, func(x ssa.Value) bool {
				var base ssa.Value
				f := ""
				switch y := x.(type) {
				case *ssa.FieldAddr:
					if _, ff, b, ok := fieldOf(y); ok {
						base, f = b, ff
					}
				case *ssa.Field:
					if st, _ := structOf(y.X.Type()); st != nil {
						base, f = y.X, st.Field(y.Field).Name()
					}
				}
				if base != nil && (base == ssa.Value(src) || rootedAt(base, src, 0)) && out == "" {
					out = f
				}
				return false
			}, deriveOpts{throughCall: func(*ssa.CallCommon) bool { return true }})
			return out
		}
		forEachInstr(fn, func(b *ssa.BasicBlock, _ int, in ssa.Instruction) {
			st, ok := in.(*ssa.Store)
			if !ok {
				return
			}
			_, dstF, base, ok := fieldOf(st.Addr)
			if !ok {
				return
			}
			al, isAl := base.(*ssa.Alloc)
			if !isAl {
				return
			}
			from := srcField(st.Val)
			if from == "" {
				return
			}
			n++
			bad := ""
			for _, dc := range dominatingConds(b) {
				cin, isIn := dc.cond.(ssa.Instruction)
				if !isIn || !al.Block().Dominates(cin.Block()) {
					continue
				}
				if cf := srcField(dc.cond); cf != "" && cf != from {
					bad = cf
				}
			}
			r.Check(bad == "", rule, fmt.Sprintf("%s:%s-copied-on-its-own-terms", fnKey(fn), dstF), p.Pos(st.Pos()), "whether the field is copied depends on that field only", fmt.Sprintf("the copy of %s into the result depends on a test of another source field (%s): a value that has %s set but fails that test is converted without it — the record no longer carries the package URL verbatim", from, bad, from))
		})
	}
	r.Instances(rule, "conditional or unconditional field copies in the converters", n, 5)
}

// decoderLoopsStopOnError (round 8): `for dec.More() { … dec.Decode(&v) … }` over an
// encoding/json.Decoder must leave the loop when Decode fails: after a syntax error (or an
// unexpected end of input inside a value) the decoder's error is sticky and its position does not
// move, so More() keeps answering true — an error branch that goes on to the next iteration spins
// for ever without reading or allocating anything (a three-byte file hangs the scan).
func decoderLoopsStopOnError(p *Prog, r *Report, rule string, fns []*ssa.Function) {
	n := 0
	for _, fn := range fns {
		for _, hb := range fn.Blocks {
			ifi := blockIf(hb)
			if ifi == nil {
				continue
			}
			inner, _ := stripNot(ifi.Cond)
			mc, ok := inner.(*ssa.Call)
			if !ok || !refOf(mc.Common()).is("encoding/json", "Decoder", "More") {
				continue
			}
			hdr := loopHeaderOf(hb)
			if hdr == nil {
				if len(hb.Preds) > 1 {
					hdr = hb
				} else {
					continue
				}
			}
			body := naturalLoop(hdr)
			if !body[hb] && hb != hdr {
				continue
			}
			dec := mc.Call.Args[0]
			forEachInstr(fn, func(b *ssa.BasicBlock, _ int, in ssa.Instruction) {
				dc, ok := in.(*ssa.Call)
				if !ok || !body[b] || !refOf(dc.Common()).is("encoding/json", "Decoder", "Decode") || dc.Call.Args[0] != dec {
					return
				}
				n++
				failed, _ := guardEdges(fn, condNonNil(func(v ssa.Value) bool { return v == ssa.Value(dc) }))
				bad := ""
				for _, ed := range failed {
					w := searchPath(Point{ed.From, len(ed.From.Instrs) - 1}, ed.Succ, func(i ssa.Instruction) bool { return i.Block() == hdr && i == hdr.Instrs[0] }, isReturn, nil)
					if w != nil {
						bad = strings.Join(w, "→")
					}
				}
				r.Check(len(failed) > 0 && bad == "", rule, fmt.Sprintf("%s:decode-in-More-loop#%d", fnKey(fn), n), p.Pos(dc.Pos()), "a failed Decode ends the More() loop", "inside a `for dec.More()` loop a failed json Decode goes on to the next iteration: the decoder's error is sticky and More() stays true after a syntax error, so the loop never ends and Extract never returns; witness path (SSA blocks): "+bad)
			})
		}
	}
	r.Count("json Decode calls inside More() loops", n)
}

// statusGoroutineTouchesGuardedOnly (round 8): the periodic status printer runs concurrently with
// the walk. Every field of the walk context it reads or writes is one of the fields the guarded-by
// table puts under statusMu (whose writes elsewhere are checked to hold it): a new read of a field
// the walker updates without the lock (dirsVisited++) is a data race even though the printer itself
// holds statusMu throughout. Fields that no function outside the printer writes after construction
// (configuration) are harmless and left out.
func statusGoroutineTouchesGuardedOnly(p *Prog, r *Report, rule string) {
	ps := p.Func("extractor/filesystem", "walkContext.printStatus")
	if ps == nil {
		r.Undecided(rule, "anchor:walkContext.printStatus", "-", "not found")
		return
	}
	guarded := map[string]bool{}
	for _, g := range writeGuarded {
		if g.stype == "walkContext" {
			guarded[g.field] = true
		}
	}
	// fields written outside the printer, other than into a fresh walkContext
	writtenByWalk := map[string]bool{}
	for _, fn := range p.FuncsIn("extractor/filesystem") {
		if fn == ps {
			continue
		}
		forEachInstr(fn, func(_ *ssa.BasicBlock, _ int, in ssa.Instruction) {
			st, ok := in.(*ssa.Store)
			if !ok {
				return
			}
			s, f, base, ok := fieldOf(st.Addr)
			if !ok || s != "walkContext" {
				return
			}
			if _, fresh := base.(*ssa.Alloc); fresh {
				return
			}
			writtenByWalk[f] = true
		})
	}
	n := 0
	seen := map[string]bool{}
	for _, fn := range withAnon(ps) {
		forEachInstr(fn, func(_ *ssa.BasicBlock, _ int, in ssa.Instruction) {
			fa, ok := in.(*ssa.FieldAddr)
			if !ok {
				return
			}
			s, f, _, ok := fieldOf(fa)
			if !ok || s != "walkContext" || f == "statusMu" || seen[f] {
				return
			}
			seen[f] = true
			n++
			r.Check(guarded[f] || !writtenByWalk[f], rule, "walkContext.printStatus:"+f, p.Pos(fa.Pos()), "a field the status goroutine touches is guarded by statusMu (or never written by the walk)", "the status goroutine accesses walkContext."+f+", which the walk writes without holding statusMu (it is not in the guarded-by table): the printer holds the mutex but the writer does not, so the two race")
		})
	}
	r.Instances(rule, "walkContext fields touched by the status goroutine", n, 3)
}
