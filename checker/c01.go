package main

import (
	"fmt"
	"go/token"
	"strings"

	"golang.org/x/tools/go/ssa"
)

func init() {
	register(&PropDef{
		ID:       "C01",
		Patterns: []string{"./extractor/filesystem", "./extractor/filesystem/internal", "."},
		Explain: "Decided (all paths of the scan engine's functions): D1 Extract is invoked only from one dispatch site, on the extractor whose FileRequired(current file) just returned true, with the lazy file API pointed at the current path and its stat cache reset; " +
			"D2 exactly once per (file, extractor): the dispatch is not in an inner loop, every path from a FileRequired-true edge reaches the dispatch or the size-limit/stat exit, the extractor loop ranges over all configured extractors and continues after a dispatch; " +
			"D3 directories never reach the dispatch, non-regular files only when symlink reading is on and the mode is a symlink; D4 the directory-skip predicate consults each of the five skip rules on every path that answers 'do not skip', each rule's match leads to 'skip', the skip list is an exact-path lookup, and SkipDir is returned iff the predicate holds; " +
			"D5 files matched by gitignore patterns never reach the dispatch, and the pattern stack stays balanced (every directory that returns nil/SkipDir pushed exactly one set, the pop removes exactly one under the same conditions); D6 every package of an Extract result is attributed to the extractor that produced it and appended to the inventory whenever the result is non-empty (also when Extract returned an error), Scan merges filesystem and standalone inventories; " +
			"D7 the walker calls the callback before listing a directory, recurses into every successfully read entry, leaves the loop only on EOF / callback error / SkipDir, and never originates SkipDir itself; D8 whole-tree and explicit-path walks use the same callbacks, explicit directories get their parents' gitignore patterns. " +
			"Added in round 3: the skip predicate, as a boolean function of its tests, equals the disjunction of the five configured skip rules (decision table); the decisions and early exits that keep the current file from an extractor are the audited ones; the size-limit rule of C10 is shared. Added in round 7: D9 an extractor required by several detectors is enabled once — the seen-set EnableRequiredExtractors consults is extended on every path that appends. Added in round 8: D8 additionally: the path whose .gitignore ParseParentGitignores reads derives from a string the loop carries from component to component. NOT decided: correctness of glob/regex/gitignore matching, path-prefix stripping, set equality of inventories, FileRequired predicates (values).",
		Run: runC01,
		Controls: []Mutant{
			{Name: "negate-filerequired", File: "extractor/filesystem/filesystem.go", Old: "if ex.FileRequired(wc.fileAPI) {", New: "if !ex.FileRequired(wc.fileAPI) {", Rule: "D1-dispatch", Site: "handleFile"},
			{Name: "drop-isregular", File: "extractor/filesystem/filesystem.go", Old: "if (d.Type() & fs.ModeType) != fs.ModeSymlink {\n\t\t\treturn nil\n\t\t}", New: "", Rule: "D3-filetype", Site: "handleFile"},
			{Name: "skipdir-nil", File: "extractor/filesystem/filesystem.go", Old: "if wc.shouldSkipDir(path) { // Skip everything inside this dir.\n\t\t\treturn fs.SkipDir", New: "if wc.shouldSkipDir(path) { // Skip everything inside this dir.\n\t\t\treturn nil", Rule: "D4-skipdir", Site: "handleFile"},
			{Name: "regex-shortcut", File: "extractor/filesystem/filesystem.go", Old: "if wc.skipDirRegex != nil && wc.skipDirRegex.MatchString(path) {\n\t\treturn true\n\t}", New: "if wc.skipDirRegex != nil {\n\t\treturn wc.skipDirRegex.MatchString(path)\n\t}", Rule: "D4-consult", Site: "skipDirGlob"},
			{Name: "skiplist-prefix", File: "extractor/filesystem/filesystem.go", Old: "if _, ok := wc.dirsToSkip[path]; ok {\n\t\treturn true\n\t}", New: "for dir := range wc.dirsToSkip {\n\t\tif strings.HasPrefix(path, dir) {\n\t\t\treturn true\n\t\t}\n\t}", Rule: "D4-exact", Site: "shouldSkipDir"},
			{Name: "append-only-on-success", File: "extractor/filesystem/filesystem.go", Old: "	if !results.IsEmpty() {", New: "	if err == nil && !results.IsEmpty() {", Rule: "D6-append", Site: "runExtractor"},
			{Name: "attribute-dropped", File: "extractor/filesystem/filesystem.go", Old: "			r.Extractor = ex\n", New: "", Rule: "D6-attribution", Site: "runExtractor"},
			{Name: "break-after-first", File: "extractor/filesystem/filesystem.go", Old: "			wc.runExtractor(ex, path)\n", New: "			wc.runExtractor(ex, path)\n			break\n", Rule: "D2-once", Site: "handleFile"},
			{Name: "walker-break-after-first-entry", File: "extractor/filesystem/internal/walkdir_iterate.go", Old: "			return err\n		}\n	}\n	return nil\n}", New: "			return err\n		}\n		break\n	}\n	return nil\n}", Rule: "D7-walk", Site: "walkDirUnsorted"},
			{Name: "walker-originates-skipdir", File: "extractor/filesystem/internal/walkdir_iterate.go", Old: "			// End iteration after an error\n			return nil\n		}\n		name1", New: "			// End iteration after an error\n			return fs.SkipDir\n		}\n		name1", Rule: "D7-walk", Site: "returns"},
			{Name: "gitignore-file-dropped", File: "extractor/filesystem/filesystem.go", Old: "if internal.GitignoreMatch(wc.gitignores, strings.Split(path, \"/\"), false) {\n			return nil\n		}", New: "if internal.GitignoreMatch(wc.gitignores, strings.Split(path, \"/\"), false) {\n			log.Debugf(\"ignored %s\", path)\n		}", Rule: "D5-gitignore", Site: "handleFile"},
			{Name: "stat-cache-not-reset", File: "extractor/filesystem/filesystem.go", Old: "	wc.fileAPI.currentStatCalled = false\n", New: "", Rule: "D1-fileapi", Site: "currentStatCalled"},
			{Name: "skip-before-push", File: "extractor/filesystem/filesystem.go", Old: "		wc.dirsVisited++\n		if wc.useGitignore {", New: "		wc.dirsVisited++\n		if wc.shouldSkipDir(path) {\n			return fs.SkipDir\n		}\n		if wc.useGitignore {", Rule: "D5-balanced", Site: "push"},
			{Name: "explicit-dir-no-parent-gitignore", File: "extractor/filesystem/filesystem.go", Old: "					wc.gitignores = gitignores\n", New: "					_ = gitignores\n", Rule: "D8-same", Site: "parent-gitignores"},
			{Name: "skip-gitignore-even-when-disabled", File: "extractor/filesystem/filesystem.go", Old: "	if wc.useGitignore && internal.GitignoreMatch(wc.gitignores, strings.Split(path, \"/\"), true) {\n		return true\n	}\n", New: "	if wc.useGitignore || internal.GitignoreMatch(wc.gitignores, strings.Split(path, \"/\"), true) {\n		return true\n	}\n", Rule: "D4-decision-table", Site: "shouldSkipDir"},
		},
		Neutral: handleFileNeutral,
	})
}

func runC01(p *Prog, r *Report) {
	r.Rule("D9-path-boundary", "tests for 'leaves the root' respect the path-component boundary")
	dotdotBoundary(p, r, "D9-path-boundary", "extractor/filesystem", "extractor/filesystem/internal")
	r.Rule("D4-decision-table", "the skip predicate is exactly the disjunction of the five configured skip rules")
	defer c01SkipTable(p, r)
	r.Rule("D1-dispatch", "Extract only on the extractor whose FileRequired just returned true")
	r.Rule("D1-fileapi", "lazy file API points at the current path, stat cache reset, before FileRequired")
	r.Rule("D2-once", "one dispatch per (file, extractor); loop covers all extractors")
	r.Rule("D3-filetype", "directories never, non-regular only as symlink with ReadSymlinks")
	r.Rule("D4-consult", "skip predicate consults every skip rule before answering false")
	r.Rule("D4-match", "a matching skip rule leads to 'skip'")
	r.Rule("D4-exact", "skip list is an exact-path map lookup")
	r.Rule("D4-skipdir", "SkipDir returned iff the skip predicate holds")
	r.Rule("D5-gitignore", "gitignore-matched files never dispatched")
	r.Rule("D6-append", "non-empty results always appended to the inventory")
	r.Rule("D6-attribution", "every package attributed to the producing extractor")
	r.Rule("D6-scan", "Scan merges filesystem and standalone inventory")
	r.Rule("D7-walk", "walker: callback first, recurse into every entry, exits only EOF/error/SkipDir")
	r.Rule("D8-same", "explicit-path walk uses the same machinery as the whole-tree walk")
	e := resolveEngine(p, r, "D1-dispatch")
	if !e.ok() {
		return
	}
	c01Dispatch(p, r, e)
	c01Filetype(p, r, e)
	c01Skip(p, r, e)
	c01Gitignore(p, r, e)
	c01Attribution(p, r, e)
	c01Walker(p, r, e)
	setOnlyAtConstruction(p, r, "D7-walk", "extractor/filesystem/internal", "dirIterator", "files", "the preloaded list of a directory iterator is replaced after construction: `files != nil` is the iterator's mode (everything was read up front, the list's end is the directory's end), so an iterator that reads in batches reports end-of-directory after its first batch and the remaining entries — files and whole sub-trees — are never visited")
	c01Same(p, r, e)
	loopLeftOnlyWithError(p, r, "D8-same", e.walkIndividual, "walkContext", "pathsToExtract", "walkIndividualPaths can return from inside its loop over the requested paths with a value that may be nil (the callback's verdict on a failed stat, say): when it is nil, every requested path after this one is silently never walked and the scan still reports success")
	c01ParentPatternsReset(p, r, e, "D8-same")
	ancestorChainAccumulates(p, r, "D8-same")
	r.Rule("D5-balanced", "gitignore push/pop balanced: patterns of skipped directories never unbalance the stack")
	c08Balanced(p, r, e, "D5-balanced")
	r.Rule("D9-enabled-once", "an extractor required by several detectors is enabled once")
	seenSetIsKeptCurrent(p, r, "D9-enabled-once", p.FuncsIn("."), 1, "an extractor that is added to the configuration because a detector requires it is not recorded in the set the next requirement is checked against: a second detector requiring the same extractor adds it again, and every file it wants is extracted (and every package reported) once per detector")
}

func c01Dispatch(p *Prog, r *Report, e *engine) {
	hf := newFA(p, r, e.handleFile)
	frc := e.fileRequiredCall()
	if frc == nil {
		r.Undecided("D1-dispatch", hf.key+":FileRequired", "-", "no FileRequired invoke in the walk callback")
		return
	}
	// D1: dispatch only under FileRequired()==true of the same extractor value
	disp := e.dispatchCall
	hf.requireGuard("D1-dispatch", "dispatch-under-FileRequired", disp, true, "FileRequired(current file)", condCall(isInvoke("FileRequired")))
	exArg := disp.Call.Args[1]
	r.Check(stripIface(exArg) == stripIface(frc.Call.Value), "D1-dispatch", hf.key+":same-extractor", p.Pos(disp.Pos()),
		"dispatch receives the extractor whose FileRequired was asked", "the extractor handed to the dispatch function is not the one whose FileRequired was asked")
	// path argument is the callback's path parameter
	r.Check(disp.Call.Args[2] == hf.fn.Params[1], "D1-dispatch", hf.key+":same-path", p.Pos(disp.Pos()), "dispatch receives the callback's path", "the path handed to the dispatch function is not the path of the file being visited")
	// in runExtractor: Extract receiver is the ex parameter, ScanInput.Path is the path parameter
	re := newFA(p, r, e.runExtractor)
	r.Check(e.extractCall.Call.Value == re.fn.Params[1], "D1-dispatch", re.key+":receiver", p.Pos(e.extractCall.Pos()), "Extract invoked on the extractor parameter", "Extract is invoked on a value other than the extractor parameter")
	okPath, okReader := false, false
	forEachInstr(re.fn, func(_ *ssa.BasicBlock, _ int, in ssa.Instruction) {
		st, ok := in.(*ssa.Store)
		if !ok {
			return
		}
		if s, f, _, ok := fieldOf(st.Addr); ok && s == "ScanInput" {
			if f == "Path" && st.Val == re.fn.Params[2] {
				okPath = true
			}
			if f == "Reader" {
				// reader must come from wc.fs.Open(path)
				if derivesFrom(st.Val, func(v ssa.Value) bool {
					c, _ := callValue(v)
					return c != nil && c.Call.IsInvoke() && c.Call.Method.Name() == "Open" && len(c.Call.Args) == 1 && c.Call.Args[0] == re.fn.Params[2]
				}, deriveOpts{}) {
					okReader = true
				}
			}
		}
	})
	r.Check(okPath, "D1-dispatch", re.key+":input-path", p.Pos(e.extractCall.Pos()), "ScanInput.Path = path", "ScanInput.Path is not the path of the file being dispatched")
	r.Check(okReader, "D1-dispatch", re.key+":input-reader", p.Pos(e.extractCall.Pos()), "ScanInput.Reader = Open(path)", "ScanInput.Reader is not the result of opening the path being dispatched")
	checkFileAPI(p, r, e, "D1-fileapi")
	extractorLoopRule(p, r, e, "D2-once")
	r.Rule("D2-size", "dispatch only if limit off or lazy-stat size of the opened file ≤ limit (shared with C10)")
	c10Size(p, r, e)

	// D2: dispatch call not in an inner loop of runExtractor; one dispatch per iteration
	r.Check(!inLoop(e.extractCall.Block()), "D2-once", re.key+":extract-not-in-loop", p.Pos(e.extractCall.Pos()), "Extract call is not inside a loop", "Extract is invoked inside a loop of the dispatch function: a file can be extracted more than once")
	hdr := loopHeaderOf(disp.Block())
	if hdr == nil {
		r.Fail("D2-once", hf.key+":extractor-loop", p.Pos(disp.Pos()), "the dispatch is not inside a loop over the configured extractors")
		return
	}
	// the loop visits every element of wc.extractors from the first, and the dispatched extractor is
	// the current element
	okRange := false
	if coll, ok := fullScanElement(stripIface(disp.Call.Args[1])); ok && loadsField(coll, "walkContext", "extractors") {
		if c2, _, ok := loopScansAll(hdr); ok && (c2 == coll || renderValueDeep(c2) == renderValueDeep(coll)) {
			okRange = true
		}
	}
	r.Check(okRange, "D2-once", hf.key+":extractor-loop", p.Pos(disp.Pos()), "for _, ex := range wc.extractors (all elements, from the first)", "the dispatch loop does not range over every configured extractor from the first one")
	// from FileRequired-true edge every path to the loop header passes the dispatch
	holds, _ := guardEdges(hf.fn, condCall(isInvoke("FileRequired")))
	for _, ed := range holds {
		hf.noPath("D2-once", "required-implies-dispatch", edgeStart(ed), firstInstrOf(hdr), instrIs(disp), nil,
			"every path from FileRequired==true to the next extractor passes the dispatch (other exits return)", "an extractor that requires the file can be skipped: a path from FileRequired==true back to the loop head avoids the dispatch")
	}
	// after dispatch the loop continues (no break)
	w := findPath(pointOf(disp), firstInstrOf(hdr), nil, nil)
	r.Check(w != nil, "D2-once", hf.key+":continues-after-dispatch", p.Pos(disp.Pos()), "loop head reachable after dispatch", "after one extractor was run the loop does not continue with the remaining extractors")
	// from FileRequired-false edge: goes to loop header without return
	_, fails := guardEdges(hf.fn, condCall(isInvoke("FileRequired")))
	for _, ed := range fails {
		hf.noPath("D2-once", "not-required-continues", edgeStart(ed), isReturn, firstInstrOf(hdr), nil,
			"FileRequired==false continues with the next extractor", "when one extractor does not require the file the callback can return without asking the remaining extractors")
	}
}

func c01Filetype(p *Prog, r *Report, e *engine) {
	hf := newFA(p, r, e.handleFile)
	disp := e.dispatchCall
	isDir := condCall(callIs("io/fs", "FileMode", "IsDir"))
	isReg := condCall(callIs("io/fs", "FileMode", "IsRegular"))
	dirHolds, _ := guardEdges(hf.fn, isDir)
	if len(dirHolds) == 0 {
		r.Fail("D3-filetype", hf.key+":dir-test", p.Pos(hf.fn.Pos()), "no IsDir test in the walk callback")
	}
	for _, ed := range dirHolds {
		hf.noPath("D3-filetype", "directories-never-dispatched", edgeStart(ed), instrIs(disp), nil, nil, "dispatch unreachable from the directory branch", "a directory can reach the extractor dispatch")
	}
	_, regFails := guardEdges(hf.fn, isReg)
	if len(regFails) == 0 {
		r.Fail("D3-filetype", hf.key+":regular-test", p.Pos(hf.fn.Pos()), "no IsRegular test in the walk callback: special files reach the extractors")
		return
	}
	symHolds, _ := guardEdges(hf.fn, condFieldBool("walkContext", "readSymlinks"))
	// (d.Type() & ModeType) == ModeSymlink
	modeSym := func(c ssa.Value) (bool, bool) {
		op, x, y, ok := cmpNorm(c)
		if !ok || (op != token.EQL && op != token.NEQ) {
			return false, false
		}
		isMask := func(v ssa.Value) bool {
			b, ok := v.(*ssa.BinOp)
			if !ok || b.Op != token.AND {
				return false
			}
			k, ok := constInt(b.Y)
			if !ok {
				k, ok = constInt(b.X)
			}
			return ok && uint32(k) == 0x8f280000 // fs.ModeType
		}
		isSym := func(v ssa.Value) bool { k, ok := constInt(v); return ok && uint32(k) == 0x8000000 }
		if (isMask(x) && isSym(y)) || (isMask(y) && isSym(x)) {
			return true, op == token.EQL
		}
		return false, false
	}
	modeHolds, _ := guardEdges(hf.fn, modeSym)
	for _, ed := range regFails {
		hf.noPath("D3-filetype", "nonregular-needs-readSymlinks", edgeStart(ed), instrIs(disp), nil, edgesOf(symHolds),
			"non-regular files reach the dispatch only through readSymlinks==true", "a non-regular file can reach the dispatch although symlink reading is off")
		hf.noPath("D3-filetype", "nonregular-needs-symlink-mode", edgeStart(ed), instrIs(disp), nil, edgesOf(modeHolds),
			"non-regular files reach the dispatch only when (mode&ModeType)==ModeSymlink", "a non-regular, non-symlink file (device, pipe, socket) can reach the dispatch")
	}
	// regular files: test is on d.Type() of the callback's entry
	_ = isReg
}

func c01Skip(p *Prog, r *Report, e *engine) {
	sd := newFA(p, r, e.shouldSkipDir)
	retNotTrue := func(in ssa.Instruction) bool {
		ret, ok := in.(*ssa.Return)
		if !ok || len(ret.Results) != 1 {
			return false
		}
		b, ok := constBool(retVal(ret, 0))
		return !(ok && b)
	}
	fields := []string{"dirsToSkip", "ignoreSubDirs", "useGitignore", "skipDirRegex", "skipDirGlob"}
	for _, f := range fields {
		sd.noPath("D4-consult", f, entryPoint(sd.fn), retNotTrue, touchesField("walkContext", f), nil,
			"consulted on every path that does not answer 'skip'", "the skip predicate can answer 'do not skip' without consulting the "+f+" rule")
	}
	r.Instances("D4-consult", "skip rules", len(fields), 5)
	// each rule's match edge leads only to return true
	type rule struct {
		name string
		pred CondPred
	}
	rules := []rule{
		{"skip-list", func(c ssa.Value) (bool, bool) {
			ex, ok := c.(*ssa.Extract)
			if !ok || ex.Index != 1 {
				return false, false
			}
			lk, ok := ex.Tuple.(*ssa.Lookup)
			if !ok || !loadsField(lk.X, "walkContext", "dirsToSkip") {
				return false, false
			}
			return true, true
		}},
		{"regex", condCall(callIs("regexp", "Regexp", "MatchString"))},
		{"glob", condCall(func(c *ssa.Call) bool {
			return c.Call.IsInvoke() && c.Call.Method.Name() == "Match" && loadsField(c.Call.Value, "walkContext", "skipDirGlob")
		})},
		{"gitignore", condCall(callIs(fp(fsInt), "", "GitignoreMatch"))},
	}
	for _, ru := range rules {
		holds, _ := guardEdges(sd.fn, ru.pred)
		if len(holds) == 0 {
			r.Fail("D4-match", sd.key+":"+ru.name, p.Pos(sd.fn.Pos()), "the "+ru.name+" rule is not tested in the skip predicate (as a branch on its match result)")
			continue
		}
		for _, ed := range holds {
			sd.noPath("D4-match", ru.name, edgeStart(ed), retNotTrue, nil, nil, "match ⇒ skip", "a directory matching the "+ru.name+" rule is not skipped on some path")
		}
	}
	// sub-directory cut-off: ignoreSubDirs && !Contains(pathsToExtract, path) => true
	{
		_, notContained := guardEdges(sd.fn, condCall(func(c *ssa.Call) bool {
			rf := refOf(c.Common())
			return rf.Name == "Contains" && rf.Pkg == "slices" && loadsField(c.Call.Args[0], "walkContext", "pathsToExtract") && c.Call.Args[1] == sd.fn.Params[1]
		}))
		if len(notContained) == 0 {
			r.Fail("D4-match", sd.key+":subdir-cutoff", p.Pos(sd.fn.Pos()), "the sub-directory cut-off no longer tests slices.Contains(pathsToExtract, path)")
		}
		for _, ed := range notContained {
			sd.noPath("D4-match", "subdir-cutoff", edgeStart(ed), retNotTrue, nil, nil, "not a requested dir under IgnoreSubDirs ⇒ skip", "with IgnoreSubDirs a directory that is not a requested path is not skipped on some path")
		}
	}
	// arguments: regex/glob get path; GitignoreMatch(wc.gitignores, Split(path,"/"), true)
	forEachInstr(sd.fn, func(_ *ssa.BasicBlock, _ int, in ssa.Instruction) {
		c, ok := in.(*ssa.Call)
		if !ok {
			return
		}
		rf := refOf(c.Common())
		switch {
		case rf.is("regexp", "Regexp", "MatchString"):
			r.Check(c.Call.Args[1] == sd.fn.Params[1], "D4-match", sd.key+":regex-arg", p.Pos(c.Pos()), "regex matched against path", "the skip regex is not matched against the directory path")
		case c.Call.IsInvoke() && c.Call.Method.Name() == "Match":
			r.Check(len(c.Call.Args) == 1 && c.Call.Args[0] == sd.fn.Params[1], "D4-match", sd.key+":glob-arg", p.Pos(c.Pos()), "glob matched against path", "the skip glob is not matched against the directory path")
		case rf.is(fp(fsInt), "", "GitignoreMatch"):
			b, isB := constBool(c.Call.Args[2])
			r.Check(loadsField(c.Call.Args[0], "walkContext", "gitignores") && isB && b && isSplitOf(c.Call.Args[1], sd.fn.Params[1]), "D4-match", sd.key+":gitignore-args", p.Pos(c.Pos()),
				"GitignoreMatch(wc.gitignores, split(path), isDir=true)", "the directory gitignore test does not use the collected patterns, the directory path and isDir=true")
		}
	})
	// D4-exact: skip list is Lookup with key == path
	exact := false
	forEachInstr(sd.fn, func(_ *ssa.BasicBlock, _ int, in ssa.Instruction) {
		if lk, ok := in.(*ssa.Lookup); ok && loadsField(lk.X, "walkContext", "dirsToSkip") && lk.Index == sd.fn.Params[1] {
			exact = true
		}
	})
	r.Check(exact, "D4-exact", sd.key+":skip-list-lookup", p.Pos(sd.fn.Pos()), "dirsToSkip[path]", "the skip list is no longer matched by an exact lookup of the directory path (prefix or pattern matching also skips look-alike directories)")

	// D4-skipdir in handleFile
	hf := newFA(p, r, e.handleFile)
	var skipRets []*ssa.Return
	for _, ret := range returnsOf(hf.fn) {
		if len(ret.Results) == 1 && loadsGlobal(retVal(ret, 0), "io/fs", "SkipDir") {
			skipRets = append(skipRets, ret)
		}
	}
	ssd := condCall(func(c *ssa.Call) bool { return c.Call.StaticCallee() == e.shouldSkipDir })
	if len(skipRets) == 0 {
		r.Fail("D4-skipdir", hf.key+":returns-SkipDir", p.Pos(hf.fn.Pos()), "the walk callback never returns fs.SkipDir: skipped directories are still descended into")
	}
	for _, ret := range skipRets {
		hf.requireGuard("D4-skipdir", "SkipDir-only-if-skip", ret, true, "shouldSkipDir(path)", ssd)
	}
	// the deciding call: the shouldSkipDir call whose true edge leads to the return SkipDir; from
	// its true edge every path returns SkipDir
	holds, _ := guardEdges(hf.fn, ssd)
	decided := false
	for _, ed := range holds {
		w := findPath(edgeStart(ed), func(in ssa.Instruction) bool {
			ret, ok := in.(*ssa.Return)
			return ok && !(len(ret.Results) == 1 && loadsGlobal(retVal(ret, 0), "io/fs", "SkipDir")) && !retNonNilErr(ret)
		}, nil, nil)
		// an edge that re-joins the common path (the gitignore pre-check) is allowed if a later
		// shouldSkipDir call decides; the last call must decide.
		call, _ := callValue(stripNotV(blockIf(ed.From).Cond))
		if call != nil && len(call.Call.Args) == 2 && call.Call.Args[1] == hf.fn.Params[1] {
			if w == nil {
				decided = true
			}
		}
	}
	r.Check(decided, "D4-skipdir", hf.key+":skip-implies-SkipDir", p.Pos(hf.fn.Pos()), "shouldSkipDir(path)==true ⇒ return fs.SkipDir", "no shouldSkipDir(path)==true edge leads to 'return fs.SkipDir' on all paths: a directory the rules exclude is still walked")
	// every directory passes the deciding call: from IsDir-true edge to a nil return, must pass a shouldSkipDir call
	dirHolds, _ := guardEdges(hf.fn, condCall(callIs("io/fs", "FileMode", "IsDir")))
	for _, ed := range dirHolds {
		hf.noPath("D4-skipdir", "every-directory-asked", edgeStart(ed), retIsNil(0), func(in ssa.Instruction) bool {
			c, ok := in.(*ssa.Call)
			return ok && c.Call.StaticCallee() == e.shouldSkipDir
		}, nil, "every directory that is descended into was checked by the skip predicate", "a directory can be descended into without asking the skip predicate")
	}
}

func retNonNilErr(ret *ssa.Return) bool {
	if len(ret.Results) != 1 {
		return false
	}
	v := retVal(ret, 0)
	if isNilConst(v) {
		return false
	}
	c, _ := callValue(v)
	return c != nil // fmt.Errorf(...), ctx.Err()
}

func stripNotV(v ssa.Value) ssa.Value { x, _ := stripNot(v); return x }

// isSplitOf: v == strings.Split(path, "/")
func isSplitOf(v ssa.Value, path ssa.Value) bool {
	c, ok := v.(*ssa.Call)
	if !ok || !refOf(c.Common()).is("strings", "", "Split") {
		return false
	}
	sep, ok := constString(c.Call.Args[1])
	return ok && sep == "/" && c.Call.Args[0] == path
}

func c01Gitignore(p *Prog, r *Report, e *engine) {
	hf := newFA(p, r, e.handleFile)
	disp := e.dispatchCall
	// dispatch reachable only via useGitignore==false or GitignoreMatch(files)==false
	gm := condCall(func(c *ssa.Call) bool {
		if !refOf(c.Common()).is(fp(fsInt), "", "GitignoreMatch") {
			return false
		}
		b, ok := constBool(c.Call.Args[2])
		return ok && !b && loadsField(c.Call.Args[0], "walkContext", "gitignores") && isSplitOf(c.Call.Args[1], hf.fn.Params[1])
	})
	_, ugFalse := guardEdges(hf.fn, condFieldBool("walkContext", "useGitignore"))
	_, gmFalse := guardEdges(hf.fn, gm)
	if len(gmFalse) == 0 {
		r.Fail("D5-gitignore", hf.key+":file-gitignore-test", p.Pos(hf.fn.Pos()), "no GitignoreMatch(wc.gitignores, split(path), isDir=false) test for files in the walk callback")
		return
	}
	ok := onlyVia(hf.fn, disp.Block(), append(append([]Edge{}, ugFalse...), gmFalse...))
	r.Check(ok, "D5-gitignore", hf.key+":dispatch-not-ignored", p.Pos(disp.Pos()), "dispatch only if gitignore is off or the file is not matched", "a file matched by the collected .gitignore patterns can reach the extractor dispatch")
}

func c01Attribution(p *Prog, r *Report, e *engine) {
	re := newFA(p, r, e.runExtractor)
	ext := e.extractCall
	// Append call: (*inventory.Inventory).Append(&wc.inventory, results)
	var app *ssa.Call
	forEachInstr(re.fn, func(_ *ssa.BasicBlock, _ int, in ssa.Instruction) {
		if c, ok := in.(*ssa.Call); ok && refOf(c.Common()).is(fp("inventory"), "Inventory", "Append") {
			app = c
		}
	})
	if app == nil {
		r.Fail("D6-append", re.key+":append", p.Pos(ext.Pos()), "the Extract result is never appended to the walk's inventory")
		return
	}
	isRes := func(v ssa.Value) bool {
		return derivesFrom(v, func(x ssa.Value) bool {
			ex, ok := x.(*ssa.Extract)
			return ok && ex.Tuple == ssa.Value(ext) && ex.Index == 0
		}, deriveOpts{followStores: true})
	}
	okArgs := false
	if len(app.Call.Args) >= 2 {
		if s, f, _, ok := fieldOf(app.Call.Args[0]); ok && s == "walkContext" && f == "inventory" {
			// variadic: args[1] is a slice of a fresh array holding results
			okArgs = derivesFromSliceElem(app.Call.Args[1], isRes)
		}
	}
	r.Check(okArgs, "D6-append", re.key+":append-args", p.Pos(app.Pos()), "wc.inventory.Append(<Extract result>)", "what is appended to the walk's inventory is not the result of this Extract call (or not into wc.inventory)")
	// from Extract to return: avoid Append, cut "IsEmpty()==true" edges -> no path
	emptyHolds, _ := guardEdges(re.fn, condCall(callIs(fp("inventory"), "Inventory", "IsEmpty")))
	if len(emptyHolds) == 0 {
		r.Note("runExtractor has no IsEmpty test; Append must then be unconditional")
	}
	re.noPath("D6-append", "nonempty-always-appended", pointOf(ext), isReturn, instrIs(app), edgesOf(emptyHolds),
		"every path after Extract with a non-empty result passes Append (also when err != nil)", "a non-empty Extract result can be dropped: a path from Extract to the return avoids inventory.Append without the result being empty")
	// foundInv[ex.Name()] = true on the same paths
	var found ssa.Instruction
	forEachInstr(re.fn, func(_ *ssa.BasicBlock, _ int, in ssa.Instruction) {
		if mu, ok := in.(*ssa.MapUpdate); ok && loadsField(mu.Map, "walkContext", "foundInv") {
			found = in
		}
	})
	if found == nil {
		r.Fail("D6-append", re.key+":foundInv", p.Pos(app.Pos()), "foundInv is never set: a partially succeeding extractor is reported as failed")
	} else {
		re.noPath("D6-append", "foundInv-set-with-append", pointOf(ext), instrIs(app), instrIs(found), nil, "foundInv set before Append", "results are appended without marking the extractor as having found inventory")
		mu := found.(*ssa.MapUpdate)
		kc, _ := callValue(mu.Key)
		r.Check(kc != nil && kc.Call.IsInvoke() && kc.Call.Method.Name() == "Name" && kc.Call.Value == re.fn.Params[1], "D6-append", re.key+":foundInv-key", p.Pos(found.Pos()), "keyed by ex.Name()", "foundInv is keyed by something other than the running extractor's name")
	}
	// attribution store
	var attr *ssa.Store
	forEachInstr(re.fn, func(_ *ssa.BasicBlock, _ int, in ssa.Instruction) {
		if storesField("Package", "Extractor")(in) {
			attr = in.(*ssa.Store)
		}
	})
	if attr == nil {
		r.Fail("D6-attribution", re.key+":store", p.Pos(app.Pos()), "packages are appended without being attributed to the extractor that produced them")
		return
	}
	okVal := stripIface(attr.Val) == ssa.Value(re.fn.Params[1])
	// the package pointer whose field is stored is an element of results.Packages
	_, _, base, _ := fieldOf(attr.Addr)
	okElem := derivesFrom(base, func(v ssa.Value) bool {
		s, f, b2, ok := fieldOf(v)
		return ok && s == "Inventory" && f == "Packages" && isRes(b2)
	}, deriveOpts{followStores: true})
	r.Check(okVal && okElem, "D6-attribution", re.key+":store", p.Pos(attr.Pos()), "results.Packages[i].Extractor = ex", "the Extractor field is set to a value other than the running extractor, or on packages that are not those of this result")
	// loop covers all packages & store unconditional in the body; loop is before Append
	hdr := loopHeaderOf(attr.Block())
	if hdr == nil {
		r.Fail("D6-attribution", re.key+":loop", p.Pos(attr.Pos()), "the attribution is not inside a loop over the result's packages")
		return
	}
	ifi := blockIf(hdr)
	good := ifi != nil
	if good {
		bodyEdge := Edge{hdr, 0}
		w := findPath(edgeStart(bodyEdge), firstInstrOf(hdr), instrIs(attr), nil)
		good = w == nil
	}
	r.Check(good, "D6-attribution", re.key+":every-package", p.Pos(attr.Pos()), "every iteration attributes its package", "some package of the result can pass the loop without being attributed")
	w := findPath(Point{hdr, -1}, instrIs(app), nil, nil)
	w2 := findPath(pointOf(ext), instrIs(app), firstInstrOf(hdr), nil)
	r.Check(w != nil && w2 == nil, "D6-attribution", re.key+":before-append", p.Pos(app.Pos()), "attribution loop precedes Append on every path", "results can be appended without passing the attribution loop")
	// the loop visits every package of the result from the first
	_, _, okRange := loopScansAll(hdr)
	r.Check(okRange, "D6-attribution", re.key+":range-all", p.Pos(attr.Pos()), "range over all packages", "the attribution loop does not range over all packages of the result")

	// D6-scan: Scan: sro.Inventory = filesystem.Run result #0; sro.Inventory.Append(standalone result #0)
	scan := p.Func(".", "Scanner.Scan")
	if scan == nil {
		r.Undecided("D6-scan", "anchor:Scanner.Scan", "-", "not found")
		return
	}
	var runCall, saCall *ssa.Call
	forEachInstr(scan, func(_ *ssa.BasicBlock, _ int, in ssa.Instruction) {
		if c, ok := in.(*ssa.Call); ok {
			rf := refOf(c.Common())
			if rf.is(fp(fsPkg), "", "Run") {
				runCall = c
			}
			if rf.is(fp("extractor/standalone"), "", "Run") {
				saCall = c
			}
		}
	})
	sk := fnKey(scan)
	if runCall == nil || saCall == nil {
		r.Fail("D6-scan", sk+":runs", p.Pos(scan.Pos()), "Scan no longer calls filesystem.Run and standalone.Run")
		return
	}
	stored := false
	forEachInstr(scan, func(_ *ssa.BasicBlock, _ int, in ssa.Instruction) {
		if st, ok := in.(*ssa.Store); ok {
			if s, f, _, ok := fieldOf(st.Addr); ok && s == "newScanResultOptions" && f == "Inventory" {
				if ex, ok := st.Val.(*ssa.Extract); ok && ex.Tuple == ssa.Value(runCall) && ex.Index == 0 {
					stored = true
				}
			}
		}
	})
	r.Check(stored, "D6-scan", sk+":fs-inventory", p.Pos(runCall.Pos()), "result inventory = filesystem.Run inventory", "the filesystem inventory is not what Scan stores as the result inventory")
	merged := false
	forEachInstr(scan, func(_ *ssa.BasicBlock, _ int, in ssa.Instruction) {
		if c, ok := in.(*ssa.Call); ok && refOf(c.Common()).is(fp("inventory"), "Inventory", "Append") {
			if s, f, _, ok := fieldOf(c.Call.Args[0]); ok && s == "newScanResultOptions" && f == "Inventory" {
				if derivesFromSliceElem(c.Call.Args[1], func(v ssa.Value) bool {
					ex, ok := v.(*ssa.Extract)
					return ok && ex.Tuple == ssa.Value(saCall) && ex.Index == 0
				}) {
					merged = true
				}
			}
		}
	})
	r.Check(merged, "D6-scan", sk+":standalone-merged", p.Pos(saCall.Pos()), "standalone inventory appended to the result", "the standalone inventory is not merged into the result inventory")
}

// derivesFromSliceElem: v is `slice t[:]` of a fresh array one of whose stored elements satisfies f
// (the SSA shape of a variadic argument), or v itself satisfies f.
func derivesFromSliceElem(v ssa.Value, f func(ssa.Value) bool) bool {
	if f(v) {
		return true
	}
	sl, ok := v.(*ssa.Slice)
	if !ok {
		return false
	}
	al, ok := sl.X.(*ssa.Alloc)
	if !ok {
		return false
	}
	for _, ref := range *al.Referrers() {
		if ia, ok := ref.(*ssa.IndexAddr); ok {
			for _, r2 := range *ia.Referrers() {
				if st, ok := r2.(*ssa.Store); ok && f(st.Val) {
					return true
				}
			}
		}
	}
	return false
}

func c01Walker(p *Prog, r *Report, e *engine) {
	w := newFA(p, r, e.walkRec)
	fn := w.fn
	// params: fsys, name, d, walkDirFn, postFN
	if len(fn.Params) != 5 {
		r.Undecided("D7-walk", w.key+":signature", p.Pos(fn.Pos()), "unexpected signature of the recursive walker")
		return
	}
	isCB := func(in ssa.Instruction) bool {
		c, ok := in.(*ssa.Call)
		return ok && c.Call.Value == fn.Params[3]
	}
	isRec := func(in ssa.Instruction) bool {
		c, ok := in.(*ssa.Call)
		return ok && c.Call.StaticCallee() == fn
	}
	var readDir, next *ssa.Call
	var rec *ssa.Call
	forEachInstr(fn, func(_ *ssa.BasicBlock, _ int, in ssa.Instruction) {
		c, ok := in.(*ssa.Call)
		if !ok {
			return
		}
		rf := refOf(c.Common())
		if rf.is(fp(fsInt), "", "readDir") {
			readDir = c
		}
		if rf.is(fp(fsInt), "dirIterator", "next") {
			next = c
		}
		if isRec(in) {
			rec = c
		}
	})
	if readDir == nil || next == nil || rec == nil {
		r.Undecided("D7-walk", w.key+":anchors", p.Pos(fn.Pos()), "readDir / next / recursive call not found in the walker")
		return
	}
	// callback before listing
	w.noPath("D7-walk", "callback-before-listing", entryPoint(fn), instrIs(readDir), isCB, nil, "the callback sees a directory before it is listed", "a directory can be listed without the callback having been called for it (skip rules and limits bypassed)")
	// first callback call passes (name, d, nil)
	var firstCB *ssa.Call
	forEachInstr(fn, func(_ *ssa.BasicBlock, _ int, in ssa.Instruction) {
		if c, ok := in.(*ssa.Call); ok && isCB(in) && firstCB == nil && c.Block().Dominates(readDir.Block()) {
			firstCB = c
		}
	})
	if firstCB != nil {
		r.Check(firstCB.Call.Args[0] == fn.Params[1] && firstCB.Call.Args[1] == fn.Params[2] && isNilConst(firstCB.Call.Args[2]), "D7-walk", w.key+":callback-args", p.Pos(firstCB.Pos()), "walkDirFn(name, d, nil)", "the main callback call does not pass (name, d, nil)")
	}
	// every successful next() -> recursive call: from next's err==nil edge, no path to loop head/return avoiding rec
	errOfNext := func(v ssa.Value) bool {
		ex, ok := v.(*ssa.Extract)
		return ok && ex.Tuple == ssa.Value(next) && ex.Index == 1
	}
	_, nextOK := guardEdges(fn, condNonNil(errOfNext))
	hdr := loopHeaderOf(next.Block())
	if len(nextOK) == 0 || hdr == nil {
		r.Undecided("D7-walk", w.key+":next-test", p.Pos(next.Pos()), "the error of next() is not tested / next() is not in a loop")
		return
	}
	for _, ed := range nextOK {
		w.noPath("D7-walk", "every-entry-visited", edgeStart(ed), anyOf(isReturn, instrIs(next)), isRec, nil, "each successfully read entry is walked", "a successfully read directory entry can be skipped without walking it")
	}
	// recursive call args: (fsys, path.Join(name, d1.Name()), d1, walkDirFn, postFN)
	d1 := func(v ssa.Value) bool {
		ex, ok := v.(*ssa.Extract)
		return ok && ex.Tuple == ssa.Value(next) && ex.Index == 0
	}
	a := rec.Call.Args
	okArgs := a[0] == fn.Params[0] && d1(a[2]) && a[3] == fn.Params[3] && a[4] == fn.Params[4]
	if jc, ok := a[1].(*ssa.Call); ok && refOf(jc.Common()).is("path", "", "Join") {
		okArgs = okArgs && derivesFromSliceElem(jc.Call.Args[0], func(v ssa.Value) bool { return v == fn.Params[1] })
		okArgs = okArgs && derivesFromSliceElem(jc.Call.Args[0], func(v ssa.Value) bool {
			c, _ := callValue(v)
			return c != nil && c.Call.IsInvoke() && c.Call.Method.Name() == "Name" && d1(c.Call.Value)
		})
	} else {
		okArgs = false
	}
	r.Check(okArgs, "D7-walk", w.key+":recursion-args", p.Pos(rec.Pos()), "walkDirUnsorted(fsys, path.Join(name, d1.Name()), d1, fn, postFN)", "the recursive call does not walk the entry just read with the same callbacks")
	// loop exits: from the loop body, leaving the loop (reaching a return) requires one of:
	// next err != nil edge, or recursion err != nil edge
	nextErr, _ := guardEdges(fn, condNonNil(errOfNext))
	recErr, _ := guardEdges(fn, condNonNil(func(v ssa.Value) bool { return v == ssa.Value(rec) }))
	cut := edgesOf(append(append([]Edge{}, nextErr...), recErr...))
	// a failed next() ends the listing of this directory: next() is not called again on the handle
	// that just failed (it would fail the same way for ever — the walk would not terminate)
	for _, ed := range nextErr {
		w.noPath("D7-walk", "failed-read-ends-listing", edgeStart(ed), instrIs(next), nil, nil, "after a failed directory read the directory is not read again", "after next() reported an error the loop can go round and call next() on the same directory handle again: a read error that persists (as they do) is reported to the callback for ever and the scan never terminates")
	}
	w.noPath("D7-walk", "loop-exits", Point{hdr, -1}, isReturn, nil, cut, "the entry loop is left only after a failed next() (EOF/error) or a failing/SkipDir recursion", "the entry loop can be left although next() succeeded and the recursion returned nil: remaining entries are never visited")
	// returns: never originates SkipDir/SkipAll: every returned value is nil or the result of a callback / recursive call
	for i, ret := range returnsOf(fn) {
		bad := ""
		seen := map[ssa.Value]bool{}
		var chk func(v ssa.Value)
		chk = func(v ssa.Value) {
			if seen[v] {
				return
			}
			seen[v] = true
			switch x := v.(type) {
			case *ssa.Const:
			case *ssa.Phi:
				for _, ed := range x.Edges {
					chk(ed)
				}
			case *ssa.Call:
				if !isCB(x) && !isRec(x) {
					bad = "result of " + refOf(x.Common()).String()
				}
			case *ssa.UnOp:
				if al, ok := x.X.(*ssa.Alloc); ok { // named result / captured var
					for _, s := range storesTo(al) {
						chk(s)
					}
				} else {
					bad = "load of " + x.X.String()
				}
			default:
				bad = fmt.Sprintf("%T", v)
			}
		}
		if len(ret.Results) == 1 {
			chk(retVal(ret, 0))
		}
		r.Check(bad == "", "D7-walk", fmt.Sprintf("%s:returns#%d", w.key, i), p.Pos(ret.Pos()), "returns nil or what the callback / recursion returned", "the walker returns an error value it originates itself ("+bad+"): e.g. fs.SkipDir from here makes the parent stop listing its remaining entries")
	}
	// postFN deferred
	hasDefer := false
	forEachInstr(fn, func(_ *ssa.BasicBlock, _ int, in ssa.Instruction) {
		if d, ok := in.(*ssa.Defer); ok && d.Call.Value == fn.Params[4] {
			hasDefer = true
		}
	})
	r.Check(hasDefer, "D7-walk", w.key+":post-deferred", p.Pos(fn.Pos()), "postFN deferred for every visited entry", "the post-visit callback is not deferred: gitignore state is not unwound on all exits")
}

func c01Same(p *Prog, r *Report, e *engine) {
	r.Instances("D8-same", "calls of WalkDirUnsorted in the engine", len(e.walkCalls), 2)
	for i, c := range e.walkCalls {
		site := fmt.Sprintf("%s:walk#%d", fnKey(c.Parent()), i)
		a := c.Call.Args
		good := len(a) == 4 && funcValue(a[2]) == e.handleFile && funcValue(a[3]) == e.postHandleFile && loadsField(a[0], "walkContext", "fs")
		// bound receivers are the same wc
		if good {
			m2, ok2 := stripChangeType(a[2]).(*ssa.MakeClosure)
			m3, ok3 := stripChangeType(a[3]).(*ssa.MakeClosure)
			good = ok2 && ok3 && len(m2.Bindings) == 1 && len(m3.Bindings) == 1 && sameLoad(m2.Bindings[0], m3.Bindings[0])
		}
		r.Check(good, "D8-same", site, p.Pos(c.Pos()), "WalkDirUnsorted(wc.fs, _, wc.handleFile, wc.postHandleFile)", "a walk is started with callbacks or a file system other than the walk context's own: explicit-path and whole-tree scans diverge")
	}
	wi := newFA(p, r, e.walkIndividual)
	// the walk of an explicit directory: dominated by useGitignore false or by storing ParseParentGitignores result
	var walk *ssa.Call
	for _, c := range e.walkCalls {
		if c.Parent() == wi.fn {
			walk = c
		}
	}
	if walk == nil {
		r.Fail("D8-same", wi.key+":walk", p.Pos(wi.fn.Pos()), "explicit directories are not walked with WalkDirUnsorted")
		return
	}
	var ppg *ssa.Call
	forEachInstr(wi.fn, func(_ *ssa.BasicBlock, _ int, in ssa.Instruction) {
		if c, ok := in.(*ssa.Call); ok && refOf(c.Common()).is(fp(fsInt), "", "ParseParentGitignores") {
			ppg = c
		}
	})
	if ppg == nil {
		r.Fail("D8-same", wi.key+":parent-gitignores", p.Pos(walk.Pos()), "explicit directories are walked without the .gitignore patterns of their parent directories")
		return
	}
	// a store to wc.gitignores whose value derives from ppg result, on every path useGitignore==true -> walk (except the non-fatal error path which stores nil)
	ugHolds, _ := guardEdges(wi.fn, condFieldBool("walkContext", "useGitignore"))
	isStoreFromPPG := func(in ssa.Instruction) bool {
		st, ok := in.(*ssa.Store)
		if !ok || !storesField("walkContext", "gitignores")(in) {
			return false
		}
		return derivesFrom(st.Val, func(v ssa.Value) bool {
			ex, ok := v.(*ssa.Extract)
			return ok && ex.Tuple == ssa.Value(ppg) && ex.Index == 0
		}, deriveOpts{})
	}
	for _, ed := range ugHolds {
		wi.noPath("D8-same", "parent-gitignores", edgeStart(ed), instrIs(walk), isStoreFromPPG, nil, "with UseGitignore the parents' patterns are installed before the walk", "with UseGitignore an explicitly requested directory can be walked without its parents' .gitignore patterns installed")
	}
	// walk is on the same p that was stat'ed and parsed
	r.Check(len(ppg.Call.Args) == 2 && ppg.Call.Args[1] == walk.Call.Args[1], "D8-same", wi.key+":same-dir", p.Pos(walk.Pos()), "patterns parsed for the directory that is walked", "the parents' patterns are parsed for a different path than the one walked")
	// explicit file: handleFile(p, DirEntry(info), nil)
	n := 0
	forEachInstr(wi.fn, func(_ *ssa.BasicBlock, _ int, in ssa.Instruction) {
		if c, ok := in.(*ssa.Call); ok && c.Call.StaticCallee() == e.handleFile {
			n++
		}
	})
	r.Check(n >= 2, "D8-same", wi.key+":files-through-callback", p.Pos(wi.fn.Pos()), "explicit files and stat failures go through the same callback", "explicitly requested files no longer go through the walk callback (limits, filters and dispatch differ)")
}

func stripChangeType(v ssa.Value) ssa.Value {
	for {
		ct, ok := v.(*ssa.ChangeType)
		if !ok {
			return v
		}
		v = ct.X
	}
}

// c01SkipTable: shouldSkipDir, as a boolean function of its atomic tests, equals
//
//	skip ⇔ path ∈ dirsToSkip ∨ (ignoreSubDirs ∧ path ∉ pathsToExtract) ∨ (useGitignore ∧ gitignore matches)
//	      ∨ (regex set ∧ regex matches) ∨ (glob set ∧ glob matches)
func c01SkipTable(p *Prog, r *Report) {
	fn := p.Func("extractor/filesystem", "walkContext.shouldSkipDir")
	site := "walkContext.shouldSkipDir"
	if fn == nil {
		r.Undecided("D4-decision-table", "anchor:"+site, "-", "not found")
		return
	}
	atoms, table, ok := decisionTableRaw(fn, false)
	if !ok {
		r.Undecided("D4-decision-table", site, p.Pos(fn.Pos()), "shouldSkipDir is no longer a loop-free combination of at most 12 atomic tests")
		return
	}
	classify := func(a string) string {
		switch {
		case strings.Contains(a, ".dirsToSkip["):
			return "inSkipList"
		case a == "param0.ignoreSubDirs":
			return "ignoreSub"
		case strings.Contains(a, "slices.Contains(param0.pathsToExtract,param1)"):
			return "isRoot"
		case a == "param0.useGitignore":
			return "useGit"
		case strings.Contains(a, "GitignoreMatch("):
			return "gitMatch"
		case strings.Contains(a, "param0.skipDirRegex") && strings.Contains(a, "nil:"):
			return "regexNil"
		case strings.Contains(a, "MatchString(param0.skipDirRegex"):
			return "regexMatch"
		case strings.Contains(a, "param0.skipDirGlob") && strings.Contains(a, "nil:"):
			return "globNil"
		case strings.Contains(a, ".Match(") && strings.Contains(a, "skipDirGlob"):
			return "globMatch"
		}
		return ""
	}
	var vars []string
	have := map[string]bool{}
	for _, a := range atoms {
		v := classify(a)
		if v == "" {
			r.Undecided("D4-decision-table", site+":atom", p.Pos(fn.Pos()), "shouldSkipDir tests something the five skip rules do not mention: "+a)
			return
		}
		vars = append(vars, v)
		have[v] = true
	}
	for _, n := range []string{"inSkipList", "ignoreSub", "isRoot", "useGit", "gitMatch", "regexNil", "regexMatch", "globNil", "globMatch"} {
		if !have[n] {
			r.Fail("D4-decision-table", site+":"+n, p.Pos(fn.Pos()), "shouldSkipDir no longer makes the test '"+n+"': that skip rule is not consulted")
			return
		}
	}
	for row := 0; row < len(table); row++ {
		val := map[string]bool{}
		for k, v := range vars {
			val[v] = row&(1<<k) != 0
		}
		model := val["inSkipList"] || (val["ignoreSub"] && !val["isRoot"]) || (val["useGit"] && val["gitMatch"]) || (!val["regexNil"] && val["regexMatch"]) || (!val["globNil"] && val["globMatch"])
		if model != (table[row] == '1') {
			var desc []string
			for k, v := range vars {
				desc = append(desc, fmt.Sprintf("%s=%v", v, row&(1<<k) != 0))
			}
			r.Fail("D4-decision-table", site, p.Pos(fn.Pos()), fmt.Sprintf("shouldSkipDir answers %v when %s; the configured skip rules say %v", table[row] == '1', strings.Join(desc, " "), model))
			return
		}
	}
	r.OK("D4-decision-table", site, p.Pos(fn.Pos()), fmt.Sprintf("equals the disjunction of the five skip rules on all %d combinations of its %d tests", len(table), len(atoms)))
}

// checkFileAPI: before FileRequired is asked about a file, the shared lazy file API is pointed at
// that file's path and its stat cache is invalidated — unconditionally, on every path (the object is
// reused for every file of every scan root, and paths are root-relative); a fresh fs.Stat overwrites
// both cached results.
func checkFileAPI(p *Prog, r *Report, e *engine, rule string) {
	hf := newFA(p, r, e.handleFile)
	frc := e.fileRequiredCall()
	if frc == nil {
		r.Undecided(rule, hf.key+":FileRequired", "-", "FileRequired call not found")
		return
	}
	// D1-fileapi: stores currentPath=path and currentStatCalled=false dominate the FileRequired call
	for _, f := range []string{"currentPath", "currentStatCalled"} {
		var store *ssa.Store
		forEachInstr(hf.fn, func(_ *ssa.BasicBlock, _ int, in ssa.Instruction) {
			if storesField("lazyFileAPI", f)(in) {
				store = in.(*ssa.Store)
			}
		})
		site := hf.key + ":" + f
		if store == nil {
			// the reset may live in a helper called from the callback: the helper must store on every
			// one of its paths, and the call must be passed on every path to FileRequired
			var helperCall ssa.Instruction
			okHelper := false
			forEachInstr(hf.fn, func(_ *ssa.BasicBlock, _ int, in ssa.Instruction) {
				c := callOf(in)
				if c == nil || c.StaticCallee() == nil || len(c.StaticCallee().Blocks) == 0 || !p.firstParty(c.StaticCallee()) {
					return
				}
				cal := c.StaticCallee()
				var hs *ssa.Store
				forEachInstr(cal, func(_ *ssa.BasicBlock, _ int, in2 ssa.Instruction) {
					if storesField("lazyFileAPI", f)(in2) {
						hs = in2.(*ssa.Store)
					}
				})
				if hs == nil {
					return
				}
				helperCall = in
				good := true
				if f == "currentStatCalled" {
					if b, ok := constBool(hs.Val); !ok || b {
						good = false
					}
				}
				if f == "currentPath" {
					if prm, ok := hs.Val.(*ssa.Parameter); !ok || prm.Parent() != cal {
						good = false
					}
				}
				if good && findPath(entryPoint(cal), isReturn, instrIs(hs), nil) == nil {
					okHelper = true
				}
			})
			if helperCall != nil && okHelper && findPath(entryPoint(hf.fn), instrIs(frc), instrIs(helperCall), nil) == nil {
				r.OK(rule, site, p.Pos(helperCall.Pos()), "reset through a helper that stores on every path")
				continue
			}
			r.Fail(rule, site, p.Pos(frc.Pos()), "the lazy file API's "+f+" is not (unconditionally) set before FileRequired is asked: extractors would see the previous file's "+map[string]string{"currentPath": "path", "currentStatCalled": "cached stat result"}[f]+" — the object is shared by all files of all scan roots, whose paths are root-relative")
			continue
		}
		good := true
		if f == "currentPath" && store.Val != hf.fn.Params[1] {
			good = false
		}
		if f == "currentStatCalled" {
			if b, ok := constBool(store.Val); !ok || b {
				good = false
			}
		}
		// must pass through the store on every path entry -> FileRequired
		w := findPath(entryPoint(hf.fn), instrIs(frc), instrIs(store), nil)
		r.Check(good && w == nil, rule, site, p.Pos(store.Pos()), "set on every path to FileRequired", "FileRequired can be asked on a path where the lazy file API's "+f+" was not (correctly) reset for the current file")
	}
	// lazyFileAPI.Stat: on the first call both cached fields are assigned from fs.Stat of the current path
	ls := newFA(p, r, e.lazyStat)
	var statCall *ssa.Call
	forEachInstr(ls.fn, func(_ *ssa.BasicBlock, _ int, in ssa.Instruction) {
		if c, ok := in.(*ssa.Call); ok && refOf(c.Common()).is("io/fs", "", "Stat") {
			statCall = c
		}
	})
	if statCall == nil {
		r.Undecided(rule, ls.key+":stat", "-", "no fs.Stat call in lazyFileAPI.Stat")
	} else {
		for _, f := range []string{"currentFileInfo", "currentStatErr"} {
			ls.noPath(rule, "stores-"+f, pointOf(statCall), isReturn, storesField("lazyFileAPI", f), nil,
				"assigned on every path after fs.Stat", "after a fresh fs.Stat the cached "+f+" may keep the value of a previous file")
		}
		r.Check(loadsField(statCall.Call.Args[1], "lazyFileAPI", "currentPath"), rule, ls.key+":stat-path", p.Pos(statCall.Pos()), "stats currentPath", "lazyFileAPI.Stat does not stat the current path")
	}

}
