package main

import (
	"golang.org/x/tools/go/ssa"
)

// Anchors of the scan engine (package extractor/filesystem), resolved by role first.
type engine struct {
	handleFile, postHandleFile *ssa.Function // callbacks given to internal.WalkDirUnsorted
	runExtractor               *ssa.Function // function containing the Extractor.Extract invoke
	extractCall                *ssa.Call
	shouldSkipDir              *ssa.Function
	walkIndividual, RunFS, Run *ssa.Function
	runOnScanRoot, UpdateRoot  *ssa.Function
	walkRec, WalkDir           *ssa.Function // internal.walkDirUnsorted / WalkDirUnsorted
	walkCalls                  []*ssa.Call   // calls of WalkDirUnsorted in extractor/filesystem
	dispatchCall               *ssa.Call     // call of runExtractor inside handleFile
	lazyStat                   *ssa.Function
	fileSize                   *ssa.Function
}

const fsPkg = "extractor/filesystem"
const fsInt = "extractor/filesystem/internal"

func resolveEngine(p *Prog, r *Report, rule string) *engine {
	e := &engine{}
	miss := func(what string) {
		r.Undecided(rule, "anchor:"+what, "-", "cannot resolve the anchor "+what+" in "+fsPkg+": code moved; rules that depend on it are undecided")
	}
	e.WalkDir = p.Func(fsInt, "WalkDirUnsorted")
	e.walkRec = p.Func(fsInt, "walkDirUnsorted")
	if e.WalkDir == nil || e.walkRec == nil {
		miss("internal.WalkDirUnsorted/walkDirUnsorted")
	}
	for _, fn := range p.FuncsIn(fsPkg) {
		for _, c := range callsTo(fn, fp(fsInt), "", "WalkDirUnsorted") {
			if call, ok := c.(*ssa.Call); ok {
				e.walkCalls = append(e.walkCalls, call)
				if len(call.Call.Args) == 4 {
					if f := funcValue(call.Call.Args[2]); f != nil && e.handleFile == nil {
						e.handleFile = f
					}
					if f := funcValue(call.Call.Args[3]); f != nil && e.postHandleFile == nil {
						e.postHandleFile = f
					}
				}
			}
		}
		forEachInstr(fn, func(_ *ssa.BasicBlock, _ int, in ssa.Instruction) {
			if c, ok := in.(*ssa.Call); ok && c.Call.IsInvoke() && c.Call.Method.Name() == "Extract" {
				if refOf(c.Common()).is(fp(fsPkg), "Extractor", "Extract") {
					if e.runExtractor == nil {
						e.runExtractor = fn
						e.extractCall = c
					} else if e.runExtractor != fn || e.extractCall != c {
						r.Fail(rule, "extract-call-sites", p.Pos(c.Pos()), "Extractor.Extract is invoked from more than one place in the scan engine; the exactly-once rules assume a single dispatch site")
					}
				}
			}
		})
	}
	if e.handleFile == nil {
		e.handleFile = p.Func(fsPkg, "walkContext.handleFile")
	}
	if e.postHandleFile == nil {
		e.postHandleFile = p.Func(fsPkg, "walkContext.postHandleFile")
	}
	if e.handleFile == nil {
		miss("walk callback (handleFile)")
	}
	if e.postHandleFile == nil {
		miss("post-walk callback (postHandleFile)")
	}
	if e.runExtractor == nil {
		miss("dispatch function (runExtractor)")
	}
	e.shouldSkipDir = p.Func(fsPkg, "walkContext.shouldSkipDir")
	e.walkIndividual = p.Func(fsPkg, "walkIndividualPaths")
	e.RunFS = p.Func(fsPkg, "RunFS")
	e.Run = p.Func(fsPkg, "Run")
	e.runOnScanRoot = p.Func(fsPkg, "runOnScanRoot")
	e.UpdateRoot = p.Func(fsPkg, "walkContext.UpdateScanRoot")
	e.lazyStat = p.Func(fsPkg, "lazyFileAPI.Stat")
	e.fileSize = p.Func(fsPkg, "fileSize")
	// runOnScanRoot and fileSize are small single-caller helpers: when they are gone the rules look for
	// their bodies written out in Run and in the walk callback (perRootFn / sizeSource)
	for n, f := range map[string]*ssa.Function{"shouldSkipDir": e.shouldSkipDir, "walkIndividualPaths": e.walkIndividual, "RunFS": e.RunFS, "Run": e.Run, "UpdateScanRoot": e.UpdateRoot, "lazyFileAPI.Stat": e.lazyStat} {
		if f == nil {
			miss(n)
		}
	}
	if e.handleFile != nil && e.runExtractor != nil {
		for _, b := range e.handleFile.Blocks {
			for _, in := range b.Instrs {
				if c, ok := in.(*ssa.Call); ok && c.Call.StaticCallee() == e.runExtractor {
					if e.dispatchCall != nil {
						r.Fail(rule, "dispatch-sites", p.Pos(c.Pos()), "the dispatch function is called from more than one site in the walk callback: a file could be handed to an extractor twice")
					}
					e.dispatchCall = c
				}
			}
		}
		if e.dispatchCall == nil {
			miss("call of the dispatch function inside the walk callback")
		}
	}
	return e
}

func (e *engine) ok() bool {
	return e.handleFile != nil && e.postHandleFile != nil && e.runExtractor != nil && e.shouldSkipDir != nil &&
		e.walkIndividual != nil && e.RunFS != nil && e.Run != nil && e.UpdateRoot != nil &&
		e.walkRec != nil && e.WalkDir != nil && e.dispatchCall != nil && e.extractCall != nil && e.lazyStat != nil
}

// perRootFn: the function that moves the walk context to a scan root and walks it — runOnScanRoot,
// or Run itself when that helper's body is written out in Run's loop.
func (e *engine) perRootFn() *ssa.Function {
	if e.runOnScanRoot != nil {
		return e.runOnScanRoot
	}
	return e.Run
}

// isPerRootCall: in Run, the call that walks one scan root (runOnScanRoot, or RunFS when inlined).
func (e *engine) isPerRootCall(c *ssa.CallCommon) bool {
	if c == nil {
		return false
	}
	if e.runOnScanRoot != nil {
		return c.StaticCallee() == e.runOnScanRoot
	}
	return c.StaticCallee() == e.RunFS
}

// sizeSource: the call in the walk callback that yields the size compared with the limit, and the
// predicate "v is that size": fileSize(wc.fileAPI)#0, or — with fileSize written out —
// wc.fileAPI.Stat()#0.Size(). Also reports whether the source is the lazy Stat of the walk's file API.
func (e *engine) sizeSource() (src *ssa.Call, isSize func(ssa.Value) bool, onFileAPI bool) {
	hf := e.handleFile
	if e.fileSize != nil {
		forEachInstr(hf, func(_ *ssa.BasicBlock, _ int, in ssa.Instruction) {
			if c, ok := in.(*ssa.Call); ok && c.Call.StaticCallee() == e.fileSize {
				src = c
			}
		})
		if src == nil {
			return nil, nil, false
		}
		return src, func(v ssa.Value) bool {
			ex, ok := v.(*ssa.Extract)
			return ok && ex.Tuple == ssa.Value(src) && ex.Index == 0
		}, len(src.Call.Args) == 1 && loadsField(stripIface(src.Call.Args[0]), "walkContext", "fileAPI")
	}
	var stat, size *ssa.Call
	forEachInstr(hf, func(_ *ssa.BasicBlock, _ int, in ssa.Instruction) {
		c, ok := in.(*ssa.Call)
		if !ok {
			return
		}
		// wc.fileAPI.Stat(): through the FileAPI interface or directly on the lazy implementation
		if c.Call.IsInvoke() && c.Call.Method.Name() == "Stat" && loadsField(stripIface(c.Call.Value), "walkContext", "fileAPI") {
			stat = c
		}
		if !c.Call.IsInvoke() && c.Call.StaticCallee() == e.lazyStat && len(c.Call.Args) == 1 && loadsField(c.Call.Args[0], "walkContext", "fileAPI") {
			stat = c
		}
	})
	if stat == nil {
		return nil, nil, false
	}
	forEachInstr(hf, func(_ *ssa.BasicBlock, _ int, in ssa.Instruction) {
		c, ok := in.(*ssa.Call)
		if !ok || !c.Call.IsInvoke() || c.Call.Method.Name() != "Size" {
			return
		}
		if derivesFrom(c.Call.Value, func(v ssa.Value) bool {
			ex, ok := v.(*ssa.Extract)
			return ok && ex.Tuple == ssa.Value(stat) && ex.Index == 0
		}, deriveOpts{}) {
			size = c
		}
	})
	if size == nil {
		return nil, nil, false
	}
	return stat, func(v ssa.Value) bool { return v == ssa.Value(size) }, true
}

// predicates over handleFile that several properties share
func (e *engine) fileRequiredCall() *ssa.Call {
	var out *ssa.Call
	forEachInstr(e.handleFile, func(_ *ssa.BasicBlock, _ int, in ssa.Instruction) {
		if c, ok := in.(*ssa.Call); ok && c.Call.IsInvoke() && c.Call.Method.Name() == "FileRequired" {
			out = c
		}
	})
	return out
}

func isInvoke(name string) func(c *ssa.Call) bool {
	return func(c *ssa.Call) bool { return c.Call.IsInvoke() && c.Call.Method.Name() == name }
}

// loopHeaderOf returns the loop header (a block with a back edge from a block it dominates) that
// most closely encloses b, or nil.
func loopHeaderOf(b *ssa.BasicBlock) *ssa.BasicBlock {
	for d := b; d != nil; d = d.Idom() {
		for _, pred := range d.Preds {
			if d.Dominates(pred) && (pred == b || reachableFrom(b, pred, d)) {
				return d
			}
		}
	}
	return nil
}

// reachableFrom: is `to` reachable from `from` without passing through `stop`?
func reachableFrom(from, to, stop *ssa.BasicBlock) bool {
	if from == to {
		return true
	}
	seen := map[*ssa.BasicBlock]bool{from: true}
	st := []*ssa.BasicBlock{from}
	for len(st) > 0 {
		x := st[len(st)-1]
		st = st[:len(st)-1]
		for _, s := range x.Succs {
			if s == stop || seen[s] {
				continue
			}
			if s == to {
				return true
			}
			seen[s] = true
			st = append(st, s)
		}
	}
	return false
}
